// Package readline: synthetic functions for the self-test of the zone engine
// (tools/selftest_zone.sh): every Bad* function has an index or slice the engine
// must NOT prove, every Good* function must be proved entirely.
package readline

func contains2(s []string, e string) (bool, int) {
	for i, a := range s {
		if a == e {
			return true, i
		}
	}
	return false, 0
}

func BadT1(lines []string) []string {
	printed := make([]string, 0)
	for _, line := range lines {
		if yes, pos := contains2(printed, line); yes {
			printed = append(printed[:pos], printed[pos+1:]...)
			printed = append(printed, line)
			continue
		}
		printed = append(printed, line)
	}
	return printed
}

func BadT2(lines []string) string {
	printed := make([]string, 0)
	for _, line := range lines {
		printed = append(printed, line)
	}
	return printed[0]
}

func BadT3(lines []string, extra []string) string {
	printed := make([]string, 0)
	for range lines {
		printed = append(printed, extra...)
	}
	return printed[0]
}

func BadT4(lines []string) int {
	printed := make([]string, 0)
	n := 0
	for _, line := range lines {
		if yes, pos := contains2(printed, line); yes {
			n += len(printed[pos])
			continue
		}
		printed = append(printed, line)
	}
	return n
}

func BadT5(lines []string) int {
	printed := make([]string, 0)
	n := 0
	for _, line := range lines {
		if len(line) == 3 {
			n += len(printed[0])
			continue
		}
		printed = append(printed, line)
	}
	return n
}

func BadT6(lines []string) int {
	printed := make([]string, 0)
	n := 0
	for _, line := range lines {
		if len(line) == 3 {
			printed = append(printed[:1], printed[2:]...)
			printed = append(printed, line)
			continue
		}
		printed = append(printed, line)
	}
	return n
}

func BadT7(lines []string) int {
	printed := make([]string, 0)
	n := 0
	for _, line := range lines {
		if len(line) == 3 {
			if len(printed) > 0 {
				n += len(printed[5])
			}
			continue
		}
		printed = append(printed, line)
	}
	return n
}

func BadT8(lines []string) int {
	printed := make([]string, 0)
	n := 0
	for _, line := range lines {
		if len(line) == 3 && len(printed) > 0 {
			n += len(printed[5])
		}
		printed = append(printed, line)
	}
	return n
}

func GoodG1(lines []string) int {
	n := 0
	for i := range lines {
		n += len(lines[i])
	}
	return n
}

func GoodG2(lines []string) string {
	if len(lines) > 2 {
		return lines[2]
	}
	return ""
}

func GoodG3(xs []int) int {
	p := make([]int, 0)
	for _, x := range xs {
		p = append(p, x)
		_ = p[0]
	}
	return len(p)
}

// BadT9: a fact about the previous iteration's value of a boolean must not survive its redefinition.
func BadT9(xs []int) int {
	n := 0
	var acc []int
	for _, x := range xs {
		big := x > 3
		if big && len(acc) > 0 {
			n += acc[2]
		}
		acc = append(acc, x)
	}
	return n
}

// helpers evaluated in the caller's state (zone_inline.go)

type hist struct {
	items []string
	pos   int
}

func (h *hist) clamped() int {
	back := h.pos
	if back > len(h.items) {
		back = len(h.items)
	}
	if back < 0 {
		back = 0
	}
	return back
}

func (h *hist) unclamped() int { return h.pos }

func minInt(a, b int) int {
	if a < b {
		return a
	}
	return b
}

// the clamp lives in a helper: the slice is within the bounds
func GoodHelperClamp(h *hist) []string {
	items, back := h.items, h.clamped()
	return items[:len(items)-back]
}

// helper with integer parameters only
func GoodHelperMin(s []string, n int) []string {
	if n < 0 {
		return nil
	}
	return s[:minInt(n, len(s))]
}

// the helper does not clamp
func BadHelperNoClamp(h *hist) []string {
	items, back := h.items, h.unclamped()
	return items[:len(items)-back]
}

// the field is written between the caller's load and the helper's
func BadHelperStaleLoad(h *hist, more []string) []string {
	items := h.items
	h.items = more
	back := h.clamped()
	return items[:len(items)-back]
}

// two evaluations of the same helper on different receivers must not share facts
func BadHelperTwoReceivers(a, b *hist) []string {
	items := a.items
	_ = a.clamped()
	back := b.clamped()
	return items[:len(items)-back]
}
