module github.com/reeflective/readline

go 1.23
