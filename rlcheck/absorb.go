package main

// Functions the pinned tree did not have.
//
// No rule names a function that did not exist when the rules were confirmed: whatever such a
// function does — a helper extracted from a longer function, the second half of a function
// split in two — the rules can only have an opinion about it as part of the functions that
// call it. So a function whose name is not in pinned_names.json (and that names.go did not
// recognise as a renamed one) is *absorbed* by its static callers, for the rule tables only:
//
//   - eachInstr(F) (and callsTo, allCalls, …) visits F's instructions and then those of the
//     helpers F absorbs (two levels); visiting an absorbed helper on its own visits nothing,
//     so a site is judged under the name of each function that reaches it, not under a name
//     no table knows;
//   - blockFacts(F) gives the helper's blocks their own branch facts plus the facts that hold
//     at every call of the helper in F;
//   - instrDominates lifts an instruction of the helper to the helper's calls;
//   - pathAvoiding walks into the helper at a call and comes back out at its returns (the
//     helper's own returns are not the function's).
//
// The engines that must cover every function on its own (the zone prover, the loop, nil,
// lock-set and unit engines) keep iterating the raw functions (eachInstrRaw): a new helper is
// still proved, checked for unbounded loops and so on under its own name.
//
// On a tree whose functions are those of the pinned tree nothing here is active.

import (
	"sort"
	"strings"

	"golang.org/x/tools/go/ssa"
)

var (
	absorbedOf    = map[*ssa.Function][]*ssa.Function{} // host -> helpers it absorbs (direct static calls)
	isAbsorbed    = map[*ssa.Function]bool{}
	absorbedCalls = map[*ssa.Function][]*ssa.Call{} // helper -> its static call sites
)

// computeAbsorption: newNames are the short names (after aliasing) the pinned tree does not have.
func computeAbsorption(p *Prog, isNew func(f *ssa.Function) bool) []string {
	var notes []string
	cand := map[*ssa.Function]bool{}
	for _, f := range p.AllFuncs {
		if f.Parent() == nil && f.Synthetic == "" && len(f.Blocks) > 0 && isNew(f) {
			cand[f] = true
		}
	}
	if len(cand) == 0 {
		return nil
	}
	for _, f := range p.AllFuncs {
		eachInstrRaw(f, func(in ssa.Instruction) {
			c, ok := in.(*ssa.Call)
			if !ok {
				return
			}
			h := c.Call.StaticCallee()
			if h == nil || !cand[h] || h == f {
				return
			}
			absorbedCalls[h] = append(absorbedCalls[h], c)
			dup := false
			for _, x := range absorbedOf[f] {
				if x == h {
					dup = true
				}
			}
			if !dup {
				absorbedOf[f] = append(absorbedOf[f], h)
			}
		})
	}
	for h := range cand {
		if len(absorbedCalls[h]) > 0 {
			isAbsorbed[h] = true
			hosts := map[string]bool{}
			for _, c := range absorbedCalls[h] {
				top := c.Parent()
				for top.Parent() != nil {
					top = top.Parent()
				}
				hosts[fnName(top)] = true
			}
			var hl []string
			for n := range hosts {
				hl = append(hl, n)
			}
			sort.Strings(hl)
			notes = append(notes, "function "+shortName(h.String())+" did not exist in the pinned tree: judged as part of its callers ("+strings.Join(hl, ", ")+")")
		}
	}
	return notes
}

// eachInstrRaw visits every instruction of fn itself (not nested closures, nothing absorbed).
func eachInstrRaw(fn *ssa.Function, f func(ssa.Instruction)) {
	if fn == nil {
		return
	}
	for _, b := range fn.Blocks {
		for _, in := range b.Instrs {
			f(in)
		}
	}
}

func eachInstrAbs(fn *ssa.Function, f func(ssa.Instruction), depth int) {
	if depth == 0 {
		eachInstrRaw(fn, f)
	} else {
		// a helper's returns are not returns of the function that absorbs it
		eachInstrRaw(fn, func(in ssa.Instruction) {
			if _, isRet := in.(*ssa.Return); !isRet {
				f(in)
			}
		})
	}
	if depth >= 2 {
		return
	}
	for _, h := range absorbedOf[fn] {
		eachInstrAbs(h, f, depth+1)
	}
}

// callsOfIn: the calls of helper h located in host (or in helpers host absorbs).
func callsOfIn(h, host *ssa.Function) []*ssa.Call {
	var out []*ssa.Call
	for _, c := range absorbedCalls[h] {
		if c.Parent() == host {
			out = append(out, c)
		}
	}
	return out
}

// hostVal: a parameter of a helper that host absorbs stands for the argument host passes at its
// call of the helper (when host calls it once, or always with the same value); anything else is itself.
func hostVal(v ssa.Value, host *ssa.Function) ssa.Value {
	prm, ok := v.(*ssa.Parameter)
	if !ok || len(isAbsorbed) == 0 {
		return v
	}
	h := prm.Parent()
	if !isAbsorbed[h] {
		return v
	}
	idx := -1
	for i, q := range h.Params {
		if q == prm {
			idx = i
		}
	}
	var arg ssa.Value
	for _, c := range callsOfIn(h, host) {
		if idx < 0 || idx >= len(c.Call.Args) {
			return v
		}
		a := c.Call.Args[idx]
		if arg != nil && !(a == arg || (accessPath(a) != "" && accessPath(a) == accessPath(arg))) {
			return v
		}
		arg = a
	}
	if arg == nil {
		return v
	}
	return arg
}
