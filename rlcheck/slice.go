package main

import (
	"fmt"
	"go/token"
	"go/types"

	"golang.org/x/tools/go/ssa"
)

// K3 — backward value slice ("must-flow").
//
// backSlice walks the SSA operand graph backwards from v and returns the set
// of leaves at which the walk stopped. A rule then demands that every leaf is
// an accepted source. Anything the walk cannot look through is a leaf with
// Kind "opaque", so ignorance is visible, never silently accepted.

type LeafKind string

const (
	LeafSource LeafKind = "source" // IsSource accepted it
	LeafConst  LeafKind = "const"
	LeafOpaque LeafKind = "opaque" // walk could not continue (unknown call, memory, parameter…)
)

type Leaf struct {
	V    ssa.Value
	Kind LeafKind
	Why  string
}

type SliceOpts struct {
	P *Prog
	// IsSource: stop here, accepted. Checked first on every value.
	IsSource func(v ssa.Value) bool
	// Through: for a call that is not a source, return the operands to continue
	// from (e.g. the string argument of a whitelisted transformer); nil = not transparent.
	Through func(c *ssa.Call) []ssa.Value
	// EnterDepth: how deep to enter in-repo callees (results ← return values).
	EnterDepth int
	// FollowParams: when reaching a parameter of a function, continue at the
	// corresponding argument of every in-repo call site.
	FollowParams bool
	// ElemOf: follow container operand of Index/Lookup/Field(element reads).
	ElemOf bool
	// FieldLoads: when a load of a struct field is reached and is not a source,
	// follow every store to that field in the whole repo (field-based).
	FieldLoads bool
	// NoSubslice: a partial Slice (with Low/High) is opaque instead of transparent.
	NoSubslice bool
}

type slicer struct {
	o      *SliceOpts
	seen   map[ssa.Value]bool
	leaves []Leaf
	// bindings for entered callees: param -> actual argument
	bind      map[*ssa.Parameter]ssa.Value
	depth     int
	pseen     map[*ssa.Parameter]bool
	seenAlloc map[*ssa.Alloc]bool
	seenField map[string]bool
	privDepth int
}

func backSlice(v ssa.Value, o *SliceOpts) []Leaf {
	s := &slicer{o: o, seen: map[ssa.Value]bool{}, bind: map[*ssa.Parameter]ssa.Value{}, pseen: map[*ssa.Parameter]bool{}, seenAlloc: map[*ssa.Alloc]bool{}, seenField: map[string]bool{}}
	s.walk(v, -1)
	return s.leaves
}

func (s *slicer) leaf(v ssa.Value, k LeafKind, why string) {
	s.leaves = append(s.leaves, Leaf{v, k, why})
}

// walk: idx is the tuple index wanted when v is a multi-result call (-1 = whole value).
func (s *slicer) walk(v ssa.Value, idx int) {
	if v == nil {
		return
	}
	if idx < 0 {
		if s.seen[v] {
			return
		}
		s.seen[v] = true
	}
	if s.o.IsSource != nil && s.o.IsSource(v) {
		s.leaf(v, LeafSource, "")
		return
	}
	switch x := v.(type) {
	case *ssa.Const:
		s.leaf(v, LeafConst, "")
	case *ssa.Phi:
		for _, e := range x.Edges {
			s.walk(e, -1)
		}
	case *ssa.Extract:
		s.walk(x.Tuple, x.Index)
	case *ssa.Convert:
		s.walk(x.X, -1)
	case *ssa.ChangeType:
		s.walk(x.X, -1)
	case *ssa.ChangeInterface:
		s.walk(x.X, -1)
	case *ssa.MakeInterface:
		s.walk(x.X, -1)
	case *ssa.SliceToArrayPointer:
		s.walk(x.X, -1)
	case *ssa.TypeAssert:
		s.walk(x.X, -1)
	case *ssa.Slice:
		if s.o.NoSubslice && (x.Low != nil || x.High != nil) {
			s.leaf(v, LeafOpaque, "partial slice")
			return
		}
		s.walk(x.X, -1)
	case *ssa.BinOp:
		if x.Op == token.ADD {
			if b, ok := x.Type().Underlying().(*types.Basic); ok && b.Info()&types.IsString != 0 {
				s.walk(x.X, -1)
				s.walk(x.Y, -1)
				return
			}
		}
		s.leaf(v, LeafOpaque, "arithmetic "+x.Op.String())
	case *ssa.UnOp:
		if x.Op == token.MUL {
			s.load(x)
			return
		}
		s.leaf(v, LeafOpaque, "unary "+x.Op.String())
	case *ssa.Alloc:
		// address of a local (e.g. variadic array): follow element/whole stores
		s.allocStores(x)
	case *ssa.Index:
		if s.o.ElemOf {
			s.walk(x.X, -1)
			return
		}
		s.leaf(v, LeafOpaque, "index")
	case *ssa.Lookup:
		if s.o.ElemOf {
			s.walk(x.X, -1)
			return
		}
		s.leaf(v, LeafOpaque, "lookup")
	case *ssa.Field:
		s.walk(x.X, -1)
	case *ssa.Parameter:
		s.param(x)
	case *ssa.FreeVar:
		s.freeVar(x)
	case *ssa.Call:
		s.call(x, idx)
	case *ssa.MakeClosure, *ssa.Function, *ssa.Global, *ssa.MakeSlice, *ssa.MakeMap, *ssa.MakeChan:
		s.leaf(v, LeafOpaque, fmt.Sprintf("%T", v))
	default:
		s.leaf(v, LeafOpaque, fmt.Sprintf("%T", v))
	}
}

func (s *slicer) load(x *ssa.UnOp) {
	switch a := x.X.(type) {
	case *ssa.Alloc:
		s.allocLoad(x, a)
	case *ssa.FreeVar:
		// captured variable: follow stores in the defining function and all closures
		s.freeVarLoad(a)
	case *ssa.FieldAddr:
		if al, ok := a.X.(*ssa.Alloc); ok {
			// field of a struct local: whole-struct values stored into it, or
			// (composite literal) the stores to that very field
			if vals, zero, simple := reachingStoresX(x, al); simple {
				for _, v := range vals {
					s.walk(v, -1)
				}
				if zero {
					s.leaf(al, LeafConst, "zero value local")
				}
				return
			}
			n := 0
			whole := false
			for _, r := range referrersOf(al) {
				switch u := r.(type) {
				case *ssa.FieldAddr:
					if u.Field != a.Field {
						continue
					}
					for _, r2 := range referrersOf(u) {
						if st, ok := r2.(*ssa.Store); ok && st.Addr == ssa.Value(u) {
							n++
							s.walk(st.Val, -1)
						}
					}
				case *ssa.Store:
					if u.Addr == ssa.Value(al) {
						whole = true
						s.walk(u.Val, -1)
					}
				}
			}
			if n == 0 && !whole {
				s.leaf(al, LeafConst, "zero value field")
			}
			return
		}
		if s.o.FieldLoads {
			s.fieldStores(a)
			return
		}
		s.leaf(x, LeafOpaque, "load of field "+fieldDesc(a))
	case *ssa.IndexAddr:
		if s.o.ElemOf {
			s.walk(a.X, -1)
			return
		}
		s.leaf(x, LeafOpaque, "load of element")
	case *ssa.Global:
		s.leaf(x, LeafOpaque, "load of global "+a.Name())
	default:
		// pointer from elsewhere (parameter deref etc.)
		s.walk(x.X, -1)
	}
}

func fieldDesc(a *ssa.FieldAddr) string {
	t, f, _ := fieldOf(a)
	return t + "." + f
}

// allocLoad: flow-sensitive reaching stores for a load of a local whose address
// is only stored to / loaded from directly (the go/ssa spill of named results
// and defer-protected locals). Falls back to all stores otherwise.
func (s *slicer) allocLoad(ld *ssa.UnOp, a *ssa.Alloc) {
	vals, zero, simple := reachingStores(ld, a)
	if !simple {
		s.allocStores(a)
		return
	}
	for _, v := range vals {
		s.walk(v, -1)
	}
	if zero {
		s.leaf(a, LeafConst, "zero value local")
	}
}

// reachingStores computes the values that may be in local `a` when `ld` loads
// it, provided a's address is only stored to / loaded from directly ("simple").
func reachingStores(ld *ssa.UnOp, a *ssa.Alloc) (vals []ssa.Value, zero bool, simple bool) {
	simple = true
	for _, r := range referrersOf(a) {
		switch u := r.(type) {
		case *ssa.Store:
			if u.Addr != ssa.Value(a) {
				simple = false
			}
		case *ssa.UnOp, *ssa.DebugRef:
		default:
			simple = false
		}
	}
	if !simple {
		return nil, false, false
	}
	lastStoreBefore := func(b *ssa.BasicBlock, limit int) *ssa.Store {
		for i := limit - 1; i >= 0; i-- {
			if st, ok := b.Instrs[i].(*ssa.Store); ok && st.Addr == ssa.Value(a) {
				return st
			}
		}
		return nil
	}
	if st := lastStoreBefore(ld.Block(), instrIndex(ld)); st != nil {
		return []ssa.Value{st.Val}, false, true
	}
	seen := map[*ssa.BasicBlock]bool{}
	work := append([]*ssa.BasicBlock(nil), ld.Block().Preds...)
	zero = len(ld.Block().Preds) == 0
	for len(work) > 0 {
		b := work[len(work)-1]
		work = work[:len(work)-1]
		if seen[b] {
			continue
		}
		seen[b] = true
		if st := lastStoreBefore(b, len(b.Instrs)); st != nil {
			vals = append(vals, st.Val)
			continue
		}
		if len(b.Preds) == 0 {
			zero = true
		}
		work = append(work, b.Preds...)
	}
	return vals, zero, true
}

// resolveLoad strips conversions and, for loads of simple locals, returns the
// set of reaching stored values; otherwise {v}.
func resolveLoad(v ssa.Value) map[ssa.Value]bool {
	out := map[ssa.Value]bool{}
	for {
		if cv, ok := v.(*ssa.Convert); ok {
			v = cv.X
			continue
		}
		if ct, ok := v.(*ssa.ChangeType); ok {
			v = ct.X
			continue
		}
		break
	}
	if u, ok := v.(*ssa.UnOp); ok && u.Op == token.MUL {
		if a, ok := u.X.(*ssa.Alloc); ok {
			if vals, zero, simple := reachingStores(u, a); simple && !zero {
				for _, x := range vals {
					for y := range resolveLoad(x) {
						out[y] = true
					}
				}
				return out
			}
		}
	}
	out[v] = true
	return out
}

// allocStores follows every value stored into a local allocation (directly or
// into its elements/fields).
func (s *slicer) allocStores(a *ssa.Alloc) {
	if s.seenAlloc[a] {
		return
	}
	s.seenAlloc[a] = true
	found := false
	var visitAddr func(addr ssa.Value)
	visitAddr = func(addr ssa.Value) {
		for _, r := range referrersOf(addr) {
			switch u := r.(type) {
			case *ssa.Store:
				if u.Addr == addr {
					found = true
					s.walk(u.Val, -1)
				}
			case *ssa.IndexAddr:
				if u.X == addr {
					visitAddr(u)
				}
			case *ssa.FieldAddr:
				if u.X == addr {
					visitAddr(u)
				}
			case *ssa.Slice, *ssa.UnOp, *ssa.DebugRef:
				// reading
			case ssa.CallInstruction:
				// address escapes into a call: contents may be written there
				if _, isUn := r.(*ssa.UnOp); !isUn {
					s.leaf(a, LeafOpaque, "local escapes into call "+calleeName(u))
				}
			case *ssa.MakeClosure:
				// captured: stores inside the closure via FreeVar
				s.closureStores(u, addr)
			}
		}
	}
	visitAddr(a)
	if !found {
		// zero value
		s.leaf(a, LeafConst, "zero value local")
	}
}

// closureStores: value `addr` is bound as a free variable of closure mc; follow stores via that FreeVar.
func (s *slicer) closureStores(mc *ssa.MakeClosure, addr ssa.Value) {
	fn, _ := mc.Fn.(*ssa.Function)
	if fn == nil {
		return
	}
	for i, b := range mc.Bindings {
		if b != addr || i >= len(fn.FreeVars) {
			continue
		}
		fv := fn.FreeVars[i]
		for _, r := range referrersOf(fv) {
			switch u := r.(type) {
			case *ssa.Store:
				if u.Addr == fv {
					s.walk(u.Val, -1)
				}
			case *ssa.MakeClosure:
				s.closureStores(u, fv)
			}
		}
	}
}

func (s *slicer) freeVarLoad(fv *ssa.FreeVar) {
	// find the binding in the parent and continue from the bound alloc
	fn := fv.Parent()
	idx := -1
	for i, f := range fn.FreeVars {
		if f == fv {
			idx = i
		}
	}
	par := fn.Parent()
	if par == nil || idx < 0 {
		s.leaf(fv, LeafOpaque, "free variable")
		return
	}
	done := false
	eachInstrRaw(par, func(in ssa.Instruction) {
		mc, ok := in.(*ssa.MakeClosure)
		if !ok || mc.Fn != fn || idx >= len(mc.Bindings) {
			return
		}
		done = true
		b := mc.Bindings[idx]
		switch bb := b.(type) {
		case *ssa.Alloc:
			s.allocStores(bb)
		case *ssa.FreeVar:
			s.freeVarLoad(bb)
		default:
			s.walk(b, -1)
		}
	})
	if !done {
		s.leaf(fv, LeafOpaque, "free variable without binding site")
	}
}

func (s *slicer) freeVar(fv *ssa.FreeVar) {
	// free variable used as a value (captured by value, e.g. receiver)
	fn := fv.Parent()
	idx := -1
	for i, f := range fn.FreeVars {
		if f == fv {
			idx = i
		}
	}
	par := fn.Parent()
	if par == nil || idx < 0 {
		s.leaf(fv, LeafOpaque, "free variable")
		return
	}
	done := false
	eachInstrRaw(par, func(in ssa.Instruction) {
		mc, ok := in.(*ssa.MakeClosure)
		if !ok || mc.Fn != fn || idx >= len(mc.Bindings) {
			return
		}
		done = true
		s.walk(mc.Bindings[idx], -1)
	})
	if !done {
		s.leaf(fv, LeafOpaque, "free variable without binding site")
	}
}

func (s *slicer) fieldStores(a *ssa.FieldAddr) {
	tn, fname, _ := fieldOf(a)
	key := tn + "." + fname
	if s.seenField[key] {
		return
	}
	s.seenField[key] = true
	n := 0
	for _, f := range s.o.P.AllFuncs {
		eachInstrRaw(f, func(in ssa.Instruction) {
			st, ok := in.(*ssa.Store)
			if !ok {
				return
			}
			fa, ok := st.Addr.(*ssa.FieldAddr)
			if !ok {
				return
			}
			t2, f2, _ := fieldOf(fa)
			if t2 == tn && f2 == fname {
				n++
				s.walk(st.Val, -1)
			}
		})
	}
	if n == 0 {
		s.leaf(a, LeafConst, "field never stored (zero value)")
	}
}

func (s *slicer) param(p *ssa.Parameter) {
	if a, ok := s.bind[p]; ok {
		s.walk(a, -1)
		return
	}
	// a parameter of an unexported helper is what its callers (all in the module) pass: a value
	// handed to a helper that finishes the computation is still followed to where it came from
	if !s.o.FollowParams && !(isPrivateHelper(p.Parent()) && s.privDepth < 1) {
		s.leaf(p, LeafOpaque, "parameter "+p.Name()+" of "+fnName(p.Parent()))
		return
	}
	if !s.o.FollowParams {
		s.privDepth++
		defer func() { s.privDepth-- }()
	}
	if s.pseen[p] {
		return
	}
	s.pseen[p] = true
	fn := p.Parent()
	pi := -1
	for i, q := range fn.Params {
		if q == p {
			pi = i
		}
	}
	edges := s.o.P.callersOf(fn)
	if len(edges) == 0 || pi < 0 {
		s.leaf(p, LeafOpaque, "parameter "+p.Name()+" of "+fnName(fn)+" (no in-repo caller)")
		return
	}
	for _, e := range edges {
		if e.Site == nil {
			continue
		}
		cc := e.Site.Common()
		args := cc.Args
		if cc.IsInvoke() {
			// receiver is cc.Value, params shift by one
			if pi == 0 {
				s.walk(cc.Value, -1)
				continue
			}
			if pi-1 < len(args) {
				s.walk(args[pi-1], -1)
			}
			continue
		}
		// bound method closure: receiver is in closure binding
		if mc, ok := cc.Value.(*ssa.MakeClosure); ok && len(args) < len(fn.Params) {
			if pi < len(mc.Bindings) {
				s.walk(mc.Bindings[pi], -1)
			} else if pi-len(mc.Bindings) < len(args) {
				s.walk(args[pi-len(mc.Bindings)], -1)
			}
			continue
		}
		if pi < len(args) {
			s.walk(args[pi], -1)
		} else {
			s.leaf(p, LeafOpaque, "parameter "+p.Name()+": call site arity mismatch (dynamic call)")
		}
	}
}

func (s *slicer) call(c *ssa.Call, idx int) {
	if s.o.Through != nil {
		if ops := s.o.Through(c); ops != nil {
			for _, o := range ops {
				s.walk(o, -1)
			}
			return
		}
	}
	// builtin append
	if b, ok := c.Call.Value.(*ssa.Builtin); ok {
		switch b.Name() {
		case "append":
			for _, a := range c.Call.Args {
				s.walk(a, -1)
			}
			return
		}
		s.leaf(c, LeafOpaque, "builtin "+b.Name())
		return
	}
	callee := staticCallee(c)
	// an unexported helper of the module is entered one level further than asked for: a value
	// computation moved into a helper (`chars = trimTrailingZeros(chars)`) is still the same computation
	if callee != nil && inRepo(callee) && len(callee.Blocks) > 0 && (s.depth < s.o.EnterDepth || (s.depth < s.o.EnterDepth+1 && isPrivateHelper(callee))) {
		// bind params and follow return values
		args := c.Call.Args
		saved := map[*ssa.Parameter]ssa.Value{}
		for i, prm := range callee.Params {
			if i < len(args) {
				if old, ok := s.bind[prm]; ok {
					saved[prm] = old
				}
				s.bind[prm] = args[i]
			}
		}
		s.depth++
		eachInstrRaw(callee, func(in ssa.Instruction) {
			ret, ok := in.(*ssa.Return)
			if !ok {
				return
			}
			if idx >= 0 && idx < len(ret.Results) {
				s.walk(ret.Results[idx], -1)
			} else if idx < 0 && len(ret.Results) == 1 {
				s.walk(ret.Results[0], -1)
			} else if idx < 0 {
				for _, r := range ret.Results {
					s.walk(r, -1)
				}
			}
		})
		s.depth--
		for _, prm := range callee.Params {
			delete(s.bind, prm)
		}
		for k, v := range saved {
			s.bind[k] = v
		}
		return
	}
	s.leaf(c, LeafOpaque, "call "+calleeName(c))
}

// describe a value for diagnostics
func (p *Prog) descValue(v ssa.Value) string {
	switch x := v.(type) {
	case ssa.Instruction:
		return fmt.Sprintf("%s (%s)", v.String(), p.IPos(x))
	case *ssa.Parameter:
		return "parameter " + x.Name() + " of " + fnName(x.Parent())
	case nil:
		return "<nil>"
	}
	return v.String()
}

// reachingStoresX is reachingStores that also tolerates read-only field access
// (FieldAddr whose referrers are loads only): the local holds whole-struct
// values, as go/ssa does for struct variables whose fields are read.
func reachingStoresX(at ssa.Instruction, a *ssa.Alloc) (vals []ssa.Value, zero bool, simple bool) {
	simple = true
	var readOnlyAddr func(addr ssa.Value) bool
	readOnlyAddr = func(addr ssa.Value) bool {
		for _, r := range referrersOf(addr) {
			switch u := r.(type) {
			case *ssa.UnOp, *ssa.DebugRef:
			case *ssa.FieldAddr:
				if !readOnlyAddr(u) {
					return false
				}
			default:
				return false
			}
		}
		return true
	}
	for _, r := range referrersOf(a) {
		switch u := r.(type) {
		case *ssa.Store:
			if u.Addr != ssa.Value(a) {
				simple = false
			}
		case *ssa.UnOp, *ssa.DebugRef:
		case *ssa.FieldAddr:
			if !readOnlyAddr(u) {
				simple = false
			}
		default:
			simple = false
		}
	}
	if !simple {
		return nil, false, false
	}
	lastStoreBefore := func(b *ssa.BasicBlock, limit int) *ssa.Store {
		for i := limit - 1; i >= 0; i-- {
			if st, ok := b.Instrs[i].(*ssa.Store); ok && st.Addr == ssa.Value(a) {
				return st
			}
		}
		return nil
	}
	if st := lastStoreBefore(at.Block(), instrIndex(at)); st != nil {
		return []ssa.Value{st.Val}, false, true
	}
	seen := map[*ssa.BasicBlock]bool{}
	work := append([]*ssa.BasicBlock(nil), at.Block().Preds...)
	zero = len(at.Block().Preds) == 0
	for len(work) > 0 {
		b := work[len(work)-1]
		work = work[:len(work)-1]
		if seen[b] {
			continue
		}
		seen[b] = true
		if st := lastStoreBefore(b, len(b.Instrs)); st != nil {
			dup := false
			for _, v := range vals {
				if v == st.Val {
					dup = true
				}
			}
			if !dup {
				vals = append(vals, st.Val)
			}
			continue
		}
		if len(b.Preds) == 0 {
			zero = true
		}
		work = append(work, b.Preds...)
	}
	return vals, zero, true
}

// structValue resolves a struct-typed value to what it "is": a load of a
// struct local resolves to the single whole-struct value stored in it (following
// chains), anything else to itself.
func structValue(v ssa.Value) ssa.Value {
	for i := 0; i < 8; i++ {
		u, ok := v.(*ssa.UnOp)
		if !ok || u.Op != token.MUL {
			return v
		}
		a, ok := u.X.(*ssa.Alloc)
		if !ok {
			return v
		}
		vals, zero, simple := reachingStoresX(u, a)
		if !simple || zero || len(vals) != 1 {
			return v
		}
		v = vals[0]
	}
	return v
}

// fieldRead recognises a read of struct field: Field(x) or *(&x.f). Returns the
// resolved struct value (see structValue) and the field name.
func fieldRead(v ssa.Value) (base ssa.Value, field string, ok bool) {
	switch x := v.(type) {
	case *ssa.Field:
		return structValue(x.X), fieldName(x.X.Type(), x.Field), true
	case *ssa.UnOp:
		if x.Op != token.MUL {
			return nil, "", false
		}
		fa, isFA := x.X.(*ssa.FieldAddr)
		if !isFA {
			return nil, "", false
		}
		name := fieldName(fa.X.Type(), fa.Field)
		if a, isA := fa.X.(*ssa.Alloc); isA {
			vals, zero, simple := reachingStoresX(x, a)
			if simple && !zero && len(vals) == 1 {
				return structValue(vals[0]), name, true
			}
			return a, name, true
		}
		return fa.X, name, true
	}
	return nil, "", false
}

// mayValues: the values a (possibly spilled) result may hold: for a load of a
// simple local, every reaching stored value (the zero value is ignored).
func mayValues(v ssa.Value) []ssa.Value {
	v = stripConv(v)
	if u, ok := v.(*ssa.UnOp); ok && u.Op == token.MUL {
		if a, ok := u.X.(*ssa.Alloc); ok {
			if vals, _, simple := reachingStores(u, a); simple {
				var out []ssa.Value
				for _, x := range vals {
					out = append(out, mayValues(x)...)
				}
				return out
			}
		}
	}
	if ph, ok := v.(*ssa.Phi); ok {
		var out []ssa.Value
		for _, e := range ph.Edges {
			if e != v {
				out = append(out, stripConv(e))
			}
		}
		return out
	}
	return []ssa.Value{v}
}

// isPrivateHelper: an unexported function or method declared in the module (not a closure).
func isPrivateHelper(f *ssa.Function) bool {
	if f.Parent() != nil || f.Synthetic != "" {
		return false
	}
	o := f.Object()
	return o != nil && !o.Exported()
}
