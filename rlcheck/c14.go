package main

import (
	"fmt"
	"go/token"

	"golang.org/x/tools/go/ssa"
)

func init() { propFuncs["C14"] = checkC14 }

const compT = "completion.Engine"

// lenOfField: v measures <load of tn.field>: len(x) or utf8.RuneCountInString(x)
// (which unit is right is the unit rule's business, not this shape rule's).
func lenOfField(v ssa.Value, tn, field string) bool {
	cl, ok := v.(*ssa.Call)
	if !ok {
		return false
	}
	if calleeName(cl) == "unicode/utf8.RuneCountInString" && len(cl.Call.Args) == 1 && isFieldLoad(cl.Call.Args[0], tn, field) {
		return true
	}
	b, ok := cl.Call.Value.(*ssa.Builtin)
	return ok && b.Name() == "len" && len(cl.Call.Args) == 1 && isFieldLoad(cl.Call.Args[0], tn, field)
}

// negLenOfField: v == -1 * len(field) or 0 - len(field) or -len(field)
func negLenOfField(v ssa.Value, tn, field string) bool {
	switch x := v.(type) {
	case *ssa.BinOp:
		if x.Op == token.MUL {
			if k, ok := constInt(x.X); ok && k == -1 && lenOfField(x.Y, tn, field) {
				return true
			}
			if k, ok := constInt(x.Y); ok && k == -1 && lenOfField(x.X, tn, field) {
				return true
			}
		}
		if x.Op == token.SUB {
			if k, ok := constInt(x.X); ok && k == 0 && lenOfField(x.Y, tn, field) {
				return true
			}
		}
	case *ssa.UnOp:
		if x.Op == token.SUB && lenOfField(x.X, tn, field) {
			return true
		}
	}
	return false
}

func checkC14(c *Ctx) {
	p, r := c.P, c.R
	r.Explanation = "Decided statically: inserting a candidate (insertCandidate) edits only the virtual line — every editing call in it has a receiver loaded from compLine/compCursor, compLine is assigned the address of a fresh copy of the real line (a string round-trip conversion, never an alias) and compCursor is a new cursor on it set to the real cursor's position; both insertCandidate and acceptCandidate step back by len(prefix), cut exactly [pos, pos+len(prefix)) with the same prefix length, and insert the prepared candidate — so only the part of the word before the cursor is replaced (text after the cursor and before the word are not arguments of any edit); cancelCompletedLine and Cancel(inserted) overwrite the virtual line and cursor from the real ones; abort reaches AcceptLine/Accept only when neither AutoCompleting nor IsInserting, and its cancelling branch calls ResetForce and returns; UpdateInserted runs between the local and main keymap dispatch on every path. NOT decided: that len(prefix) is measured in the right unit (bytes vs runes — reported by the unit analysis as known findings) and the equality of prefix/suffix text for every (line, cursor, candidate)."
	r.Trusted = []string{"go/packages type checker", "go/ssa construction", "rule tables in rlcheck/c14.go"}
	r.Assumptions = []string{"e.prefix is the part of the word before the cursor (computed by setPrefix)"}

	IC, AC, CCL, CAN, AB, RL := p.Func("(*completion.Engine).insertCandidate"), p.Func("(*completion.Engine).acceptCandidate"), p.Func("(*completion.Engine).cancelCompletedLine"), p.Func("(*completion.Engine).Cancel"), p.Func("(*readline.Shell).abort"), p.Func(fnReadline)
	r.Rule("C14.anchors", "K0", "anchored functions resolve", 6)
	miss := false
	for n, f := range map[string]*ssa.Function{"insertCandidate": IC, "acceptCandidate": AC, "cancelCompletedLine": CCL, "Cancel": CAN, "abort": AB, "Readline": RL} {
		if f == nil {
			r.Unk("C14.anchors", n, "-", "anchor not found — rule table needs review")
			miss = true
		} else {
			r.OK("C14.anchors", n, p.Pos(f.Pos()), fnName(f))
			r.Fn(fnName(f))
		}
	}
	if miss {
		return
	}

	editCalls := []string{"(*core.Line).Cut", "(*core.Line).CutRune", "(*core.Line).Insert", "(*core.Line).InsertBetween", "(*core.Line).Set",
		"(*core.Cursor).InsertAt", "(*core.Cursor).ReplaceWith", "(*core.Cursor).Move", "(*core.Cursor).Set", "(*core.Cursor).Inc", "(*core.Cursor).Dec"}

	// ---- virtual line isolated (K2)
	r.Rule("C14.virtual-isolated", "K2", "insertCandidate edits only compLine/compCursor; compLine points to a fresh copy of the real line, compCursor is a new cursor on it at the real position", 5)
	{
		for i, call := range callsTo(IC, false, editCalls...) {
			recv := hostVal(call.Common().Args[0], IC)
			ok := isFieldLoad(recv, compT, "compLine") || isFieldLoad(recv, compT, "compCursor")
			r.CallSites++
			r.Check(ok, "C14.virtual-isolated", siteKey(IC, "edit:"+calleeName(call), i), p.IPos(call), "receiver is the virtual line/cursor",
				"insertCandidate applies "+calleeName(call)+" to something other than compLine/compCursor: cycling through the menu edits the real line")
		}
		// compLine = &fresh copy
		n := 0
		eachInstr(IC, func(in ssa.Instruction) {
			st, ok := isFieldStore(in, compT, "compLine")
			if !ok {
				return
			}
			n++
			a, isAlloc := st.Val.(*ssa.Alloc)
			fresh, fromLine := false, false
			if isAlloc {
				for _, ref := range referrersOf(a) {
					if s2, ok := ref.(*ssa.Store); ok && s2.Addr == ssa.Value(a) {
						v := s2.Val
						// a conversion chain that passes through string (copy)
						throughString := false
						for k := 0; k < 6; k++ {
							switch x := v.(type) {
							case *ssa.ChangeType:
								v = x.X
								continue
							case *ssa.Convert:
								if typeStr(x.Type()) == "string" || typeStr(x.X.Type()) == "string" {
									throughString = true
								}
								v = x.X
								continue
							}
							break
						}
						fresh = throughString
						if u, ok := v.(*ssa.UnOp); ok && u.Op == token.MUL && isFieldLoad(u.X, compT, "line") {
							fromLine = true
						}
					}
				}
			}
			r.Check(isAlloc && fresh && fromLine, "C14.virtual-isolated", fnName(IC)+":compLine=&copy", p.IPos(in), "compLine = &Line(string(*e.line))",
				fmt.Sprintf("compLine is not assigned a fresh copy of the real line (fresh alloc: %v, copied through string: %v, from *e.line: %v): the virtual insertion aliases the real buffer", isAlloc, fresh, fromLine))
		})
		if n == 0 {
			r.Bad("C14.virtual-isolated", fnName(IC)+":compLine=&copy", p.Pos(IC.Pos()), "insertCandidate no longer re-creates the virtual line from the real one: candidates accumulate in it")
		}
		// compCursor = NewCursor(e.compLine); Set(e.cursor.Pos())
		okCur, okSet := false, false
		eachInstr(IC, func(in ssa.Instruction) {
			if st, ok := isFieldStore(in, compT, "compCursor"); ok {
				if cl, ok := st.Val.(*ssa.Call); ok && calleeName(cl) == "core.NewCursor" && isFieldLoad(cl.Call.Args[0], compT, "compLine") {
					okCur = true
				}
			}
		})
		for _, call := range callsTo(IC, false, "(*core.Cursor).Set") {
			args := call.Common().Args
			if isFieldLoad(args[0], compT, "compCursor") {
				if pc, ok := args[1].(*ssa.Call); ok && calleeName(pc) == "(*core.Cursor).Pos" && isFieldLoad(pc.Call.Args[0], compT, "cursor") {
					okSet = true
				}
			}
		}
		r.Check(okCur, "C14.virtual-isolated", fnName(IC)+":compCursor=NewCursor(compLine)", p.Pos(IC.Pos()), "new cursor on the virtual line", "compCursor is not a new cursor on the virtual line")
		r.Check(okSet, "C14.virtual-isolated", fnName(IC)+":compCursor.Set(cursor.Pos())", p.Pos(IC.Pos()), "virtual cursor starts at the real position", "the virtual cursor is not initialised from the real cursor position")
	}

	// ---- replace exactly the prefix (K3, sibling agreement)
	r.Rule("C14.replace-prefix", "K3", "insertCandidate and acceptCandidate step back len(prefix), cut [pos, pos+len(prefix)) and insert e.inserted — the same prefix length in all three places", 2)
	for _, f := range []*ssa.Function{IC, AC} {
		lineF, curF := "line", "cursor"
		if f == IC {
			lineF, curF = "compLine", "compCursor"
		}
		okMove, okCut, okIns, okOrder := false, false, false, false
		// the three statements are looked for in f, or in an unexported helper f calls with the
		// line and the cursor as arguments (the helper's parameters then stand for those)
		for _, hv := range hostViews(f) {
			hv := hv
			if okMove && okCut && okIns && okOrder {
				break
			}
			vMove, vCut, vIns := false, false, false
			var mv, ct, ins ssa.Instruction
			for _, call := range callsTo(hv.fn, false, "(*core.Cursor).Move") {
				args := call.Common().Args
				if isFieldLoad(hv.val(args[0]), compT, curF) && negLenOfField(args[1], compT, "prefix") {
					vMove, mv = true, call
				}
			}
			for _, call := range callsTo(hv.fn, false, "(*core.Line).Cut") {
				args := call.Common().Args
				if !isFieldLoad(hv.val(args[0]), compT, lineF) {
					continue
				}
				// (cursor.Pos(), cursor.Pos()+len(prefix))
				isPos := func(v ssa.Value) bool {
					pc, ok := v.(*ssa.Call)
					return ok && calleeName(pc) == "(*core.Cursor).Pos" && isFieldLoad(hv.val(pc.Call.Args[0]), compT, curF)
				}
				if isPos(args[1]) {
					if bo, ok := args[2].(*ssa.BinOp); ok && bo.Op == token.ADD && isPos(bo.X) && lenOfField(bo.Y, compT, "prefix") {
						vCut, ct = true, call
					}
				}
			}
			for _, call := range callsTo(hv.fn, false, "(*core.Cursor).InsertAt") {
				args := call.Common().Args
				if isFieldLoad(hv.val(args[0]), compT, curF) && isFieldLoad(args[1], compT, "inserted") {
					vIns, ins = true, call
				}
			}
			if hv.at == nil || (vMove && vCut && vIns) {
				okMove, okCut, okIns = vMove, vCut, vIns
				okOrder = mv != nil && ct != nil && ins != nil && instrDominates(mv, ct) && instrDominates(ct, ins)
			}
		}
		r.Check(okMove && okCut && okIns && okOrder, "C14.replace-prefix", fnName(f)+":move-cut-insert", p.Pos(f.Pos()), "Move(-len(prefix)); Cut(pos, pos+len(prefix)); InsertAt(inserted)",
			fmt.Sprintf("%s does not replace exactly the prefix (Move(-len(prefix)): %v, Cut(pos,pos+len(prefix)): %v, InsertAt(inserted): %v, in order: %v): text before the word or after the cursor can be destroyed", fnName(f), okMove, okCut, okIns, okOrder))
		// inserted derives from prepareSuffix()
		okPrep := false
		eachInstr(f, func(in ssa.Instruction) {
			if st, ok := isFieldStore(in, compT, "inserted"); ok {
				for _, l := range backSlice(st.Val, &SliceOpts{P: p, IsSource: func(v ssa.Value) bool { return isCallNamed(v, "(*completion.Engine).prepareSuffix") }}) {
					if l.Kind == LeafSource {
						okPrep = true
					}
				}
			}
		})
		r.Rule("C14.inserted-is-candidate", "K3", "e.inserted is the prepared candidate value (prepareSuffix, i.e. selected.Value)", 2)
		r.Check(okPrep, "C14.inserted-is-candidate", fnName(f)+":inserted", p.Pos(f.Pos()), "inserted = []rune(prepareSuffix())", fnName(f)+" inserts something other than the prepared candidate")
	}
	if PS := p.Func("(*completion.Engine).prepareSuffix"); PS != nil {
		r.Fn(fnName(PS))
		ok := true
		eachInstr(PS, func(in ssa.Instruction) {
			if ret, isR := in.(*ssa.Return); isR {
				for _, v := range mayValues(ret.Results[0]) {
					if s, isS := constString(v); isS && s == "" {
						continue
					}
					if _, fld, isFR := fieldRead(v); isFR && fld == "Value" {
						continue
					}
					ok = false
				}
			}
		})
		r.Check(ok, "C14.inserted-is-candidate", fnName(PS)+":returns-selected.Value", p.Pos(PS.Pos()), "returns selected.Value (or empty)", "prepareSuffix returns something other than the selected candidate's value")
	}

	// ---- units (K7)
	unitRule(c, "C14.units", []string{"(*completion.Engine).insertCandidate", "(*completion.Engine).acceptCandidate", "(*completion.Engine).prepareSuffix", "(*completion.Engine).TrimSuffix", "(*completion.Engine).setPrefix", "(*completion.Engine).setSuffix", "(*completion.Engine).cancelCompletedLine"}, 4)

	// ---- cancel restores (K3)
	r.Rule("C14.cancel-restores", "K3", "cancelCompletedLine and Cancel(inserted=true) overwrite the virtual line from *e.line and the virtual cursor from cursor.Pos()", 3)
	restores := func(f *ssa.Function, needFact func(map[Fact]bool) bool) (bool, bool) {
		bf := blockFacts(f)
		okL, okC := false, false
		for _, call := range callsTo(f, false, "(*core.Line).Set") {
			args := call.Common().Args
			if !isFieldLoad(args[0], compT, "compLine") || !needFact(factsAt(bf, call)) {
				continue
			}
			if u, ok := stripConv(args[1]).(*ssa.UnOp); ok && u.Op == token.MUL && isFieldLoad(u.X, compT, "line") {
				okL = true
			}
		}
		for _, call := range callsTo(f, false, "(*core.Cursor).Set") {
			args := call.Common().Args
			if !isFieldLoad(args[0], compT, "compCursor") || !needFact(factsAt(bf, call)) {
				continue
			}
			if pc, ok := args[1].(*ssa.Call); ok && calleeName(pc) == "(*core.Cursor).Pos" && isFieldLoad(pc.Call.Args[0], compT, "cursor") {
				okC = true
			}
		}
		return okL, okC
	}
	{
		okL, okC := restores(CCL, func(map[Fact]bool) bool { return true })
		// unconditional: every return passes the Set
		all, _ := mustPassBefore(CCL, nil, isReturn, func(in ssa.Instruction) bool { return isCallTo(in, "(*core.Line).Set") })
		r.Check(okL && okC && all, "C14.cancel-restores", fnName(CCL)+":restore", p.Pos(CCL.Pos()), "compLine.Set(*line); compCursor.Set(cursor.Pos())", "cancelCompletedLine no longer overwrites the virtual line/cursor from the real ones: a cancelled candidate stays in the displayed buffer")
		insP := CAN.Params[1]
		okL2, okC2 := restores(CAN, func(f map[Fact]bool) bool { return knownBool(f, insP, true) })
		r.Check(okL2 && okC2, "C14.cancel-restores", fnName(CAN)+":inserted-branch", p.Pos(CAN.Pos()), "inserted → virtual := real", "Cancel(inserted=true) does not drop the inserted candidate by restoring the virtual line from the real one")
		// the other branch commits virtual into real
		bf := blockFacts(CAN)
		okCommit := false
		for _, call := range callsTo(CAN, false, "(*core.Line).Set") {
			args := call.Common().Args
			if isFieldLoad(args[0], compT, "line") && knownBool(factsAt(bf, call), insP, false) {
				if u, ok := stripConv(args[1]).(*ssa.UnOp); ok && u.Op == token.MUL && isFieldLoad(u.X, compT, "compLine") {
					okCommit = true
				}
			}
		}
		r.Check(okCommit, "C14.cancel-restores", fnName(CAN)+":commit-branch", p.Pos(CAN.Pos()), "!inserted → real := virtual", "Cancel(inserted=false) does not commit the virtual line into the real one")
	}

	// ---- abort continues (K1+K4)
	r.Rule("C14.abort-continues", "K4", "abort reaches Display.AcceptLine / History.Accept only when neither AutoCompleting() nor IsInserting(), and the local keymap is not menu-select; the cancelling branch calls ResetForce and returns", 5)
	{
		bf := blockFacts(AB)
		for _, call := range callsTo(AB, false, fnAcceptDisp, fnSourcesAccept) {
			fa, fi := false, false
			for fc := range factsAt(bf, call) {
				if isCallNamed(fc.Cond, "(*completion.Engine).AutoCompleting") && !fc.Val {
					fa = true
				}
				if isCallNamed(fc.Cond, "(*completion.Engine).IsInserting") && !fc.Val {
					fi = true
				}
			}
			r.Check(fa && fi, "C14.abort-continues", fmt.Sprintf("%s:%s-guard", fnName(AB), calleeName(call)), p.IPos(call), "under !AutoCompleting && !IsInserting",
				"abort can accept/return the line while a completion is active: Ctrl-C on a menu ends the Readline call instead of only cancelling the menu")
		}
		// … nor while the menu-select keymap is the local one (a menu open with nothing inserted yet)
		for _, call := range callsTo(AB, false, fnAcceptDisp, fnSourcesAccept) {
			fm := false
			for fc := range factsAt(bf, call) {
				rel, ok := relOf(fc.Cond, fc.Val)
				if !ok || rel.Op != token.NEQ {
					continue
				}
				isLocal := dependsOn(rel.X, func(v ssa.Value) bool { return isCallNamed(v, "(*keymap.Engine).Local") })
				s, isS := constString(stripConv(rel.Y))
				if isLocal && isS && s == "menu-select" {
					fm = true
				}
			}
			r.Check(fm, "C14.abort-continues", fmt.Sprintf("%s:%s-menu-guard", fnName(AB), calleeName(call)), p.IPos(call), "under Local() != menu-select",
				"abort can accept/return the line while the menu-select keymap is active (a menu open with no candidate inserted: possible-completions, or the first Tab with menu-complete-display-prefix): Ctrl-C ends the Readline call instead of closing the menu")
		}
		// the true edges lead to a block that calls ResetForce and returns without Accept
		okCancel := true
		n := 0
		for _, b := range AB.Blocks {
			iff, ok := b.Instrs[len(b.Instrs)-1].(*ssa.If)
			if !ok || !(isCallNamed(iff.Cond, "(*completion.Engine).AutoCompleting") || isCallNamed(iff.Cond, "(*completion.Engine).IsInserting")) {
				continue
			}
			n++
			t := b.Succs[0]
			first := t.Instrs[0]
			hasReset := blockReaches(t, func(in ssa.Instruction) bool { return isCallTo(in, "(*completion.Engine).ResetForce") }, nil)
			// from t, no Accept reachable before return
			acc := pathAvoiding(AB, first, func(in ssa.Instruction) bool { return isCallTo(in, fnSourcesAccept, fnAcceptDisp) }, nil)
			if isCallTo(first, fnSourcesAccept, fnAcceptDisp) {
				acc = first
			}
			// ResetForce on every path from t to return
			missReset := false
			if !isCallTo(first, "(*completion.Engine).ResetForce") {
				if w := pathAvoiding(AB, first, isReturn, func(in ssa.Instruction) bool { return isCallTo(in, "(*completion.Engine).ResetForce") }); w != nil {
					missReset = true
				}
			}
			if !hasReset || acc != nil || missReset {
				okCancel = false
			}
		}
		r.Check(n == 2 && okCancel, "C14.abort-continues", fnName(AB)+":cancel-branch", p.Pos(AB.Pos()), "active completion → ResetForce; return", fmt.Sprintf("the cancelling branch of abort is not `ResetForce(); return` on both the AutoCompleting and IsInserting tests (tests found: %d)", n))
	}

	// ---- a forced reset drops the candidate unless completion is auto-forced (K5)
	r.Rule("C14.resetforce-drops", "K5", "ResetForce calls Cancel(inserted = !autoForce, …): outside forced auto-completion an inserted candidate is dropped, not committed", 1)
	if RF := p.Func("(*completion.Engine).ResetForce"); RF != nil {
		r.Fn(fnName(RF))
		n := 0
		for _, call := range callsTo(RF, false, "(*completion.Engine).Cancel") {
			n++
			arg := call.Common().Args[1]
			ok := false
			if u, isU := arg.(*ssa.UnOp); isU && u.Op == token.NOT && isFieldLoad(u.X, compT, "autoForce") {
				ok = true
			}
			if b, isB := constBool(arg); isB && b {
				ok = true
			}
			r.Check(ok, "C14.resetforce-drops", fnName(RF)+":Cancel(inserted)", p.IPos(call), "inserted = !autoForce", "ResetForce no longer passes inserted = !autoForce to Cancel: Ctrl-C in an incremental search inside the menu commits the selected candidate instead of restoring the original buffer")
		}
		if n == 0 {
			r.Bad("C14.resetforce-drops", fnName(RF)+":Cancel(inserted)", p.Pos(RF.Pos()), "ResetForce no longer cancels the inserted candidate")
		}
	} else {
		r.Unk("C14.resetforce-drops", "(*completion.Engine).ResetForce", "-", "anchor not found")
	}

	// ---- UpdateInserted between keymaps (K1)
	r.Rule("C14.update-between-keymaps", "K1", "in Readline, completion.UpdateInserted runs on every path between the local-keymap dispatch and keymap.MatchMain", 1)
	{
		locals := callsTo(RL, false, "keymap.MatchLocal")
		if len(locals) != 1 {
			r.Unk("C14.update-between-keymaps", fnReadline+":MatchLocal", p.Pos(RL.Pos()), "MatchLocal call not found")
		} else {
			ok, _ := mustPassBefore(RL, locals[0], func(in ssa.Instruction) bool { return isCallTo(in, "keymap.MatchMain") }, func(in ssa.Instruction) bool { return isCallTo(in, "completion.UpdateInserted") })
			r.Check(ok, "C14.update-between-keymaps", fnReadline+":UpdateInserted", p.IPos(locals[0]), "UpdateInserted precedes MatchMain", "MatchMain can run without UpdateInserted: a main-keymap command edits the line while a candidate is still virtually inserted")
		}
	}
	checkC14UniqueAccept(c)
	checkRound4Misc(c, "C14")
	checkRound5Small(c, "C14")
}
