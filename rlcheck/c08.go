package main

import (
	"fmt"
	"go/token"
	"go/types"

	"golang.org/x/tools/go/ssa"
)

func init() { propFuncs["C08"] = checkC08 }

const (
	fnSourcesWrite  = "(*history.Sources).Write"
	fnSourcesAccept = "(*history.Sources).Accept"
	fnAcceptWith    = "(*readline.Shell).acceptLineWith"
)

func isSourceWriteInvoke(in ssa.Instruction) bool {
	return isInvoke(in, "history.Source", "Write")
}

func checkC08(c *Ctx) {
	p, r := c.P, c.R
	r.Explanation = "Decided statically (necessary conditions of 'recorded exactly once'): the only code that appends to a bound history source is (*Sources).Write, reached only from Accept (under err == nil, with the same err that Readline returns) and save-line; the append is guarded by infer == false, by the non-blank test on the accepted text and by a duplicate test against that same source's last entry; the loop over sources has no exit other than its natural end and performs at most one append per source; the history-size test skips only on Len >= limit; the infer/hold constants of every accept command reach Accept unswapped. NOT decided: value-level equality of the recorded text with the typed text for all inputs, and behaviour of application-supplied Source implementations."
	r.Trusted = []string{"go/packages type checker", "go/ssa construction", "VTA call graph (over-approximates callers)", "rule tables in rlcheck/c08.go"}
	r.Assumptions = []string{"no reflection/unsafe/linkname reaches history sources (checked by inventory in C06)", "application Source implementations honour the interface contract"}

	W := p.Func(fnSourcesWrite)
	A := p.Func(fnSourcesAccept)
	AW := p.Func(fnAcceptWith)
	r.Rule("C08.anchors", "K0", "anchored functions resolve", 3)
	for n, f := range map[string]*ssa.Function{fnSourcesWrite: W, fnSourcesAccept: A, fnAcceptWith: AW} {
		if f == nil {
			r.Unk("C08.anchors", n, "-", "anchor not found — rule table needs review")
		} else {
			r.OK("C08.anchors", n, p.Pos(f.Pos()), "")
			r.Fn(n)
		}
	}
	if W == nil || A == nil || AW == nil {
		return
	}

	// ---- only-path (K2)
	r.Rule("C08.only-path", "K2", "Source.Write (interface or concrete) is invoked only inside (*Sources).Write; that is called only from Accept and save-line", 3)
	for _, f := range p.RepoFuncs {
		for _, call := range allCalls(f, false) {
			n := calleeName(call)
			isW := isSourceWriteInvoke(call) || n == "(*history.memory).Write" || n == "(*history.fileHistory).Write"
			if !isW {
				continue
			}
			r.CallSites++
			key := fnName(f) + ":Source.Write"
			inW := f == W
			if !inW {
				inW, _ = p.onlyReachedThrough(f, map[string]bool{fnName(W): true})
			}
			r.Check(inW, "C08.only-path", key, p.IPos(call), "append to a history source inside the single write path",
				"a history source is written outside (*Sources).Write — lines can be recorded twice or without the filters")
		}
	}
	allowedCallers := map[string]bool{fnSourcesAccept: true, "(*readline.Shell).saveLine": true}
	for _, e := range p.callersOf(W) {
		cn := fnName(e.Caller.Func)
		r.CallSites++
		r.Check(allowedCallers[cn], "C08.only-path", cn+":(*Sources).Write", p.Pos(e.Pos()), "reviewed caller",
			"new caller of (*Sources).Write: an accepted line may be recorded more than once (reviewed callers: Accept, save-line)")
	}

	// ---- no-error-record (K4)
	r.Rule("C08.no-error-record", "K4", "in Accept, the call to Write is dominated by err == nil for the error parameter", 1)
	var errParam *ssa.Parameter
	for _, prm := range A.Params {
		if types.Identical(prm.Type(), types.Universe.Lookup("error").Type()) {
			errParam = prm
		}
	}
	bfA := blockFacts(A)
	var inferParamA *ssa.Parameter // the Accept parameter that is handed to Write
	for i, call := range callsTo(A, true, fnSourcesWrite) {
		key := siteKey(A, "call(*Sources).Write", i)
		if errParam == nil {
			r.Unk("C08.no-error-record", key, p.IPos(call), "Accept has no error parameter")
			continue
		}
		ok := knownNil(factsAt(bfA, call), errParam)
		r.Check(ok, "C08.no-error-record", key, p.IPos(call), "guarded by err == nil",
			"Write is reachable with a non-nil error: interrupted/EOF lines would be recorded")
		if prm, ok := call.Common().Args[1].(*ssa.Parameter); ok {
			inferParamA = prm
		}
	}

	// ---- err-is-returned (K2+K3)
	r.Rule("C08.err-is-returned", "K3", "the error that guards recording is the error Readline returns: Sources.acceptErr is stored only from Accept's err (and reset), LineAccepted returns it, run/Readline return it unmodified", 4)
	for _, f := range p.RepoFuncs {
		eachInstr(f, func(in ssa.Instruction) {
			st, ok := in.(*ssa.Store)
			if !ok {
				return
			}
			tn, fn_, ok := fieldOf(st.Addr)
			if !ok || tn != "history.Sources" || fn_ != "acceptErr" {
				return
			}
			key := fnName(f) + ":store(Sources.acceptErr)"
			switch {
			case f == A && st.Val == ssa.Value(errParam):
				r.OK("C08.err-is-returned", key, p.IPos(in), "stored from Accept's err parameter")
			case isNilConst(st.Val):
				r.OK("C08.err-is-returned", key, p.IPos(in), "reset to nil")
			default:
				r.Bad("C08.err-is-returned", key, p.IPos(in), "acceptErr written from something other than Accept's err parameter: returned error and recording guard can disagree")
			}
		})
	}
	if LA := p.Func("(*history.Sources).LineAccepted"); LA != nil {
		r.Fn(fnName(LA))
		eachInstr(LA, func(in ssa.Instruction) {
			ret, ok := in.(*ssa.Return)
			if !ok || len(ret.Results) != 3 {
				return
			}
			v := ret.Results[2]
			key := fnName(LA) + ":return.err"
			if isNilConst(v) {
				// the not-accepted return
				if b, ok := constBool(ret.Results[0]); ok && !b {
					return
				}
			}
			ok2 := false
			if u, isU := v.(*ssa.UnOp); isU && u.Op == token.MUL {
				if tn, fn_, ok := fieldOf(u.X); ok && tn == "history.Sources" && fn_ == "acceptErr" {
					ok2 = true
				}
			}
			r.Check(ok2, "C08.err-is-returned", key, p.IPos(in), "returns the stored acceptErr", "LineAccepted returns an error that is not Sources.acceptErr: "+v.String())
		})
	} else {
		r.Unk("C08.err-is-returned", "(*history.Sources).LineAccepted", "-", "anchor not found")
	}
	// run returns LineAccepted()'s tuple; Readline returns run's err when accepted
	if run := p.Func("(*readline.Shell).run"); run != nil {
		r.Fn(fnName(run))
		n := 0
		eachInstr(run, func(in ssa.Instruction) {
			ret, ok := in.(*ssa.Return)
			if !ok || len(ret.Results) != 3 {
				return
			}
			if b, ok := constBool(ret.Results[0]); ok && !b {
				return // the "nothing to do" return
			}
			n++
			leaves := backSlice(ret.Results[2], &SliceOpts{P: p, IsSource: func(v ssa.Value) bool {
				cl, ok := v.(*ssa.Call)
				return ok && calleeName(cl) == "(*history.Sources).LineAccepted"
			}})
			ok2 := len(leaves) > 0
			for _, l := range leaves {
				if l.Kind != LeafSource {
					ok2 = false
				}
			}
			r.Check(ok2, "C08.err-is-returned", siteKey(run, "return.err", n-1), p.IPos(in), "run returns LineAccepted's error", "run's accepted return does not pass LineAccepted's error through")
		})
	} else {
		r.Unk("C08.err-is-returned", "(*readline.Shell).run", "-", "anchor not found")
	}
	if RL := p.Func("(*readline.Shell).Readline"); RL != nil {
		r.Fn(fnName(RL))
		n := 0
		bf := blockFacts(RL)
		eachInstr(RL, func(in ssa.Instruction) {
			ret, ok := in.(*ssa.Return)
			if !ok || len(ret.Results) != 2 {
				return
			}
			// only returns guarded by `accepted`
			accepted := false
			for f := range bf[in.Block()] {
				if ex, ok := f.Cond.(*ssa.Extract); ok && f.Val && ex.Index == 0 {
					if cl, ok := ex.Tuple.(*ssa.Call); ok && calleeName(cl) == "(*readline.Shell).run" {
						accepted = true
					}
				}
			}
			if !accepted {
				return
			}
			leaves := backSlice(ret.Results[1], &SliceOpts{P: p, IsSource: func(v ssa.Value) bool {
				ex, ok := v.(*ssa.Extract)
				if !ok || ex.Index != 2 {
					return false
				}
				cl, ok := ex.Tuple.(*ssa.Call)
				return ok && calleeName(cl) == "(*readline.Shell).run"
			}})
			ok2 := len(leaves) > 0
			for _, l := range leaves {
				if l.Kind != LeafSource {
					ok2 = false
				}
			}
			r.Check(ok2, "C08.err-is-returned", siteKey(RL, "return.err", n), p.IPos(in), "Readline returns run's error on accept", "Readline's accepted return does not pass run's error through")
			n++
		})
	}

	// ---- Sources.Write internals
	bfW := blockFacts(W)
	var writes []ssa.CallInstruction
	eachInstr(W, func(in ssa.Instruction) {
		if isSourceWriteInvoke(in) {
			writes = append(writes, in.(ssa.CallInstruction))
		}
	})
	var inferParamW *ssa.Parameter
	if len(W.Params) >= 2 {
		if b, ok := W.Params[1].Type().Underlying().(*types.Basic); ok && b.Kind() == types.Bool {
			inferParamW = W.Params[1]
		}
	}
	r.Rule("C08.infer-not-recorded", "K4", "Source.Write is dominated by infer == false", 1)
	r.Rule("C08.blank", "K4", "Source.Write is dominated by the non-blank test on the accepted text", 1)
	r.Rule("C08.written-text", "K3", "the text appended derives only from the edited line buffer (*h.line)", 1)
	r.Rule("C08.once-per-source", "K1", "at most one append per source per accepted line (no second Source.Write reachable before the next source)", 1)
	isLineLoad := func(v ssa.Value) bool {
		// *(*h.line)  — load through the Sources.line pointer
		u, ok := v.(*ssa.UnOp)
		if !ok || u.Op != token.MUL {
			return false
		}
		u2, ok := u.X.(*ssa.UnOp)
		if !ok || u2.Op != token.MUL {
			return false
		}
		tn, fn_, ok := fieldOf(u2.X)
		return ok && tn == "history.Sources" && fn_ == "line"
	}
	derivesFromLine := func(v ssa.Value, allowTrim bool) (bool, string) {
		leaves := backSlice(v, &SliceOpts{P: p, IsSource: isLineLoad, Through: func(cl *ssa.Call) []ssa.Value {
			if allowTrim && calleeName(cl) == "strings.TrimSpace" {
				return cl.Call.Args
			}
			return nil
		}})
		if len(leaves) == 0 {
			return false, "empty slice"
		}
		for _, l := range leaves {
			if l.Kind != LeafSource {
				return false, fmt.Sprintf("reaches %s [%s]", p.descValue(l.V), l.Why)
			}
		}
		return true, ""
	}
	loops := findLoops(W)
	for i, w := range writes {
		key := siteKey(W, "Source.Write", i)
		// infer
		if inferParamW == nil {
			r.Unk("C08.infer-not-recorded", key, p.IPos(w), "Write has no bool parameter")
		} else {
			r.Check(knownBool(factsAt(bfW, w), inferParamW, false), "C08.infer-not-recorded", key, p.IPos(w),
				"guarded by !infer", "Source.Write reachable with infer == true: operate-and-get-next / accept-and-infer-next-history would record the line")
		}
		// blank
		blankOK := false
		for f := range factsAt(bfW, w) {
			if nonBlankFact(f, func(v ssa.Value) bool { ok, _ := derivesFromLine(v, false); return ok }) {
				blankOK = true
			}
		}
		r.Check(blankOK, "C08.blank", key, p.IPos(w), "guarded by len(TrimSpace(line)) != 0", "no dominating non-blank test on the accepted text: blank lines would be recorded")
		// text
		ok, why := derivesFromLine(w.Common().Args[0], true)
		r.Check(ok, "C08.written-text", key, p.IPos(w), "argument derives from *h.line", "recorded text does not derive only from the line buffer: "+why)
		// once per source
		var head *ssa.BasicBlock
		for _, l := range loops {
			if l.Blocks[w.Block()] {
				head = l.Head
			}
		}
		if head == nil {
			r.Unk("C08.once-per-source", key, p.IPos(w), "Source.Write is not inside the loop over sources")
		} else {
			again := pathAvoiding(W, w, isSourceWriteInvoke, func(in ssa.Instruction) bool { return in.Block() == head })
			r.Check(again == nil, "C08.once-per-source", key, p.IPos(w), "no second append before the next source", "a second Source.Write is reachable in the same iteration")
		}
	}

	// ---- per-source loop (K6)
	r.Rule("C08.per-source", "K6", "the loop over bound sources leaves only at its natural end: no return/break makes one source's outcome skip the others", 1)
	for i, l := range loops {
		hasWrite := false
		for b := range l.Blocks {
			for _, in := range b.Instrs {
				if isSourceWriteInvoke(in) {
					hasWrite = true
				}
			}
		}
		if !hasWrite {
			continue
		}
		key := fmt.Sprintf("%s:loop#%d", fnName(W), i)
		var bad ssa.Instruction
		for _, b := range W.Blocks {
			if !l.Blocks[b] || b == l.Head {
				continue
			}
			for _, s := range b.Succs {
				if !l.Blocks[s] {
					bad = b.Instrs[len(b.Instrs)-1]
				}
			}
			if len(b.Succs) == 0 {
				bad = b.Instrs[len(b.Instrs)-1]
			}
		}
		// blocks that return are not in the natural loop; detect exits: successor outside loop from non-head
		if bad != nil {
			r.Bad("C08.per-source", key, p.IPos(bad), "the loop over sources is left from inside its body (return/break): a duplicate or error in one source skips every later source")
		} else {
			r.OK("C08.per-source", key, p.Pos(l.Head.Instrs[0].Pos()), "only exit is the range end")
		}
	}

	// ---- dup-filter (K3)
	r.Rule("C08.dup-filter", "K3", "the duplicate test reads the last entry (Len()-1) of the same source that is written", 1)
	for i, w := range writes {
		key := siteKey(W, "Source.Write", i)
		recv := w.Common().Value
		found := false
		eachInstr(W, func(in ssa.Instruction) {
			if !isInvoke(in, "history.Source", "GetLine") {
				return
			}
			g := in.(ssa.CallInstruction).Common()
			if g.Value != recv {
				return
			}
			if b, ok := g.Args[0].(*ssa.BinOp); ok && b.Op == token.SUB {
				if k, ok := constInt(b.Y); ok && k == 1 {
					if lc, ok := b.X.(*ssa.Call); ok && isInvoke(lc, "history.Source", "Len") && lc.Call.Value == recv {
						if instrDominates(in, w) {
							found = true
						}
					}
				}
			}
		})
		r.Check(found, "C08.dup-filter", key, p.IPos(w), "dominated by GetLine(Len()-1) on the written source", "no dominating read of this source's most recent entry: duplicates are not filtered per source")
		// the duplicate test compares both texts up to surrounding whitespace:
		// TrimSpace(<that GetLine result>) == TrimSpace(<the accepted line>)
		okCmp := false
		why := "no comparison between the last entry and the accepted line found"
		eachInstr(W, func(in ssa.Instruction) {
			bo, ok := in.(*ssa.BinOp)
			if !ok || (bo.Op != token.EQL && bo.Op != token.NEQ) {
				return
			}
			isLast := func(v ssa.Value) (bool, bool) { // (is the last entry, trimmed)
				trimmed := false
				if cl, ok := v.(*ssa.Call); ok && calleeName(cl) == "strings.TrimSpace" {
					trimmed = true
					v = cl.Call.Args[0]
				}
				if ex, ok := v.(*ssa.Extract); ok && ex.Index == 0 {
					if g, ok := ex.Tuple.(*ssa.Call); ok && isInvoke(g, "history.Source", "GetLine") && g.Call.Value == recv {
						return true, trimmed
					}
				}
				return false, false
			}
			isLine := func(v ssa.Value) (bool, bool) {
				trimmed := false
				if cl, ok := v.(*ssa.Call); ok && calleeName(cl) == "strings.TrimSpace" {
					trimmed = true
					v = cl.Call.Args[0]
				}
				ok, _ := derivesFromLine(v, false)
				return ok, trimmed
			}
			for _, pair := range [][2]ssa.Value{{bo.X, bo.Y}, {bo.Y, bo.X}} {
				l1, t1 := isLast(pair[0])
				l2, t2 := isLine(pair[1])
				if l1 && l2 {
					if t1 && t2 {
						okCmp = true
					} else {
						why = fmt.Sprintf("the duplicate test does not trim both sides (last entry trimmed: %v, accepted line trimmed: %v): a line differing from the last entry only by surrounding whitespace is recorded again", t1, t2)
					}
				}
			}
		})
		r.Check(okCmp, "C08.dup-filter", key+":trimmed-compare", p.IPos(w), "TrimSpace(last) == TrimSpace(line)", why)
	}

	// ---- limit polarity (K4)
	r.Rule("C08.limit-polarity", "K4", "a branch comparing history-size with Len() skips recording only on the side where Len() >= limit", 0)
	nCmp := 0
	readsMax := false
	eachInstr(W, func(in ssa.Instruction) {
		if u, ok := in.(*ssa.UnOp); ok && u.Op == token.MUL {
			if tn, f, ok := fieldOf(u.X); ok && tn == "history.Sources" && f == "maxEntries" {
				readsMax = true
			}
		}
	})
	isMax := func(v ssa.Value) bool {
		u, ok := v.(*ssa.UnOp)
		if !ok || u.Op != token.MUL {
			return false
		}
		tn, f, ok := fieldOf(u.X)
		return ok && tn == "history.Sources" && f == "maxEntries"
	}
	var writeRecv ssa.Value
	if len(writes) > 0 {
		writeRecv = writes[0].Common().Value
	}
	otherLen := false
	isLen := func(v ssa.Value) bool {
		cl, ok := v.(*ssa.Call)
		if !ok || !isInvoke(cl, "history.Source", "Len") {
			return false
		}
		if cl.Call.Value != writeRecv {
			otherLen = true
			return false
		}
		return true
	}
	for _, b := range W.Blocks {
		iff, ok := b.Instrs[len(b.Instrs)-1].(*ssa.If)
		if !ok {
			continue
		}
		rel, ok := relOf(iff.Cond, true)
		if !ok {
			continue
		}
		var op token.Token // normalised: Len op Max on the TRUE edge
		switch {
		case isLen(rel.X) && isMax(rel.Y):
			op = rel.Op
		case isMax(rel.X) && isLen(rel.Y):
			op = flipOp(rel.Op)
		default:
			continue
		}
		key := fmt.Sprintf("%s:cmp(Len,maxEntries)#%d", fnName(W), nCmp)
		nCmp++
		var head *ssa.BasicBlock
		for _, l := range loops {
			if l.Blocks[b] {
				head = l.Head
			}
		}
		avoid := map[*ssa.BasicBlock]bool{}
		if head != nil {
			avoid[head] = true
		}
		tReach := blockReaches(b.Succs[0], isSourceWriteInvoke, avoid)
		fReach := blockReaches(b.Succs[1], isSourceWriteInvoke, avoid)
		var skipOp token.Token
		switch {
		case tReach && !fReach:
			skipOp = negateOp(op) // skip on false edge
		case fReach && !tReach:
			skipOp = op
		default:
			r.Unk("C08.limit-polarity", key, p.IPos(iff), "cannot tell which side of the history-size comparison skips recording")
			continue
		}
		// skip must mean Len >= max or Len > max (or ==)
		ok2 := skipOp == token.GEQ || skipOp == token.GTR || skipOp == token.EQL
		r.Check(ok2, "C08.limit-polarity", key, p.IPos(iff), "skips when Len() "+skipOp.String()+" history-size",
			"recording is skipped when Len() "+skipOp.String()+" history-size: with a configured limit nothing is recorded until a source already exceeds it")
	}
	if otherLen {
		r.Bad("C08.limit-polarity", fnName(W)+":limit-on-other-source", p.Pos(W.Pos()), "the history-size test uses Len() of a source other than the one being written (or sits outside the per-source loop): one source's fill level decides for all of them")
	}
	if nCmp == 0 {
		if readsMax {
			r.Unk("C08.limit-polarity", fnName(W)+":maxEntries", p.Pos(W.Pos()), "maxEntries is read in Write but no comparison with Len() was recognised")
		} else {
			r.OK("C08.limit-polarity", fnName(W)+":maxEntries", p.Pos(W.Pos()), "no history-size limit applied in Write (recording never stops)")
		}
	}

	// ---- infer/hold constant chain (K5)
	r.Rule("C08.infer-args", "K5", "accept commands pass the documented (infer) constant, and acceptLineWith/Accept hand infer and hold to the right parameters", 6)
	// position of the infer parameter in Accept
	idxA := -1
	for i, prm := range A.Params {
		if prm == inferParamA {
			idxA = i
		}
	}
	if idxA < 0 {
		r.Unk("C08.infer-args", fnName(A)+":Write(infer)", p.Pos(A.Pos()), "Accept does not pass one of its parameters to Write")
		return
	}
	r.OK("C08.infer-args", fnName(A)+":Write(infer)", p.Pos(A.Pos()), fmt.Sprintf("Accept parameter #%d (%s) is the infer flag", idxA, inferParamA.Name()))
	// hold parameter of Accept: the one stored in acceptHold
	idxHoldA := -1
	eachInstr(A, func(in ssa.Instruction) {
		if st, ok := in.(*ssa.Store); ok {
			if tn, f, ok := fieldOf(st.Addr); ok && tn == "history.Sources" && f == "acceptHold" {
				for i, prm := range A.Params {
					if st.Val == ssa.Value(prm) {
						idxHoldA = i
					}
				}
			}
		}
	})
	r.Check(idxHoldA >= 0 && idxHoldA != idxA, "C08.infer-args", fnName(A)+":acceptHold", p.Pos(A.Pos()), "acceptHold is stored from a distinct parameter", "acceptHold is not stored from a parameter distinct from infer")
	// acceptLineWith → Accept
	idxInferAW, idxHoldAW := -1, -1
	for i, call := range callsTo(AW, true, fnSourcesAccept) {
		key := siteKey(AW, "Accept", i)
		args := call.Common().Args
		pi, _ := args[idxA].(*ssa.Parameter)
		var ph *ssa.Parameter
		if idxHoldA >= 0 {
			ph, _ = args[idxHoldA].(*ssa.Parameter)
		}
		errNil := false
		for j, prm := range A.Params {
			if prm == errParam {
				errNil = isNilConst(args[j])
			}
		}
		if pi == nil || ph == nil || pi == ph {
			r.Bad("C08.infer-args", key, p.IPos(call), "Accept's infer/hold arguments are not two distinct parameters of acceptLineWith")
			continue
		}
		for j, prm := range AW.Params {
			if prm == pi {
				if idxInferAW >= 0 && idxInferAW != j {
					r.Bad("C08.infer-args", key, p.IPos(call), "Accept call sites disagree on which parameter is infer")
				}
				idxInferAW = j
			}
			if prm == ph {
				idxHoldAW = j
			}
		}
		r.Check(errNil, "C08.infer-args", key+":err", p.IPos(call), "ordinary accept passes a nil error", "acceptLineWith passes a non-nil error to Accept: accepted lines would not be recorded")
		// names must not be crossed: the parameter feeding infer must be the one named like it (diagnostic only via dataflow)
		r.OK("C08.infer-args", key, p.IPos(call), fmt.Sprintf("infer←%s hold←%s", pi.Name(), ph.Name()))
	}
	if idxInferAW < 0 {
		r.Unk("C08.infer-args", fnName(AW)+":infer", p.Pos(AW.Pos()), "no Accept call found in acceptLineWith")
		return
	}
	// the semantic anchor for which acceptLineWith parameter *means* infer is the documented
	// behaviour of commands; table: command → (infer, hold)
	reg := p.Registry()
	for _, e := range reg.Errs {
		r.Unk("C08.infer-args", "registry", "-", e)
	}
	table := []struct {
		cmd         string
		infer, hold bool
	}{
		{"accept-line", false, false},
		{"accept-and-hold", false, true},
		{"operate-and-get-next", true, false},
		{"accept-and-infer-next-history", true, false},
	}
	for _, t := range table {
		f := reg.Cmds[t.cmd]
		key := "command:" + t.cmd
		if f == nil {
			r.Unk("C08.infer-args", key, "-", "command not registered")
			continue
		}
		r.Fn(fnName(f))
		calls := callsTo(f, true, fnAcceptWith)
		if len(calls) != 1 {
			r.Unk("C08.infer-args", key, p.Pos(f.Pos()), fmt.Sprintf("expected exactly one acceptLineWith call, found %d", len(calls)))
			continue
		}
		args := calls[0].Common().Args
		gi, ok1 := constBool(args[idxInferAW])
		gh, ok2 := true, true
		if idxHoldAW >= 0 {
			gh, ok2 = constBool(args[idxHoldAW])
		}
		if !ok1 || !ok2 {
			r.Unk("C08.infer-args", key, p.IPos(calls[0]), "non-constant infer/hold argument")
			continue
		}
		r.Check(gi == t.infer && (idxHoldAW < 0 || gh == t.hold), "C08.infer-args", key, p.IPos(calls[0]),
			fmt.Sprintf("infer=%v hold=%v", gi, gh),
			fmt.Sprintf("%s reaches Accept with infer=%v hold=%v, documented infer=%v hold=%v", t.cmd, gi, gh, t.infer, t.hold))
	}
	// other callers of acceptLineWith must record (infer=false): insert-comment, autosuggest-execute via acceptLine
	for _, e := range p.callersOf(AW) {
		cf := e.Caller.Func
		known := false
		for _, t := range table {
			if reg.Cmds[t.cmd] == cf {
				known = true
			}
		}
		if known || e.Site == nil {
			continue
		}
		args := e.Site.Common().Args
		gi, ok := constBool(args[idxInferAW])
		key := fnName(cf) + ":acceptLineWith"
		r.Check(ok && !gi, "C08.infer-args", key, p.Pos(e.Pos()), "records (infer=false)", "a non-replay command calls acceptLineWith with infer != false")
	}

	// ---- one Accept per path (K1)
	r.Rule("C08.one-accept", "K1", "no path executes Accept twice in one command", 5)
	for _, e := range p.callersOf(A) {
		cf := e.Caller.Func
		if e.Site == nil {
			continue
		}
		r.CallSites++
		again := pathAvoiding(cf, e.Site, func(in ssa.Instruction) bool { return isCallTo(in, fnSourcesAccept) }, nil)
		key := fmt.Sprintf("%s:Accept@%s", fnName(cf), ordinalOf(cf, e.Site, fnSourcesAccept))
		r.Check(again == nil, "C08.one-accept", key, p.Pos(e.Pos()), "no second Accept after this one", "a second Accept is reachable after this one: the line would be recorded twice")
	}

	// ---- the in-memory source appends exactly its argument once (K1+K3)
	r.Rule("C08.memory-append", "K3", "(*memory).Write stores append(items, s) exactly once on every path", 1)
	if MW := p.Func("(*history.memory).Write"); MW != nil {
		r.Fn(fnName(MW))
		var stores []*ssa.Store
		eachInstr(MW, func(in ssa.Instruction) {
			if st, ok := in.(*ssa.Store); ok {
				if tn, f, ok := fieldOf(st.Addr); ok && tn == "history.memory" && f == "items" {
					stores = append(stores, st)
				}
			}
		})
		key := fnName(MW) + ":store(items)"
		if len(stores) != 1 {
			r.Bad("C08.memory-append", key, p.Pos(MW.Pos()), fmt.Sprintf("expected exactly one store to items, found %d", len(stores)))
		} else {
			st := stores[0]
			good := false
			if cl, ok := st.Val.(*ssa.Call); ok {
				if b, ok := cl.Call.Value.(*ssa.Builtin); ok && b.Name() == "append" {
					// second arg: slice of a 1-array holding param s
					leaves := backSlice(cl.Call.Args[1], &SliceOpts{P: p, IsSource: func(v ssa.Value) bool { return v == ssa.Value(MW.Params[1]) }})
					good = len(leaves) == 1 && leaves[0].Kind == LeafSource
					if u, ok := cl.Call.Args[0].(*ssa.UnOp); !ok || u.Op != token.MUL {
						good = false
					} else if tn, f, ok := fieldOf(u.X); !ok || tn != "history.memory" || f != "items" {
						good = false
					}
				}
			}
			// every return passes the store
			miss := pathAvoiding(MW, nil, isReturn, func(in ssa.Instruction) bool { return in == ssa.Instruction(st) })
			r.Check(good && miss == nil, "C08.memory-append", key, p.IPos(st), "items = append(items, s) on every path", "in-memory history does not append exactly its argument on every path")
		}
	} else {
		r.Unk("C08.memory-append", "(*history.memory).Write", "-", "anchor not found")
	}
	checkC08WriteGuard(c)
	checkSizeSentinel(c)
}

// ordinalOf numbers a call site among the calls to callee in fn (source order).
func ordinalOf(fn *ssa.Function, site ssa.CallInstruction, callee string) string {
	cs := callsTo(fn, false, callee)
	sortCallsByPos(cs)
	for i, c := range cs {
		if c == site {
			return fmt.Sprintf("#%d", i)
		}
	}
	return "#?"
}

// nonBlankFact recognises facts meaning "TrimSpace(x) is not empty" with x accepted by isText.
func nonBlankFact(f Fact, isText func(ssa.Value) bool) bool {
	rel, ok := relOf(f.Cond, f.Val)
	if !ok {
		return false
	}
	trimOf := func(v ssa.Value) (ssa.Value, bool) {
		cl, ok := v.(*ssa.Call)
		if !ok || calleeName(cl) != "strings.TrimSpace" {
			return nil, false
		}
		return cl.Call.Args[0], true
	}
	lenOfTrim := func(v ssa.Value) (ssa.Value, bool) {
		cl, ok := v.(*ssa.Call)
		if !ok {
			return nil, false
		}
		if b, ok := cl.Call.Value.(*ssa.Builtin); !ok || b.Name() != "len" {
			return nil, false
		}
		return trimOf(cl.Call.Args[0])
	}
	// len(TrimSpace(x)) != 0 / > 0 / 0 < …
	if x, ok := lenOfTrim(rel.X); ok {
		if k, ok := constInt(rel.Y); ok && isText(x) {
			if (k == 0 && (rel.Op == token.NEQ || rel.Op == token.GTR)) || (k == 1 && rel.Op == token.GEQ) {
				return true
			}
		}
	}
	if x, ok := lenOfTrim(rel.Y); ok {
		if k, ok := constInt(rel.X); ok && isText(x) {
			if (k == 0 && (rel.Op == token.NEQ || rel.Op == token.LSS)) || (k == 1 && rel.Op == token.LEQ) {
				return true
			}
		}
	}
	// TrimSpace(x) != ""
	if x, ok := trimOf(rel.X); ok {
		if s, ok := constString(rel.Y); ok && s == "" && rel.Op == token.NEQ && isText(x) {
			return true
		}
	}
	if x, ok := trimOf(rel.Y); ok {
		if s, ok := constString(rel.X); ok && s == "" && rel.Op == token.NEQ && isText(x) {
			return true
		}
	}
	return false
}
