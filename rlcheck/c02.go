package main

import (
	"fmt"
	"go/ast"
	"go/constant"
	"go/token"
	"go/types"
	"sort"
	"strings"

	"golang.org/x/tools/go/ssa"
)

func init() {
	propFuncs["C02"] = checkC02
	propFuncs["C04"] = checkC04
}

// selfInsertKeys extracts, per keymap of inputrc.DefaultBinds, the single
// characters whose default binding is self-insert. Keys are written as
// Unescape(`x`) with a constant argument; only the trivial notations (one
// character, or backslash + one of \ " ') are interpreted — no code is run.
func selfInsertKeys(p *Prog) (map[string]map[rune]bool, bool) {
	pk := p.Pkg("inputrc")
	if pk == nil {
		return nil, false
	}
	out := map[string]map[rune]bool{}
	found := false
	for _, file := range pk.Syntax {
		for _, d := range file.Decls {
			fd, ok := d.(*ast.FuncDecl)
			if !ok || fd.Name.Name != "DefaultBinds" || fd.Body == nil {
				continue
			}
			found = true
			ast.Inspect(fd.Body, func(n ast.Node) bool {
				kv, ok := n.(*ast.KeyValueExpr)
				if !ok {
					return true
				}
				kmName := ""
				if tv, ok := pk.TypesInfo.Types[kv.Key]; ok && tv.Value != nil && tv.Value.Kind() == constant.String {
					kmName = constant.StringVal(tv.Value)
				}
				inner, ok := kv.Value.(*ast.CompositeLit)
				if kmName == "" || !ok {
					return true
				}
				set := map[rune]bool{}
				for _, el := range inner.Elts {
					ikv, ok := el.(*ast.KeyValueExpr)
					if !ok {
						continue
					}
					call, ok := ikv.Key.(*ast.CallExpr)
					if !ok || len(call.Args) != 1 {
						continue
					}
					tv, ok := pk.TypesInfo.Types[call.Args[0]]
					if !ok || tv.Value == nil || tv.Value.Kind() != constant.String {
						continue
					}
					s := constant.StringVal(tv.Value)
					var key rune = -1
					rs := []rune(s)
					switch {
					case len(rs) == 1:
						key = rs[0]
					case len(rs) == 2 && rs[0] == '\\' && strings.ContainsRune(`\"'`, rs[1]):
						key = rs[1]
					}
					if key < 0 {
						continue
					}
					// action
					if bl, ok := ikv.Value.(*ast.CompositeLit); ok && len(bl.Elts) > 0 {
						first := bl.Elts[0]
						if ekv, ok := first.(*ast.KeyValueExpr); ok {
							first = ekv.Value
						}
						if av, ok := pk.TypesInfo.Types[first]; ok && av.Value != nil && av.Value.Kind() == constant.String && constant.StringVal(av.Value) == "self-insert" {
							set[key] = true
						}
					}
				}
				if len(set) > 0 {
					out[kmName] = set
				}
				return false
			})
		}
	}
	return out, found
}

func unitRule(c *Ctx, rule string, scope []string, min int) {
	p, r := c.P, c.R
	r.Rule(rule, "K7", "no BYTES / COLS quantity reaches a RUNES sink (index, slice bound, cursor/line position) and no BYTES/RUNES quantity a COLS sink, in: "+strings.Join(scope, ", "), min)
	e := newUnitEngine(p)
	var fns []*ssa.Function
	for _, n := range scope {
		if strings.HasSuffix(n, "/*") {
			pk := p.Pkg(strings.TrimSuffix(n, "/*"))
			if pk == nil {
				r.Unk(rule, "scope:"+n, "-", "package not found")
				continue
			}
			for _, f := range p.RepoFuncs {
				if f.Package() != nil && f.Package().Pkg == pk.Types {
					fns = append(fns, f)
				}
			}
			continue
		}
		f := p.Func(n)
		if f == nil {
			r.Unk(rule, "scope:"+n, "-", "anchor not found — scope table needs review")
			continue
		}
		fns = append(fns, withAnons(f)...)
	}
	fs := e.allFindings(fns)
	keys := unitFindingKeys(fs)
	for i, f := range fs {
		why := f.Why
		if why != "" {
			why = " (" + why + ")"
		}
		r.Fn(fnName(f.Fn))
		r.Bad(rule, keys[i], p.IPos(f.In), fmt.Sprintf("a %s quantity is used as %s at `%s`%s: wrong for every text containing a multi-byte or double-width character", f.Got, f.Want, f.In.String(), why))
	}
	// non-vacuity: sinks in scope whose operand has a known, correct unit
	nOK := 0
	for _, f := range fns {
		r.Fn(fnName(f))
		k := 0
		eachInstr(f, func(in ssa.Instruction) {
			call, ok := in.(ssa.CallInstruction)
			if !ok {
				return
			}
			n := calleeName(call)
			args := call.Common().Args
			for _, i := range runeSinks[n] {
				if i < len(args) && e.unitOf(args[i]) == URunes {
					nOK++
					r.OK(rule, fmt.Sprintf("%s:%s:arg%d#%d", fnName(f), n, i, k), p.IPos(in), "RUNES at a RUNES sink")
					k++
				}
			}
			for _, i := range colSinks[n] {
				if i < len(args) && e.unitOf(args[i]) == UCols {
					nOK++
					r.OK(rule, fmt.Sprintf("%s:%s:arg%d#%d", fnName(f), n, i, k), p.IPos(in), "COLS at a COLS sink")
					k++
				}
			}
		})
	}
	r.Extra[rule+".functions_in_scope"] = len(fns)
}

func checkC02(c *Ctx) {
	p, r := c.P, c.R
	r.Explanation = "Decided statically on the insertion path: self-insert, on every path that does not take the autopair jump, inserts through Cursor.InsertAt a value that derives only from the caller keys (Keys.Caller(), optionally through strutil.Quote); no column or byte quantity is used as a character position on that path (unit analysis) — in particular the cursor advances by the runes inserted; Line.Insert assembles head + inserted runes + tail with the tail copied out before the in-place append; every printable ASCII character 0x20–0x7E has a default self-insert binding in the emacs and vi-insert keymaps; the meta conversion of a read chunk is applied only when convert-meta is on. NOT decided: end-to-end fidelity for non-ASCII text — whether a UTF-8 byte sequence reaches self-insert depends on bind tables built at start-up (after ConvertMeta) and on byte-wise dispatch, which is value-level; on this tree it does not hold for non-ASCII input and static analysis cannot decide it either way."
	r.Trusted = []string{"go/packages type checker (constants of the default bind tables)", "go/ssa construction", "unit tables in rlcheck/k7_units.go"}
	r.Assumptions = []string{"keys reach self-insert as the caller keys of the dispatcher (C03)"}

	SI := p.Func("(*readline.Shell).selfInsert")
	r.Rule("C02.anchors", "K0", "anchored functions resolve", 1)
	if SI == nil {
		r.Unk("C02.anchors", "(*readline.Shell).selfInsert", "-", "anchor not found")
		return
	}
	r.OK("C02.anchors", "(*readline.Shell).selfInsert", p.Pos(SI.Pos()), "")
	r.Fn(fnName(SI))

	// ---- insert-flow (K3+K1)
	r.Rule("C02.insert-flow", "K3", "self-insert inserts (Cursor.InsertAt) exactly the caller key, optionally quoted, on every path except the autopair jump", 2)
	{
		ins := callsTo(SI, false, "(*core.Cursor).InsertAt")
		if len(ins) != 1 {
			r.Bad("C02.insert-flow", fnName(SI)+":InsertAt", p.Pos(SI.Pos()), fmt.Sprintf("expected one InsertAt call, found %d", len(ins)))
		} else {
			call := ins[0]
			leaves := backSlice(call.Common().Args[1], &SliceOpts{P: p, ElemOf: true, IsSource: func(v ssa.Value) bool { return isCallNamed(v, "(*core.Keys).Caller") }, Through: func(cl *ssa.Call) []ssa.Value {
				if calleeName(cl) == "strutil.Quote" {
					return cl.Call.Args
				}
				return nil
			}})
			ok, why := leavesAll(p, leaves, true)
			r.Check(ok, "C02.insert-flow", fnName(SI)+":inserted-value", p.IPos(call), "derives from Keys.Caller() (through Quote)", "self-insert inserts something that is not the typed key: "+why)
			// every path to return passes InsertAt, except the autopair return
			bf := blockFacts(SI)
			var bad ssa.Instruction
			pathAvoiding(SI, nil, func(in ssa.Instruction) bool {
				if !isReturn(in) || in.Block() == SI.Recover {
					return false
				}
				for fc := range bf[in.Block()] {
					if isCallNamed(fc.Cond, "completion.AutopairInsertOrJump") && fc.Val {
						return false
					}
				}
				bad = in
				return true
			}, func(in ssa.Instruction) bool { return in == ssa.Instruction(call) })
			r.Check(bad == nil, "C02.insert-flow", fnName(SI)+":every-path-inserts", p.Pos(SI.Pos()), "only the autopair jump skips the insertion", "a path through self-insert returns without inserting the typed character")
		}
	}

	// ---- units on the insertion path (K7)
	unitRule(c, "C02.units", []string{"(*readline.Shell).selfInsert", "(*readline.Shell).quotedInsert", "(*readline.Shell).tabInsert", "(*core.Cursor).InsertAt", "(*core.Line).Insert", "strutil.Quote", "completion.AutopairInsertOrJump"}, 2)

	// ---- Line.Insert: tail copied before the in-place append (K1)
	r.Rule("C02.line-insert-order", "K1", "Line.Insert copies the tail of the line out (string conversion) before appending in place to its head; every assignment to the line derives only from the line and the inserted runes", 2)
	if LI := p.Func("(*core.Line).Insert"); LI != nil {
		r.Fn(fnName(LI))
		var inplace *ssa.Call
		var tail *ssa.Convert
		eachInstr(LI, func(in ssa.Instruction) {
			if cl, ok := in.(*ssa.Call); ok {
				if b, ok := cl.Call.Value.(*ssa.Builtin); ok && b.Name() == "append" {
					if sl, ok := cl.Call.Args[0].(*ssa.Slice); ok && sl.High != nil {
						inplace = cl
					}
				}
			}
			if cv, ok := in.(*ssa.Convert); ok && typeStr(cv.Type()) == "string" {
				if sl, ok := cv.X.(*ssa.Slice); ok && sl.Low != nil && sl.High == nil {
					tail = cv
				}
			}
		})
		if inplace == nil {
			r.OK("C02.line-insert-order", fnName(LI)+":tail-before-append", p.Pos(LI.Pos()), "no in-place append to a prefix of the line")
		} else {
			r.Check(tail != nil && instrDominates(tail, inplace), "C02.line-insert-order", fnName(LI)+":tail-before-append", p.IPos(inplace), "tail copied first", "Line.Insert appends in place to line[:pos] before (or without) copying line[pos:] out: the characters after the insertion point are overwritten")
		}
		// stores to *l derive only from *l and chars
		okSrc := true
		why := ""
		eachInstr(LI, func(in ssa.Instruction) {
			st, ok := in.(*ssa.Store)
			if !ok || st.Addr != ssa.Value(LI.Params[0]) {
				return
			}
			leaves := backSlice(st.Val, &SliceOpts{P: p, IsSource: func(v ssa.Value) bool {
				if v == ssa.Value(LI.Params[2]) {
					return true
				}
				if u, ok := v.(*ssa.UnOp); ok && u.Op == token.MUL && u.X == ssa.Value(LI.Params[0]) {
					return true
				}
				_, isPhi := v.(*ssa.Phi)
				return isPhi && typeStr(v.Type()) == "[]rune"
			}})
			if ok2, w := leavesAll(p, leaves, true); !ok2 {
				okSrc = false
				why = w
			}
		})
		r.Check(okSrc, "C02.line-insert-order", fnName(LI)+":sources", p.Pos(LI.Pos()), "line := f(line, chars)", "Line.Insert assigns the line from something other than the line and the inserted runes: "+why)
	} else {
		r.Unk("C02.line-insert-order", "(*core.Line).Insert", "-", "anchor not found")
	}

	// ---- printable ASCII is self-insert by default (K5)
	r.Rule("C02.ascii-self-insert", "K5", "every printable ASCII character has a default self-insert binding in the emacs and vi-insert keymaps", 2)
	if tbl, ok := selfInsertKeys(p); !ok {
		r.Unk("C02.ascii-self-insert", "inputrc.DefaultBinds", "-", "DefaultBinds not found")
	} else {
		for _, km := range []string{"emacs", "vi-insert"} {
			var missing []string
			for ch := rune(0x20); ch <= 0x7e; ch++ {
				if !tbl[km][ch] {
					missing = append(missing, fmt.Sprintf("%q", ch))
				}
			}
			sort.Strings(missing)
			r.Check(len(missing) == 0, "C02.ascii-self-insert", "keymap:"+km, "-", fmt.Sprintf("%d self-insert keys", len(tbl[km])), "no default self-insert binding for "+strings.Join(missing, " ")+": typing it inserts nothing (or runs another command)")
		}
	}

	// ---- convert-meta guard (K4)
	r.Rule("C02.convert-meta-guard", "K4", "the meta conversion of a read chunk happens only under convert-meta == true", 1)
	if W := p.Func("core.WaitAvailableKeys"); W != nil {
		r.Fn(fnName(W))
		bf := blockFacts(W)
		n := 0
		for _, call := range callsTo(W, false, "strutil.ConvertMeta") {
			n++
			ok := false
			for fc := range factsAt(bf, call) {
				if cl, isC := fc.Cond.(*ssa.Call); isC && fc.Val && calleeName(cl) == "(*inputrc.Config).GetBool" {
					if s, isS := constString(cl.Call.Args[1]); isS && s == "convert-meta" {
						ok = true
					}
				}
			}
			r.Check(ok, "C02.convert-meta-guard", fnName(W)+":ConvertMeta", p.IPos(call), "under convert-meta", "typed bytes are meta-converted without convert-meta being on: UTF-8 text is rewritten into ESC-prefixed keys under the usual UTF-8 settings")
		}
		if n == 0 {
			r.OK("C02.convert-meta-guard", fnName(W)+":ConvertMeta", p.Pos(W.Pos()), "no conversion of read chunks")
		}
	} else {
		r.Unk("C02.convert-meta-guard", "core.WaitAvailableKeys", "-", "anchor not found")
	}

	checkC02Multibyte(c)
	checkC02AnyLength(c)
	checkRound4Misc(c, "C02")
	checkLineSetReplaces(c, "C02.set-replaces")
	checkC02TrimAndQuote(c)
	checkReturnedLine(c, "C02.returned-line")
	checkRound5Small(c, "C02")
}

var utf8Decoders = []string{"unicode/utf8.FullRune", "unicode/utf8.DecodeRune", "unicode/utf8.FullRuneInString", "unicode/utf8.DecodeRuneInString", "unicode/utf8.DecodeLastRune", "unicode/utf8.RuneLen"}

// checkC02Multibyte: the binds are matched one byte at a time and every bound
// sequence is made of runes <= 0xff (after ConvertMeta: of bytes < 0x80 and
// the three bytes of U+FFFD), so the first byte of a UTF-8 encoded character
// can only ever fail to match. A typed multibyte character therefore reaches
// the line only if the main dispatcher itself assembles it and hands it to
// self-insert. Decided structurally: on MatchMain's path some function of the
// keymap package applies a UTF-8 decoding primitive to the read keys, extends
// them from the key queue, yields the constant self-insert bind, and asks to
// wait (prefix == true) when the queue runs dry in mid-character.
func checkC02Multibyte(c *Ctx) {
	p, r := c.P, c.R
	r.Rule("C02.multibyte-dispatch", "K1", "the main dispatcher assembles a multibyte UTF-8 character that matched no bind from the key queue and binds it whole to self-insert (waiting for its last bytes when they are not read yet)", 4)
	MM := p.Func("keymap.MatchMain")
	if MM == nil {
		r.Unk("C02.multibyte-dispatch", "keymap.MatchMain", "-", "anchor not found")
		return
	}
	r.Fn(fnName(MM))
	// candidate functions: MatchMain and its static callees in package keymap (depth 2)
	cands := []*ssa.Function{MM}
	seen := map[*ssa.Function]bool{MM: true}
	for d := 0; d < 2; d++ {
		for _, f := range append([]*ssa.Function{}, cands...) {
			eachInstr(f, func(in ssa.Instruction) {
				if ci, ok := in.(ssa.CallInstruction); ok {
					if cal := staticCallee(ci); cal != nil && !seen[cal] && (strings.HasPrefix(fnName(cal), "(*keymap.Engine).") || strings.HasPrefix(fnName(cal), "keymap.")) {
						seen[cal] = true
						cands = append(cands, cal)
					}
				}
			})
		}
	}
	var asm *ssa.Function
	for _, f := range cands {
		if len(callsTo(f, false, utf8Decoders...)) > 0 {
			asm = f
			break
		}
	}
	if asm == nil {
		r.Bad("C02.multibyte-dispatch", "keymap.MatchMain:assembles", p.Pos(MM.Pos()), "no function on the main dispatch path decodes UTF-8: each byte of a typed multibyte character is matched alone against binds that hold no such byte, and dropped as an undefined key (\"héllo\" is returned as \"hllo\")")
		return
	}
	r.Fn(fnName(asm))
	r.OK("C02.multibyte-dispatch", "keymap.MatchMain:assembles", p.Pos(asm.Pos()), fnName(asm)+" decodes the read keys")
	// (b) the constant self-insert bind is produced there (or in MatchMain under it)
	selfIns := false
	eachInstr(asm, func(in ssa.Instruction) {
		if st, ok := in.(*ssa.Store); ok {
			if s, isS := constString(st.Val); isS && s == "self-insert" {
				if t, f, ok := fieldOf(st.Addr); ok && t == "inputrc.Bind" && f == "Action" {
					selfIns = true
				}
			}
		}
	})
	r.Check(selfIns, "C02.multibyte-dispatch", fnName(asm)+":self-insert", p.Pos(asm.Pos()), "yields Bind{Action: self-insert}", "the assembled character is not bound to self-insert")
	// (c) the character is extended from the key queue and the popped bytes join the returned keys
	pops := callsTo(asm, false, "core.PopKey")
	peeks := callsTo(asm, false, "core.PeekKey")
	r.Check(len(pops) > 0 && len(peeks) > 0, "C02.multibyte-dispatch", fnName(asm)+":reads-queue", p.Pos(asm.Pos()), "continuation bytes are peeked and popped from the key queue", "the rest of the character is not taken from the key queue: its continuation bytes are dispatched as keys of their own")
	// (d) queue empty in mid-character: prefix == true is returned
	waits := false
	bf := blockFacts(asm)
	eachInstr(asm, func(in ssa.Instruction) {
		ret, ok := in.(*ssa.Return)
		if !ok || len(ret.Results) < 2 {
			return
		}
		for fc := range factsAt(bf, in) {
			ex, isE := fc.Cond.(*ssa.Extract)
			if !isE || !fc.Val || ex.Index != 1 {
				continue
			}
			if cl, isC := ex.Tuple.(*ssa.Call); isC && calleeName(cl) == "core.PeekKey" {
				if b, isK := constBool(ret.Results[1]); isK && b {
					waits = true
				}
			}
		}
	})
	r.Check(waits, "C02.multibyte-dispatch", fnName(asm)+":waits-for-rest", p.Pos(asm.Pos()), "returns prefix == true when the queue is empty in mid-character", "when the last bytes of a character are not read yet the dispatcher does not wait for them: a character split over two terminal reads is dropped")
}

// checkC02TrimAndQuote: the two helpers self-insert runs around the insertion
// must not alter typed text: TrimSuffix removes a rune only for a registered
// (non-empty) suffix matcher, and what Quote/Unescape make of a single
// ordinary rune is that rune.
func checkC02TrimAndQuote(c *Ctx) {
	p, r := c.P, c.R
	r.Rule("C02.trim-needs-matcher", "K4", "completion.TrimSuffix (run by every self-insert) removes text only when a suffix matcher was registered (its string is non-empty)", 1)
	if TS := p.Func("(*completion.Engine).TrimSuffix"); TS != nil {
		r.Fn(fnName(TS))
		bf := blockFacts(TS)
		n := 0
		for _, call := range callsTo(TS, false, "(*core.Line).CutRune", "(*core.Line).Cut") {
			ok := false
			for fc := range factsAt(bf, call) {
				rel, isR := relOf(fc.Cond, fc.Val)
				if !isR {
					continue
				}
				isSM := func(v ssa.Value) bool {
					_, f, ok := fieldRead(v)
					return ok && f == "string"
				}
				if s, isS := constString(rel.Y); isS && s == "" && rel.Op == token.NEQ && isSM(rel.X) {
					ok = true
				}
			}
			r.Check(ok, "C02.trim-needs-matcher", siteKey(TS, "cut", n), p.IPos(call), "under sm.string != \"\"", "TrimSuffix cuts a rune of the line without having a registered suffix matcher: the zero-value matcher (position 0) is taken for live, and typing a space as the second character deletes the first one")
			n++
		}
		if n == 0 {
			r.OK("C02.trim-needs-matcher", fnName(TS)+":no-cut", p.Pos(TS.Pos()), "TrimSuffix removes nothing")
		}
	} else {
		r.Unk("C02.trim-needs-matcher", "(*completion.Engine).TrimSuffix", "-", "anchor not found")
	}

	// a matcher registered elsewhere than at the cursor is dropped, not kept for a later line
	r.Rule("C02.trim-orphan-dropped", "K1", "when the suffix matcher was registered at another position than the character before the cursor, TrimSuffix drops it (stores Engine.sm) before returning: nothing else ever resets the matcher, so an orphan kept alive removes a typed character of a later line that happens to stand at the same index", 1)
	if TS := p.Func("(*completion.Engine).TrimSuffix"); TS != nil {
		n := 0
		eachInstr(TS, func(in ssa.Instruction) {
			iff, ok := in.(*ssa.If)
			if !ok {
				return
			}
			bo, ok := iff.Cond.(*ssa.BinOp)
			if !ok || (bo.Op != token.NEQ && bo.Op != token.EQL) {
				return
			}
			isPos := func(v ssa.Value) bool { return isFieldLoad(v, "completion.SuffixMatcher", "pos") }
			if !isPos(bo.X) && !isPos(bo.Y) {
				return
			}
			mism := iff.Block().Succs[0]
			if bo.Op == token.EQL {
				mism = iff.Block().Succs[1]
			}
			// a path from the mismatch successor to a return that never stores Engine.sm
			seen := map[*ssa.BasicBlock]bool{}
			var leak ssa.Instruction
			var dfs func(b *ssa.BasicBlock)
			dfs = func(b *ssa.BasicBlock) {
				if seen[b] || leak != nil {
					return
				}
				seen[b] = true
				for _, x := range b.Instrs {
					if _, isSt := isFieldStore(x, "completion.Engine", "sm"); isSt {
						return
					}
					if isReturn(x) {
						leak = x
						return
					}
				}
				for _, s := range b.Succs {
					dfs(s)
				}
			}
			dfs(mism)
			r.Check(leak == nil, "C02.trim-orphan-dropped", siteKey(TS, "position-mismatch", n), p.IPos(iff), "the orphan matcher is dropped on every path", "when the matcher's position is not the character before the cursor TrimSuffix can return without dropping it: the matcher of a candidate completed on an earlier line stays armed, and a typed '/' (or other designated character) at that index of a later line is deleted when a space follows")
			n++
		})
		if n == 0 {
			r.Unk("C02.trim-orphan-dropped", fnName(TS)+":position-test", p.Pos(TS.Pos()), "TrimSuffix does not compare the matcher's position: anchor changed")
		}
	}

	r.Rule("C02.quote-identity", "K4", "strutil.Quote turns an ordinary rune into itself: either it does not run it through the inputrc escape interpreter, or the interpreter returns a one-rune input unchanged (a typed backslash is not the start of an escape)", 1)
	Q := p.Func("strutil.Quote")
	if Q == nil {
		r.Unk("C02.quote-identity", "strutil.Quote", "-", "anchor not found")
		return
	}
	r.Fn(fnName(Q))
	if len(callsTo(Q, false, "inputrc.Unescape")) == 0 {
		r.OK("C02.quote-identity", "strutil.Quote:ordinary-rune", p.Pos(Q.Pos()), "Quote does not interpret the rune")
		return
	}
	UR := p.Func("inputrc.unescapeRunes")
	if UR == nil || len(UR.Params) == 0 {
		r.Unk("C02.quote-identity", "inputrc.unescapeRunes", "-", "anchor not found")
		return
	}
	r.Fn(fnName(UR))
	bf := blockFacts(UR)
	ok := false
	eachInstr(UR, func(in ssa.Instruction) {
		ret, isR := in.(*ssa.Return)
		if !isR || len(ret.Results) != 1 {
			return
		}
		cv, isC := ret.Results[0].(*ssa.Convert)
		if !isC || cv.X != ssa.Value(UR.Params[0]) {
			return
		}
		for fc := range factsAt(bf, in) {
			rel, isRel := relOf(fc.Cond, fc.Val)
			if !isRel || rel.Op != token.EQL {
				continue
			}
			if k, isK := constInt(rel.Y); isK && k == 1 && isLenOf(rel.X, UR.Params[0]) {
				ok = true
			}
		}
	})
	r.Check(ok, "C02.quote-identity", "strutil.Quote:ordinary-rune", p.Pos(UR.Pos()), "Unescape returns a one-rune input unchanged", "Quote runs every typed rune through inputrc.Unescape, and unescapeRunes no longer returns a one-rune input as it is: a typed backslash is decoded as an (empty) escape and inserted as U+0000")
}

func isLenOf(v ssa.Value, of ssa.Value) bool {
	cl, ok := v.(*ssa.Call)
	if !ok {
		return false
	}
	b, ok := cl.Call.Value.(*ssa.Builtin)
	return ok && b.Name() == "len" && len(cl.Call.Args) == 1 && cl.Call.Args[0] == of
}

// ---------------------------------------------------------------------------

func checkC04(c *Ctx) {
	p, r := c.P, c.R
	r.Explanation = "Decided statically on the redisplay path: Refresh recomputes the coordinates (computeCoordinates) before it prints the line, the helpers and the two relative cursor moves, on every path, between HideCursor and ShowCursor; AcceptLine moves to the line start with the old coordinates before recomputing; the coordinate fields are written only by computeCoordinates (and the helper-row counters by displayHelpers); in every function of the display path — display engine, core display/coordinate functions, line-position helpers, strutil width functions, prompt — no byte count is used where runes are needed (slicing the rune buffer, comparing with the cursor position) and no byte or rune count where terminal columns are needed (unit analysis); DisplayLine measures rows in columns when deciding to clear to the end of line. NOT decided: the painted cell grid itself, which needs a terminal model interpreting the escape stream — a dynamic oracle; wrapping arithmetic for rows that exactly fill the terminal is value-level."
	r.Trusted = []string{"go/packages type checker", "go/ssa construction", "unit tables in rlcheck/k7_units.go"}
	r.Assumptions = []string{"uniseg.StringWidth is the terminal's column width of a string", "the terminal answers cursor position queries"}

	RF, AL, CC := p.Func("(*display.Engine).Refresh"), p.Func(fnAcceptDisp), p.Func("(*display.Engine).computeCoordinates")
	r.Rule("C04.anchors", "K0", "anchored functions resolve", 3)
	miss := false
	for n, f := range map[string]*ssa.Function{"(*display.Engine).Refresh": RF, fnAcceptDisp: AL, "(*display.Engine).computeCoordinates": CC} {
		if f == nil {
			r.Unk("C04.anchors", n, "-", "anchor not found")
			miss = true
		} else {
			r.OK("C04.anchors", n, p.Pos(f.Pos()), "")
			r.Fn(n)
		}
	}
	if miss {
		return
	}

	// ---- order (K1)
	r.Rule("C04.order", "K1", "Refresh computes coordinates before every print/move that uses them, inside HideCursor…ShowCursor; AcceptLine returns to the line start before recomputing", 6)
	isCC := func(in ssa.Instruction) bool { return isCallTo(in, "(*display.Engine).computeCoordinates") }
	for _, user := range []string{"(*display.Engine).displayLine", "(*display.Engine).displayMultilinePrompts", "(*display.Engine).displayHelpers", "(*display.Engine).cursorHintToLineStart", "(*display.Engine).lineStartToCursorPos"} {
		calls := callsTo(RF, false, user)
		if len(calls) == 0 {
			r.Bad("C04.order", fnName(RF)+":"+user, p.Pos(RF.Pos()), "Refresh no longer calls "+user)
			continue
		}
		for _, call := range calls {
			ok, _ := mustPassBefore(RF, nil, func(in ssa.Instruction) bool { return in == ssa.Instruction(call) }, isCC)
			r.Check(ok, "C04.order", fnName(RF)+":computeCoordinates→"+user, p.IPos(call), "coordinates are fresh", user+" runs in Refresh before the coordinates have been recomputed: it lays out the new buffer with the previous buffer's geometry")
		}
	}
	{
		printsConst := func(in ssa.Instruction, want string) bool {
			cl, ok := in.(*ssa.Call)
			if !ok || !strings.HasPrefix(calleeName(cl), "fmt.Print") {
				return false
			}
			for _, a := range cl.Call.Args {
				for _, l := range backSlice(a, &SliceOpts{P: p, ElemOf: true}) {
					if s, ok := constString(l.V); ok && s == want {
						return true
					}
				}
			}
			return false
		}
		okHide, _ := mustPassBefore(RF, nil, func(in ssa.Instruction) bool {
			_, isCall := in.(ssa.CallInstruction)
			return isCall && !printsConst(in, "\x1b[?25l")
		}, func(in ssa.Instruction) bool { return printsConst(in, "\x1b[?25l") })
		okShow, _ := mustPassBefore(RF, nil, isReturn, func(in ssa.Instruction) bool { return printsConst(in, "\x1b[?25h") })
		r.Check(okHide && okShow, "C04.order", fnName(RF)+":hide…show", p.Pos(RF.Pos()), "cursor hidden first, shown last on every path", "Refresh does not bracket its output with HideCursor … ShowCursor on every path")
	}
	{
		starts := callsTo(AL, false, "(*display.Engine).CursorToLineStart")
		ccs := callsTo(AL, false, "(*display.Engine).computeCoordinates")
		ok := len(starts) > 0 && len(ccs) > 0
		if ok {
			ok = instrDominates(starts[0], ccs[0])
		}
		r.Check(ok, "C04.order", fnAcceptDisp+":CursorToLineStart→computeCoordinates", p.Pos(AL.Pos()), "old coordinates used before recomputing", "AcceptLine recomputes the coordinates before going back to the line start (which needs the old cursor coordinates)")
	}

	// ---- only writer (K2)
	r.Rule("C04.only-writer", "K2", "the coordinate fields are written only by computeCoordinates", 6)
	coord := map[string]bool{"startCols": true, "startRows": true, "lineCol": true, "lineRows": true, "cursorCol": true, "cursorRow": true}
	for _, f := range p.RepoFuncs {
		eachInstr(f, func(in ssa.Instruction) {
			st, ok := in.(*ssa.Store)
			if !ok {
				return
			}
			tn, fld, ok := fieldOf(st.Addr)
			if !ok || tn != "display.Engine" || !coord[fld] {
				return
			}
			key := fnName(f) + ":store(" + fld + ")"
			r.Check(f == CC, "C04.only-writer", key, p.IPos(in), "written by computeCoordinates", "display coordinate "+fld+" is written outside computeCoordinates: the next relative cursor move uses a value that does not describe the screen")
		})
	}

	// ---- units (K7)
	unitRule(c, "C04.units", []string{"internal/display/*", "core.DisplayLine", "core.CoordinatesLine", "core.CoordinatesCursor", "(*core.Line).newlines", "(*core.Line).Lines",
		"(*core.Cursor).LinePos", "(*core.Cursor).AtBeginningOfLine", "(*core.Cursor).AtEndOfLine", "(*core.Cursor).moveLineDown", "(*core.Cursor).moveLineUp", "(*core.Cursor).BeginningOfLine", "(*core.Cursor).EndOfLine", "(*core.Cursor).EndOfLineAppend",
		"strutil.LineSpan", "strutil.RealLength", "internal/ui/*"}, 2)

	// ---- tab width agreement (K5)
	r.Rule("C04.tab-width", "K5", "the blanks a tab is printed as (FormatTabs) and the blanks it is measured as (RealLength, and any other tab expansion of the module) are the same string", 2)
	{
		type site struct {
			fn  *ssa.Function
			in  ssa.Instruction
			rep string
		}
		var sites []site
		for _, f := range p.RepoFuncs {
			eachInstr(f, func(in ssa.Instruction) {
				if !isCallTo(in, "strings.ReplaceAll", "strings.Replace") {
					return
				}
				args := in.(ssa.CallInstruction).Common().Args
				if old, ok := constString(args[1]); ok && old == "\t" {
					rep, isK := constString(args[2])
					if !isK {
						rep = "<not constant>"
					}
					sites = append(sites, site{f, in, rep})
				}
			})
		}
		printed := ""
		for _, s := range sites {
			if fnName(s.fn) == "strutil.FormatTabs" {
				printed = s.rep
			}
		}
		k := map[string]int{}
		for _, s := range sites {
			r.Fn(fnName(s.fn))
			key := fmt.Sprintf("%s:tab-expansion#%d", fnName(s.fn), k[fnName(s.fn)])
			k[fnName(s.fn)]++
			r.Check(printed != "" && s.rep == printed, "C04.tab-width", key, p.IPos(s.in), fmt.Sprintf("%d blanks, as printed", len(s.rep)), fmt.Sprintf("a tab is measured as %q here but printed as %q by FormatTabs: every tab before the cursor shifts the computed cursor cell away from the printed text", s.rep, printed))
		}
		if printed == "" {
			r.Unk("C04.tab-width", "strutil.FormatTabs", "-", "the printed tab expansion was not found")
		}
	}

	// ---- the row entered by the explicit newline is cleared (K1)
	r.Rule("C04.clear-after-newline", "K1", "when the line ends exactly on the last column, displayLine clears the row it moves onto: every print of NewlineReturn is followed by a print of ClearLineAfter before returning", 1)
	if DLN := p.Func("(*display.Engine).displayLine"); DLN != nil {
		r.Fn(fnName(DLN))
		tp := p.Pkg("internal/term")
		cval := func(name string) string {
			if tp == nil {
				return ""
			}
			if c, ok := tp.Types.Scope().Lookup(name).(*types.Const); ok {
				return constant.StringVal(c.Val())
			}
			return ""
		}
		nl, clr, clrBelow := cval("NewlineReturn"), cval("ClearLineAfter"), cval("ClearScreenBelow")
		prints := func(in ssa.Instruction, want ...string) bool {
			if !isCallTo(in, "fmt.Print", "fmt.Printf", "fmt.Fprint") {
				return false
			}
			for _, a := range in.(ssa.CallInstruction).Common().Args {
				leaves := backSlice(a, &SliceOpts{P: p, ElemOf: true})
				for _, lf := range leaves {
					if s, ok := constString(lf.V); ok {
						for _, w := range want {
							if w != "" && s == w {
								return true
							}
						}
					}
				}
			}
			return false
		}
		if nl == "" || clr == "" {
			r.Unk("C04.clear-after-newline", fnName(DLN), "-", "term.NewlineReturn / term.ClearLineAfter constants not found")
		} else {
			n := 0
			eachInstr(DLN, func(in ssa.Instruction) {
				if !prints(in, nl) {
					return
				}
				w := pathAvoiding(DLN, in, isReturn, func(x ssa.Instruction) bool { return prints(x, clr, clrBelow) })
				r.Check(w == nil, "C04.clear-after-newline", siteKey(DLN, "newline", n), p.IPos(in), "followed by ClearLineAfter on every path", "after moving onto the next row (the line fills the terminal width exactly) the row is not cleared: the tail of a longer, earlier line stays on screen")
				n++
			})
			if n == 0 {
				r.OK("C04.clear-after-newline", fnName(DLN)+":no-newline", p.Pos(DLN.Pos()), "displayLine prints no explicit newline")
			}
		}
		// ---- whatever was below the line is cleared on every redisplay, menu or not
		r.Rule("C04.helpers-clear-below", "K1", "completion.Display — the last thing the redisplay prints below the input line — prints ClearScreenBelow on every path to its return, also when there is nothing to list: the rows a longer line occupied before it shrank are cleared only there", 1)
		if CD := p.Func("completion.Display"); CD != nil && clrBelow != "" {
			r.Fn(fnName(CD))
			isClear := func(x ssa.Instruction) bool { return prints(x, clrBelow) }
			// a deferred print covers the returns that follow it; a direct print covers the path through it
			w := pathAvoiding(CD, nil, func(x ssa.Instruction) bool { return isReturn(x) && x.Block() != CD.Recover }, isClear)
			r.Check(w == nil, "C04.helpers-clear-below", fnName(CD)+":every-exit", p.Pos(CD.Pos()), "ClearScreenBelow is printed (or deferred) before every exit", "completion.Display can return without clearing the screen below (the early return taken when there is no completion list): when a command shrinks the line by two rows or more, the old rows stay on screen under the prompt")
		} else {
			r.Unk("C04.helpers-clear-below", "completion.Display", "-", "anchor or term.ClearScreenBelow not found")
		}
	} else {
		r.Unk("C04.clear-after-newline", "(*display.Engine).displayLine", "-", "anchor not found")
	}

	checkC04ZeroMove(c)
	checkC04Round4(c)
	checkC04Round5(c)
	checkRound5Small(c, "C04")
	checkC04SuggestedAgreement(c)

	// ---- DisplayLine measures rows in columns (K7, explicit)
	r.Rule("C04.clear-by-width", "K7", "DisplayLine compares a column measure of the row (not its byte length) with the terminal width when deciding to clear to the end of line", 1)
	if DL := p.Func("core.DisplayLine"); DL != nil {
		r.Fn(fnName(DL))
		e := newUnitEngine(p)
		n := 0
		eachInstr(DL, func(in ssa.Instruction) {
			bo, ok := in.(*ssa.BinOp)
			if !ok {
				return
			}
			switch bo.Op {
			case token.LSS, token.LEQ, token.GTR, token.GEQ:
			default:
				return
			}
			isW := func(v ssa.Value) bool { return isCallNamed(v, "term.GetWidth") }
			var other ssa.Value
			if isW(bo.X) {
				other = bo.Y
			} else if isW(bo.Y) {
				other = bo.X
			} else {
				return
			}
			n++
			u := e.unitOf(other)
			r.Check(u == UCols || u == UUnknown, "C04.clear-by-width", fnName(DL)+":row-vs-width", p.IPos(in), "row measured in "+u.String(), "the row is measured in "+u.String()+" when compared with the terminal width: rows with escape sequences or multi-byte characters are taken for full and not cleared (remnants)")
		})
		if n == 0 {
			r.OK("C04.clear-by-width", fnName(DL)+":row-vs-width", p.Pos(DL.Pos()), "no comparison with the terminal width")
		}
	} else {
		r.Unk("C04.clear-by-width", "core.DisplayLine", "-", "anchor not found")
	}
}
