package main

import (
	"go/token"

	"golang.org/x/tools/go/ssa"
)

// In-context evaluation of small read-only helper functions by the zone engine.
//
// The engine is intraprocedural: a call is a contract or nothing. A clamp or a
// length computation moved into a helper (`back := line.undone()`) would lose every
// fact the surrounding function relied on, and each index that depended on it
// would be reported although nothing about the behaviour changed. A callee that
// is loop-free, makes no call except len/cap, and writes nothing is therefore
// evaluated in the caller's state: parameters are bound to the arguments, the
// callee's loads of `param.field` are identified with a load of `arg.field` in the
// caller that is still current at the call (no store to that field between the
// two), the blocks are executed in topological order with the ordinary transfer
// and edge functions, and the states at the returns are joined with the call's
// value bound to the returned value. Nothing is recorded while doing so: the
// callee's own index and slice sites are obligations of the callee, analysed on
// its own like every other function.

const inlineMaxInstrs = 60

func (z *zoneEngine) inlineTarget(c *ssa.Call) *ssa.Function {
	if z.inlining {
		return nil
	}
	f := c.Call.StaticCallee()
	if f == nil || !inRepo(f) || len(f.Blocks) == 0 || f == z.fn || f.Recover != nil {
		return nil
	}
	if z.contracts[fnName(f)] != nil {
		return nil
	}
	if ok, seen := z.inlineOK[f]; seen {
		if ok {
			return f
		}
		return nil
	}
	if z.inlineOK == nil {
		z.inlineOK = map[*ssa.Function]bool{}
	}
	ok := readOnlyLeaf(f)
	z.inlineOK[f] = ok
	if ok {
		return f
	}
	return nil
}

// readOnlyLeaf: loop-free, small, a single (or no) result, and only instructions
// that neither write memory nor transfer control elsewhere.
func readOnlyLeaf(f *ssa.Function) bool {
	if f.Signature.Results().Len() > 1 || len(findLoops(f)) > 0 {
		return false
	}
	n := 0
	for _, b := range f.Blocks {
		for _, in := range b.Instrs {
			n++
			switch x := in.(type) {
			case *ssa.FieldAddr, *ssa.Field, *ssa.BinOp, *ssa.Phi, *ssa.If, *ssa.Jump, *ssa.Return,
				*ssa.Convert, *ssa.ChangeType, *ssa.Slice, *ssa.IndexAddr, *ssa.Index, *ssa.DebugRef:
			case *ssa.UnOp:
				if x.Op == token.ARROW {
					return false
				}
			case *ssa.Call:
				b, isB := x.Call.Value.(*ssa.Builtin)
				if !isB || (b.Name() != "len" && b.Name() != "cap") {
					return false
				}
			default:
				return false
			}
		}
	}
	return n <= inlineMaxInstrs
}

// currentCallerLoad: a load of arg.field in the caller that dominates the call and
// whose value is still what memory holds at the call.
func (z *zoneEngine) currentCallerLoad(c *ssa.Call, arg ssa.Value, fieldIdx int, tn, fld string) *ssa.UnOp {
	var found *ssa.UnOp
	eachInstrRaw(c.Parent(), func(in ssa.Instruction) {
		if found != nil {
			return
		}
		u, ok := in.(*ssa.UnOp)
		if !ok || u.Op != token.MUL {
			return
		}
		fa, ok := u.X.(*ssa.FieldAddr)
		if !ok || fa.Field != fieldIdx {
			return
		}
		if fa.X != arg && !(accessPath(fa.X) != "" && sameMemValue(fa.X, arg)) {
			return
		}
		if t2, f2, ok := fieldOf(fa); !ok || t2 != tn || f2 != fld {
			return
		}
		if !instrDominates(u, c) || !noFieldStoreBetween(u, c, tn, fld) {
			return
		}
		found = u
	})
	return found
}

func (z *zoneEngine) inlineCall(s *zstate, c *ssa.Call, f *ssa.Function) {
	z.inlining = true
	defer func() { z.inlining = false }()
	savedCur := z.curIn
	defer func() { z.curIn = savedCur }()

	// the callee's values are the same SSA objects at every call: drop what an earlier
	// evaluation left behind
	var locals []ssa.Value
	for _, p := range f.Params {
		locals = append(locals, p)
	}
	for _, b := range f.Blocks {
		for _, in := range b.Instrs {
			if v, ok := in.(ssa.Value); ok {
				locals = append(locals, v)
			}
		}
	}
	for _, v := range locals {
		s.redefine(v)
	}
	paramIdx := map[*ssa.Parameter]int{}
	for i, p := range f.Params {
		paramIdx[p] = i
		if i >= len(c.Call.Args) {
			return
		}
		a := c.Call.Args[i]
		switch {
		case isIntType(p.Type()):
			t, o := z.lin(s, a)
			pt := zterm{v: p}
			s.add(pt, t, o)
			s.add(t, pt, -o)
		case isSeqType(p.Type()):
			t, o := z.lenOf(a)
			s.touch(t)
			pt := zterm{p, true}
			s.add(pt, t, o)
			s.add(t, pt, -o)
		}
	}
	// reverse postorder of a loop-free graph is a topological order
	var rpo []*ssa.BasicBlock
	seen := map[*ssa.BasicBlock]bool{}
	var dfs func(b *ssa.BasicBlock)
	dfs = func(b *ssa.BasicBlock) {
		seen[b] = true
		for _, sc := range b.Succs {
			if !seen[sc] {
				dfs(sc)
			}
		}
		rpo = append(rpo, b)
	}
	dfs(f.Blocks[0])
	for i, j := 0, len(rpo)-1; i < j; i, j = i+1, j-1 {
		rpo[i], rpo[j] = rpo[j], rpo[i]
	}
	in := map[*ssa.BasicBlock]*zstate{f.Blocks[0]: s.clone()}
	var final *zstate
	for _, b := range rpo {
		st := in[b]
		if st == nil || st.bottom {
			continue
		}
		st = st.clone()
		for _, ins := range b.Instrs {
			z.transfer(st, ins, false)
			if st.bottom {
				break
			}
			switch x := ins.(type) {
			case *ssa.UnOp:
				// load of param.field: the caller's current load of arg.field is the same value
				if x.Op != token.MUL {
					break
				}
				fa, ok := x.X.(*ssa.FieldAddr)
				if !ok {
					break
				}
				prm, ok := fa.X.(*ssa.Parameter)
				if !ok {
					break
				}
				tn, fld, ok := fieldOf(fa)
				if !ok {
					break
				}
				if z.useGetters && isIntType(x.Type()) {
					// class invariants (c01_bounds.go) hold at the callee's loads as they would at a load
					// placed at the call: not downstream of a store of the caller that no normaliser followed
					if lb, ok := z.classBoundAt(c, tn, fld); ok {
						st.add(zZero, zterm{v: x}, -lb)
					}
				}
				cl := z.currentCallerLoad(c, c.Call.Args[paramIdx[prm]], fa.Field, tn, fld)
				if cl == nil {
					break
				}
				switch {
				case isIntType(x.Type()):
					t, o := z.lin(st, cl)
					xt := zterm{v: x}
					st.add(xt, t, o)
					st.add(t, xt, -o)
				case isSeqType(x.Type()):
					t, o := z.lenOf(cl)
					st.touch(t)
					xt := zterm{x, true}
					st.add(xt, t, o)
					st.add(t, xt, -o)
				}
			case *ssa.Return:
				rs := st.clone()
				if len(x.Results) == 1 {
					r := x.Results[0]
					switch {
					case isIntType(c.Type()):
						t, o := z.lin(rs, r)
						ct := zterm{v: c}
						rs.forget(ct)
						rs.add(ct, t, o)
						rs.add(t, ct, -o)
					case isSeqType(c.Type()):
						t, o := z.lenOf(r)
						rs.touch(t)
						ct := zterm{c, true}
						rs.forget(ct)
						rs.add(ct, t, o)
						rs.add(t, ct, -o)
					default:
						if k, ok := constBool(r); ok {
							rs.bools[c] = k
						} else if k, ok := rs.bools[r]; ok {
							rs.bools[c] = k
						}
					}
				}
				if final == nil {
					final = rs
				} else {
					final = zjoin(final, rs)
				}
			}
		}
		if st.bottom {
			continue
		}
		for _, succ := range b.Succs {
			es := z.edgeState(st, b, succ)
			if es.bottom {
				continue
			}
			if old, ok := in[succ]; ok && old != nil {
				in[succ] = zjoin(old, es)
			} else {
				in[succ] = es
			}
		}
	}
	if final == nil {
		// no return is reachable in this context
		s.bottom = true
		return
	}
	for _, v := range locals {
		final.redefine(v)
	}
	*s = *final
}

// noFieldStoreBetween: no store to tn.fld (direct, or through a call that may write it) can
// execute on a path from a to b that does not pass a again.
func noFieldStoreBetween(a, b ssa.Instruction, tn, fld string) bool {
	fn := a.Parent()
	pr := progFor(fn)
	isStore := func(in ssa.Instruction) bool {
		if st, ok := in.(*ssa.Store); ok {
			t2, f2, ok := fieldOf(st.Addr)
			return ok && t2 == tn && f2 == fld
		}
		if ci, ok := in.(ssa.CallInstruction); ok && pr != nil {
			if _, isDefer := in.(*ssa.Defer); isDefer {
				return false
			}
			return pr.callMayWriteField(ci, tn, fld)
		}
		return false
	}
	var stores []ssa.Instruction
	eachInstrRaw(fn, func(in ssa.Instruction) {
		if in != b && isStore(in) {
			stores = append(stores, in)
		}
	})
	isA := func(in ssa.Instruction) bool { return in == a }
	for _, s := range stores {
		if pathAvoiding(fn, a, func(in ssa.Instruction) bool { return in == s }, isA) == nil {
			continue
		}
		if pathAvoiding(fn, s, func(in ssa.Instruction) bool { return in == b }, isA) != nil {
			return false
		}
	}
	return true
}

// classBoundAt: the lower bound a class invariant gives a load of tn.fld executed at instruction at.
func (z *zoneEngine) classBoundAt(at ssa.Instruction, tn, fld string) (int64, bool) {
	fn := at.Parent()
	best, found := int64(0), false
	for _, ci := range classInvariants {
		if ci.tn != tn || ci.fld != fld {
			continue
		}
		clean := true
		eachInstrRaw(fn, func(in ssa.Instruction) {
			if !clean {
				return
			}
			if _, is := isFieldStore(in, tn, fld); is {
				if pathAvoiding(fn, in, func(x ssa.Instruction) bool { return x == at }, ci.isNormaliser) != nil {
					clean = false
				}
			}
		})
		if clean && (!found || ci.lb > best) {
			best, found = ci.lb, true
		}
	}
	return best, found
}
