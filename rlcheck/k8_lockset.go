package main

import (
	"go/token"
	"sort"

	"golang.org/x/tools/go/ssa"
)

// K8 — intraprocedural must-held locksets.

type LockSet map[string]byte // lock path (struct.field) -> 'W' | 'R'

func (a LockSet) clone() LockSet {
	b := LockSet{}
	for k, v := range a {
		b[k] = v
	}
	return b
}

func meet(a, b LockSet) LockSet {
	out := LockSet{}
	for k, v := range a {
		if w, ok := b[k]; ok {
			if v == 'R' || w == 'R' {
				out[k] = 'R'
			} else {
				out[k] = 'W'
			}
		}
	}
	return out
}

func sameLS(a, b LockSet) bool {
	if len(a) != len(b) {
		return false
	}
	for k, v := range a {
		if b[k] != v {
			return false
		}
	}
	return true
}

// lockOp recognises mutex operations; returns lock path and op (L, R, U, u).
func lockOp(in ssa.Instruction) (string, byte, bool) {
	c, ok := in.(ssa.CallInstruction)
	if !ok {
		return "", 0, false
	}
	if _, isDefer := in.(*ssa.Defer); isDefer {
		return "", 0, false // deferred unlock: held until exit
	}
	n := calleeName(c)
	var op byte
	switch n {
	case "(*sync.RWMutex).Lock", "(*sync.Mutex).Lock":
		op = 'L'
	case "(*sync.RWMutex).RLock":
		op = 'R'
	case "(*sync.RWMutex).Unlock", "(*sync.Mutex).Unlock":
		op = 'U'
	case "(*sync.RWMutex).RUnlock":
		op = 'u'
	default:
		return "", 0, false
	}
	args := c.Common().Args
	if len(args) == 0 {
		return "", 0, false
	}
	recv := args[0]
	// &x.mutex  or  *(&x.mutex) for pointer mutex fields
	if u, ok := recv.(*ssa.UnOp); ok && u.Op == token.MUL {
		recv = u.X
	}
	if tn, fld, ok := fieldOf(recv); ok {
		return tn + "." + fld, op, true
	}
	return "?", op, true
}

// locksets computes the must-held lockset before each instruction of fn.
func locksets(fn *ssa.Function) map[ssa.Instruction]LockSet {
	res := map[ssa.Instruction]LockSet{}
	if len(fn.Blocks) == 0 {
		return res
	}
	in := map[*ssa.BasicBlock]LockSet{}
	out := map[*ssa.BasicBlock]LockSet{}
	done := map[*ssa.BasicBlock]bool{}
	transfer := func(b *ssa.BasicBlock, s LockSet, record bool) LockSet {
		cur := s.clone()
		for _, ins := range b.Instrs {
			if record {
				res[ins] = cur.clone()
			}
			if path, op, ok := lockOp(ins); ok {
				switch op {
				case 'L':
					cur[path] = 'W'
				case 'R':
					if cur[path] != 'W' {
						cur[path] = 'R'
					}
				case 'U', 'u':
					delete(cur, path)
				}
			}
		}
		return cur
	}
	in[fn.Blocks[0]] = LockSet{}
	changed := true
	for iter := 0; changed && iter < 50; iter++ {
		changed = false
		for _, b := range fn.Blocks {
			var s LockSet
			if b == fn.Blocks[0] || b == fn.Recover {
				s = LockSet{}
			} else {
				first := true
				for _, p := range b.Preds {
					if !done[p] {
						continue
					}
					if first {
						s = out[p].clone()
						first = false
					} else {
						s = meet(s, out[p])
					}
				}
				if first {
					continue
				}
			}
			o := transfer(b, s, false)
			if !done[b] || !sameLS(in[b], s) || !sameLS(out[b], o) {
				in[b], out[b], done[b] = s, o, true
				changed = true
			}
		}
	}
	for _, b := range fn.Blocks {
		if done[b] {
			transfer(b, in[b], true)
		}
	}
	return res
}

// FieldAccess is one read or write of a struct field.
type FieldAccess struct {
	Fn    *ssa.Function
	In    ssa.Instruction
	Type  string
	Field string
	Write bool
	Locks LockSet
}

func fieldAccesses(fn *ssa.Function) []FieldAccess {
	var out []FieldAccess
	ls := locksets(fn)
	add := func(in ssa.Instruction, addr ssa.Value, write bool) {
		tn, fld, ok := fieldOf(addr)
		if !ok {
			return
		}
		out = append(out, FieldAccess{fn, in, tn, fld, write, ls[in]})
	}
	eachInstrRaw(fn, func(in ssa.Instruction) {
		switch x := in.(type) {
		case *ssa.Store:
			add(in, x.Addr, true)
			// element store through a field-held slice/array: counts as a write of that field's content
			if ia, ok := x.Addr.(*ssa.IndexAddr); ok {
				if u, ok := ia.X.(*ssa.UnOp); ok && u.Op == token.MUL {
					add(in, u.X, true)
				}
			}
		case *ssa.UnOp:
			if x.Op == token.MUL {
				add(in, x.X, false)
			}
		case *ssa.MapUpdate:
			if u, ok := x.Map.(*ssa.UnOp); ok && u.Op == token.MUL {
				add(in, u.X, true)
			}
		}
	})
	return out
}

func sortedKeys(m map[string]bool) []string {
	var out []string
	for k := range m {
		out = append(out, k)
	}
	sort.Strings(out)
	return out
}
