package main

import (
	"go/token"

	"golang.org/x/tools/go/ssa"
)

// must-depend (dual of K3): does value v depend — through data operands and,
// for phis, through the branch conditions that select the phi edge — on some
// value satisfying pred?

func dependsOn(v ssa.Value, pred func(ssa.Value) bool) bool {
	seen := map[ssa.Value]bool{}
	entered := map[*ssa.Function]bool{}
	var walk func(v ssa.Value) bool
	walk = func(v ssa.Value) bool {
		if v == nil || seen[v] {
			return false
		}
		seen[v] = true
		if pred(v) {
			return true
		}
		switch x := v.(type) {
		case *ssa.Phi:
			for _, e := range x.Edges {
				if walk(e) {
					return true
				}
			}
			for _, c := range controllingConds(x.Block()) {
				if walk(c) {
					return true
				}
			}
			return false
		case *ssa.Alloc:
			// address of a local (e.g. the variadic array behind append): follow what is stored in it
			var visit func(addr ssa.Value) bool
			visit = func(addr ssa.Value) bool {
				for _, r := range referrersOf(addr) {
					switch u := r.(type) {
					case *ssa.Store:
						if u.Addr == addr && walk(u.Val) {
							return true
						}
					case *ssa.IndexAddr:
						if u.X == addr && visit(u) {
							return true
						}
					case *ssa.FieldAddr:
						if u.X == addr && visit(u) {
							return true
						}
					}
				}
				return false
			}
			return visit(x)
		case *ssa.UnOp:
			if x.Op == token.MUL {
				if a, ok := x.X.(*ssa.Alloc); ok {
					for _, r := range referrersOf(a) {
						if st, ok := r.(*ssa.Store); ok && st.Addr == ssa.Value(a) {
							if walk(st.Val) {
								return true
							}
							// control dependence of the store
							for _, c := range controllingConds(st.Block()) {
								if walk(c) {
									return true
								}
							}
						}
					}
					return false
				}
			}
		}
		// the result of a module function depends on what its returns depend on (helpers extracted
		// from a longer function keep the dependence); each callee is entered once, four deep at most
		if cl, ok := v.(*ssa.Call); ok {
			if callee := cl.Call.StaticCallee(); callee != nil && inRepo(callee) && len(callee.Blocks) > 0 && !entered[callee] && len(entered) < 4 {
				entered[callee] = true
				for _, b := range callee.Blocks {
					for _, in := range b.Instrs {
						if ret, isRet := in.(*ssa.Return); isRet {
							for _, res := range ret.Results {
								if walk(res) {
									return true
								}
							}
						}
					}
				}
			}
		}
		if ex, ok := v.(*ssa.Extract); ok {
			if walk(ex.Tuple) {
				return true
			}
		}
		if in, ok := v.(ssa.Instruction); ok {
			for _, op := range in.Operands(nil) {
				if op != nil && *op != nil && walk(*op) {
					return true
				}
			}
		}
		return false
	}
	return walk(v)
}

// controllingConds: branch conditions on paths from idom(b) to b.
func controllingConds(b *ssa.BasicBlock) []ssa.Value {
	var out []ssa.Value
	id := b.Idom()
	if id == nil {
		return nil
	}
	seen := map[*ssa.BasicBlock]bool{}
	work := append([]*ssa.BasicBlock(nil), b.Preds...)
	for len(work) > 0 {
		x := work[len(work)-1]
		work = work[:len(work)-1]
		if seen[x] {
			continue
		}
		seen[x] = true
		if iff, ok := x.Instrs[len(x.Instrs)-1].(*ssa.If); ok {
			out = append(out, iff.Cond)
		}
		if x == id {
			continue
		}
		work = append(work, x.Preds...)
	}
	return out
}

// isFieldLoad: v is a load of field `field` of struct type tn (short name).
func isFieldLoad(v ssa.Value, tn, field string) bool {
	v = seeThroughGetter(v)
	u, ok := v.(*ssa.UnOp)
	if !ok || u.Op != token.MUL {
		return false
	}
	t, f, ok := fieldOf(u.X)
	return ok && t == tn && f == field
}

// isFieldStore: in is a store to field `field` of struct tn.
func isFieldStore(in ssa.Instruction, tn, field string) (*ssa.Store, bool) {
	st, ok := in.(*ssa.Store)
	if !ok {
		return nil, false
	}
	t, f, ok := fieldOf(st.Addr)
	if ok && t == tn && f == field {
		return st, true
	}
	return nil, false
}

// lenMinus recognises `len(<load of tn.field>) - k`.
func lenMinusField(v ssa.Value, tn, field string) (int64, bool) {
	b, ok := v.(*ssa.BinOp)
	if !ok || b.Op != token.SUB {
		return 0, false
	}
	k, ok := constInt(b.Y)
	if !ok {
		return 0, false
	}
	cl, ok := b.X.(*ssa.Call)
	if !ok {
		return 0, false
	}
	if bi, ok := cl.Call.Value.(*ssa.Builtin); !ok || bi.Name() != "len" {
		return 0, false
	}
	if !isFieldLoad(cl.Call.Args[0], tn, field) {
		return 0, false
	}
	return k, true
}

// stackElemLoad recognises a load of <tn.field>[len(<tn.field>) - k]; returns k.
func stackElemLoad(v ssa.Value, tn, field string) (int64, bool) {
	v = seeThroughGetter(v)
	u, ok := v.(*ssa.UnOp)
	if !ok || u.Op != token.MUL {
		return 0, false
	}
	ia, ok := u.X.(*ssa.IndexAddr)
	if !ok || !isFieldLoad(ia.X, tn, field) {
		return 0, false
	}
	return lenMinusField(ia.Index, tn, field)
}

// seeThroughGetter: a call to a module function that is a single block of reads ending in
// `return <expr>` stands for that expression: `p.active()` for `p.conds[len(p.conds)-1]`,
// `k.waiting()` for `k.mustWait`. The recognisers of this file match values by the type and
// field they read, not by identity, so the callee's own value can be handed to them.
func seeThroughGetter(v ssa.Value) ssa.Value {
	for i := 0; i < 2; i++ {
		cl, ok := v.(*ssa.Call)
		if !ok {
			return v
		}
		callee := cl.Call.StaticCallee()
		if callee == nil || !inRepo(callee) || len(callee.Blocks) != 1 || !readOnlyLeaf(callee) {
			return v
		}
		ret, ok := callee.Blocks[0].Instrs[len(callee.Blocks[0].Instrs)-1].(*ssa.Return)
		if !ok || len(ret.Results) != 1 {
			return v
		}
		v = ret.Results[0]
	}
	return v
}
