package main

import (
	"fmt"
	"go/constant"
	"go/token"
	"go/types"
	"strings"

	"golang.org/x/tools/go/ssa"
)

func init() { propFuncs["C11"] = checkC11 }

const (
	fnReadline   = "(*readline.Shell).Readline"
	fnAcceptDisp = "(*display.Engine).AcceptLine"
)

// OS calls that read / write the terminal mode.
var termGetCalls = map[string]bool{
	"golang.org/x/sys/unix.IoctlGetTermios":   true,
	"golang.org/x/sys/windows.GetConsoleMode": true,
}
var termSetCalls = map[string]bool{
	"golang.org/x/sys/unix.IoctlSetTermios":   true,
	"golang.org/x/sys/windows.SetConsoleMode": true,
}

func checkC11(c *Ctx) {
	p, r := c.P, c.R
	r.Explanation = "Decided statically: (typestate) every caller of term.MakeRaw returns untouched on its error edge and, on the success edge, registers `defer term.Restore(fd, state)` with the same fd and the state of that call before any other call can run — a defer, so it also covers a panicking command; MakeRaw's returned State is the OS 'get' snapshot taken before the first modification and Restore writes exactly that snapshot back with the request constant MakeRaw used; the cursor-style reset is a deferred print of the 'default' style registered before the main loop and the style table maps it to DECSCUSR 0; every Sources.Accept call site is dominated by Display.AcceptLine, whose every path ends by printing CR LF after clearing below; the edit-and-execute failure path does not dereference a nil error. The panic exit is checked for a deferred move to a fresh row (absent on the pinned tree: known finding). NOT decided: the bytes the terminal actually receives and its resulting cell/cursor state (needs a terminal model), nor OS-level failures of the restoring ioctl."
	r.Trusted = []string{"go/packages type checker", "go/ssa construction incl. defer lowering", "VTA call graph", "rule tables in rlcheck/c11.go"}
	r.Assumptions = []string{"golang.org/x/sys get/set terminal calls behave as documented", "deferred calls run on return and on panic (Go semantics)"}

	checkRawPairing(c, p, "linux/amd64")
	checkMakeRawSnapshot(c, p, "linux/amd64")
	if c.Tier == "thorough" {
		for _, cfg := range [][2]string{{"windows", "amd64"}, {"darwin", "arm64"}, {"freebsd", "amd64"}, {"solaris", "amd64"}} {
			if q := c.loadOther(cfg[0], cfg[1]); q != nil {
				checkRawPairing(c, q, cfg[0]+"/"+cfg[1])
				checkMakeRawSnapshot(c, q, cfg[0]+"/"+cfg[1])
			}
		}
	}

	RL := p.Func(fnReadline)
	if RL == nil {
		r.Rule("C11.anchors", "K0", "anchored functions resolve", 1)
		r.Unk("C11.anchors", fnReadline, "-", "anchor not found")
		return
	}
	r.Fn(fnReadline)

	// ---- cursor style (K1+K5)
	r.Rule("C11.cursor-style", "K1", "a deferred print of the default cursor style is registered before the main loop; the style table maps it to the terminal's user default (DECSCUSR 0)", 3)
	loops := findLoops(RL)
	var mainHead *ssa.BasicBlock
	for _, l := range loops {
		for b := range l.Blocks {
			for _, in := range b.Instrs {
				if isCallTo(in, "core.WaitAvailableKeys") {
					mainHead = l.Head
				}
			}
		}
	}
	kp := p.Pkg("internal/keymap")
	var defConst constant.Value
	if kp != nil {
		if o, ok := kp.Types.Scope().Lookup("cursorUserDefault").(*types.Const); ok {
			defConst = o.Val()
		}
	}
	if mainHead == nil || defConst == nil {
		r.Unk("C11.cursor-style", fnReadline+":main-loop", p.Pos(RL.Pos()), "main loop (the loop calling core.WaitAvailableKeys) or keymap.cursorUserDefault not found")
	} else {
		found := false
		eachInstr(RL, func(in ssa.Instruction) {
			d, ok := in.(*ssa.Defer)
			if !ok || !strings.HasPrefix(calleeName(d), "fmt.Print") {
				return
			}
			for _, a := range d.Call.Args {
				for _, l := range backSlice(a, &SliceOpts{P: p, ElemOf: true}) {
					if k, ok := l.V.(*ssa.Const); ok && k.Value != nil && typeStr(k.Type()) == "keymap.CursorStyle" && constant.Compare(k.Value, token.EQL, defConst) {
						if d.Block().Dominates(mainHead) {
							found = true
							r.OK("C11.cursor-style", fnReadline+":defer-print(default)", p.IPos(d), "deferred before the main loop")
						}
					}
				}
			}
		})
		if !found {
			r.Bad("C11.cursor-style", fnReadline+":defer-print(default)", p.Pos(RL.Pos()), "no deferred print of keymap.CursorStyle(default) dominates the main loop: the cursor style is not reset on every way out")
		}
		// style table: cursors[cursorUserDefault] == ESC [ 0 SP q ; String() falls back to it
		checkCursorTable(c, p, defConst)
	}

	// ---- accept-display (K1)
	r.Rule("C11.accept-display", "K1", "every Sources.Accept call site is dominated, in its function, by Display.AcceptLine (the only code that moves below the input and clears helpers)", 5)
	A := p.Func(fnSourcesAccept)
	if A == nil {
		r.Unk("C11.accept-display", fnSourcesAccept, "-", "anchor not found")
	} else {
		for _, e := range p.callersOf(A) {
			cf := e.Caller.Func
			if e.Site == nil {
				continue
			}
			r.CallSites++
			r.Fn(fnName(cf))
			site := e.Site
			ok, _ := mustPassBefore(cf, nil, func(in ssa.Instruction) bool { return in == ssa.Instruction(site) }, func(in ssa.Instruction) bool { return isCallTo(in, fnAcceptDisp) })
			key := fmt.Sprintf("%s:Accept%s", fnName(cf), ordinalOf(cf, site, fnSourcesAccept))
			r.Check(ok, "C11.accept-display", key, p.Pos(e.Pos()), "AcceptLine on every path to this Accept",
				"Accept reachable without Display.AcceptLine: Readline returns with the cursor inside the input area / helpers still displayed")
		}
	}

	// ---- AcceptLine ends on a fresh row (K1)
	r.Rule("C11.acceptline-newline", "K1", "in Display.AcceptLine every path to return clears below the line and then prints CR LF, with nothing printed after it", 2)
	if AL := p.Func(fnAcceptDisp); AL != nil {
		r.Fn(fnAcceptDisp)
		printsConst := func(in ssa.Instruction, want string) bool {
			cl, ok := in.(*ssa.Call)
			if !ok || !strings.HasPrefix(calleeName(cl), "fmt.Print") {
				return false
			}
			for _, a := range cl.Call.Args {
				for _, l := range backSlice(a, &SliceOpts{P: p, ElemOf: true}) {
					if s, ok := constString(l.V); ok && s == want {
						return true
					}
				}
			}
			return false
		}
		miss := pathAvoiding(AL, nil, isReturn, func(in ssa.Instruction) bool { return printsConst(in, "\r\n") })
		r.Check(miss == nil, "C11.acceptline-newline", fnAcceptDisp+":print(CRLF)", p.Pos(AL.Pos()), "every return is preceded by printing \\r\\n", "a path through AcceptLine returns without printing CR LF: the caller's cursor is not on a fresh row")
		miss2 := pathAvoiding(AL, nil, func(in ssa.Instruction) bool { return printsConst(in, "\r\n") }, func(in ssa.Instruction) bool { return printsConst(in, "\x1b[0J") })
		r.Check(miss2 == nil, "C11.acceptline-newline", fnAcceptDisp+":clear-below-before-CRLF", p.Pos(AL.Pos()), "clear-screen-below precedes the final newline", "AcceptLine can print the final newline without clearing helpers below the line first")
		// after the last CRLF nothing else is emitted
		var after ssa.Instruction
		eachInstr(AL, func(in ssa.Instruction) {
			if printsConst(in, "\r\n") {
				if w := pathAvoiding(AL, in, func(x ssa.Instruction) bool {
					if _, ok := x.(ssa.CallInstruction); ok && !printsConst(x, "\r\n") {
						return true
					}
					return false
				}, nil); w != nil {
					after = w
				}
			}
		})
		if after != nil {
			r.Bad("C11.acceptline-newline", fnAcceptDisp+":nothing-after-CRLF", p.IPos(after), "a call follows the final CR LF in AcceptLine: the cursor may leave the start of the fresh row ("+calleeName(after.(ssa.CallInstruction))+")")
		} else {
			r.OK("C11.acceptline-newline", fnAcceptDisp+":nothing-after-CRLF", p.Pos(AL.Pos()), "CR LF is the last output")
		}
	} else {
		r.Unk("C11.acceptline-newline", fnAcceptDisp, "-", "anchor not found")
	}

	// ---- AcceptLine lays out the real line, not the suggested one (K5)
	r.Rule("C11.acceptline-real-line", "K5", "Display.AcceptLine computes its coordinates for the real input line (computeCoordinates(false)), so the helpers and any auto-suggestion below/after it are cleared", 1)
	if AL := p.Func(fnAcceptDisp); AL != nil {
		n := 0
		for _, call := range callsTo(AL, false, "(*display.Engine).computeCoordinates") {
			n++
			b, ok := constBool(call.Common().Args[1])
			// what matters is not the literal but what computeCoordinates does with it: under the value AcceptLine
			// passes, the rows of the line must not be measured on the auto-suggested line
			CC := staticCallee(call)
			measuresSuggested := true
			if ok && CC != nil && len(CC.Params) == 2 {
				flag := CC.Params[1]
				assume := func(cond ssa.Value) (bool, bool) {
					neg := false
					for {
						if u, isU := cond.(*ssa.UnOp); isU && u.Op == token.NOT {
							cond = u.X
							neg = !neg
							continue
						}
						break
					}
					if cond == ssa.Value(flag) {
						return b != neg, true
					}
					return false, false
				}
				target := func(in ssa.Instruction) bool {
					if !isCallTo(in, "core.CoordinatesLine") {
						return false
					}
					a := in.(ssa.CallInstruction).Common().Args
					if len(a) == 0 {
						return false
					}
					t, f, isF := fieldOf(a[0])
					return isF && t == "display.Engine" && f == "suggested"
				}
				measuresSuggested = reachUnder(CC, assume, target, func(ssa.Instruction) bool { return false }) != nil
			}
			r.Check(ok && !measuresSuggested, "C11.acceptline-real-line", fnAcceptDisp+":computeCoordinates(false)", p.IPos(call), fmt.Sprintf("under the flag AcceptLine passes (%v) the suggested line is not measured", b), "AcceptLine computes coordinates with the auto-suggested line (under the flag it passes, computeCoordinates measures Engine.suggested): with history-autosuggest on the suggestion is not erased and the cursor ends below it")
		}
		if n == 0 {
			r.Bad("C11.acceptline-real-line", fnAcceptDisp+":computeCoordinates(false)", p.Pos(AL.Pos()), "AcceptLine no longer recomputes coordinates before moving below the input")
		}
	}
	// ---- every Readline call starts from a clean acceptance state (K1)
	r.Rule("C11.init-resets-acceptance", "K1", "history.Init clears accepted / acceptErr on every path (also when a held line is re-displayed), so a new Readline call cannot return at once with a stale line and without AcceptLine", 2)
	if IN := p.Func("history.Init"); IN != nil {
		r.Fn("history.Init")
		for _, fld := range []string{"accepted", "acceptErr"} {
			fld := fld
			clears := func(in ssa.Instruction) bool {
				chk := func(x ssa.Instruction) bool {
					st, ok := isFieldStore(x, "history.Sources", fld)
					if !ok {
						return false
					}
					if b, isB := constBool(st.Val); isB {
						return !b
					}
					return isNilConst(st.Val)
				}
				if chk(in) {
					return true
				}
				if d, ok := in.(*ssa.Defer); ok {
					if mc, ok := d.Call.Value.(*ssa.MakeClosure); ok {
						found := false
						eachInstr(mc.Fn.(*ssa.Function), func(x ssa.Instruction) {
							if chk(x) {
								found = true
							}
						})
						return found
					}
				}
				return false
			}
			ok, _ := mustPassBefore(IN, nil, func(in ssa.Instruction) bool { return isReturn(in) && in.Block() != IN.Recover }, clears)
			r.Check(ok, "C11.init-resets-acceptance", "history.Init:"+fld, p.Pos(IN.Pos()), "cleared on every path", "history.Init can return without clearing Sources."+fld+": after accept-and-hold the next Readline call returns the stale line at the first key, without Display.AcceptLine")
		}
	} else {
		r.Unk("C11.init-resets-acceptance", "history.Init", "-", "anchor not found")
	}

	// ---- panic exit (K1)
	r.Rule("C11.panic-row", "K1", "on the panic exit of Readline a deferred call moves the cursor to a fresh row below the input", 1)
	{
		found := false
		eachInstr(RL, func(in ssa.Instruction) {
			d, ok := in.(*ssa.Defer)
			if !ok {
				return
			}
			// deferred call (or closure) that unconditionally reaches AcceptLine
			var roots []*ssa.Function
			if f := staticCallee(d); f != nil {
				roots = append(roots, f)
			}
			if mc, ok := d.Call.Value.(*ssa.MakeClosure); ok {
				roots = append(roots, mc.Fn.(*ssa.Function))
			}
			for _, f := range roots {
				if f == nil || !inRepo(f) {
					continue
				}
				if fnName(f) == fnAcceptDisp {
					found = true
				}
				if miss := pathAvoiding(f, nil, isReturn, func(x ssa.Instruction) bool { return isCallTo(x, fnAcceptDisp) }); miss == nil && len(f.Blocks) > 0 {
					found = true
				}
			}
		})
		r.Check(found, "C11.panic-row", fnReadline+":deferred-fresh-row", p.Pos(RL.Pos()), "a deferred call always reaches AcceptLine",
			"no deferred call moves below the input: when a bound command panics, modes and cursor style are restored but the cursor is left inside the input area")
	}

	// ---- edit-and-execute failure (K4 contradiction)
	r.Rule("C11.edit-failure", "K4", "the edit-and-execute failure path does not call a method on an error that may be nil", 1)
	for _, n := range []string{"(*readline.Shell).editAndExecuteCommand"} {
		f := p.Func(n)
		if f == nil {
			r.Unk("C11.edit-failure", n, "-", "anchor not found")
			continue
		}
		r.Fn(n)
		bad := nilContra(f)
		if len(bad) == 0 {
			r.OK("C11.edit-failure", n+":nil-error-use", p.Pos(f.Pos()), "every use of a nil-compared value is under its non-nil edge")
		}
		for i, b := range bad {
			r.Bad("C11.edit-failure", fmt.Sprintf("%s:nil-error-use#%d", n, i), p.IPos(b.Use), b.Msg)
		}
	}
	checkC11AcceptRows(c)
}

func checkCursorTable(c *Ctx, p *Prog, defConst constant.Value) {
	r := c.R
	init_ := p.Func("keymap.init")
	if init_ == nil {
		r.Unk("C11.cursor-style", "keymap.cursors[default]", "-", "keymap.init not found")
		return
	}
	found := false
	eachInstr(init_, func(in ssa.Instruction) {
		mu, ok := in.(*ssa.MapUpdate)
		if !ok {
			return
		}
		k, ok := mu.Key.(*ssa.Const)
		if !ok || k.Value == nil || typeStr(k.Type()) != "keymap.CursorStyle" || !constant.Compare(k.Value, token.EQL, defConst) {
			return
		}
		if v, ok := constString(mu.Value); ok {
			found = true
			r.Check(v == "\x1b[0 q", "C11.cursor-style", "keymap.cursors[default]", p.IPos(in), "default style = ESC[0 q", fmt.Sprintf("the 'default' cursor style maps to %q, not to DECSCUSR 0 (user default)", v))
		}
	})
	if !found {
		r.Unk("C11.cursor-style", "keymap.cursors[default]", "-", "no constant entry for the default style in the cursors table")
	}
	// String() must return the table entry for its receiver
	if S := p.Func("(keymap.CursorStyle).String"); S != nil {
		r.Fn(fnName(S))
		ok := false
		eachInstr(S, func(in ssa.Instruction) {
			if lk, isL := in.(*ssa.Lookup); isL && lk.Index == ssa.Value(S.Params[0]) {
				if u, isU := lk.X.(*ssa.UnOp); isU {
					if g, isG := u.X.(*ssa.Global); isG && g.Name() == "cursors" {
						ok = true
					}
				}
			}
		})
		r.Check(ok, "C11.cursor-style", "(keymap.CursorStyle).String:lookup", p.Pos(S.Pos()), "String looks its receiver up in cursors", "CursorStyle.String does not look its receiver up in the cursors table")
	} else {
		r.Unk("C11.cursor-style", "(keymap.CursorStyle).String", "-", "anchor not found")
	}
}

// checkRawPairing: typestate rule on every caller of term.MakeRaw.
func checkRawPairing(c *Ctx, p *Prog, cfg string) {
	r := c.R
	r.Rule("C11.raw-pairing", "K1", "every caller of term.MakeRaw returns untouched on the error edge and defers term.Restore(same fd, that state) before any other call on the success edge", 1)
	MR := p.Func("term.MakeRaw")
	if MR == nil {
		r.Unk("C11.raw-pairing", "term.MakeRaw["+cfg+"]", "-", "anchor not found")
		return
	}
	n := 0
	for _, f := range p.RepoFuncs {
		for _, call := range callsTo(f, false, "term.MakeRaw") {
			n++
			r.CallSites++
			key := fmt.Sprintf("%s:MakeRaw%s[%s]", fnName(f), ordinalOf(f, call, "term.MakeRaw"), cfg)
			cv, ok := call.(*ssa.Call)
			if !ok {
				r.Bad("C11.raw-pairing", key, p.IPos(call), "MakeRaw called in defer/go position")
				continue
			}
			var state, errv ssa.Value
			for _, ref := range referrersOf(cv) {
				if ex, ok := ref.(*ssa.Extract); ok {
					if ex.Index == 0 {
						state = ex
					} else {
						errv = ex
					}
				}
			}
			if state == nil || errv == nil {
				r.Bad("C11.raw-pairing", key, p.IPos(call), "MakeRaw's state or error result is discarded")
				continue
			}
			isRestoreDefer := func(in ssa.Instruction) bool {
				d, ok := in.(*ssa.Defer)
				if !ok || calleeName(d) != "term.Restore" {
					return false
				}
				return d.Call.Args[0] == cv.Call.Args[0] && d.Call.Args[1] == state
			}
			bf := blockFacts(f)
			// first call / return reachable from MakeRaw without passing the defer
			var offender ssa.Instruction
			pathAvoiding(f, cv, func(in ssa.Instruction) bool {
				switch in.(type) {
				case ssa.CallInstruction, *ssa.Panic:
					offender = in
					return true
				case *ssa.Return:
					// allowed only under err != nil
					if !knownNonNil(bf[in.Block()], errv) {
						offender = in
						return true
					}
				}
				return false
			}, isRestoreDefer)
			hasDefer := false
			eachInstr(f, func(in ssa.Instruction) {
				if isRestoreDefer(in) {
					hasDefer = true
				}
			})
			switch {
			case !hasDefer:
				r.Bad("C11.raw-pairing", key, p.IPos(call), "no `defer term.Restore(fd, state)` with this call's fd and state: terminal modes are not restored on every way out (incl. panic)")
			case offender != nil:
				r.Bad("C11.raw-pairing", key, p.IPos(offender), "between MakeRaw and the deferred Restore the function can execute `"+offender.String()+"`: a panic or return there leaves the terminal raw")
			default:
				// error edge must not be the one that defers
				r.OK("C11.raw-pairing", key, p.IPos(call), "error edge returns, success edge defers Restore(fd,state) first")
			}
		}
	}
	if n == 0 {
		r.Unk("C11.raw-pairing", "callers(term.MakeRaw)["+cfg+"]", "-", "no caller of term.MakeRaw found")
	}
}

// checkMakeRawSnapshot: the State returned by MakeRaw is the OS snapshot taken
// before modification, and Restore writes it back with the same request.
func checkMakeRawSnapshot(c *Ctx, p *Prog, cfg string) {
	r := c.R
	r.Rule("C11.saved-before-modified", "K3", "MakeRaw's returned State derives only from the OS get-call snapshot, taken before the first modification; Restore hands exactly state's field to the OS set-call with MakeRaw's request constant", 3)
	MR, RS := p.Func("term.MakeRaw"), p.Func("term.Restore")
	if MR == nil || RS == nil {
		r.Unk("C11.saved-before-modified", "term.MakeRaw/Restore["+cfg+"]", "-", "anchor not found")
		return
	}
	r.Fn("term.MakeRaw", "term.Restore")
	// the get call
	var get *ssa.Call
	var sets []*ssa.Call
	eachInstr(MR, func(in ssa.Instruction) {
		if cl, ok := in.(*ssa.Call); ok {
			if termGetCalls[calleeName(cl)] {
				if get == nil {
					get = cl
				}
			}
			if termSetCalls[calleeName(cl)] {
				sets = append(sets, cl)
			}
		}
	})
	if get == nil || len(sets) == 0 {
		r.Unk("C11.saved-before-modified", "term.MakeRaw:get/set["+cfg+"]", p.Pos(MR.Pos()), "OS get/set terminal-mode calls not recognised (table termGetCalls/termSetCalls needs review for this GOOS)")
		return
	}
	// pointer returned by get (unix) — root of modifications
	var getPtr ssa.Value
	for _, ref := range referrersOf(get) {
		if ex, ok := ref.(*ssa.Extract); ok && ex.Index == 0 {
			getPtr = ex
		}
	}
	rootOf := func(v ssa.Value) ssa.Value {
		for {
			switch x := v.(type) {
			case *ssa.FieldAddr:
				v = x.X
			case *ssa.IndexAddr:
				v = x.X
			default:
				return v
			}
		}
	}
	isSnapshot := func(v ssa.Value) bool {
		if getPtr != nil && v == getPtr {
			return true // solaris form: the State keeps the get pointer itself (nothing may be written through it)
		}
		u, ok := v.(*ssa.UnOp)
		if !ok || u.Op != token.MUL {
			return false
		}
		if getPtr != nil && rootOf(u.X) == getPtr {
			return true
		}
		// windows form: load of a local whose address was passed to the get call
		if a, ok := u.X.(*ssa.Alloc); ok {
			for _, arg := range get.Call.Args {
				if arg == ssa.Value(a) {
					return true
				}
			}
		}
		return false
	}
	// returned state on success returns
	nret := 0
	eachInstr(MR, func(in ssa.Instruction) {
		ret, ok := in.(*ssa.Return)
		if !ok || len(ret.Results) != 2 || isNilConst(ret.Results[0]) {
			return
		}
		nret++
		key := fmt.Sprintf("term.MakeRaw:returned-state#%d[%s]", nret-1, cfg)
		leaves := backSlice(ret.Results[0], &SliceOpts{P: p, IsSource: isSnapshot})
		okAll := len(leaves) > 0
		why := ""
		var snaps []ssa.Value
		for _, l := range leaves {
			switch l.Kind {
			case LeafSource:
				snaps = append(snaps, l.V)
			case LeafConst:
			default:
				okAll = false
				why = fmt.Sprintf("%s [%s]", p.descValue(l.V), l.Why)
			}
		}
		if len(snaps) == 0 {
			okAll = false
			if why == "" {
				why = "no snapshot of the get-call result reaches the returned State"
			}
		}
		r.Check(okAll, "C11.saved-before-modified", key, p.IPos(in), "returned State = snapshot of the get call", "returned State does not derive only from the unmodified OS snapshot: "+why)
		// ordering: every store through the get pointer is dominated by every snapshot load
		if okAll && getPtr != nil {
			var badStore ssa.Instruction
			eachInstr(MR, func(x ssa.Instruction) {
				st, ok := x.(*ssa.Store)
				if !ok || rootOf(st.Addr) != getPtr {
					return
				}
				for _, s := range snaps {
					if s == getPtr {
						badStore = st // the kept pointer's target is modified
					} else if si, ok := s.(ssa.Instruction); ok && !instrDominates(si, st) {
						badStore = st
					}
				}
			})
			r.Check(badStore == nil, "C11.saved-before-modified", key+":order", p.IPos(in), "snapshot precedes every modification", "the termios is modified before the snapshot that becomes the returned State is taken")
		}
	})
	if nret == 0 {
		r.Unk("C11.saved-before-modified", "term.MakeRaw:returned-state["+cfg+"]", p.Pos(MR.Pos()), "no success return found")
	}
	// Restore: set-call argument derives from the state parameter; same request constant
	var rset *ssa.Call
	eachInstr(RS, func(in ssa.Instruction) {
		if cl, ok := in.(*ssa.Call); ok && termSetCalls[calleeName(cl)] {
			rset = cl
		}
	})
	key := "term.Restore:set[" + cfg + "]"
	if rset == nil {
		r.Bad("C11.saved-before-modified", key, p.Pos(RS.Pos()), "Restore does not call the OS set-mode function")
		return
	}
	stateParam := RS.Params[len(RS.Params)-1]
	last := rset.Call.Args[len(rset.Call.Args)-1]
	okState := false
	switch x := last.(type) {
	case *ssa.FieldAddr:
		okState = x.X == ssa.Value(stateParam)
	case *ssa.UnOp:
		if fa, ok := x.X.(*ssa.FieldAddr); ok {
			okState = fa.X == ssa.Value(stateParam)
		}
	}
	okFd := false
	for _, l := range backSlice(rset.Call.Args[0], &SliceOpts{P: p}) {
		if l.V == ssa.Value(RS.Params[0]) {
			okFd = true
		}
	}
	okReq := true
	if len(rset.Call.Args) == 3 {
		a, ok1 := constInt(rset.Call.Args[1])
		b, ok2 := constInt(sets[len(sets)-1].Call.Args[1])
		okReq = ok1 && ok2 && a == b
	}
	miss := pathAvoiding(RS, nil, isReturn, func(in ssa.Instruction) bool { return in == ssa.Instruction(rset) })
	r.Check(okState && okFd && okReq && miss == nil, "C11.saved-before-modified", key, p.IPos(rset), "Restore writes state's snapshot to fd with MakeRaw's request",
		fmt.Sprintf("Restore does not write the saved state back on every path (state-arg ok=%v fd ok=%v request ok=%v unconditional=%v)", okState, okFd, okReq, miss == nil))
}
