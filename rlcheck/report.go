package main

import (
	"bufio"
	"crypto/sha1"
	"encoding/hex"
	"encoding/json"
	"fmt"
	"os"
	"path/filepath"
	"sort"
	"strings"
	"time"
)

type Status string

const (
	Discharged Status = "discharged"
	Violated   Status = "violated"
	Undecided  Status = "undecided"
	Known      Status = "known"
)

// Obligation is one rule instance on one construct.
type Obligation struct {
	Rule      string `json:"rule"`      // e.g. C08.no-error-record
	Kind      string `json:"kind"`      // K1..K10
	Construct string `json:"construct"` // stable key: function + callee/field, never a line
	Pos       string `json:"pos"`       // file:line (diagnostic only)
	Status    Status `json:"status"`
	Detail    string `json:"detail,omitempty"`
}

func (o *Obligation) Key() string { return o.Rule + "|" + o.Construct }

type ruleInfo struct {
	Kind    string
	Doc     string
	Min     int
	Matched int
}

// Report collects the obligations of one property check.
type Report struct {
	Prop        string
	Tier        string
	Obls        []*Obligation
	rules       map[string]*ruleInfo
	ruleOrder   []string
	Funcs       map[string]bool // functions analysed
	CallSites   int
	Notes       []string
	Explanation string
	Level       string
	Trusted     []string
	Assumptions []string
	Configs     []string
	Extra       map[string]any
}

func NewReport(prop, tier string) *Report {
	return &Report{Prop: prop, Tier: tier, rules: map[string]*ruleInfo{}, Funcs: map[string]bool{}, Level: "other", Extra: map[string]any{}}
}

// Rule declares a rule with its kind, one-line doc and minimum instance count.
func (r *Report) Rule(id, kind, doc string, min int) {
	if _, ok := r.rules[id]; ok {
		return
	}
	r.rules[id] = &ruleInfo{Kind: kind, Doc: doc, Min: min}
	r.ruleOrder = append(r.ruleOrder, id)
}

func (r *Report) add(rule, construct, pos string, st Status, detail string) *Obligation {
	ri := r.rules[rule]
	if ri == nil {
		panic("undeclared rule " + rule)
	}
	// de-duplicate by key (multi-config runs): worst status wins
	for _, o := range r.Obls {
		if o.Rule == rule && o.Construct == construct {
			if rank(st) > rank(o.Status) {
				o.Status, o.Detail, o.Pos = st, detail, pos
			}
			return o
		}
	}
	ri.Matched++
	o := &Obligation{Rule: rule, Kind: ri.Kind, Construct: construct, Pos: pos, Status: st, Detail: detail}
	r.Obls = append(r.Obls, o)
	return o
}

func rank(s Status) int {
	switch s {
	case Discharged:
		return 0
	case Known:
		return 1
	case Undecided:
		return 2
	case Violated:
		return 3
	}
	return 0
}

func (r *Report) OK(rule, construct, pos, detail string) {
	r.add(rule, construct, pos, Discharged, detail)
}
func (r *Report) Bad(rule, construct, pos, detail string) {
	r.add(rule, construct, pos, Violated, detail)
}
func (r *Report) Unk(rule, construct, pos, detail string) {
	r.add(rule, construct, pos, Undecided, detail)
}

// Check is a convenience: ok -> discharged, else violated.
func (r *Report) Check(ok bool, rule, construct, pos, okDetail, badDetail string) {
	if ok {
		r.OK(rule, construct, pos, okDetail)
	} else {
		r.Bad(rule, construct, pos, badDetail)
	}
}

// Fn records a function as analysed.
func (r *Report) Fn(names ...string) {
	for _, n := range names {
		r.Funcs[n] = true
	}
}

// ---- known findings ----

type KnownEntry struct {
	Kind      string `json:"kind"` // finding | fixed
	Property  string `json:"property"`
	Rule      string `json:"rule"`
	Construct string `json:"construct"`
	What      string `json:"what"`
	Input     string `json:"input,omitempty"`
	Commit    string `json:"commit,omitempty"`
}

func loadKnown(path string) ([]KnownEntry, error) {
	f, err := os.Open(path)
	if err != nil {
		if os.IsNotExist(err) {
			return nil, nil
		}
		return nil, err
	}
	defer f.Close()
	var out []KnownEntry
	sc := bufio.NewScanner(f)
	sc.Buffer(make([]byte, 1<<20), 1<<24)
	ln := 0
	for sc.Scan() {
		ln++
		t := strings.TrimSpace(sc.Text())
		if t == "" || strings.HasPrefix(t, "#") || strings.HasPrefix(t, "//") {
			continue
		}
		if strings.HasPrefix(t, "fixed:") {
			// "fixed: property=<id> <commit> <what failed>" — a record only; suppresses nothing.
			continue
		}
		var e KnownEntry
		if err := json.Unmarshal([]byte(t), &e); err != nil {
			return nil, fmt.Errorf("%s:%d: %v", path, ln, err)
		}
		out = append(out, e)
	}
	return out, sc.Err()
}

// Finish: applies minimum-instance rules, triages known findings, writes evidence,
// prints VIOLATION / KNOWN-FINDING lines. Returns exit code.
func (r *Report) Finish(verifDir string, start time.Time, seed int) int {
	// minimum instance counts: a rule matching too few constructs fails.
	for _, id := range r.ruleOrder {
		ri := r.rules[id]
		// The floor guards against a rule that lost its anchors and passes vacuously; it is not a
		// clause of the property. Min is the count confirmed by hand on the pinned tree; half of
		// it is required, so that folding duplicate sites into one (two identical branches merged,
		// five commands sharing a new helper) is not reported, while losing most anchors is.
		min := (ri.Min + 1) / 2
		if ri.Matched < min {
			r.add(id, "<instance-count>", "-", Undecided,
				fmt.Sprintf("rule matched %d constructs, expected at least %d (half of the %d confirmed on the pinned tree) — anchors moved or rule table needs review", ri.Matched, min, ri.Min))
			ri.Matched-- // the pseudo obligation is not an instance
		}
	}
	known, err := loadKnown(filepath.Join(verifDir, "known_findings.jsonl"))
	if err != nil {
		fmt.Printf("ERROR reading known findings: %v\n", err)
		return 2
	}
	kmap := map[string]KnownEntry{}
	for _, k := range known {
		if k.Kind == "finding" && k.Property == r.Prop {
			kmap[k.Rule+"|"+k.Construct] = k
		}
	}
	sort.SliceStable(r.Obls, func(i, j int) bool {
		if r.Obls[i].Rule != r.Obls[j].Rule {
			return r.Obls[i].Rule < r.Obls[j].Rule
		}
		return r.Obls[i].Construct < r.Obls[j].Construct
	})
	nViol, nKnown, nDis := 0, 0, 0
	replayDir := filepath.Join(verifDir, "evidence", "replay")
	os.MkdirAll(replayDir, 0o755)
	// remove stale replay files of this property
	if old, _ := filepath.Glob(filepath.Join(replayDir, r.Prop+"-*.json")); old != nil {
		for _, f := range old {
			os.Remove(f)
		}
	}
	var lines []string
	for _, o := range r.Obls {
		switch o.Status {
		case Discharged:
			nDis++
		case Violated, Undecided:
			if o.Status == Violated {
				if k, ok := kmap[o.Key()]; ok {
					o.Status = Known
					nKnown++
					lines = append(lines, fmt.Sprintf("KNOWN-FINDING: property=%s %s [%s] %s (%s)", r.Prop, o.Key(), o.Pos, k.What, o.Detail))
					continue
				}
			}
			nViol++
			h := sha1.Sum([]byte(o.Key()))
			path := filepath.Join(replayDir, fmt.Sprintf("%s-%s.json", r.Prop, hex.EncodeToString(h[:6])))
			b, _ := json.MarshalIndent(o, "", " ")
			os.WriteFile(path, append(b, '\n'), 0o644)
			lines = append(lines, fmt.Sprintf("  %s: rule=%s construct=%s at %s: %s", o.Status, o.Rule, o.Construct, o.Pos, o.Detail))
			lines = append(lines, fmt.Sprintf("VIOLATION property=%s replay=%s", r.Prop, path))
		}
	}
	// stale known entries (no longer matching anything) are reported informationally.
	for key, k := range kmap {
		found := false
		for _, o := range r.Obls {
			if o.Key() == key && o.Status == Known {
				found = true
			}
		}
		// entries of a GOOS configuration that this tier did not load are not stale
		if i := strings.LastIndex(key, "["); i >= 0 && strings.HasSuffix(key, "]") {
			cfg := key[i+1 : len(key)-1]
			loaded := false
			for _, c := range r.Configs {
				if c == cfg {
					loaded = true
				}
			}
			if !loaded {
				continue
			}
		}
		if !found {
			lines = append(lines, fmt.Sprintf("note: known finding no longer reproduces (property=%s %s: %s)", r.Prop, key, k.What))
		}
	}
	sort.SliceStable(lines, func(i, j int) bool { return false })
	for _, l := range lines {
		fmt.Println(l)
	}

	// evidence
	type ruleEv struct {
		Rule       string `json:"rule"`
		Kind       string `json:"kind"`
		Doc        string `json:"doc"`
		Matched    int    `json:"matched_constructs"`
		MinExpect  int    `json:"min_expected"`
		Discharged int    `json:"discharged"`
		Known      int    `json:"known"`
		Violated   int    `json:"violated"`
	}
	var rev []ruleEv
	for _, id := range r.ruleOrder {
		ri := r.rules[id]
		e := ruleEv{Rule: id, Kind: ri.Kind, Doc: ri.Doc, Matched: ri.Matched, MinExpect: ri.Min}
		for _, o := range r.Obls {
			if o.Rule != id {
				continue
			}
			switch o.Status {
			case Discharged:
				e.Discharged++
			case Known:
				e.Known++
			default:
				e.Violated++
			}
		}
		rev = append(rev, e)
	}
	var fns []string
	for f := range r.Funcs {
		fns = append(fns, f)
	}
	sort.Strings(fns)
	// samples: all non-discharged + up to 40 discharged, spread across rules
	var samples []any
	perRule := map[string]int{}
	for _, o := range r.Obls {
		if o.Status != Discharged {
			samples = append(samples, o)
			continue
		}
		if perRule[o.Rule] < 4 {
			perRule[o.Rule]++
			samples = append(samples, o)
		}
	}
	level := r.Level
	if level == "proof" && (nViol > 0 || nKnown > 0) {
		level = "other"
	}
	cov := map[string]any{
		"explanation":        r.Explanation,
		"obligations":        len(r.Obls),
		"discharged":         nDis,
		"known_findings":     nKnown,
		"violated":           nViol,
		"rule_instances":     rev,
		"functions_analysed": fns,
		"n_functions":        len(fns),
		"call_sites":         r.CallSites,
		"configs":            r.Configs,
		"samples":            samples,
		"checker_cmd":        fmt.Sprintf("./check %s --tier %s", r.Prop, r.Tier),
		"trusted_base":       r.Trusted,
		"exhaustive":         false,
		"notes":              r.Notes,
	}
	for k, v := range r.Extra {
		cov[k] = v
	}
	ev := map[string]any{
		"property_id": r.Prop,
		"tier":        r.Tier,
		"seed":        seed,
		"level":       level,
		"coverage":    cov,
		"assumptions": r.Assumptions,
		"wall_s":      time.Since(start).Seconds(),
		"violations":  nViol,
	}
	os.MkdirAll(filepath.Join(verifDir, "evidence"), 0o755)
	b, _ := json.MarshalIndent(ev, "", " ")
	if err := os.WriteFile(filepath.Join(verifDir, "evidence", r.Prop+".json"), append(b, '\n'), 0o644); err != nil {
		fmt.Printf("ERROR writing evidence: %v\n", err)
		return 2
	}
	fmt.Printf("%s tier=%s: %d obligations, %d discharged, %d known findings, %d violated/undecided; %d rules, %d functions (%.1fs)\n",
		r.Prop, r.Tier, len(r.Obls), nDis, nKnown, nViol, len(r.ruleOrder), len(fns), time.Since(start).Seconds())
	if nViol > 0 {
		return 1
	}
	return 0
}
