package main

import (
	"fmt"
	"go/token"

	"golang.org/x/tools/go/ssa"
)

func init() { propFuncs["C16"] = checkC16 }

const (
	fnBufWrite = "(*editor.Buffers).Write"
	fnSelCut   = "(*core.Selection).Cut"
	fnSelText  = "(*core.Selection).Text"
	fnSelPop   = "(*core.Selection).Pop"
	fnLineCut  = "(*core.Line).Cut"
	fnCutRune  = "(*core.Line).CutRune"
)

// kill commands named by the statement (DESIGN.md §5 C16)
var killCommands = []string{
	"kill-line", "backward-kill-line", "unix-line-discard", "kill-whole-line", "kill-buffer",
	"kill-word", "backward-kill-word", "unix-word-rubout", "vi-unix-word-rubout", "kill-region",
	"shell-kill-word", "shell-backward-kill-word", "vi-kill-eol", "vi-kill-line", "vi-rubout", "vi-delete",
}

// isShellLineDeref: *(*rl.line)
func isShellLineDeref(v ssa.Value) bool {
	u, ok := v.(*ssa.UnOp)
	if !ok || u.Op != token.MUL {
		return false
	}
	return isFieldLoad(u.X, "readline.Shell", "line")
}

func stripConv(v ssa.Value) ssa.Value {
	for {
		switch x := v.(type) {
		case *ssa.Convert:
			v = x.X
		case *ssa.ChangeType:
			v = x.X
		default:
			return v
		}
	}
}

// killWriteIdiom classifies what a Buffers.Write call in a kill command stores.
func killWriteIdiom(p *Prog, f *ssa.Function, w ssa.CallInstruction) (string, bool, string) {
	arg := stripConv(w.Common().Args[1])
	// (b)/(c): slices of the line itself
	switch x := arg.(type) {
	case *ssa.Slice:
		if isShellLineDeref(x.X) {
			// a Line.Cut(lo, hi) with the same SSA bounds must follow on every path
			var match ssa.Instruction
			for _, c := range callsTo(f, false, fnLineCut) {
				args := c.Common().Args
				lo, hi := args[1], args[2]
				sameLo := (x.Low == nil && isZero(lo)) || x.Low == lo
				sameHi := x.High == hi
				if sameLo && sameHi {
					match = c
				}
			}
			if match == nil {
				return "(b) line[a:b] + Line.Cut(a,b)", false, "stores line[a:b] but no Line.Cut with the same bounds values exists: what is stored is not what is removed"
			}
			ok, _ := mustPassBefore(f, w, isReturn, func(in ssa.Instruction) bool { return in == match })
			if !ok {
				return "(b) line[a:b] + Line.Cut(a,b)", false, "the matching Line.Cut(a,b) is not executed on every path after the store"
			}
			// nothing may edit the buffer between the copy and the cut
			if mid := pathAvoiding(f, w, func(in ssa.Instruction) bool {
				return in != match && isCallTo(in, fnLineCut, fnCutRune, "(*core.Line).Insert", "(*core.Line).Set", "(*core.Line).InsertBetween", fnSelCut)
			}, func(in ssa.Instruction) bool { return in == match }); mid != nil {
				return "(b) line[a:b] + Line.Cut(a,b)", false, "the buffer is edited between the copy and the matching cut"
			}
			return "(b) line[a:b] + Line.Cut(a,b)", true, ""
		}
	case *ssa.UnOp:
		if isShellLineDeref(x) {
			// whole line + Cut(0, Len())
			var match ssa.Instruction
			for _, c := range callsTo(f, false, fnLineCut) {
				args := c.Common().Args
				if isZero(args[1]) && isCallNamed(args[2], "(*core.Line).Len") {
					match = c
				}
			}
			if match == nil {
				return "(c) whole line + Cut(0,Len())", false, "stores the whole line but does not cut (0, Len())"
			}
			ok, _ := mustPassBefore(f, w, isReturn, func(in ssa.Instruction) bool { return in == match })
			return "(c) whole line + Cut(0,Len())", ok, "the whole-line cut is not executed on every path after the store"
		}
	}
	// (a): result of Selection.Cut (possibly with a constant newline appended)
	leaves := backSlice(w.Common().Args[1], &SliceOpts{P: p, IsSource: func(v ssa.Value) bool { return isCallNamed(v, fnSelCut) }})
	nCut, other := 0, ""
	for _, l := range leaves {
		switch l.Kind {
		case LeafSource:
			nCut++
		case LeafConst:
		default:
			other = fmt.Sprintf("%s [%s]", p.descValue(l.V), l.Why)
		}
	}
	if nCut > 0 && other == "" {
		return "(a) Selection.Cut()", true, ""
	}
	// (d): accumulated characters
	if ok, why := accumulatedCutIdiom(p, f, w); ok || why != "" {
		return "(d) runes collected before CutRune", ok, why
	}
	if other == "" {
		other = "no recognised source"
	}
	return "?", false, "the killed text stored does not come from the removal (Selection.Cut / line[a:b]+Cut(a,b) / collected runes): " + other
}

func isZero(v ssa.Value) bool { k, ok := constInt(v); return ok && k == 0 }

// accumulatedCutIdiom: cut = append(cut, Cursor.Char()) immediately before
// Line.CutRune(Cursor.Pos()) in the same loop; if the loop walks backwards
// (Cursor.Dec per iteration) the rune must be prepended instead.
func accumulatedCutIdiom(p *Prog, f *ssa.Function, w ssa.CallInstruction) (bool, string) {
	arg := w.Common().Args[1]
	ph, ok := arg.(*ssa.Phi)
	if !ok {
		return false, ""
	}
	var app *ssa.Call
	for _, e := range ph.Edges {
		if cl, ok := e.(*ssa.Call); ok {
			if b, ok := cl.Call.Value.(*ssa.Builtin); ok && b.Name() == "append" {
				app = cl
			}
		}
	}
	if app == nil {
		// the phi may be the loop-header phi; look one level in
		for _, e := range ph.Edges {
			if ph2, ok := e.(*ssa.Phi); ok {
				for _, e2 := range ph2.Edges {
					if cl, ok := e2.(*ssa.Call); ok {
						if b, ok := cl.Call.Value.(*ssa.Builtin); ok && b.Name() == "append" {
							app = cl
						}
					}
				}
			}
		}
	}
	if app == nil {
		return false, ""
	}
	// which operand carries the accumulator, which the new rune?
	isAcc := func(v ssa.Value) bool {
		_, isPhi := v.(*ssa.Phi)
		return isPhi
	}
	charOf := func(v ssa.Value) bool {
		for _, l := range backSlice(v, &SliceOpts{P: p, ElemOf: true, IsSource: func(x ssa.Value) bool { return isCallNamed(x, "(*core.Cursor).Char") }}) {
			if l.Kind == LeafSource {
				return true
			}
		}
		return false
	}
	appendsAtEnd := isAcc(app.Call.Args[0]) && charOf(app.Call.Args[1])
	prepends := charOf(app.Call.Args[0]) && isAcc(stripSliceOfPhi(app.Call.Args[1]))
	if !appendsAtEnd && !prepends {
		return false, "collected runes are not Cursor.Char() values"
	}
	// the loop
	var L *Loop
	for _, l := range findLoops(f) {
		if l.Blocks[app.Block()] {
			L = l
		}
	}
	if L == nil {
		return false, "rune collection is not in a loop"
	}
	// CutRune(Cursor.Pos()) after the Char() in the same iteration
	var cut ssa.Instruction
	for b := range L.Blocks {
		for _, in := range b.Instrs {
			if isCallTo(in, fnCutRune) {
				if isCallNamed(in.(ssa.CallInstruction).Common().Args[1], "(*core.Cursor).Pos") {
					cut = in
				}
			}
		}
	}
	if cut == nil {
		return false, "no Line.CutRune(Cursor.Pos()) in the collecting loop"
	}
	if !instrDominates(app, cut) && !(app.Block() == cut.Block()) {
		return false, "the rune is not collected before it is removed"
	}
	// every iteration that cuts also collects: from loop head to cut passes app
	okPair, _ := mustPassBefore(f, nil, func(in ssa.Instruction) bool { return in == cut }, func(in ssa.Instruction) bool { return in == ssa.Instruction(app) })
	if !okPair {
		return false, "a rune can be removed without being collected"
	}
	backward := false
	for b := range L.Blocks {
		for _, in := range b.Instrs {
			if isCallTo(in, "(*core.Cursor).Dec") {
				backward = true
			}
		}
	}
	if backward && appendsAtEnd {
		return false, "the loop deletes backwards (Cursor.Dec each iteration) but appends each removed rune at the end: with a count > 1 the stored text is the removed text reversed"
	}
	if !backward && prepends {
		return false, "the loop deletes forwards but prepends each removed rune: the stored text is reversed"
	}
	return true, ""
}

func stripSliceOfPhi(v ssa.Value) ssa.Value {
	if sl, ok := v.(*ssa.Slice); ok {
		return sl.X
	}
	return v
}

func checkC16(c *Ctx) {
	p, r := c.P, c.R
	r.Explanation = "Decided statically: for every kill command named by the property, each Buffers.Write stores text obtained by one of the accepted removal idioms — the result of Selection.Cut(); a slice line[a:b] whose bounds are the same SSA values as the Line.Cut(a,b) that follows on every path with no edit in between; the whole line paired with Cut(0,Len()); or runes collected from Cursor.Char() immediately before CutRune(Cursor.Pos()) in the same loop, in removal order — and every path that removes text also writes it; Selection.Cut returns Text() read before the mutation and cuts exactly the Pos() range; yank/vi-put insert only Buffers.Active() (plus the line-wise newline adjustment); Buffers.Write reaches the kill ring's slot 0, which is the slot Active/GetKill read, after shifting older kills. NOT decided: equality of the restored buffer for every buffer/cursor (value-level), and whether the right *amount* is removed (word motions compute byte lengths: see the unit findings)."
	r.Trusted = []string{"go/packages type checker", "go/ssa construction", "rule tables in rlcheck/c16.go"}
	r.Assumptions = []string{"Selection.Pos() is stable between two calls with no intervening edit"}

	reg := p.Registry()
	r.Rule("C16.kill-stores-cut", "K3", "each Buffers.Write in a kill command stores exactly what the command removes (accepted idioms a–d)", len(killCommands))
	r.Rule("C16.removal-recorded", "K1", "every path of a kill command that removes text also writes it to the kill buffers", len(killCommands)-4)
	for _, e := range reg.Errs {
		r.Unk("C16.kill-stores-cut", "registry", "-", e)
	}
	isWrite := func(in ssa.Instruction) bool { return isCallTo(in, fnBufWrite) }
	isRemoval := func(in ssa.Instruction) bool { return isCallTo(in, fnSelCut, fnLineCut, fnCutRune) }
	done := map[*ssa.Function]bool{}
	for _, cmd := range killCommands {
		f := reg.Cmds[cmd]
		if f == nil {
			r.Unk("C16.kill-stores-cut", "command:"+cmd, "-", "kill command is not registered — table needs review")
			continue
		}
		r.Fn(fnName(f))
		// the writes of the command: its own, and those of the unexported helpers it calls
		// (`rl.killSelection()` holding the Buffers.Write(Selection.Cut()) several commands share);
		// each is judged in the function that contains it
		type hostedWrite struct {
			host *ssa.Function
			w    ssa.CallInstruction
		}
		var ws []hostedWrite
		hosts := []*ssa.Function{f}
		for _, w := range callsTo(f, false, fnBufWrite) {
			ws = append(ws, hostedWrite{f, w})
		}
		seenHost := map[*ssa.Function]bool{f: true}
		for _, cl := range allCalls(f, false) {
			h := staticCallee(cl)
			if h == nil || seenHost[h] || !inRepo(h) || !isPrivateHelper(h) || len(h.Blocks) == 0 {
				continue
			}
			seenHost[h] = true
			hw := callsTo(h, false, fnBufWrite)
			for _, w := range hw {
				ws = append(ws, hostedWrite{h, w})
			}
			if len(hw) > 0 {
				hosts = append(hosts, h)
			}
		}
		if len(ws) == 0 {
			r.Bad("C16.kill-stores-cut", "command:"+cmd, p.Pos(f.Pos()), "kill command does not write to the kill buffers: yank cannot give the text back")
			continue
		}
		for i, hw := range ws {
			idiom, ok, why := killWriteIdiom(p, hw.host, hw.w)
			key := fmt.Sprintf("command:%s:Buffers.Write#%d", cmd, i)
			r.CallSites++
			r.Check(ok, "C16.kill-stores-cut", key, p.IPos(hw.w), "idiom "+idiom, why)
		}
		if done[f] {
			// aliases share one implementation: the removal rule is keyed per command anyway
		}
		done[f] = true
		// removal-recorded
		var missing ssa.Instruction
		for _, host := range hosts {
			host := host
			eachInstr(host, func(in ssa.Instruction) {
				if !isRemoval(in) {
					return
				}
				before := pathAvoiding(host, nil, func(x ssa.Instruction) bool { return x == in }, isWrite)
				after := pathAvoiding(host, in, isReturn, isWrite)
				if before != nil && after != nil {
					missing = in
				}
			})
		}
		r.Check(missing == nil, "C16.removal-recorded", "command:"+cmd, p.Pos(f.Pos()), "every removing path writes", "a path removes text (`"+instrString(missing)+"`) without writing it to the kill buffers")
	}

	// ---- a selected register applies to exactly one command (K1)
	r.Rule("C16.register-reset", "K1", "Buffers.Write and Buffers.Active defer Reset() before any return: a selected register is consumed by one command, also when nothing is written", 2)
	for _, n := range []string{fnBufWrite, "(*editor.Buffers).Active"} {
		f := p.Func(n)
		if f == nil {
			r.Unk("C16.register-reset", n, "-", "anchor not found")
			continue
		}
		r.Fn(n)
		ok, _ := mustPassBefore(f, nil, func(in ssa.Instruction) bool { return isReturn(in) && in.Block() != f.Recover }, func(in ssa.Instruction) bool {
			d, isD := in.(*ssa.Defer)
			return isD && calleeName(d) == "(*editor.Buffers).Reset"
		})
		r.Check(ok, "C16.register-reset", n+":defer-Reset", p.Pos(f.Pos()), "Reset deferred on every path", n+" can return without having deferred Reset(): after an empty kill the selected register stays armed and the next kill goes to it instead of the kill ring")
	}

	// ---- after a range kill the cursor is at the start of the removed range (K1+K3)
	r.Rule("C16.cursor-at-start", "K1", "a kill that marks its range with MarkRange(a, b) leaves the cursor at a: either a is the cursor position with no later cursor move, or Cursor.Set(a) follows the cut on every path", 3)
	cursorMoves := []string{"(*core.Cursor).Set", "(*core.Cursor).Move", "(*core.Cursor).Inc", "(*core.Cursor).Dec", "(*core.Cursor).EndOfLine", "(*core.Cursor).EndOfLineAppend", "(*core.Cursor).BeginningOfLine", "(*core.Cursor).ToFirstNonSpace", "(*core.Cursor).InsertAt"}
	seenF := map[*ssa.Function]bool{}
	for _, cmd := range killCommands {
		f := reg.Cmds[cmd]
		if f == nil || seenF[f] {
			continue
		}
		seenF[f] = true
		for i, mr := range callsTo(f, false, "(*core.Selection).MarkRange") {
			a := mr.Common().Args[1]
			key := fmt.Sprintf("%s:MarkRange#%d", fnName(f), i)
			// only ranges that start at a cursor position are covered (vi-kill-line starts at the insert mark)
			if !isCallNamed(a, "(*core.Cursor).Pos") {
				continue
			}
			var set ssa.Instruction
			for _, s := range callsTo(f, false, "(*core.Cursor).Set") {
				if s.Common().Args[1] == a && reachesBefore(f, mr, s) {
					set = s
				}
			}
			if set == nil {
				// the range starts at the cursor: fine if the cursor does not move after that position was taken
				later := pathAvoiding(f, a.(ssa.Instruction), func(in ssa.Instruction) bool { return isCallTo(in, cursorMoves...) }, nil)
				r.Check(later == nil, "C16.cursor-at-start", key, p.IPos(mr), "range starts at the cursor, which does not move afterwards", "the cursor moves after the range start was taken from it and is never set back to it: in a multi-line buffer it stays where the range ended, and an immediate yank inserts the text at the wrong place")
				continue
			}
			ok1, _ := mustPassBefore(f, mr, isReturn, func(in ssa.Instruction) bool { return in == set })
			later := pathAvoiding(f, set, func(in ssa.Instruction) bool { return isCallTo(in, cursorMoves...) }, nil)
			r.Check(ok1 && later == nil, "C16.cursor-at-start", key, p.IPos(mr), "Cursor.Set(start) is the last cursor move on every path", "Cursor.Set(start of range) is not the last cursor move on every path after the cut")
		}
	}

	// ---- Selection.Cut consistency
	r.Rule("C16.cut-consistent", "K3", "Selection.Cut returns Text() read before the mutation and removes exactly the Pos() range", 2)
	if SC := p.Func(fnSelCut); SC != nil {
		r.Fn(fnSelCut)
		texts := callsTo(SC, false, fnSelText)
		cuts := callsTo(SC, false, fnLineCut)
		if len(texts) != 1 || len(cuts) != 1 {
			r.Unk("C16.cut-consistent", fnSelCut+":shape", p.Pos(SC.Pos()), fmt.Sprintf("expected one Text() and one Line.Cut call, found %d/%d", len(texts), len(cuts)))
		} else {
			t, lc := texts[0], cuts[0]
			args := lc.Common().Args
			okRange := false
			if e0, ok := args[1].(*ssa.Extract); ok && e0.Index == 0 && isCallNamed(e0.Tuple, "(*core.Selection).Pos") {
				if e1, ok := args[2].(*ssa.Extract); ok && e1.Index == 1 && e1.Tuple == e0.Tuple {
					okRange = true
				}
			}
			r.Check(instrDominates(t, lc) && okRange, "C16.cut-consistent", fnSelCut+":text-before-cut", p.IPos(lc), "Text() precedes Line.Cut(Pos())", "Selection.Cut does not read the text before cutting exactly the Pos() range")
			// returned buf is Text()'s result on the path through the cut
			okRet := false
			eachInstr(SC, func(in ssa.Instruction) {
				if ret, ok := in.(*ssa.Return); ok && in.Block() != SC.Recover {
					for _, v := range mayValues(ret.Results[0]) {
						if v == ssa.Value(t.(*ssa.Call)) {
							okRet = true
						}
					}
				}
			})
			r.Check(okRet, "C16.cut-consistent", fnSelCut+":returns-text", p.Pos(SC.Pos()), "returns Text()", "Selection.Cut does not return the text it read")
		}
	} else {
		r.Unk("C16.cut-consistent", fnSelCut, "-", "anchor not found")
	}

	// ---- yank inserts the active buffer
	r.Rule("C16.yank-inserts-active", "K3", "yank / vi-put-before / vi-put-after insert only Buffers.Active() (plus the constant newline adjustment)", 3)
	for _, cmd := range []string{"yank", "vi-put-before", "vi-put-after"} {
		f := reg.Cmds[cmd]
		if f == nil {
			r.Unk("C16.yank-inserts-active", "command:"+cmd, "-", "not registered")
			continue
		}
		r.Fn(fnName(f))
		ins := callsTo(f, false, "(*core.Cursor).InsertAt", "(*core.Line).Insert")
		if len(ins) == 0 {
			r.Bad("C16.yank-inserts-active", "command:"+cmd, p.Pos(f.Pos()), "no insertion call found")
			continue
		}
		for i, call := range ins {
			args := call.Common().Args
			v := args[len(args)-1]
			leaves := backSlice(v, &SliceOpts{P: p, ElemOf: true, IsSource: func(x ssa.Value) bool { return isCallNamed(x, "(*editor.Buffers).Active") }})
			n, bad := 0, ""
			for _, l := range leaves {
				switch l.Kind {
				case LeafSource:
					n++
				case LeafConst:
				default:
					bad = fmt.Sprintf("%s [%s]", p.descValue(l.V), l.Why)
				}
			}
			r.Check(n > 0 && bad == "", "C16.yank-inserts-active", fmt.Sprintf("command:%s:insert#%d", cmd, i), p.IPos(call), "inserts Buffers.Active()", "the inserted text does not derive only from Buffers.Active(): "+bad)
		}
	}

	// ---- ring top agreement
	r.Rule("C16.ring-top", "K5", "Buffers.Write (no register selected) stores into the numbered slot that Active/GetKill read, after shifting older kills", 4)
	{
		WN, GK, BW, AC := p.Func("(*editor.Buffers).writeNum"), p.Func("(*editor.Buffers).GetKill"), p.Func(fnBufWrite), p.Func("(*editor.Buffers).Active")
		if WN == nil || GK == nil || BW == nil || AC == nil {
			r.Unk("C16.ring-top", "anchors", "-", "writeNum/GetKill/Write/Active not found")
		} else {
			r.Fn(fnName(WN), fnName(GK), fnName(BW), fnName(AC))
			// GetKill returns num[K]
			var readKey int64 = -99
			eachInstr(GK, func(in ssa.Instruction) {
				if lk, ok := in.(*ssa.Lookup); ok && isFieldLoad(lk.X, "editor.Buffers", "num") {
					if k, ok := constInt(lk.Index); ok {
						readKey = k
					}
				}
			})
			// writeNum: last MapUpdate with constant key in the non-positive-register path; shifting loop dominates it
			var top *ssa.MapUpdate
			eachInstr(WN, func(in ssa.Instruction) {
				if mu, ok := in.(*ssa.MapUpdate); ok && isFieldLoad(mu.Map, "editor.Buffers", "num") {
					if k, ok := constInt(mu.Key); ok && k == readKey {
						top = mu
					}
				}
			})
			r.Check(top != nil, "C16.ring-top", fnName(WN)+":top-slot", p.Pos(WN.Pos()), fmt.Sprintf("writes slot %d, read by GetKill", readKey), fmt.Sprintf("writeNum does not store into slot %d, the one GetKill returns: yank does not give back the last kill", readKey))
			if top != nil {
				// stored value derives from the buf parameter
				leaves := backSlice(top.Value, &SliceOpts{P: p, IsSource: func(v ssa.Value) bool { return v == ssa.Value(WN.Params[2]) }})
				n, bad := 0, ""
				for _, l := range leaves {
					switch l.Kind {
					case LeafSource:
						n++
					case LeafConst:
					default:
						bad = l.Why
					}
				}
				r.Check(n > 0 && bad == "", "C16.ring-top", fnName(WN)+":top-value", p.IPos(top), "slot 0 = copy of buf", "the top slot does not receive (a copy of) the killed text: "+bad)
				// a shifting loop precedes it
				shift := false
				for _, l := range findLoops(WN) {
					for b := range l.Blocks {
						for _, in := range b.Instrs {
							if mu, ok := in.(*ssa.MapUpdate); ok && isFieldLoad(mu.Map, "editor.Buffers", "num") {
								if l.Head.Dominates(top.Block()) || b.Dominates(top.Block()) {
									shift = true
								}
							}
						}
					}
				}
				r.Check(shift, "C16.ring-top", fnName(WN)+":shift-before-overwrite", p.IPos(top), "older kills are shifted first", "older kills are not shifted before slot 0 is overwritten")
			}
			// Write: the !selected branch calls writeNum with a register <= 0
			okW := false
			bf := blockFacts(BW)
			for _, call := range callsTo(BW, false, "(*editor.Buffers).writeNum") {
				k, isC := constInt(call.Common().Args[1])
				sel := false
				for fc := range factsAt(bf, call) {
					if isFieldLoad(fc.Cond, "editor.Buffers", "selected") && !fc.Val {
						sel = true
					}
				}
				if isC && k <= 0 && sel {
					okW = true
				}
			}
			r.Check(okW, "C16.ring-top", fnBufWrite+":ring-path", p.Pos(BW.Pos()), "unselected writes go to the ring", "Buffers.Write without a selected register does not push onto the kill ring")
			// Active: the !waiting && !selected branch returns GetKill()
			okA := false
			eachInstr(AC, func(in ssa.Instruction) {
				if ret, ok := in.(*ssa.Return); ok && in.Block() != AC.Recover {
					for _, v := range mayValues(ret.Results[0]) {
						if isCallNamed(v, "(*editor.Buffers).GetKill") {
							okA = true
						}
					}
				}
			})
			r.Check(okA, "C16.ring-top", fnName(AC)+":returns-GetKill", p.Pos(AC.Pos()), "Active returns GetKill() when no register is selected", "Buffers.Active no longer returns the kill ring's top when no register is selected")
		}
	}
	checkMatchersPaired(c, "C16.matchers-paired")
	checkAbortRespected(c, "C16.abort-respected")
	checkErrPolarity(c, "C16.err-polarity")
	checkRound4Misc(c, "C16")
	checkC16ArgDropped(c)
	checkC16RingTop(c)
	checkC16KillRepositions(c)
	checkDeleteCharStays(c, "C16.delete-char-in-line")
	checkInsertCopies(c, "C16.insert-copies")
}

func instrString(in ssa.Instruction) string {
	if in == nil {
		return ""
	}
	return in.String()
}
