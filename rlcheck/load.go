package main

import (
	"fmt"
	"go/token"
	"go/types"
	"os"
	"sort"
	"strings"

	"golang.org/x/tools/go/callgraph"
	"golang.org/x/tools/go/callgraph/cha"
	"golang.org/x/tools/go/callgraph/vta"
	"golang.org/x/tools/go/packages"
	"golang.org/x/tools/go/ssa"
	"golang.org/x/tools/go/ssa/ssautil"
)

const modPath = "github.com/reeflective/readline"

// Prog is the resolved program: type-checked packages, SSA, call graph.
type Prog struct {
	Dir   string
	GOOS  string
	Pkgs  []*packages.Package
	SSA   *ssa.Program
	CG    *callgraph.Graph
	Fset  *token.FileSet
	funcs map[string]*ssa.Function // canonical short name -> function
	// RepoFuncs is every function (incl. anonymous) whose package is in the module.
	RepoFuncs []*ssa.Function
	// AllFuncs: RepoFuncs plus the helpers the pinned tree did not have, which the rule tables see
	// only as part of their callers (absorb.go); the engines that must cover every function use this.
	AllFuncs     []*ssa.Function
	byPkg        map[string]*packages.Package
	fieldWriters map[string]map[*ssa.Function]bool // tn.field -> functions that may (transitively) store it
	lineWritesBy map[*ssa.Function][]ssa.Instruction
}

// shortName canonicalises an ssa function name:
// (*github.com/reeflective/readline/internal/core.Keys).ReadKey -> (*core.Keys).ReadKey
// github.com/reeflective/readline/inputrc.Parse -> inputrc.Parse
// (*github.com/reeflective/readline.Shell).Readline -> (*readline.Shell).Readline
func shortName(s string) string {
	s = strings.ReplaceAll(s, modPath+"/internal/", "")
	s = strings.ReplaceAll(s, modPath+"/", "")
	s = strings.ReplaceAll(s, modPath, "readline")
	return s
}

func fnName(f *ssa.Function) string {
	if f == nil {
		return "<nil>"
	}
	return aliasFuncName(shortName(f.String()))
}

func inRepo(f *ssa.Function) bool {
	if f == nil {
		return false
	}
	p := f.Package()
	if p == nil {
		// anonymous functions / bound wrappers have Pkg via parent
		if f.Parent() != nil {
			return inRepo(f.Parent())
		}
		if f.Object() != nil && f.Object().Pkg() != nil {
			return strings.HasPrefix(f.Object().Pkg().Path(), modPath)
		}
		return false
	}
	return strings.HasPrefix(p.Pkg.Path(), modPath)
}

// Load type-checks /repo (non-test packages), builds SSA and the VTA call graph.
func Load(dir, goos, goarch string, overlay map[string][]byte) (*Prog, error) {
	env := append(os.Environ(), "GOWORK=off", "GOFLAGS=-mod=readonly", "GOPROXY=off", "CGO_ENABLED=0")
	if goos != "" {
		env = append(env, "GOOS="+goos)
	} else {
		goos = "linux"
		env = append(env, "GOOS=linux")
	}
	if goarch != "" {
		env = append(env, "GOARCH="+goarch)
	} else {
		env = append(env, "GOARCH=amd64")
	}
	cfg := &packages.Config{
		Mode:    packages.LoadAllSyntax,
		Dir:     dir,
		Env:     env,
		Overlay: overlay,
		Tests:   false,
	}
	pkgs, err := packages.Load(cfg, "./...")
	if err != nil {
		return nil, fmt.Errorf("load: %w", err)
	}
	var errs []string
	packages.Visit(pkgs, nil, func(p *packages.Package) {
		if !strings.HasPrefix(p.PkgPath, modPath) {
			return
		}
		for _, e := range p.Errors {
			errs = append(errs, e.Error())
		}
	})
	if len(errs) > 0 {
		sort.Strings(errs)
		return nil, fmt.Errorf("type/load errors in %s: %s", dir, strings.Join(errs, "; "))
	}
	if len(pkgs) == 0 {
		return nil, fmt.Errorf("no packages loaded from %s", dir)
	}
	prog, _ := ssautil.AllPackages(pkgs, ssa.InstantiateGenerics)
	prog.Build()
	P := &Prog{Dir: dir, GOOS: goos, Pkgs: pkgs, SSA: prog, funcs: map[string]*ssa.Function{}, byPkg: map[string]*packages.Package{}}
	if len(pkgs) > 0 {
		P.Fset = pkgs[0].Fset
	}
	for _, p := range pkgs {
		P.byPkg[p.PkgPath] = p
	}
	all := ssautil.AllFunctions(prog)
	P.CG = vta.CallGraph(all, cha.CallGraph(prog))
	for f := range all {
		if !inRepo(f) {
			continue
		}
		if f.Synthetic != "" && !strings.HasSuffix(f.Name(), "$bound") && f.Name() != "init" {
			// wrappers/thunks: keep out of the name table, but still repo funcs
		}
		P.RepoFuncs = append(P.RepoFuncs, f)
		n := fnName(f)
		if old, ok := P.funcs[n]; ok && old != f {
			// ambiguous names (generic instances, wrappers): keep the one with blocks
			if len(old.Blocks) > 0 {
				continue
			}
		}
		P.funcs[n] = f
	}
	sort.Slice(P.RepoFuncs, func(i, j int) bool { return fnName(P.RepoFuncs[i]) < fnName(P.RepoFuncs[j]) })
	progOf[prog] = P
	P.AllFuncs = P.RepoFuncs
	resolveRenames(P)
	if len(isAbsorbed) > 0 {
		var keep []*ssa.Function
		for _, f := range P.AllFuncs {
			top := f
			for top.Parent() != nil {
				top = top.Parent()
			}
			if !isAbsorbed[top] {
				keep = append(keep, f)
			}
		}
		P.RepoFuncs = keep
	}
	return P, nil
}

// Func resolves an anchor name; nil if it does not exist.
func (p *Prog) Func(name string) *ssa.Function { return p.funcs[name] }

// Pos renders a position relative to the repo dir.
func (p *Prog) Pos(pos token.Pos) string {
	if !pos.IsValid() {
		return "-"
	}
	ps := p.Fset.Position(pos)
	f := strings.TrimPrefix(ps.Filename, p.Dir+"/")
	return fmt.Sprintf("%s:%d", f, ps.Line)
}

// PosFile returns only the file (repo relative).
func (p *Prog) PosFile(pos token.Pos) string {
	if !pos.IsValid() {
		return "-"
	}
	ps := p.Fset.Position(pos)
	return strings.TrimPrefix(ps.Filename, p.Dir+"/")
}

// Pkg returns the go/packages package for a short path like "internal/core" or "" for root.
func (p *Prog) Pkg(short string) *packages.Package {
	path := modPath
	if short != "" {
		path = modPath + "/" + short
	}
	return p.byPkg[path]
}

// LookupType finds a named type by short package path and name.
func (p *Prog) LookupType(pkg, name string) types.Type {
	pp := p.Pkg(pkg)
	if pp == nil {
		return nil
	}
	o := pp.Types.Scope().Lookup(name)
	if o == nil {
		return nil
	}
	return o.Type()
}

// NumRepoPackages counts the module's packages in the load.
func (p *Prog) NumRepoPackages() int {
	n := 0
	for _, pk := range p.Pkgs {
		if strings.HasPrefix(pk.PkgPath, modPath) {
			n++
		}
	}
	return n
}
