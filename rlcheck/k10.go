package main

import (
	"fmt"
	"go/types"
	"sort"

	"golang.org/x/tools/go/callgraph"
	"golang.org/x/tools/go/ssa"
)

// K10 — effect reachability: which functions contain a primitive write to a
// shared edit buffer (a core.Line), and which roots can reach them.

func isNamed(t types.Type, short string) bool {
	return typeStr(t) == short
}

func isLinePtr(t types.Type) bool {
	p, ok := t.Underlying().(*types.Pointer)
	return ok && isNamed(p.Elem(), "core.Line")
}

// PrimWrite is one primitive buffer-writing instruction.
type PrimWrite struct {
	Fn   *ssa.Function
	In   ssa.Instruction
	Kind string
}

// freshLocalLine: the address/value designates a line allocated in this function
// (new(core.Line) / local variable) — not the shared buffer.
func freshLine(v ssa.Value) bool {
	for i := 0; i < 6; i++ {
		switch x := v.(type) {
		case *ssa.Alloc:
			return true
		case *ssa.UnOp:
			v = x.X
		case *ssa.Slice:
			v = x.X
		case *ssa.ChangeType:
			v = x.X
		case *ssa.Convert:
			return true // a conversion result is a fresh slice
		case *ssa.MakeSlice:
			return true
		case *ssa.Phi:
			for _, e := range x.Edges {
				if !freshLine(e) {
					return false
				}
			}
			return true
		default:
			return false
		}
	}
	return false
}

// primitiveLineWrites finds every instruction in repo code that writes a core.Line in place.
func (p *Prog) primitiveLineWrites() []PrimWrite {
	var out []PrimWrite
	for _, f := range p.AllFuncs {
		eachInstrRaw(f, func(in ssa.Instruction) {
			switch x := in.(type) {
			case *ssa.Store:
				if isLinePtr(x.Addr.Type()) {
					_, isAlloc := x.Addr.(*ssa.Alloc)
					// a by-value field of type core.Line (Sources.acceptLine, display's copies) is
					// separate storage, not an edit buffer reached through a *core.Line
					_, isField := x.Addr.(*ssa.FieldAddr)
					if !isAlloc && !isField {
						out = append(out, PrimWrite{f, in, "*line = …"})
					}
					return
				}
				if ia, ok := x.Addr.(*ssa.IndexAddr); ok && isNamed(ia.X.Type(), "core.Line") && !freshLine(ia.X) {
					out = append(out, PrimWrite{f, in, "line[i] = …"})
				}
			case *ssa.Call:
				b, ok := x.Call.Value.(*ssa.Builtin)
				if !ok {
					return
				}
				switch b.Name() {
				case "copy":
					if isNamed(x.Call.Args[0].Type(), "core.Line") && !freshLine(x.Call.Args[0]) {
						out = append(out, PrimWrite{f, in, "copy(line, …)"})
					}
				case "append":
					// append(line[:k], …) writes the shared backing array in place
					if sl, ok := x.Call.Args[0].(*ssa.Slice); ok && isNamed(sl.X.Type(), "core.Line") && sl.High != nil && !freshLine(sl.X) {
						out = append(out, PrimWrite{f, in, "append(line[:k], …)"})
					}
				}
			}
		})
	}
	sort.Slice(out, func(i, j int) bool {
		if fnName(out[i].Fn) != fnName(out[j].Fn) {
			return fnName(out[i].Fn) < fnName(out[j].Fn)
		}
		return instrPos(out[i].In) < instrPos(out[j].In)
	})
	return out
}

// lineEdgeFilter drops call edges into *core.Line methods whose receiver is a
// line freshly allocated in the caller (a scratch copy, not the edit buffer).
func lineEdgeFilter(e *callgraph.Edge) bool {
	if e.Site == nil {
		return true
	}
	callee := e.Callee.Func
	if callee.Signature.Recv() == nil || !isLinePtr(callee.Signature.Recv().Type()) {
		return true
	}
	cc := e.Site.Common()
	if cc.IsInvoke() || len(cc.Args) == 0 {
		return true
	}
	if a, ok := cc.Args[0].(*ssa.Alloc); ok {
		_ = a
		return false
	}
	return true
}

// Effect is a mutator function reachable from a root, with the call path.
type Effect struct {
	Root    string
	Mutator *ssa.Function
	Path    string
}

func (p *Prog) effectsFrom(root *ssa.Function, rootName string, mutators map[*ssa.Function]bool, filter func(*callgraph.Edge) bool) []Effect {
	parent := p.reachFrom([]*ssa.Function{root}, filter)
	var out []Effect
	for f := range parent {
		if mutators[f] {
			out = append(out, Effect{rootName, f, cgPath(parent, f)})
		}
	}
	sort.Slice(out, func(i, j int) bool { return fnName(out[i].Mutator) < fnName(out[j].Mutator) })
	return out
}

// firstMutatingCaller: along the path root→…→mutator, the last function that is
// not itself a method of the mutated type — i.e. where the effect is decided.
func effectSite(parent map[*ssa.Function]*callgraph.Edge, mut *ssa.Function) string {
	f := mut
	for i := 0; i < 40; i++ {
		e := parent[f]
		if e == nil || e.Caller == nil {
			return fnName(f)
		}
		caller := e.Caller.Func
		recv := f.Signature.Recv()
		if recv != nil && (isLinePtr(recv.Type()) || typeStr(recv.Type()) == "*core.Cursor" || typeStr(recv.Type()) == "*core.Selection") {
			f = caller
			continue
		}
		return fnName(f)
	}
	return fnName(f)
}

func describeWrites(p *Prog, ws []PrimWrite) []string {
	var out []string
	for _, w := range ws {
		out = append(out, fmt.Sprintf("%s %s (%s)", fnName(w.Fn), w.Kind, p.IPos(w.In)))
	}
	return out
}

// coreMutators: functions with a primitive write, closed upwards over methods of
// *core.Line / *core.Cursor / *core.Selection (the editing primitives).
func (p *Prog) coreMutators(writes []PrimWrite) map[*ssa.Function]bool {
	mut := map[*ssa.Function]bool{}
	for _, w := range writes {
		mut[w.Fn] = true
	}
	isCoreMethod := func(f *ssa.Function) bool {
		recv := f.Signature.Recv()
		if recv == nil {
			return false
		}
		t := typeStr(recv.Type())
		return t == "*core.Line" || t == "*core.Cursor" || t == "*core.Selection"
	}
	changed := true
	for changed {
		changed = false
		for _, f := range p.AllFuncs {
			if mut[f] || !isCoreMethod(f) {
				continue
			}
			n := p.CG.Nodes[f]
			if n == nil {
				continue
			}
			for _, e := range n.Out {
				if mut[e.Callee.Func] && lineEdgeFilter(e) {
					mut[f] = true
					changed = true
					break
				}
			}
		}
	}
	return mut
}

// effectSitesFrom: reachable functions that are not editing primitives themselves
// and either contain a primitive write or call an editing primitive that mutates.
func (p *Prog) effectSitesFrom(root *ssa.Function, mut map[*ssa.Function]bool, prim map[*ssa.Function]bool) (map[string]string, int) {
	parent := p.reachFrom([]*ssa.Function{root}, lineEdgeFilter)
	isCoreMethod := func(f *ssa.Function) bool {
		recv := f.Signature.Recv()
		if recv == nil {
			return false
		}
		t := typeStr(recv.Type())
		return t == "*core.Line" || t == "*core.Cursor" || t == "*core.Selection"
	}
	sites := map[string]string{}
	for f := range parent {
		if isCoreMethod(f) {
			continue
		}
		if prim[f] {
			sites[fnName(f)] = cgPath(parent, f) + " [primitive write]"
			continue
		}
		n := p.CG.Nodes[f]
		if n == nil {
			continue
		}
		var bf FactMap
		for _, e := range n.Out {
			if mut[e.Callee.Func] && isCoreMethod(e.Callee.Func) && lineEdgeFilter(e) {
				// constant-parameter refinement: the call needs a bool parameter of f to be
				// true, and every reachable caller passes the constant false
				if e.Site != nil {
					if bf == nil {
						bf = blockFacts(f)
					}
					if p.deadByConstParam(f, e.Site, bf, parent) {
						continue
					}
				}
				if _, ok := sites[fnName(f)]; !ok {
					sites[fnName(f)] = cgPath(parent, f) + " → " + fnName(e.Callee.Func)
				}
			}
		}
	}
	return sites, len(parent)
}

// deadByConstParam: site (in f) executes only when some bool parameter of f has
// value V, and every call edge into f from a reachable caller passes !V as a constant.
func (p *Prog) deadByConstParam(f *ssa.Function, site ssa.Instruction, bf FactMap, reach map[*ssa.Function]*callgraph.Edge) bool {
	facts := factsAt(bf, site)
	for pi, prm := range f.Params {
		b, ok := prm.Type().Underlying().(*types.Basic)
		if !ok || b.Kind() != types.Bool {
			continue
		}
		for _, need := range []bool{true, false} {
			if !knownBool(facts, prm, need) {
				continue
			}
			n := p.CG.Nodes[f]
			if n == nil {
				continue
			}
			all, any := true, false
			for _, in := range n.In {
				if _, ok := reach[in.Caller.Func]; !ok {
					continue
				}
				if in.Site == nil {
					all = false
					continue
				}
				any = true
				args := in.Site.Common().Args
				if pi >= len(args) {
					all = false
					continue
				}
				v, isC := constBool(args[pi])
				if !isC || v == need {
					all = false
				}
			}
			if any && all {
				return true
			}
		}
	}
	return false
}
