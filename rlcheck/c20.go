package main

import (
	"fmt"
	"sort"
	"strings"

	"golang.org/x/tools/go/callgraph"
	"golang.org/x/tools/go/ssa"
)

func init() { propFuncs["C20"] = checkC20 }

// struct types whose unsynchronised sharing between the main loop and the
// resize goroutine / Printf is the known, by-design state of the pinned tree.
// Listed per (struct type, thread pair); anything new is a violation.

func checkC20(c *Ctx) {
	p, r := c.P, c.R
	r.Explanation = "Decided statically: the goroutine inventory (every `go` statement in the module) is exactly the resize watcher; for the three thread roots — the main loop (Readline and the commands), the resize goroutine, and the documented-concurrent API (Shell.Printf / PrintTransientf) — every struct type with a field accessed from two roots, at least one access being a write, and no lock held in common by all those accesses is reported per (struct type, root pair) (the pinned tree shares the whole editor state without a lock: known findings); no field of a struct is stored while only the read side of that struct's RWMutex is held; the accesses that are under Keys.mutex today stay under it (protected inventory with minimum count); no channel operation or terminal read happens while Keys.mutex is held; the channel protocol rule of C01 is shared. NOT decided: absence of races or deadlocks for all interleavings (a whole-program race proof), nor what the screen shows after a concurrent redisplay."
	r.Trusted = []string{"go/packages type checker", "go/ssa construction", "VTA call graph over CHA", "intraprocedural must-lockset analysis in rlcheck/k8_lockset.go"}
	r.Assumptions = []string{"locks are taken and released in the same function (true for every lock operation in the module, checked by the inventory)", "the application calls no other Shell method concurrently"}

	progs := []*Prog{p}
	cfgs := []string{"linux/amd64"}
	if c.Tier == "thorough" {
		if q := c.loadOther("windows", "amd64"); q != nil {
			progs = append(progs, q)
			cfgs = append(cfgs, "windows/amd64")
		}
	}
	for i, q := range progs {
		checkC20On(c, q, cfgs[i])
	}
	checkC20CursorChan(c, p, "")
	checkC20CancelCache(c)
	checkC20Round4(c)
	checkC20ReadKeyReport(c)
	checkRound5Small(c, "C20")
	checkSelfDeadlock(c, "C20.self-deadlock")
	checkChanProtocol(c, "C20.chan")
}

func checkC20On(c *Ctx, p *Prog, cfg string) {
	r := c.R
	sfx := ""
	if cfg != "linux/amd64" {
		sfx = "[" + cfg + "]"
	}
	// ---- goroutine inventory
	r.Rule("C20.threads", "K6", "the only goroutine started by the module is the terminal-resize watcher", 1)
	var goRoots []*ssa.Function
	for _, f := range p.RepoFuncs {
		eachInstr(f, func(in ssa.Instruction) {
			g, ok := in.(*ssa.Go)
			if !ok {
				return
			}
			callee := staticCallee(g)
			name := "dynamic"
			if callee != nil {
				name = fnName(callee)
				goRoots = append(goRoots, callee)
			}
			key := fnName(f) + ":go " + name + sfx
			ok2 := strings.HasPrefix(fnName(f), "display.WatchResize")
			r.Check(ok2, "C20.threads", key, p.IPos(in), "reviewed goroutine", "a new goroutine is started: every field it touches becomes shared state — needs review")
		})
	}
	if len(goRoots) == 0 {
		r.Unk("C20.threads", "go-statements"+sfx, "-", "no `go` statement found: the resize watcher is gone — table needs review")
	}

	// ---- thread roots and reachability
	reg := p.Registry()
	mainRoots := []*ssa.Function{p.Func(fnReadline)}
	for _, n := range reg.Names() {
		mainRoots = append(mainRoots, reg.Cmds[n])
	}
	apiRoots := []*ssa.Function{p.Func("(*readline.Shell).Printf"), p.Func("(*readline.Shell).PrintTransientf")}
	roots := map[string][]*ssa.Function{"main": mainRoots, "resize": goRoots, "printf": apiRoots}
	reach := map[string]map[*ssa.Function]*callgraph.Edge{}
	for n, rs := range roots {
		reach[n] = p.reachFrom(rs, nil)
	}
	// ---- accesses
	type acc struct {
		root  string
		write bool
		locks LockSet
		fa    FieldAccess
	}
	byType := map[string][]acc{}
	cache := map[*ssa.Function][]FieldAccess{}
	for rn, fs := range reach {
		for f := range fs {
			if len(f.Blocks) == 0 {
				continue
			}
			fas, ok := cache[f]
			if !ok {
				fas = fieldAccesses(f)
				cache[f] = fas
			}
			for _, fa := range fas {
				// constructors' own fresh objects are not shared yet
				byType[fa.Type] = append(byType[fa.Type], acc{rn, fa.Write, fa.Locks, fa})
			}
		}
	}
	r.Rule("C20.shared-unprotected", "K8", "no struct type has a field accessed from two thread roots (one access a write) without a lock common to all those accesses — reported per (struct type, root pair)", 1)
	var types_ []string
	for t := range byType {
		if strings.Contains(t, ".") && !strings.HasPrefix(t, "struct{") {
			types_ = append(types_, t)
		}
	}
	sort.Strings(types_)
	pairs := [][2]string{{"main", "resize"}, {"main", "printf"}}
	nShared := 0
	for _, t := range types_ {
		for _, pr := range pairs {
			// per field: accessed from both roots with a write
			fields := map[string]bool{}
			byField := map[string][]acc{}
			for _, a := range byType[t] {
				if a.root == pr[0] || a.root == pr[1] {
					byField[a.fa.Field] = append(byField[a.fa.Field], a)
				}
			}
			for fld, as := range byField {
				r0, r1, w := false, false, false
				var common LockSet
				first := true
				for _, a := range as {
					if a.root == pr[0] {
						r0 = true
					} else {
						r1 = true
					}
					if a.write {
						w = true
					}
					if first {
						common = a.locks.clone()
						first = false
					} else {
						common = meet(common, a.locks)
					}
				}
				if r0 && r1 && w && len(common) == 0 {
					// mutex fields themselves and channels are synchronisation objects
					if fld == "mutex" {
						continue
					}
					fields[fld] = true
				}
			}
			if len(fields) == 0 {
				continue
			}
			nShared++
			key := fmt.Sprintf("%s:%s+%s%s", t, pr[0], pr[1], sfx)
			r.Bad("C20.shared-unprotected", key, "-", fmt.Sprintf("fields of %s are written and accessed by the %s and %s threads with no common lock: %s", t, pr[0], pr[1], strings.Join(sortedKeys(fields), ", ")))
		}
	}
	if nShared == 0 {
		r.OK("C20.shared-unprotected", "no-unprotected-sharing"+sfx, "-", fmt.Sprintf("%d struct types inspected", len(types_)))
	}
	r.Extra["struct_types_inspected"+sfx] = len(types_)

	// ---- writes under RLock (K8b) and protected inventory (K8c)
	r.Rule("C20.rlock-writes", "K8", "no field of a struct is stored while only the read side of that struct's RWMutex is held", 1)
	r.Rule("C20.protected-inventory", "K8", "the Keys fields written under Keys.mutex today stay written under it (inventory must not shrink)", 6)
	r.Rule("C20.lock-blocking", "K8", "no channel operation or terminal read while Keys.mutex is held", 1)
	nR, nProt, nBlock := 0, 0, 0
	for _, f := range p.RepoFuncs {
		if len(f.Blocks) == 0 {
			continue
		}
		fas, ok := cache[f]
		if !ok {
			fas = fieldAccesses(f)
			cache[f] = fas
		}
		cnt := map[string]int{}
		for _, fa := range fas {
			if !fa.Write {
				continue
			}
			lock := fa.Type + ".mutex"
			mode, held := fa.Locks[lock]
			if !held {
				continue
			}
			k := cnt[fa.Field]
			cnt[fa.Field]++
			if mode == 'R' {
				nR++
				r.Fn(fnName(f))
				r.Bad("C20.rlock-writes", fmt.Sprintf("%s:store(%s.%s)#%d%s", fnName(f), fa.Type, fa.Field, k, sfx), p.IPos(fa.In), "the field is written while only RLock is held: two readers (main loop and the resize goroutine's cursor query) can write it concurrently and lose keys")
			} else if fa.Type == "core.Keys" {
				nProt++
				r.Fn(fnName(f))
				r.OK("C20.protected-inventory", fmt.Sprintf("%s:store(%s.%s)#%d%s", fnName(f), fa.Type, fa.Field, k, sfx), p.IPos(fa.In), "written under Keys.mutex (write lock)")
			}
		}
		// blocking while locked
		ls := locksets(f)
		kb := 0
		eachInstr(f, func(in ssa.Instruction) {
			if _, held := ls[in]["core.Keys.mutex"]; !held {
				return
			}
			blocking := false
			switch x := in.(type) {
			case *ssa.Send, *ssa.Select:
				blocking = true
			case *ssa.UnOp:
				blocking = x.Op.String() == "<-"
			default:
				blocking = isTerminalRead(in) || isCallTo(in, "(*core.Keys).readInputFiltered")
			}
			if blocking {
				nBlock++
				r.Bad("C20.lock-blocking", fmt.Sprintf("%s:blocking-under-lock#%d%s", fnName(f), kb, sfx), p.IPos(in), "a blocking operation (`"+in.String()+"`) runs while Keys.mutex is held: the other thread deadlocks on the mutex")
				kb++
			}
		})
	}
	if nR == 0 {
		r.OK("C20.rlock-writes", "no-writes-under-rlock"+sfx, "-", "no store under a read lock")
	}
	if nBlock == 0 {
		r.OK("C20.lock-blocking", "no-blocking-under-lock"+sfx, "-", "no blocking operation under Keys.mutex")
	}
	_ = nProt

	// ---- lock pairing inventory: every Lock/RLock has its Unlock in the same function (assumption of the intraprocedural analysis)
	r.Rule("C20.lock-pairing", "K6", "every Lock/RLock is released in the same function on every path (directly or by defer)", 4)
	for _, f := range p.RepoFuncs {
		k := 0
		eachInstr(f, func(in ssa.Instruction) {
			path, op, ok := lockOp(in)
			if !ok || (op != 'L' && op != 'R') {
				return
			}
			key := fmt.Sprintf("%s:lock(%s)#%d%s", fnName(f), path, k, sfx)
			k++
			r.Fn(fnName(f))
			release := func(x ssa.Instruction) bool {
				if pp, o, ok := lockOp(x); ok && pp == path && (o == 'U' || o == 'u') {
					return true
				}
				if d, ok := x.(*ssa.Defer); ok {
					n := calleeName(d)
					if strings.HasSuffix(n, ".Unlock") || strings.HasSuffix(n, ".RUnlock") {
						return true
					}
				}
				return false
			}
			// a defer registered before the lock also releases it
			deferredBefore := false
			eachInstr(f, func(x ssa.Instruction) {
				if d, ok := x.(*ssa.Defer); ok && instrDominates(x, in) {
					n := calleeName(d)
					if strings.HasSuffix(n, ".Unlock") || strings.HasSuffix(n, ".RUnlock") {
						deferredBefore = true
					}
				}
			})
			miss := pathAvoiding(f, in, isReturn, release)
			// mode agreement: Lock↔Unlock, RLock↔RUnlock
			modeOK := true
			eachInstr(f, func(x ssa.Instruction) {
				if pp, o, ok := lockOp(x); ok && pp == path {
					if op == 'L' && o == 'u' && instrDominates(in, x) && pathAvoiding(f, in, func(y ssa.Instruction) bool { return y == x }, release) != nil {
						modeOK = false
					}
					if op == 'R' && o == 'U' && instrDominates(in, x) && pathAvoiding(f, in, func(y ssa.Instruction) bool { return y == x }, release) != nil {
						modeOK = false
					}
				}
			})
			// a deferred unlock runs at return only: the same lock taken again
			// before a direct unlock (a lock inside a loop released by defer,
			// or two lock sites in a row) blocks on itself
			relock := pathAvoiding(f, in, func(x ssa.Instruction) bool {
				pp, o, ok := lockOp(x)
				return ok && pp == path && (o == 'L' || (o == 'R' && op == 'L'))
			}, func(x ssa.Instruction) bool {
				pp, o, ok := lockOp(x)
				return ok && pp == path && (o == 'U' || o == 'u')
			})
			if relock != nil {
				r.Bad("C20.lock-pairing", key+":relock", p.IPos(in), "the lock can be taken again ("+p.IPos(relock)+") before it is released — a deferred unlock only runs when the function returns: the second acquisition blocks forever")
			}
			r.Check((miss == nil || deferredBefore) && modeOK, "C20.lock-pairing", key, p.IPos(in), "released on every path with the matching unlock", "a lock is not released on every path of the function that takes it (or is released with the wrong unlock): the next locker deadlocks")
		})
	}
}
