package main

import (
	"fmt"
	"go/token"
	"sort"
	"strings"

	"golang.org/x/tools/go/callgraph"
	"golang.org/x/tools/go/ssa"
)

func init() { propFuncs["C06"] = checkC06 }

// Commands documented as pure movements or copies/yanks (DESIGN.md §5 C06).
var movementCommands = []string{
	// emacs
	"forward-char", "backward-char", "forward-word", "backward-word", "shell-forward-word", "shell-backward-word",
	"beginning-of-line", "end-of-line", "previous-screen-line", "next-screen-line", "set-mark",
	"exchange-point-and-mark", "character-search", "character-search-backward",
	"copy-region-as-kill", "copy-backward-word", "copy-forward-word",
	// vi
	"vi-backward-char", "vi-forward-char", "vi-prev-word", "vi-next-word", "vi-backward-word", "vi-forward-word",
	"vi-backward-bigword", "vi-forward-bigword", "vi-end-word", "vi-end-bigword", "vi-match", "vi-column",
	"vi-end-of-line", "vi-back-to-indent", "vi-first-print", "vi-goto-mark",
	"vi-backward-end-word", "vi-backward-end-bigword",
	"vi-find-next-char", "vi-find-next-char-skip", "vi-find-prev-char", "vi-find-prev-char-skip",
	"vi-char-search", "vi-set-mark", "vi-yank-to", "vi-yank-whole-line",
	"select-a-blank-word", "select-a-shell-word", "select-a-word", "select-in-blank-word", "select-in-shell-word", "select-in-word",
	"vi-select-inside", "vi-select-surround",
}

// Reviewed (command → effect site) pairs: the only places where a movement
// command may reach a buffer write. One reason each.
var reviewedMoveEffects = map[string]string{
	"forward-char|(*readline.Shell).autosuggestAccept":           "documented: at end of line with history-autosuggest, forward-char accepts the suggestion",
	"vi-forward-char|(*readline.Shell).autosuggestAccept":        "documented: same as forward-char",
	"forward-word|(*readline.Shell).insertAutosuggestPartial":    "documented: at end of line with history-autosuggest, forward-word inserts the next suggested word",
	"vi-next-word|(*readline.Shell).insertAutosuggestPartial":    "documented: same as forward-word",
	"vi-forward-word|(*readline.Shell).insertAutosuggestPartial": "documented: same as forward-word",
	"vi-yank-to|(*completion.Engine).Cancel":                     "after the yank vi-yank-to returns to command mode, which resets the completion engine: Cancel(false) commits the virtually inserted candidate (the text already displayed and returned by GetBuffer) into the line — the shown text is unchanged",
	"vi-yank-to|(*completion.Engine).cancelCompletedLine":        "same reset: the virtual (completed) line is overwritten with the real line; no visible text changes",
}

func checkC06(c *Ctx) {
	p, r := c.P, c.R
	r.Explanation = "Decided statically. (1) Sound for the movement clause: for every command in the frozen movement/copy table, no function reachable in the call graph contains a primitive write to a shared core.Line (store through a *Line, element store, copy, in-place append), except the reviewed (command, site) pairs; since every buffer change goes through such a write, these commands cannot change the text (modulo call-graph soundness: no reflection/unsafe/linkname, inventoried here). (2) Cursor.Pos returns only after CheckAppend; execute ends in CheckCommand/CheckAppend on every path; the clamp functions contain their clamping stores under the tested conditions. (3) The returned line is the buffer at acceptance: Sources.acceptLine is written only by Accept (from *h.line) and the Init reset, LineAccepted returns string(acceptLine), run and Readline pass it through. NOT decided: 0 <= pos <= len at every wait point for all command sequences (needs the heap invariants relating Cursor.pos, Selection and the line), nor that movements land on the right rune (see the unit findings)."
	r.Trusted = []string{"go/packages type checker", "go/ssa construction", "VTA call graph over CHA (over-approximates callees)", "rule tables in rlcheck/c06.go"}
	r.Assumptions = []string{"all writes to a core.Line are stores through *Line / element stores / copy / append on its slices (the type is a plain []rune)", "application-supplied callbacks (Completer, SyntaxHighlighter, prompt functions) do not edit the buffer"}

	// ---- inventory: no reflection / unsafe / linkname in the module (call-graph soundness)
	checkBufferReread(c)
	checkStaleTriple(c, "C06.stale-cursor")
	checkRound5Small(c, "C06")
	checkC06InitClamps(c)
	checkDoubledOperatorCancels(c, "C06.doubled-operator-cancels")
	r.Rule("C06.no-reflection", "K6", "no package of the module imports reflect or unsafe (call-graph and write inventories are sound)", 1)
	{
		bad := []string{}
		for _, pk := range p.Pkgs {
			if !strings.HasPrefix(pk.PkgPath, modPath) {
				continue
			}
			for imp := range pk.Imports {
				if imp == "reflect" || imp == "unsafe" {
					bad = append(bad, pk.PkgPath+" imports "+imp)
				}
			}
		}
		sort.Strings(bad)
		// windows files use unsafe via x/sys only; the module itself must not
		r.Check(len(bad) == 0, "C06.no-reflection", "module-imports", "-", "no reflect/unsafe import", strings.Join(bad, "; "))
	}

	// ---- pure moves (K10)
	writes := p.primitiveLineWrites()
	muts := map[*ssa.Function]bool{}
	for _, w := range writes {
		muts[w.Fn] = true
	}
	r.Extra["primitive_write_sites"] = describeWrites(p, writes)
	r.Rule("C06.write-inventory", "K6", "the primitive buffer-write sites are found (a rule over zero writers would pass vacuously)", 8)
	{
		var names []string
		for f := range muts {
			names = append(names, fnName(f))
		}
		sort.Strings(names)
		for _, n := range names {
			r.OK("C06.write-inventory", "writer:"+n, "-", "contains a primitive core.Line write")
		}
		// positive control: the basic editing primitives must be among them
		for _, must := range []string{"(*core.Line).Set", "(*core.Line).Insert", "(*core.Line).Cut", "(*core.Line).CutRune", "(*core.Line).InsertBetween"} {
			f := p.Func(must)
			r.Check(f != nil && muts[f], "C06.write-inventory", "control:"+must, "-", "recognised as writer", must+" is not recognised as a buffer writer — the write inventory is broken")
		}
	}
	// by-value core.Line fields are separate storage as long as their address does not escape as a *Line
	r.Rule("C06.line-fields", "K2", "the address of a by-value core.Line field (Sources.acceptLine, display copies) never escapes as a *core.Line (so stores to it are not edit-buffer writes)", 1)
	{
		nf := 0
		for _, f := range p.RepoFuncs {
			eachInstr(f, func(in ssa.Instruction) {
				fa, ok := in.(*ssa.FieldAddr)
				if !ok || !isLinePtr(fa.Type()) {
					return
				}
				nf++
				tn, fld, _ := fieldOf(fa)
				// uses of the address, also through a local pointer variable (a phi merging it with other line pointers)
				var escapes func(v ssa.Value, depth int) ssa.Instruction
				escapes = func(v ssa.Value, depth int) ssa.Instruction {
					for _, ref := range referrersOf(v) {
						esc := false
						switch u := ref.(type) {
						case *ssa.Store:
							esc = u.Val == v
						case *ssa.UnOp, *ssa.DebugRef:
						case *ssa.Phi:
							if depth < 2 {
								if w := escapes(u, depth+1); w != nil {
									return w
								}
							} else {
								esc = true
							}
						case ssa.CallInstruction:
							cc := u.Common()
							callee := staticCallee(u)
							isRecv := callee != nil && callee.Signature.Recv() != nil && isLinePtr(callee.Signature.Recv().Type()) && len(cc.Args) > 0 && cc.Args[0] == v
							if !isRecv {
								// passing it to an in-repo function whose parameter is only read is not an escape
								esc = true
								if callee != nil && inRepo(callee) {
									esc = false
									for ai, a := range cc.Args {
										if a == v && !paramOnlyRead(callee, ai) {
											esc = true
										}
									}
								}
							} else {
								// a method of Line called on it: only the read-only ones are harmless through a merged pointer
								if v != ssa.Value(fa) && !paramOnlyRead(callee, 0) {
									esc = true
								}
								for _, a := range cc.Args[1:] {
									if a == v {
										esc = true
									}
								}
							}
						default:
							esc = true
						}
						if esc {
							return ref
						}
					}
					return nil
				}
				if ref := escapes(fa, 0); ref != nil {
					r.Bad("C06.line-fields", fmt.Sprintf("%s:&%s.%s", fnName(f), tn, fld), p.IPos(ref), "the address of a by-value Line field escapes: it may become an edit buffer written outside the inventory")
				}
			})
		}
		r.OK("C06.line-fields", "by-value-line-fields", "-", fmt.Sprintf("%d address computations inspected", nf))
	}
	mutAll := p.coreMutators(writes)
	reg := p.Registry()
	r.Rule("C06.pure-moves", "K10", "no movement/copy command can reach a primitive buffer write, except the reviewed (command, site) pairs", len(movementCommands))
	for _, e := range reg.Errs {
		r.Unk("C06.pure-moves", "registry", "-", e)
	}
	usedReviewed := map[string]bool{}
	for _, cmd := range movementCommands {
		f := reg.Cmds[cmd]
		if f == nil {
			r.Unk("C06.pure-moves", "command:"+cmd, "-", "movement command is not registered — table needs review")
			continue
		}
		r.Fn(fnName(f))
		sites, nreach := p.effectSitesFrom(f, mutAll, muts)
		r.CallSites += nreach
		if len(sites) == 0 {
			r.OK("C06.pure-moves", "command:"+cmd, p.Pos(f.Pos()), fmt.Sprintf("no buffer write among %d reachable functions", nreach))
			continue
		}
		var ks []string
		for s := range sites {
			ks = append(ks, s)
		}
		sort.Strings(ks)
		allReviewed := true
		for _, s := range ks {
			key := cmd + "|" + s
			if why, ok := reviewedMoveEffects[key]; ok {
				usedReviewed[key] = true
				r.OK("C06.pure-moves", "command:"+cmd+"→"+s, p.Pos(f.Pos()), "reviewed: "+why)
			} else {
				allReviewed = false
				r.Bad("C06.pure-moves", "command:"+cmd+"→"+s, p.Pos(f.Pos()), "movement/copy command can reach a buffer write: "+sites[s])
			}
		}
		if allReviewed {
			r.OK("C06.pure-moves", "command:"+cmd, p.Pos(f.Pos()), "only reviewed effect sites reachable")
		}
	}

	// ---- the reviewed autosuggest effects happen only with the option on (K4)
	r.Rule("C06.autosuggest-guard", "K4", "the buffer writes that forward-char / forward-word may perform (accepting a history suggestion) are dominated by a true test of the history-autosuggest option", 2)
	optTrue := func(f *ssa.Function, at ssa.Instruction) bool {
		bf := blockFacts(f)
		for fc := range factsAt(bf, at) {
			cl, ok := fc.Cond.(*ssa.Call)
			if !ok || !fc.Val || calleeName(cl) != "(*inputrc.Config).GetBool" {
				continue
			}
			if s, ok := constString(cl.Call.Args[1]); ok && s == "history-autosuggest" {
				return true
			}
		}
		return false
	}
	for _, site := range []string{"(*readline.Shell).insertAutosuggestPartial", "(*readline.Shell).autosuggestAccept"} {
		f := p.Func(site)
		if f == nil {
			r.Unk("C06.autosuggest-guard", site, "-", "anchor not found")
			continue
		}
		r.Fn(site)
		edits := callsTo(f, false, "(*core.Line).Set", "(*core.Line).Insert", "(*core.Line).Cut", "(*core.Line).CutRune", "(*core.Line).InsertBetween", "(*core.Cursor).InsertAt")
		inside := len(edits) > 0
		for _, e := range edits {
			if !optTrue(f, e) {
				inside = false
			}
		}
		if inside {
			r.OK("C06.autosuggest-guard", site+":edits-under-option", p.Pos(f.Pos()), "every edit in the helper is under history-autosuggest == true")
			continue
		}
		// otherwise every call site reachable from a movement command must be guarded
		okAll, n := true, 0
		for _, e := range p.callersOf(f) {
			if e.Site == nil {
				continue
			}
			isMove := false
			for _, cmd := range movementCommands {
				if reg.Cmds[cmd] == e.Caller.Func {
					isMove = true
				}
			}
			if !isMove {
				continue
			}
			n++
			if !optTrue(e.Caller.Func, e.Site) {
				okAll = false
			}
		}
		r.Check(okAll && n > 0, "C06.autosuggest-guard", site+":guarded", p.Pos(f.Pos()), "guarded at every movement call site", site+" can edit the buffer from a movement command without history-autosuggest being on: a pure movement inserts text")
	}

	// ---- the kill buffers own their storage (K3)
	r.Rule("C06.buffers-own-storage", "K3", "every slice stored in the kill ring / registers is a fresh copy (string round-trip or append to an empty slice), never a view of the edit buffer — so appending to a register cannot write the line in place", 3)
	{
		fresh := func(v ssa.Value) (bool, string) {
			leaves := backSlice(v, &SliceOpts{P: p, FollowParams: true, IsSource: func(x ssa.Value) bool {
				// a conversion from string is a fresh allocation; so is append([]rune{}, …)'s first operand
				if cv, ok := x.(*ssa.Convert); ok && typeStr(cv.X.Type()) == "string" {
					return true
				}
				// the same register's previous content (append-register)
				if lk, ok := x.(*ssa.Lookup); ok && (isFieldLoad(lk.X, "editor.Buffers", "alpha") || isFieldLoad(lk.X, "editor.Buffers", "num")) {
					return true
				}
				if ex, ok := x.(*ssa.Extract); ok {
					if lk, ok := ex.Tuple.(*ssa.Lookup); ok && (isFieldLoad(lk.X, "editor.Buffers", "alpha") || isFieldLoad(lk.X, "editor.Buffers", "num")) {
						return true
					}
				}
				return false
			}})
			for _, l := range leaves {
				if l.Kind == LeafOpaque {
					return false, fmt.Sprintf("%s [%s]", p.descValue(l.V), l.Why)
				}
			}
			return len(leaves) > 0, ""
		}
		ep := p.Pkg("internal/editor")
		for _, f := range p.RepoFuncs {
			if f.Package() == nil || ep == nil || f.Package().Pkg != ep.Types {
				continue
			}
			k := 0
			eachInstr(f, func(in ssa.Instruction) {
				mu, ok := in.(*ssa.MapUpdate)
				if !ok || !(isFieldLoad(mu.Map, "editor.Buffers", "alpha") || isFieldLoad(mu.Map, "editor.Buffers", "num")) {
					return
				}
				key := fmt.Sprintf("%s:register-store#%d", fnName(f), k)
				k++
				r.Fn(fnName(f))
				ok2, why := fresh(mu.Value)
				r.Check(ok2, "C06.buffers-own-storage", key, p.IPos(in), "stored slice is a fresh copy", "a register stores a slice that may alias the caller's buffer ("+why+"): a later append to that register overwrites the edit line in place — a pure yank changes the text")
			})
		}
	}

	checkC06Clamps(c)
	checkReturnedLine(c, "C06.returned-line")
	checkLineSetReplaces(c, "C06.set-replaces")
	checkStaleTest(c, "C06.stale-test", "")
}

// isStoreToField helper for clamps
func storesField(f *ssa.Function, tn, field string) []*ssa.Store {
	var out []*ssa.Store
	eachInstr(f, func(in ssa.Instruction) {
		if st, ok := isFieldStore(in, tn, field); ok {
			out = append(out, st)
		}
	})
	return out
}

func checkC06Clamps(c *Ctx) {
	p, r := c.P, c.R
	// ---- post-check (K1)
	r.Rule("C06.post-check", "K1", "Shell.execute ends in Cursor.CheckCommand or Cursor.CheckAppend on every path, chosen by the main keymap", 1)
	if EX := p.Func("(*readline.Shell).execute"); EX != nil {
		r.Fn(fnName(EX))
		ok, _ := mustPassBefore(EX, nil, isReturn, func(in ssa.Instruction) bool {
			return isCallTo(in, "(*core.Cursor).CheckCommand", "(*core.Cursor).CheckAppend")
		})
		// and nothing that can move the cursor after it
		after := false
		isCheck := func(in ssa.Instruction) bool {
			return isCallTo(in, "(*core.Cursor).CheckCommand", "(*core.Cursor).CheckAppend")
		}
		eachInstr(EX, func(in ssa.Instruction) {
			// the check itself, or the call of an unexported helper that ends in it on every path
			wrapper := false
			if cl, isCl := in.(*ssa.Call); isCl && !isCheck(in) {
				if h := cl.Call.StaticCallee(); h != nil && inRepo(h) && isPrivateHelper(h) && len(h.Blocks) > 0 {
					wrapper = len(callsTo(h, false, "(*core.Cursor).CheckCommand", "(*core.Cursor).CheckAppend")) > 0 && pathAvoiding(h, nil, isReturn, isCheck) == nil
					if wrapper {
						eachInstr(h, func(hin ssa.Instruction) {
							if isCheck(hin) && pathAvoiding(h, hin, func(x ssa.Instruction) bool { _, isCall := x.(ssa.CallInstruction); return isCall }, nil) != nil {
								after = true
							}
						})
					}
				}
			}
			if isCheck(in) || wrapper {
				if w := pathAvoiding(EX, in, func(x ssa.Instruction) bool {
					_, isCall := x.(ssa.CallInstruction)
					return isCall
				}, nil); w != nil {
					after = true
				}
			}
		})
		r.Check(ok && !after, "C06.post-check", fnName(EX)+":cursor-check", p.Pos(EX.Pos()), "cursor check is the last call on every path", "a path through execute returns without the post-command cursor check (or runs code after it): the cursor can be left outside the buffer")
		// vi command modes use CheckCommand (looked for in execute, or in the unexported helper
		// of execute that holds the check)
		bf := blockFacts(EX)
		host := EX
		if len(callsTo(EX, false, "(*core.Cursor).CheckCommand")) == 0 {
			for _, cl := range allCalls(EX, false) {
				if h := staticCallee(cl); h != nil && inRepo(h) && isPrivateHelper(h) && len(callsTo(h, false, "(*core.Cursor).CheckCommand")) > 0 {
					host = h
				}
			}
		}
		r.Rule("C06.post-check-modes", "K5", "CheckCommand (cursor on a character) is applied exactly for the vi command keymaps", 1)
		for _, call := range callsTo(host, false, "(*core.Cursor).CheckCommand") {
			modes := map[string]bool{}
			// the block is reached from edges mode == const
			for _, pb := range call.Block().Preds {
				if iff, ok := pb.Instrs[len(pb.Instrs)-1].(*ssa.If); ok && pb.Succs[0] == call.Block() {
					if bo, ok := iff.Cond.(*ssa.BinOp); ok && bo.Op == token.EQL {
						if s, ok := constString(bo.Y); ok {
							modes[s] = true
						}
					}
				}
			}
			_ = bf
			want := []string{"vi-command", "vi-move", "vi"}
			good := true
			for _, w := range want {
				if !modes[w] {
					good = false
				}
			}
			r.Check(good && len(modes) == len(want), "C06.post-check-modes", fnName(EX)+":CheckCommand-modes", p.IPos(call), "vi-command, vi-move, vi", fmt.Sprintf("CheckCommand is selected for keymaps %v, expected exactly %v", keysOf(modes), want))
		}
	} else {
		r.Unk("C06.post-check", "(*readline.Shell).execute", "-", "anchor not found")
	}

	// ---- api clamp (K1): Cursor.Pos returns only after CheckAppend
	r.Rule("C06.api-clamp", "K1", "Cursor.Pos clamps before returning; the clamp functions store the clamped value under the tested condition", 6)
	if POS := p.Func("(*core.Cursor).Pos"); POS != nil {
		r.Fn(fnName(POS))
		ok, _ := mustPassBefore(POS, nil, isReturn, func(in ssa.Instruction) bool { return isCallTo(in, "(*core.Cursor).CheckAppend") })
		// returned value is the pos field loaded after the check
		okRet := true
		eachInstr(POS, func(in ssa.Instruction) {
			if ret, isR := in.(*ssa.Return); isR {
				if !isFieldLoad(ret.Results[0], "core.Cursor", "pos") {
					okRet = false
				} else if ld, ok := ret.Results[0].(ssa.Instruction); ok {
					// load after the call
					for _, call := range callsTo(POS, false, "(*core.Cursor).CheckAppend") {
						if !instrDominates(call, ld) {
							okRet = false
						}
					}
				}
			}
		})
		r.Check(ok && okRet, "C06.api-clamp", fnName(POS)+":CheckAppend-first", p.Pos(POS.Pos()), "returns c.pos loaded after CheckAppend", "Cursor.Pos can return an unclamped position")
	} else {
		r.Unk("C06.api-clamp", "(*core.Cursor).Pos", "-", "anchor not found")
	}
	// CheckAppend: (pos < 0 → pos = 0) and (pos > Len → pos = Len)
	if CA := p.Func("(*core.Cursor).CheckAppend"); CA != nil {
		r.Fn(fnName(CA))
		bf := blockFacts(CA)
		lower, upper := false, false
		for _, st := range storesField(CA, "core.Cursor", "pos") {
			facts := factsAt(bf, st)
			if k, ok := constInt(st.Val); ok && k == 0 {
				for f := range facts {
					if rel, ok := relOf(f.Cond, f.Val); ok && isFieldLoad(rel.X, "core.Cursor", "pos") && rel.Op == token.LSS {
						if z, ok := constInt(rel.Y); ok && z == 0 {
							lower = true
						}
					}
				}
			}
			if cl, ok := st.Val.(*ssa.Call); ok && calleeName(cl) == "(*core.Line).Len" {
				for f := range facts {
					if rel, ok := relOf(f.Cond, f.Val); ok && isFieldLoad(rel.X, "core.Cursor", "pos") && rel.Op == token.GTR {
						if c2, ok := rel.Y.(*ssa.Call); ok && calleeName(c2) == "(*core.Line).Len" {
							upper = true
						}
					}
				}
			}
		}
		r.Check(lower, "C06.api-clamp", fnName(CA)+":pos<0→0", p.Pos(CA.Pos()), "lower clamp present", "CheckAppend has no `pos < 0 → pos = 0` clamp")
		r.Check(upper, "C06.api-clamp", fnName(CA)+":pos>Len→Len", p.Pos(CA.Pos()), "upper clamp present", "CheckAppend has no `pos > Len → pos = Len` clamp")
		// both clamps on every path: every return passes both comparisons
		cmpSeen := func(op token.Token) func(ssa.Instruction) bool {
			return func(in ssa.Instruction) bool {
				bo, ok := in.(*ssa.BinOp)
				return ok && bo.Op == op && isFieldLoad(bo.X, "core.Cursor", "pos")
			}
		}
		ok1, _ := mustPassBefore(CA, nil, isReturn, cmpSeen(token.LSS))
		ok2, _ := mustPassBefore(CA, nil, isReturn, cmpSeen(token.GTR))
		// the early return for an empty line is allowed only if it stores pos = 0 first; evaluate generously:
		if !ok1 || !ok2 {
			// every return must then be preceded by some store pos = 0 or a comparison
			okAlt, _ := mustPassBefore(CA, nil, isReturn, func(in ssa.Instruction) bool {
				if st, ok := isFieldStore(in, "core.Cursor", "pos"); ok {
					if k, ok := constInt(st.Val); ok && k == 0 {
						return true
					}
				}
				return cmpSeen(token.GTR)(in)
			})
			ok1, ok2 = okAlt, okAlt
		}
		r.Check(ok1 && ok2, "C06.api-clamp", fnName(CA)+":every-path-clamps", p.Pos(CA.Pos()), "every path tests both bounds (or resets pos)", "a path through CheckAppend skips a bound test")
	} else {
		r.Unk("C06.api-clamp", "(*core.Cursor).CheckAppend", "-", "anchor not found")
	}
	if CC := p.Func("(*core.Cursor).CheckCommand"); CC != nil {
		r.Fn(fnName(CC))
		// CheckCommand: must first clamp like CheckAppend (call or own stores), and move back when on Len
		callsAppend := len(callsTo(CC, false, "(*core.Cursor).CheckAppend")) > 0
		var stores []*ssa.Store
		stores = storesField(CC, "core.Cursor", "pos")
		hasBack := false
		for _, st := range stores {
			if bo, ok := st.Val.(*ssa.BinOp); ok && bo.Op == token.SUB {
				hasBack = true
			}
			if cl, ok := st.Val.(*ssa.Call); ok && calleeName(cl) == "(*core.Line).Len" {
				hasBack = hasBack || false
			}
		}
		// any decrement-like behaviour: a store of Len()-1 or pos-1, or call to Dec
		if len(callsTo(CC, false, "(*core.Cursor).Dec")) > 0 {
			hasBack = true
		}
		r.Check((callsAppend || len(stores) >= 2) && hasBack, "C06.api-clamp", fnName(CC)+":on-a-character", p.Pos(CC.Pos()), "clamps and steps back from the end", "CheckCommand no longer clamps and steps back from the end-of-line position")
	} else {
		r.Unk("C06.api-clamp", "(*core.Cursor).CheckCommand", "-", "anchor not found")
	}
	// Selection.Pos returns values that passed checkRange
	if SP := p.Func("(*core.Selection).Pos"); SP != nil {
		r.Fn(fnName(SP))
		n := len(callsTo(SP, true, "(*core.Selection).checkRange"))
		r.Check(n > 0, "C06.api-clamp", fnName(SP)+":checkRange", p.Pos(SP.Pos()), "selection bounds pass through checkRange", "Selection.Pos no longer clamps its bounds with checkRange")
	} else {
		r.Unk("C06.api-clamp", "(*core.Selection).Pos", "-", "anchor not found")
	}
}

func keysOf(m map[string]bool) []string {
	var out []string
	for k := range m {
		out = append(out, k)
	}
	sort.Strings(out)
	return out
}

// checkReturnedLine: the line Readline returns is the buffer at acceptance.
func checkReturnedLine(c *Ctx, rule string) {
	p, r := c.P, c.R
	r.Rule(rule, "K3", "Sources.acceptLine is written only by Accept (from *h.line) and the Init reset; LineAccepted returns string(acceptLine); run and Readline return it unmodified", 4)
	A := p.Func(fnSourcesAccept)
	for _, f := range p.RepoFuncs {
		eachInstr(f, func(in ssa.Instruction) {
			st, ok := isFieldStore(in, "history.Sources", "acceptLine")
			if !ok {
				return
			}
			key := fnName(f) + ":store(acceptLine)"
			switch {
			case f == A:
				// value: *(*h.line)
				good := false
				if u, ok := st.Val.(*ssa.UnOp); ok && u.Op == token.MUL && isFieldLoad(u.X, "history.Sources", "line") {
					good = true
				}
				r.Check(good, rule, key, p.IPos(in), "acceptLine = *h.line", "Accept stores something other than the current buffer as the accepted line")
			case isNilConst(st.Val):
				r.OK(rule, key, p.IPos(in), "reset")
			default:
				r.Bad(rule, key, p.IPos(in), "acceptLine is written outside Accept: the returned line may differ from the buffer at acceptance")
			}
		})
	}
	if A != nil {
		ok, _ := mustPassBefore(A, nil, isReturn, func(in ssa.Instruction) bool {
			_, is := isFieldStore(in, "history.Sources", "acceptLine")
			return is
		})
		r.Check(ok, rule, fnName(A)+":stores-on-every-path", p.Pos(A.Pos()), "every path through Accept stores the buffer as the accepted line", "a path through Accept returns without storing the buffer as the accepted line: Readline returns the previous (or an empty) line for some typed text")
	}
	if LA := p.Func("(*history.Sources).LineAccepted"); LA != nil {
		r.Fn(fnName(LA))
		eachInstr(LA, func(in ssa.Instruction) {
			ret, ok := in.(*ssa.Return)
			if !ok {
				return
			}
			if b, isC := constBool(ret.Results[0]); isC && !b {
				return
			}
			leaves := backSlice(ret.Results[1], &SliceOpts{P: p, IsSource: func(v ssa.Value) bool { return isFieldLoad(v, "history.Sources", "acceptLine") }})
			ok2, why := leavesAll(p, leaves, false)
			r.Check(ok2, rule, fnName(LA)+":return.line", p.IPos(in), "string(acceptLine)", "LineAccepted returns text that is not the stored accepted line: "+why)
		})
	} else {
		r.Unk(rule, "(*history.Sources).LineAccepted", "-", "anchor not found")
	}
	if run := p.Func("(*readline.Shell).run"); run != nil {
		r.Fn(fnName(run))
		eachInstr(run, func(in ssa.Instruction) {
			ret, ok := in.(*ssa.Return)
			if !ok {
				return
			}
			if b, isC := constBool(ret.Results[0]); isC && !b {
				return
			}
			leaves := backSlice(ret.Results[1], &SliceOpts{P: p, IsSource: func(v ssa.Value) bool {
				return isCallNamed(v, "(*history.Sources).LineAccepted")
			}})
			ok2, why := leavesAll(p, leaves, false)
			r.Check(ok2, rule, fnName(run)+":return.line", p.IPos(in), "LineAccepted's line", "run does not return LineAccepted's line unmodified: "+why)
		})
	}
	if RL := p.Func(fnReadline); RL != nil {
		r.Fn(fnName(RL))
		bf := blockFacts(RL)
		n := 0
		eachInstr(RL, func(in ssa.Instruction) {
			ret, ok := in.(*ssa.Return)
			if !ok || in.Block() == RL.Recover {
				return
			}
			accepted := false
			for f := range bf[in.Block()] {
				if ex, ok := f.Cond.(*ssa.Extract); ok && f.Val && ex.Index == 0 {
					if cl, ok := ex.Tuple.(*ssa.Call); ok && calleeName(cl) == "(*readline.Shell).run" {
						accepted = true
					}
				}
			}
			if !accepted {
				return
			}
			leaves := backSlice(ret.Results[0], &SliceOpts{P: p, IsSource: func(v ssa.Value) bool {
				ex, ok := v.(*ssa.Extract)
				if !ok || ex.Index != 1 {
					return false
				}
				cl, ok := ex.Tuple.(*ssa.Call)
				return ok && calleeName(cl) == "(*readline.Shell).run"
			}})
			ok2, why := leavesAll(p, leaves, false)
			r.Check(ok2, rule, siteKey(RL, "return.line", n), p.IPos(in), "run's line", "Readline does not return run's line unmodified: "+why)
			n++
		})
	}
}

var _ = callgraph.Edge{}

// paramOnlyRead: parameter idx of f (a *core.Line) is only loaded from or used as
// the receiver of *core.Line methods — it is not stored, returned or passed on.
func paramOnlyRead(f *ssa.Function, idx int) bool {
	if idx >= len(f.Params) || len(f.Blocks) == 0 {
		return false
	}
	prm := f.Params[idx]
	for _, ref := range referrersOf(prm) {
		switch u := ref.(type) {
		case *ssa.UnOp, *ssa.DebugRef:
		case ssa.CallInstruction:
			cc := u.Common()
			callee := staticCallee(u)
			if callee == nil || callee.Signature.Recv() == nil || !isLinePtr(callee.Signature.Recv().Type()) || len(cc.Args) == 0 || cc.Args[0] != ssa.Value(prm) {
				return false
			}
			for _, a := range cc.Args[1:] {
				if a == ssa.Value(prm) {
					return false
				}
			}
		default:
			return false
		}
	}
	return true
}
