package main

import (
	"fmt"
	"go/constant"
	"go/token"
	"go/types"
	"sort"
	"strings"

	"golang.org/x/tools/go/callgraph"
	"golang.org/x/tools/go/ssa"
)

func init() { propFuncs["C01"] = checkC01 }

// Loops without a recognised variant P1–P5: reviewed one by one (DESIGN.md
// Appendix A). Key = function:loop#ordinal. `check` (optional) is a structural
// condition the argument rests on, re-verified on every run.
type reviewedLoop struct {
	arg   string
	check func(p *Prog, lc LoopClass) (bool, string)
}

func everyIterationCalls(names ...string) func(p *Prog, lc LoopClass) (bool, string) {
	return func(p *Prog, lc LoopClass) (bool, string) {
		ok := loopEveryIterationPasses(lc.L, func(in ssa.Instruction) bool { return isCallTo(in, names...) })
		return ok, "an iteration can complete without calling " + strings.Join(names, "/")
	}
}

// fieldCounter: every iteration stores field ± const into the field, and an exit condition reads it.
func fieldCounter(tn, field string) func(p *Prog, lc LoopClass) (bool, string) {
	return func(p *Prog, lc LoopClass) (bool, string) {
		ok := loopEveryIterationPasses(lc.L, func(in ssa.Instruction) bool {
			st, isS := isFieldStore(in, tn, field)
			if !isS {
				return false
			}
			bo, isB := st.Val.(*ssa.BinOp)
			if !isB || (bo.Op != token.ADD && bo.Op != token.SUB) {
				return false
			}
			_, isK := constInt(bo.Y)
			return isK && isFieldLoad(bo.X, tn, field)
		})
		if !ok {
			return false, "an iteration can complete without stepping " + tn + "." + field
		}
		for _, iff := range exitConds(lc.L) {
			if rel, ok := relOf(iff.Cond, true); ok && (isFieldLoad(rel.X, tn, field) || isFieldLoad(rel.Y, tn, field)) {
				return true, ""
			}
		}
		return false, "no exit condition reads " + tn + "." + field
	}
}

// closureCounter: loop of the form `for done(i) { i = move(i) … }` with done/move closures stepping by ±1.
func closureCounter(p *Prog, lc LoopClass) (bool, string) {
	// the header phi is assigned from a dynamic call result on every back edge, and the exit condition is a dynamic call on it
	for _, in := range lc.L.Head.Instrs {
		ph, ok := in.(*ssa.Phi)
		if !ok {
			break
		}
		stepped := true
		any := false
		for i, e := range ph.Edges {
			if !lc.L.Blocks[ph.Block().Preds[i]] {
				continue
			}
			any = true
			cl, ok := e.(*ssa.Call)
			if !ok || staticCallee(cl) != nil || len(cl.Call.Args) != 1 || cl.Call.Args[0] != ssa.Value(ph) {
				stepped = false
			}
		}
		if !any || !stepped {
			continue
		}
		for _, iff := range exitConds(lc.L) {
			if cl, ok := iff.Cond.(*ssa.Call); ok && staticCallee(cl) == nil && len(cl.Call.Args) == 1 && cl.Call.Args[0] == ssa.Value(ph) {
				// the closures assigned in this function: bodies must be `return pos ± 1` and a comparison
				okStep := true
				n := 0
				for _, an := range lc.Fn.AnonFuncs {
					if len(an.Params) != 1 || len(an.Blocks) != 1 {
						continue
					}
					if ret, ok := an.Blocks[0].Instrs[len(an.Blocks[0].Instrs)-1].(*ssa.Return); ok && len(ret.Results) == 1 {
						if bo, ok := ret.Results[0].(*ssa.BinOp); ok && (bo.Op == token.ADD || bo.Op == token.SUB) && bo.X == ssa.Value(an.Params[0]) {
							if k, ok := constInt(bo.Y); ok && k == 1 {
								n++
								continue
							}
							okStep = false
						}
					}
				}
				if okStep && n >= 2 {
					return true, ""
				}
				return false, "the move closures are not `pos ± 1`"
			}
		}
	}
	return false, "loop is not of the form `for done(i) { i = move(i) }`"
}

// progressExit: the loop contains an exit taken when a freshly computed position equals the loop's position variable (no progress ⇒ stop).
func progressExit(p *Prog, lc LoopClass) (bool, string) {
	for _, iff := range exitConds(lc.L) {
		rel, ok := relOf(iff.Cond, true)
		if !ok || (rel.Op != token.EQL && rel.Op != token.NEQ) {
			continue
		}
		_, xPhi := rel.X.(*ssa.Phi)
		_, yPhi := rel.Y.(*ssa.Phi)
		_, xCall := rel.X.(*ssa.Call)
		_, yCall := rel.Y.(*ssa.Call)
		if (xPhi && yCall) || (yPhi && xCall) {
			return true, ""
		}
	}
	return false, "no `new position == old position → stop` exit: when the motion makes no progress the loop never ends"
}

// allOf: every iteration calls each of the named functions.
func everyIterationCallsAll(names ...string) func(p *Prog, lc LoopClass) (bool, string) {
	return func(p *Prog, lc LoopClass) (bool, string) {
		for _, n := range names {
			n := n
			if !loopEveryIterationPasses(lc.L, func(in ssa.Instruction) bool { return isCallTo(in, n) }) {
				return false, "an iteration can complete without calling " + n
			}
		}
		return true, ""
	}
}

// headerPhiEveryBackEdge: some header phi receives, on every back edge, a
// value accepted by `good` (which is told the phi).
func headerPhiEveryBackEdge(l *Loop, typeOK func(types.Type) bool, good func(ph *ssa.Phi, v ssa.Value) bool) bool {
	for _, in := range l.Head.Instrs {
		ph, ok := in.(*ssa.Phi)
		if !ok {
			break
		}
		if !typeOK(ph.Type().Underlying()) {
			continue
		}
		all, any := true, false
		for i, e := range ph.Edges {
			if !l.Blocks[l.Head.Preds[i]] {
				continue
			}
			any = true
			if !good(ph, e) {
				all = false
			}
		}
		if any && all {
			return true
		}
	}
	return false
}

// phiStepped: a header counter is stepped by a non-zero constant on every way
// round the loop (both directions accepted: the direction is a loop-invariant
// flag in the reviewed loops). constReset additionally accepts an in-loop
// assignment of a constant before the step.
func phiStepped(constReset bool) func(p *Prog, lc LoopClass) (bool, string) {
	return func(p *Prog, lc LoopClass) (bool, string) {
		l := lc.L
		var steps, eqOrSteps func(ph *ssa.Phi, v ssa.Value, d int) bool
		eqOrSteps = func(ph *ssa.Phi, v ssa.Value, d int) bool {
			if v == ssa.Value(ph) {
				return true
			}
			if _, isK := constInt(v); isK && constReset {
				return true
			}
			if q, ok := v.(*ssa.Phi); ok && q.Block() != l.Head && l.Blocks[q.Block()] && d < 6 {
				for _, e := range q.Edges {
					if !eqOrSteps(ph, e, d+1) {
						return false
					}
				}
				return true
			}
			return steps(ph, v, d)
		}
		steps = func(ph *ssa.Phi, v ssa.Value, d int) bool {
			if d > 6 {
				return false
			}
			switch x := v.(type) {
			case *ssa.BinOp:
				if x.Op != token.ADD && x.Op != token.SUB {
					return false
				}
				k, isK := constInt(x.Y)
				return isK && k != 0 && eqOrSteps(ph, x.X, d+1)
			case *ssa.Phi:
				if x.Block() == l.Head || !l.Blocks[x.Block()] {
					return false
				}
				for _, e := range x.Edges {
					if !steps(ph, e, d+1) {
						return false
					}
				}
				return true
			}
			return false
		}
		isInt := func(t types.Type) bool { b, ok := t.(*types.Basic); return ok && b.Info()&types.IsInteger != 0 }
		if headerPhiEveryBackEdge(l, isInt, func(ph *ssa.Phi, v ssa.Value) bool { return steps(ph, v, 0) }) {
			return true, ""
		}
		return false, "an iteration can complete without stepping the loop counter by a non-zero constant"
	}
}

// phiResliced: a header string/slice is replaced, on every way round the loop,
// by a proper tail of itself (x[k:], possibly through a helper returning the
// remainder of its argument).
func phiResliced(remainderFns ...string) func(p *Prog, lc LoopClass) (bool, string) {
	return func(p *Prog, lc LoopClass) (bool, string) {
		l := lc.L
		var shrinks, eqOrShrinks func(ph *ssa.Phi, v ssa.Value, d int) bool
		visiting := map[ssa.Value]bool{}
		// eqOrShrinks: v is the scanned value itself or a tail of it. Phis
		// (e.g. the cursor of an inner scanning loop that starts at the value)
		// are taken coinductively: every value they can receive is one.
		eqOrShrinks = func(ph *ssa.Phi, v ssa.Value, d int) bool {
			if v == ssa.Value(ph) {
				return true
			}
			if q, ok := v.(*ssa.Phi); ok && q.Block() != l.Head && l.Blocks[q.Block()] {
				if visiting[q] {
					return true
				}
				visiting[q] = true
				defer delete(visiting, q)
				for _, e := range q.Edges {
					if !eqOrShrinks(ph, e, d+1) {
						return false
					}
				}
				return true
			}
			return shrinks(ph, v, d)
		}
		shrinks = func(ph *ssa.Phi, v ssa.Value, d int) bool {
			if d > 12 {
				return false
			}
			switch x := v.(type) {
			case *ssa.Slice:
				if x.Low == nil {
					return false
				}
				if k, isK := constInt(x.Low); isK && k <= 0 {
					return false
				}
				return eqOrShrinks(ph, x.X, d+1)
			case *ssa.Extract:
				cl, ok := x.Tuple.(*ssa.Call)
				if !ok {
					return false
				}
				hit := false
				for _, n := range remainderFns {
					if calleeName(cl) == n {
						hit = true
					}
				}
				if !hit {
					return false
				}
				for _, a := range cl.Call.Args {
					if eqOrShrinks(ph, a, d+1) {
						return true
					}
				}
				return false
			case *ssa.Phi:
				if x.Block() == l.Head || !l.Blocks[x.Block()] {
					return false
				}
				for _, e := range x.Edges {
					if !shrinks(ph, e, d+1) {
						return false
					}
				}
				return true
			}
			return false
		}
		isSeq := func(t types.Type) bool {
			if b, ok := t.(*types.Basic); ok {
				return b.Info()&types.IsString != 0
			}
			_, ok := t.(*types.Slice)
			return ok
		}
		if headerPhiEveryBackEdge(l, isSeq, func(ph *ssa.Phi, v ssa.Value) bool { return shrinks(ph, v, 0) }) {
			return true, ""
		}
		return false, "an iteration can complete without replacing the scanned string/slice by a proper tail of itself"
	}
}

// fieldStepped: every iteration stores `field ± something` back into the field.
func fieldStepped(tn, field string) func(p *Prog, lc LoopClass) (bool, string) {
	return func(p *Prog, lc LoopClass) (bool, string) {
		ok := loopEveryIterationPasses(lc.L, func(in ssa.Instruction) bool {
			st, isS := isFieldStore(in, tn, field)
			if !isS {
				return false
			}
			bo, isB := st.Val.(*ssa.BinOp)
			return isB && (bo.Op == token.ADD || bo.Op == token.SUB) && isFieldLoad(bo.X, tn, field)
		})
		return ok, "an iteration can complete without moving " + tn + "." + field
	}
}

// storesDynamicCallResult: every iteration stores the result of a call through
// a func value (the `move` closure of the closure-counter loops whose counter
// is a captured variable).
func storesDynamicCallResult(p *Prog, lc LoopClass) (bool, string) {
	ok := loopEveryIterationPasses(lc.L, func(in ssa.Instruction) bool {
		st, isS := in.(*ssa.Store)
		if !isS {
			return false
		}
		cl, isC := st.Val.(*ssa.Call)
		return isC && staticCallee(cl) == nil && !cl.Call.IsInvoke()
	})
	return ok, "an iteration can complete without assigning move(counter) to the counter"
}

var reviewedLoops = map[string]reviewedLoop{
	"(*keymap.Engine).dispatchKeys:loop#0":           {"queue shrink: every iteration pops one key (core.PopKey) and the queue is finite; exit when PeekKey reports empty", everyIterationCalls("core.PopKey")},
	"(*keymap.Engine).dispatchCharacter:loop#0":      {"every iteration appends one popped continuation byte to the character (or returns): utf8.FullRune holds after at most utf8.UTFMax bytes", everyIterationCalls("core.PopKey")},
	"(*history.Sources).Undo:loop#0":                 {"the local copy of the undo position is incremented every iteration and the loop returns when it exceeds len(items)", phiStepped(true)},
	"(*history.Sources).match:loop#0":                {"`for done(i) { i = move(i) }` with move = ±1 on the counter and done comparing it with 0 / Len()", closureCounter},
	"history.Complete:loop#0":                        {"same closure-counter form as Sources.match", closureCounter},
	"(*core.Selection).matchKeyword:loop#0":          {"closure-counter form over the matcher list; the counter is a captured variable assigned move(kpos) before every `continue`", storesDynamicCallResult},
	"(*core.Line).Find:loop#0":                       {"pos is stepped by ±1 every iteration (both branches) and each branch exits past Len()-1 / below 0", phiStepped(false)},
	"(*core.Line).SurroundQuotes:loop#0":             {"prev/next move strictly outward: Find returns a position < pos (backward) / > pos (forward) or -1, which exits", everyIterationCallsAll("(*core.Line).Find")},
	"(*core.Cursor).ToFirstNonSpace:loop#0":          {"pos is stepped by ±1 every iteration; backward exits at pos <= 0, forward ends because Char() clamps and returns 0 (not a space) at the end", fieldCounter("core.Cursor", "pos")},
	"(*core.Selection).SelectAShellWord:loop#0":      {"Line.Backward is strictly negative unless mark == 0, which exits", everyIterationCallsAll("(*core.Line).Backward", "(*core.Cursor).Move")},
	"(*core.Selection).SelectAShellWord:loop#1":      {"ForwardEnd moves to the end of the next blank word; when it makes no progress the loop must stop", progressExit},
	"(*core.Selection).selectToCursor:loop#1":        {"bounded scan over the line positions: epos++ every iteration (after an optional reset of -1 to 0), exit at Len()", phiStepped(true)},
	"(*completion.Engine).cycleNextGroup:loop#1":     {"terminates when some group has rows: each recursive call advances the current group by one (mod len); guarded at every outside call site (rule C01.cycle-guard)", everyIterationCallsAll("(*completion.Engine).cycleNextGroup")},
	"(*completion.Engine).cyclePreviousGroup:loop#1": {"same as cycleNextGroup", everyIterationCallsAll("(*completion.Engine).cyclePreviousGroup")},
	"(*completion.group).findFirstCandidate:loop#0":  {"posY leaves [0,maxY) in at most maxY steps and each branch returns or moves posX monotonically (callers pass (x,y) != (0,0))", fieldStepped("completion.group", "posY")},
	"(*completion.group).wrapExcessAliases:loop#2":   {"row = row[maxColumns:] shrinks the row only if maxColumns >= 1 (rule C01.wrap-columns)", phiResliced()},
	"(*editor.Buffers).writeNum:loop#0":              {"i counts down from len(num) with i-- every iteration (an extra i-- at i == numRegisters); exit at i <= 0", phiStepped(false)},
	"inputrc.decodeKey:loop#1":                       {"val = val[idx+1:] with idx >= 0 every iteration: val shrinks by at least one byte; exit when no '-' is left", phiResliced()},
	"strutil.LineSpan:loop#0":                        {"iterator over the grapheme clusters of a finite string: every iteration calls (*uniseg.Graphemes).Next, which consumes at least one byte and reports false at the end (library contract)", everyIterationCalls("(*github.com/rivo/uniseg.Graphemes).Next", "(*uniseg.Graphemes).Next")},
	"strutil.ClearWrapped:loop#0":                    {"every iteration removes from the front of the line either a non-empty escape sequence (seq > 0) or its first grapheme cluster (uniseg returns the remainder after at least one byte of a non-empty string): the line shrinks until it is empty", phiResliced("github.com/rivo/uniseg.FirstGraphemeClusterInString")},
	"strutil.Split:loop#0":                           {"every cycle consumes at least one byte of input (splitWord returns a strictly shorter remainder)", phiResliced("strutil.splitWord")},
	"strutil.splitWord:loop#0":                       {"goto state machine: each state re-slices input/cur before jumping back (consumes >= 1 byte)", phiResliced()},
	"strutil.splitWord:loop#1":                       {"same state machine", phiResliced()},
	"strutil.splitWord:loop#2":                       {"same state machine", phiResliced()},
}

func checkC01(c *Ctx) {
	p, r := c.P, c.R
	r.Explanation = "Decided statically (necessary conditions of 'never crashes, spins or deadlocks'): the main loop blocks in WaitAvailableKeys on every iteration; every natural loop in the module (234 on the pinned tree) has a recognised termination variant — counted (P1), shrinking slice (P2), blocking read per iteration (P3), Scanner (P4), range (P5) — or is in a reviewed table with its ranking argument and, where possible, a structural condition re-verified each run; call-graph cycles among module functions match a reviewed table with bound arguments; no explicit panic is reachable; every dynamic call of a func value loaded from a struct field or map is dominated by a non-nil test; no value that a function compares with nil is dereferenced where it may be nil (contradiction rule, whole module); buffers obtained from a terminal read or key channel are indexed only under a length check; end-of-input / read errors leave the wait loop and reach Readline's caller; channel sends on the input path cannot block forever; execute ends in the cursor clamp. every index and slice bound of the module outside inputrc (proved under C12) and outside the completion menu's grid — the commands (root package), internal/core, history, keymap, macro, editor, display, ui, term, color, strutil and the non-grid part of completion — is proved in range — non-negative (C01.nonneg) and below the length / ordered (C01.bounds) — by the zone-domain prover with heap length terms, or is listed in a reviewed table with its reason; the regexp pointer fields that their users test for nil are tested by all of them. a macro that runs itself is cut off by the feed budget (C01.macro-budget); the index of the active history source stays inside the list of names (C01.source-pos); a function value that may be nil by construction, also through a resolver or a parameter, is called only under a nil test (C01.nil-func-call). NOT decided: the bounds of the completion menu's grid (methods of completion.group, renderCompletions, highlightDesc, highlightDisplay, justifyGroups, createRow/createGrid: the C15 problem); nil dereferences of values that no function compares with nil; panics inside application callbacks."
	r.Trusted = []string{"go/packages type checker", "go/ssa construction", "VTA call graph over CHA", "reviewed tables in rlcheck/c01.go (loops, recursion, nil-call exemptions)"}
	r.Assumptions = []string{"application callbacks (Completer, prompt functions, SyntaxHighlighter) terminate and do not panic", "the terminal eventually delivers input or end-of-input",
		"C01.bounds: the cursor and selection stored next to a line in one struct (line/cursor/selection, compLine/compCursor) are built on that line (object-triple assumption; the one known exception, GetBuffer's completed-line triple, is described in DESIGN.md §13)",
		"C01.bounds: a command runs after the dispatcher matched at least one key, so Keys.Caller() is not empty (MatchedKeys / MatchedPrefix only store non-empty slices)",
		"C01.bounds / C01.nonneg: the 51 + 37 sites of the reviewed tables in rlcheck/c01_bounds.go hold for the reason written next to each (claims, not proofs)",
		"machine-integer overflow is not modelled"}

	RL := p.Func(fnReadline)
	r.Rule("C01.anchors", "K0", "anchored functions resolve", 1)
	if RL == nil {
		r.Unk("C01.anchors", fnReadline, "-", "anchor not found")
		return
	}
	r.OK("C01.anchors", fnReadline, p.Pos(RL.Pos()), "")

	// ---- loop-wait (K1)
	r.Rule("C01.loop-wait", "K1", "every iteration of Readline's main loop passes core.WaitAvailableKeys", 1)
	{
		var L *Loop
		for _, l := range findLoops(RL) {
			for b := range l.Blocks {
				for _, in := range b.Instrs {
					if isCallTo(in, "keymap.MatchMain") {
						L = l
					}
				}
			}
		}
		if L == nil {
			r.Unk("C01.loop-wait", fnReadline+":main-loop", p.Pos(RL.Pos()), "main loop not found")
		} else {
			ok := loopEveryIterationPasses(L, func(in ssa.Instruction) bool { return isCallTo(in, "core.WaitAvailableKeys") })
			r.Check(ok, "C01.loop-wait", fnReadline+":main-loop", p.Pos(RL.Pos()), "no iteration without the blocking wait", "an iteration of the main loop can complete without core.WaitAvailableKeys: a `continue` path spins")
		}
	}

	// ---- reachable set
	reg := p.Registry()
	roots := []*ssa.Function{RL, p.Func("readline.NewShell")}
	for _, n := range reg.Names() {
		roots = append(roots, reg.Cmds[n])
	}
	// exported API of the root package is callable by the application while editing
	for _, f := range p.AllFuncs {
		if f.Pkg != nil && f.Pkg.Pkg.Path() == modPath && f.Object() != nil && f.Object().Exported() {
			roots = append(roots, f)
		}
	}
	reach := p.reachFrom(roots, func(e *callgraph.Edge) bool { return true })
	var reachFns []*ssa.Function
	for f := range reach {
		if len(f.Blocks) > 0 {
			reachFns = append(reachFns, f)
		}
	}
	sort.Slice(reachFns, func(i, j int) bool { return fnName(reachFns[i]) < fnName(reachFns[j]) })
	r.Extra["reachable_functions"] = len(reachFns)
	for _, f := range reachFns {
		r.Fn(fnName(f))
	}

	// ---- loops (K6)
	r.Rule("C01.loops", "K6", "every natural loop has a termination variant P1–P5 or a reviewed ranking argument whose structural condition holds", 200)
	counts := map[string]int{}
	seenReviewed := map[string]bool{}
	for _, f := range reachFns {
		for _, lc := range classifyLoops(f) {
			key := loopKey(lc)
			pos := p.Pos(f.Pos())
			if lc.Variant != "" {
				counts[lc.Variant]++
				r.OK("C01.loops", key, pos, lc.Variant+": "+lc.Detail)
				continue
			}
			rv, ok := reviewedLoops[key]
			if !ok {
				counts["unclassified"]++
				r.Unk("C01.loops", key, pos, "loop has no recognised termination variant (P1–P5) and is not in the reviewed table: needs a ranking argument")
				continue
			}
			seenReviewed[key] = true
			counts["reviewed"]++
			if rv.check != nil {
				if good, why := rv.check(p, lc); !good {
					r.Bad("C01.loops", key, pos, "reviewed argument (“"+rv.arg+"”) no longer holds: "+why)
					continue
				}
			}
			r.OK("C01.loops", key, pos, "reviewed: "+rv.arg)
		}
	}
	r.Extra["loop_variants"] = counts

	// ---- cycle guard (K4) for the completion group cycling
	r.Rule("C01.cycle-guard", "K4", "every outside call of cycleNextGroup / cyclePreviousGroup is dominated by a test that some group has rows", 4)
	for _, name := range []string{"(*completion.Engine).cycleNextGroup", "(*completion.Engine).cyclePreviousGroup"} {
		f := p.Func(name)
		if f == nil {
			r.Unk("C01.cycle-guard", name, "-", "anchor not found")
			continue
		}
		for _, e := range p.callersOf(f) {
			cf := e.Caller.Func
			if cf == f || e.Site == nil {
				continue
			}
			bf := blockFacts(cf)
			okG := false
			for fc := range factsAt(bf, e.Site) {
				// noCompletions() == false
				if isCallNamed(fc.Cond, "(*completion.Engine).noCompletions") && !fc.Val {
					okG = true
				}
				// len(grp.rows) == 0 is false for grp = currentGroup()
				if rel, ok := relOf(fc.Cond, fc.Val); ok {
					isRowsLen := func(v ssa.Value) bool {
						cl, ok := v.(*ssa.Call)
						if !ok {
							return false
						}
						b, ok := cl.Call.Value.(*ssa.Builtin)
						if !ok || b.Name() != "len" {
							return false
						}
						_, fld, ok := fieldRead(cl.Call.Args[0])
						return ok && fld == "rows"
					}
					if isRowsLen(rel.X) {
						if k, ok := constInt(rel.Y); ok && ((rel.Op == token.NEQ && k == 0) || (rel.Op == token.GTR && k == 0)) {
							okG = true
						}
					}
				}
			}
			key := fmt.Sprintf("%s→%s%s", fnName(cf), f.Name(), ordinalOf(cf, e.Site, name))
			r.CallSites++
			r.Check(okG, "C01.cycle-guard", key, p.Pos(e.Pos()), "some group has rows", "group cycling is started without knowing that some group has candidates: with every group filtered to zero rows currentGroup() is nil (nil dereference) or the mutual recursion never ends")
		}
	}

	// ---- wrap columns (K4)
	r.Rule("C01.wrap-columns", "K4", "wrapExcessAliases re-slices rows by a column count known to be >= 1", 1)
	if WE := p.Func("(*completion.group).wrapExcessAliases"); WE != nil {
		bf := blockFacts(WE)
		n := 0
		eachInstrRaw(WE, func(in ssa.Instruction) {
			sl, ok := in.(*ssa.Slice)
			if !ok || sl.Low == nil || sl.High != nil {
				return
			}
			// row = row[maxColumns:]
			if _, isPhi := sl.X.(*ssa.Phi); !isPhi {
				return
			}
			n++
			low := sl.Low
			okPos := false
			if k, ok := constInt(low); ok && k >= 1 {
				okPos = true
			}
			for fc := range factsAt(bf, in) {
				if rel, ok := relOf(fc.Cond, fc.Val); ok && rel.X == low {
					if k, ok := constInt(rel.Y); ok && ((rel.Op == token.GEQ && k >= 1) || (rel.Op == token.GTR && k >= 0)) {
						okPos = true
					}
				}
			}
			// clamp idiom: low is a phi whose edges are constants >= 1 or values tested >= 1 on their edge
			if ph, ok := low.(*ssa.Phi); ok && !okPos {
				all := true
				for i, e := range ph.Edges {
					if k, ok := constInt(e); ok && k >= 1 {
						continue
					}
					pred := ph.Block().Preds[i]
					good := false
					facts := map[Fact]bool{}
					for f := range bf[pred] {
						facts[f] = true
					}
					if iff, ok := pred.Instrs[len(pred.Instrs)-1].(*ssa.If); ok && len(pred.Succs) == 2 {
						val := pred.Succs[0] == ph.Block()
						for _, f := range expandCond(iff.Cond, val) {
							facts[f] = true
						}
					}
					for fc := range facts {
						if rel, ok := relOf(fc.Cond, fc.Val); ok && rel.X == e {
							if k, ok := constInt(rel.Y); ok && ((rel.Op == token.GEQ && k >= 1) || (rel.Op == token.GTR && k >= 0)) {
								good = true
							}
						}
					}
					if !good {
						all = false
					}
				}
				okPos = all
			}
			r.Check(okPos, "C01.wrap-columns", fnName(WE)+":row[maxColumns:]", p.IPos(in), "column count >= 1", "rows are re-sliced by a column count that can be 0 (first candidate wider than half the terminal): `row = row[0:]` never shrinks and the loop appends rows until memory is exhausted")
		})
		if n == 0 {
			r.OK("C01.wrap-columns", fnName(WE)+":row[maxColumns:]", p.Pos(WE.Pos()), "no open-ended re-slice by a variable")
		}
	} else {
		r.Unk("C01.wrap-columns", "(*completion.group).wrapExcessAliases", "-", "anchor not found")
	}

	checkC01Recursion(c, reachFns)
	checkC01Panics(c, reachFns)
	checkC01NilCalls(c, reachFns)
	checkC01NilContra(c, reachFns)
	checkC01Input(c)
	checkC01Division(c, reachFns)
	checkSelfDeadlock(c, "C01.self-deadlock")

	// ---- post-check shared with C06
	checkC06Clamps(c)
	checkC01Nonneg(c)
	checkNilBelief(c, "C01.nil-belief")
	checkNilFuncCall(c)
	checkMacroBudget(c)
	checkPairedNil(c, "C01.paired-nil")
	checkNilMapWrite(c, "C01.nil-map-write")
	checkRepeatCount(c, "C01.repeat-count")
	checkSourcePos(c)
}

// ---------------- recursion ----------------

var reviewedCycles = map[string]string{
	"(*completion.Engine).cycleNextGroup":     "self-recursion bounded by the number of groups when some group has rows (C01.cycle-guard)",
	"(*completion.Engine).cyclePreviousGroup": "same as cycleNextGroup",
}

func checkC01Recursion(c *Ctx, fns []*ssa.Function) {
	p, r := c.P, c.R
	r.Rule("C01.recursion", "K6", "every call-graph cycle among module functions is in the reviewed table with a bound", 1)
	in := map[*ssa.Function]bool{}
	for _, f := range fns {
		in[f] = true
	}
	// Tarjan SCC over static in-repo call edges (dynamic edges via func values are handled by the command table: commands calling commands)
	index := 0
	idx := map[*ssa.Function]int{}
	low := map[*ssa.Function]int{}
	onst := map[*ssa.Function]bool{}
	var stack []*ssa.Function
	var sccs [][]*ssa.Function
	succ := func(f *ssa.Function) []*ssa.Function {
		var out []*ssa.Function
		n := p.CG.Nodes[f]
		if n == nil {
			return nil
		}
		for _, e := range n.Out {
			g := e.Callee.Func
			if in[g] {
				out = append(out, g)
			}
		}
		return out
	}
	var strong func(v *ssa.Function)
	strong = func(v *ssa.Function) {
		idx[v], low[v] = index, index
		index++
		stack = append(stack, v)
		onst[v] = true
		for _, w := range succ(v) {
			if _, ok := idx[w]; !ok {
				strong(w)
				if low[w] < low[v] {
					low[v] = low[w]
				}
			} else if onst[w] && idx[w] < low[v] {
				low[v] = idx[w]
			}
		}
		if low[v] == idx[v] {
			var comp []*ssa.Function
			for {
				w := stack[len(stack)-1]
				stack = stack[:len(stack)-1]
				onst[w] = false
				comp = append(comp, w)
				if w == v {
					break
				}
			}
			selfLoop := false
			if len(comp) == 1 {
				for _, w := range succ(v) {
					if w == v {
						selfLoop = true
					}
				}
			}
			if len(comp) > 1 || selfLoop {
				sccs = append(sccs, comp)
			}
		}
	}
	for _, f := range fns {
		if _, ok := idx[f]; !ok {
			strong(f)
		}
	}
	n := 0
	for _, comp := range sccs {
		var names []string
		for _, f := range comp {
			names = append(names, fnName(f))
		}
		sort.Strings(names)
		key := "cycle:" + strings.Join(names, "+")
		n++
		allRev := true
		var why []string
		for _, nm := range names {
			if w, ok := reviewedCycles[nm]; ok {
				why = append(why, w)
			} else if w, ok := reviewedCycleGroups[strings.Join(names, "+")]; ok {
				if strings.Contains(names[0], "inputrc") {
					if good, bad := includeDepthBounded(p); !good {
						allRev = false
						why = append(why, bad)
						break
					}
					if good, bad := includeLinear(p); !good {
						allRev = false
						why = append(why, bad)
						break
					}
				}
				why = append(why, w)
				break
			} else {
				allRev = false
			}
		}
		if allRev {
			r.OK("C01.recursion", key, p.Pos(comp[0].Pos()), "reviewed: "+strings.Join(why, "; "))
		} else if len(why) > 0 {
			r.Bad("C01.recursion", key, p.Pos(comp[0].Pos()), "reviewed bound no longer holds: "+strings.Join(why, "; "))
		} else {
			r.Unk("C01.recursion", key, p.Pos(comp[0].Pos()), "call-graph cycle without a reviewed bound: unbounded recursion overflows the stack (fatal, not recoverable)")
		}
	}
	r.Extra["call_graph_cycles"] = n
	if n == 0 {
		r.OK("C01.recursion", "no-cycles", "-", "no call-graph cycle among reachable module functions")
	}
}

// cycles reviewed as a group (key = sorted member names joined by +)
var reviewedCycleGroups = map[string]string{
	"(*inputrc.Parser).Parse+(*inputrc.Parser).do+(*inputrc.Parser).next+inputrc.Parse": "$include re-enters Parse: bounded by the nesting counter (checked: the nested Parse is dominated by a `depth < constant` test and receives depth+1)",
}

// includeDepthBounded: the recursive Parse call in (*Parser).do is under a
// dominating bound test on Parser.depth and passes depth+1 on.
func includeDepthBounded(p *Prog) (bool, string) {
	DO := p.Func("(*inputrc.Parser).do")
	if DO == nil {
		return false, "(*inputrc.Parser).do not found"
	}
	bf := blockFacts(DO)
	var nested *ssa.Call
	eachInstrRaw(DO, func(in ssa.Instruction) {
		if cl, ok := in.(*ssa.Call); ok && calleeName(cl) == "inputrc.Parse" {
			nested = cl
		}
	})
	if nested == nil {
		return false, "no nested inputrc.Parse call"
	}
	guard := false
	for fc := range factsAt(bf, nested) {
		rel, ok := relOf(fc.Cond, fc.Val)
		if !ok || !isFieldLoad(rel.X, "inputrc.Parser", "depth") {
			continue
		}
		if _, isK := constInt(rel.Y); isK && (rel.Op == token.LSS || rel.Op == token.LEQ) {
			guard = true
		}
	}
	if !guard {
		return false, "the nested Parse is not dominated by a `p.depth < constant` test: a self-including file recurses until the stack overflows"
	}
	// depth+1 reaches the nested parser
	inc := false
	eachInstrRaw(DO, func(in ssa.Instruction) {
		cl, ok := in.(*ssa.Call)
		if !ok || !inRepo(staticCallee(cl)) || len(cl.Call.Args) != 1 {
			return
		}
		if bo, ok := cl.Call.Args[0].(*ssa.BinOp); ok && bo.Op == token.ADD && isFieldLoad(bo.X, "inputrc.Parser", "depth") {
			if k, ok := constInt(bo.Y); ok && k >= 1 {
				// the option's closure must store into Parser.depth
				callee := staticCallee(cl)
				for _, an := range callee.AnonFuncs {
					eachInstrRaw(an, func(x ssa.Instruction) {
						if _, ok := isFieldStore(x, "inputrc.Parser", "depth"); ok {
							inc = true
						}
					})
				}
			}
		}
	})
	if !inc {
		return false, "the nested parser does not receive depth+1"
	}
	// nothing else may write the depth (a reset in Parse would defeat the bound)
	for _, f := range p.AllFuncs {
		if f.Parent() != nil && strings.HasPrefix(fnName(f), "inputrc.withDepth") {
			continue
		}
		bad := ""
		eachInstrRaw(f, func(x ssa.Instruction) {
			if _, ok := isFieldStore(x, "inputrc.Parser", "depth"); ok {
				bad = fnName(f)
			}
		})
		if bad != "" {
			return false, bad + " writes Parser.depth: only the withDepth option of the nested $include parse may set it, otherwise the bound no longer counts nesting levels"
		}
	}
	return true, ""
}

// includeBudget: the total number of files a parse includes is bounded — the
// nested Parse call is dominated by a test of a shared counter (*Parser.included)
// against a constant, the counter is incremented before the call on every path,
// and the nested parser receives the same counter.
func includeBudget(p *Prog) (bool, string) {
	DO := p.Func("(*inputrc.Parser).do")
	if DO == nil {
		return false, "(*inputrc.Parser).do not found"
	}
	var nested *ssa.Call
	eachInstrRaw(DO, func(in ssa.Instruction) {
		if cl, ok := in.(*ssa.Call); ok && calleeName(cl) == "inputrc.Parse" {
			nested = cl
		}
	})
	if nested == nil {
		return false, "no nested inputrc.Parse call"
	}
	isCounterLoad := func(v ssa.Value) bool {
		u, ok := v.(*ssa.UnOp)
		return ok && u.Op == token.MUL && isFieldLoad(u.X, "inputrc.Parser", "included")
	}
	bf := blockFacts(DO)
	guard := false
	for fc := range factsAt(bf, nested) {
		rel, ok := relOf(fc.Cond, fc.Val)
		if !ok || !isCounterLoad(rel.X) {
			continue
		}
		if _, isK := constInt(rel.Y); isK && (rel.Op == token.LSS || rel.Op == token.LEQ) {
			guard = true
		}
	}
	if !guard {
		return false, "the nested Parse is not dominated by a `*p.included < constant` test: files that each include several others are parsed once per path through the include graph (exponential work under the depth limit)"
	}
	inc := func(in ssa.Instruction) bool {
		st, ok := in.(*ssa.Store)
		if !ok || !isFieldLoad(st.Addr, "inputrc.Parser", "included") {
			return false
		}
		bo, ok := st.Val.(*ssa.BinOp)
		if !ok || bo.Op != token.ADD || !isCounterLoad(bo.X) {
			return false
		}
		k, isK := constInt(bo.Y)
		return isK && k >= 1
	}
	counted := true
	// every path from the entry to the nested call passes the increment
	if w := pathAvoiding(DO, nil, func(in ssa.Instruction) bool { return in == ssa.Instruction(nested) }, inc); w != nil {
		counted = false
	}
	if !counted {
		return false, "a path reaches the nested Parse without counting the inclusion"
	}
	// the nested parser shares the counter
	shared := false
	eachInstrRaw(DO, func(in ssa.Instruction) {
		cl, ok := in.(*ssa.Call)
		if !ok || !inRepo(staticCallee(cl)) || len(cl.Call.Args) != 1 || !isFieldLoad(cl.Call.Args[0], "inputrc.Parser", "included") {
			return
		}
		for _, an := range staticCallee(cl).AnonFuncs {
			eachInstrRaw(an, func(x ssa.Instruction) {
				if _, ok := isFieldStore(x, "inputrc.Parser", "included"); ok {
					shared = true
				}
			})
		}
	})
	if !shared {
		return false, "the nested parser does not receive the counter of the enclosing parse: every level counts from zero"
	}
	// only-writer clause: the pointer to the shared counter is stored by the option that
	// hands it down and by the lazy allocation under `p.included == nil` in do — a store
	// anywhere else (a reset in Parse) gives every included file a counter of its own
	for _, f := range p.AllFuncs {
		var bad ssa.Instruction
		var bf FactMap
		eachInstrRaw(f, func(in ssa.Instruction) {
			st, ok := isFieldStore(in, "inputrc.Parser", "included")
			if !ok || bad != nil {
				return
			}
			if fa, ok := st.Addr.(*ssa.FieldAddr); ok {
				if _, fresh := fa.X.(*ssa.Alloc); fresh {
					return
				}
			}
			// the option closure: stores its own parameter / free variable
			if f.Parent() != nil && fnName(f.Parent()) == "inputrc.withIncluded" {
				return
			}
			// the lazy allocation: a fresh *int stored where the field is known nil
			if _, isNew := st.Val.(*ssa.Alloc); isNew && f == DO {
				if bf == nil {
					bf = blockFacts(f)
				}
				for fc := range factsAt(bf, in) {
					v, trueMeansNil, isNil := nilCmp(fc.Cond)
					if isNil && fc.Val == trueMeansNil && isFieldLoad(stripConv(v), "inputrc.Parser", "included") {
						return
					}
				}
			}
			bad = in
		})
		if bad != nil {
			return false, "Parser.included (the pointer to the include counter shared by the whole parse) is also stored at " + p.IPos(bad) + " in " + fnName(f) + ": the nested parser loses the counter it was handed and counts from zero, so the bound on the number of included files is gone"
		}
	}
	// the counter itself only ever grows: every store through the pointer is the increment (a reset
	// in Parse — run again for every included file, on the shared counter — renews the allowance
	// at every inclusion and the bound never fires)
	for _, f := range p.AllFuncs {
		var bad ssa.Instruction
		eachInstrRaw(f, func(in ssa.Instruction) {
			st, ok := in.(*ssa.Store)
			if !ok || bad != nil || !isFieldLoad(st.Addr, "inputrc.Parser", "included") {
				return
			}
			if !inc(in) {
				bad = in
			}
		})
		if bad != nil {
			return false, "the include counter shared by the whole parse is assigned something other than itself plus a constant at " + p.IPos(bad) + " in " + fnName(f) + ": a reset there is run again by every nested parse, so the allowance is renewed at each inclusion and the bound on the number of included files never fires"
		}
	}
	return true, ""
}

// includeLinear: once a level reported ErrIncludeTooDeep, the enclosing
// Parser.Parse loop must stop instead of handling its next line — otherwise a
// file holding two self-inclusions is re-parsed 2^maxIncludeDepth times, which
// is bounded on paper and never returns in practice.  Checked on the CFG of
// (*Parser).Parse: from the `err != nil` edge after p.next, every path back to
// scanner.Scan passes a test of the error against ErrIncludeTooDeep, and the
// true edge of each such test cannot reach scanner.Scan.
func includeLinear(p *Prog) (bool, string) {
	PARSE := p.Func("(*inputrc.Parser).Parse")
	if PARSE == nil {
		return false, "(*inputrc.Parser).Parse not found"
	}
	tooDeep := ""
	if pk := p.Pkg("inputrc"); pk != nil {
		if c, ok := pk.Types.Scope().Lookup("ErrIncludeTooDeep").(*types.Const); ok {
			tooDeep = constant.StringVal(c.Val())
		}
	}
	if tooDeep == "" {
		return false, "the constant inputrc.ErrIncludeTooDeep was not found"
	}
	isTooDeep := func(v ssa.Value) bool {
		if mi, ok := v.(*ssa.MakeInterface); ok {
			v = mi.X
		}
		s, ok := constString(v)
		return ok && s == tooDeep
	}
	isScan := func(in ssa.Instruction) bool { return isCallTo(in, "(*bufio.Scanner).Scan") }
	var next *ssa.Call
	tests := map[ssa.Value]bool{}
	eachInstrRaw(PARSE, func(in ssa.Instruction) {
		switch x := in.(type) {
		case *ssa.Call:
			if calleeName(x) == "(*inputrc.Parser).next" {
				next = x
			}
			if calleeName(x) == "errors.Is" && len(x.Call.Args) == 2 && isTooDeep(x.Call.Args[1]) {
				tests[x] = true
			}
		case *ssa.BinOp:
			if x.Op == token.EQL && (isTooDeep(x.X) || isTooDeep(x.Y)) {
				tests[x] = true
			}
		}
	})
	if next == nil {
		return false, "no call of (*Parser).next in (*Parser).Parse"
	}
	testBlocks := map[*ssa.BasicBlock]bool{}
	for _, b := range PARSE.Blocks {
		ifi, ok := b.Instrs[len(b.Instrs)-1].(*ssa.If)
		if !ok || !tests[ifi.Cond] {
			continue
		}
		testBlocks[b] = true
		if blockReaches(b.Succs[0], isScan, nil) {
			return false, "the parse loop goes on to the next line after a too-deep $include"
		}
	}
	// the err != nil edge after p.next
	for _, b := range PARSE.Blocks {
		ifi, ok := b.Instrs[len(b.Instrs)-1].(*ssa.If)
		if !ok {
			continue
		}
		bo, ok := ifi.Cond.(*ssa.BinOp)
		if !ok || bo.Op != token.NEQ || bo.X != ssa.Value(next) {
			continue
		}
		if blockReaches(b.Succs[0], isScan, testBlocks) {
			return false, "an error of a nested $include level (too deep) does not stop the enclosing Parse loop: a file that includes itself twice is re-parsed 2^depth times"
		}
		return true, ""
	}
	return false, "the error test after p.next was not recognised"
}

// ---------------- explicit panics ----------------

func checkC01Panics(c *Ctx, fns []*ssa.Function) {
	p, r := c.P, c.R
	r.Rule("C01.no-panic", "K6", "no explicit panic(...) is reachable from Readline, NewShell, the commands or the exported API", 1)
	n := 0
	for _, f := range fns {
		k := 0
		eachInstrRaw(f, func(in ssa.Instruction) {
			if _, ok := in.(*ssa.Panic); ok {
				// compiler-inserted panics have no position; explicit ones do
				if !in.Pos().IsValid() {
					return
				}
				n++
				r.Bad("C01.no-panic", fmt.Sprintf("%s:panic#%d", fnName(f), k), p.IPos(in), "explicit panic reachable from the editor: a configuration or input that reaches it crashes the application")
				k++
			}
		})
	}
	if n == 0 {
		r.OK("C01.no-panic", "no-explicit-panic", "-", fmt.Sprintf("no explicit panic in %d reachable functions", len(fns)))
	}
}

// ---------------- nil calls ----------------

// func-typed fields / map elements whose nil-ness is excluded by construction (reviewed)
var nilCallExempt = map[string]string{}

func checkC01NilCalls(c *Ctx, fns []*ssa.Function) {
	p, r := c.P, c.R
	r.Rule("C01.nil-call", "K4", "every dynamic call of a func value loaded from a struct field or a map is dominated by a non-nil test of that value", 5)
	for _, f := range fns {
		var bf FactMap
		k := 0
		eachInstrRaw(f, func(in ssa.Instruction) {
			call, ok := in.(ssa.CallInstruction)
			if !ok {
				return
			}
			cc := call.Common()
			if cc.IsInvoke() || staticCallee(call) != nil {
				return
			}
			if _, isB := cc.Value.(*ssa.Builtin); isB {
				return
			}
			if _, isSig := cc.Value.Type().Underlying().(*types.Signature); !isSig {
				return
			}
			// origin of the func value
			origin := ""
			v := cc.Value
			switch x := v.(type) {
			case *ssa.UnOp:
				if x.Op == token.MUL {
					if tn, fld, ok := fieldOf(x.X); ok {
						origin = "field " + tn + "." + fld
					}
				}
			case *ssa.Lookup:
				origin = "map element " + typeStr(x.X.Type())
			case *ssa.Extract:
				if lk, ok := x.Tuple.(*ssa.Lookup); ok {
					origin = "map element " + typeStr(lk.X.Type())
				}
			case *ssa.Call:
				// result of a resolver (e.g. Engine.resolve) which may return nil
				if cal := staticCallee(x); cal != nil && inRepo(cal) && mayReturnNilFunc(cal) {
					origin = "result of " + fnName(cal) + " (may be nil)"
				}
			}
			if origin == "" {
				return // parameters, closures, locals: not table-driven
			}
			if bf == nil {
				bf = blockFacts(f)
			}
			key := fmt.Sprintf("%s:call(%s)#%d", fnName(f), origin, k)
			k++
			r.CallSites++
			if why, ok := nilCallExempt[fnName(f)+"|"+origin]; ok {
				r.OK("C01.nil-call", key, p.IPos(in), "exempt: "+why)
				return
			}
			guarded := knownNonNil(factsAt(bf, in), v)
			// `f, ok := m[k]; if ok { f() }` — commaok guard on the same lookup
			if ex, isEx := v.(*ssa.Extract); isEx && !guarded {
				for fc := range factsAt(bf, in) {
					if ex2, ok := fc.Cond.(*ssa.Extract); ok && ex2.Tuple == ex.Tuple && ex2.Index == 1 && fc.Val {
						guarded = true
					}
				}
			}
			if _, isDefer := in.(*ssa.Defer); isDefer && !guarded {
				// deferred call of a just-assigned non-nil closure result is covered elsewhere
			}
			r.Check(guarded, "C01.nil-call", key, p.IPos(in), "guarded by a non-nil test", "a func value from a "+origin+" is called without a dominating non-nil test: an unregistered/unset entry crashes Readline with a nil dereference")
		})
	}
}

// mayReturnNilFunc: some return of f returns a nil func constant or an unguarded map lookup.
func mayReturnNilFunc(f *ssa.Function) bool {
	res := false
	eachInstrRaw(f, func(in ssa.Instruction) {
		if ret, ok := in.(*ssa.Return); ok && len(ret.Results) == 1 {
			for _, v := range mayValues(ret.Results[0]) {
				if isNilConst(v) {
					res = true
				}
				if _, isLk := v.(*ssa.Lookup); isLk {
					res = true
				}
			}
		}
	})
	return res
}

// ---------------- nil contradiction ----------------

func checkC01NilContra(c *Ctx, fns []*ssa.Function) {
	p, r := c.P, c.R
	r.Rule("C01.nil-contra", "K4", "no value that a function compares with nil is dereferenced on a path where it may be nil (contradiction rule, every reachable function)", 1)
	n := 0
	for _, f := range fns {
		for i, b := range nilContra(f) {
			n++
			r.Bad("C01.nil-contra", fmt.Sprintf("%s:nil-use#%d", fnName(f), i), p.IPos(b.Use), b.Msg)
		}
	}
	r.OK("C01.nil-contra", "functions-scanned", "-", fmt.Sprintf("%d functions scanned, %d contradictions", len(fns), n))
}

// ---------------- input path ----------------

func checkC01Input(c *Ctx) {
	p, r := c.P, c.R
	// read-guard: indexes into buffers coming from a terminal read / key channel need a length check
	r.Rule("C01.read-guard", "K4", "a buffer obtained from a terminal read or a key channel is indexed only under a dominating length check", 1)
	cp := p.Pkg("internal/core")
	for _, f := range p.AllFuncs {
		if f.Package() == nil || cp == nil || f.Package().Pkg != cp.Types {
			continue
		}
		var bf FactMap
		k := 0
		eachInstrRaw(f, func(in ssa.Instruction) {
			ia, ok := in.(*ssa.IndexAddr)
			if !ok {
				return
			}
			// does the indexed slice derive from a read / receive?
			fromInput := false
			var src ssa.Value
			for _, l := range backSlice(ia.X, &SliceOpts{P: p, IsSource: func(v ssa.Value) bool {
				if u, ok := v.(*ssa.UnOp); ok && u.Op == token.ARROW {
					return true
				}
				if ex, ok := v.(*ssa.Extract); ok {
					if cl, ok := ex.Tuple.(*ssa.Call); ok && calleeName(cl) == "(*core.Keys).readInputFiltered" {
						return true
					}
				}
				return false
			}}) {
				if l.Kind == LeafSource {
					fromInput = true
					src = l.V
				}
			}
			if !fromInput {
				return
			}
			if bf == nil {
				bf = blockFacts(f)
			}
			key := fmt.Sprintf("%s:index(input buffer)#%d", fnName(f), k)
			k++
			r.Fn(fnName(f))
			guarded := false
			for fc := range factsAt(bf, in) {
				rel, ok := relOf(fc.Cond, fc.Val)
				if !ok {
					continue
				}
				if isLenCall(rel.X) {
					if kk, ok := constInt(rel.Y); ok && ((rel.Op == token.GTR && kk >= 0) || (rel.Op == token.NEQ && kk == 0) || (rel.Op == token.GEQ && kk >= 1)) {
						guarded = true
					}
				}
			}
			// an index that walks down from len-k (k >= 1) and is tested non-negative is in range as well
			if ph, isPhi := ia.Index.(*ssa.Phi); isPhi && !guarded {
				down := len(ph.Edges) > 0
				for _, e := range ph.Edges {
					bo, isBo := e.(*ssa.BinOp)
					if !isBo || bo.Op != token.SUB {
						down = false
						break
					}
					if kk, isK := constInt(bo.Y); !isK || kk < 1 {
						down = false
						break
					}
					if !(bo.X == ssa.Value(ph) || (isLenCall(bo.X) && sameValue(bo.X.(*ssa.Call).Call.Args[0], ia.X))) {
						down = false
						break
					}
				}
				if down {
					for fc := range factsAt(bf, in) {
						rel, ok := relOf(fc.Cond, fc.Val)
						if !ok || rel.X != ssa.Value(ph) {
							continue
						}
						if kk, ok := constInt(rel.Y); ok && ((rel.Op == token.GEQ && kk >= 0) || (rel.Op == token.GTR && kk >= -1)) {
							guarded = true
						}
						// idx > max(…, k) with k >= -1 (a hoisted bound)
						if mc, ok := rel.Y.(*ssa.Call); ok && rel.Op == token.GTR {
							if b, isB := mc.Call.Value.(*ssa.Builtin); isB && b.Name() == "max" {
								for _, a := range mc.Call.Args {
									if kk, isK := constInt(a); isK && kk >= -1 {
										guarded = true
									}
								}
							}
						}
					}
				}
			}
			_ = src
			r.Check(guarded, "C01.read-guard", key, p.IPos(in), "under a length check", "a buffer returned by a terminal read / key channel is indexed without a length check: an empty read (end of input, error, closed channel) panics with index out of range")
		})
	}

	// eof: the terminal read error must leave the wait loop and reach Readline's caller
	r.Rule("C01.eof-propagates", "K3", "end-of-input or a read error in WaitAvailableKeys leaves its loop, is reported to Readline, and Readline returns on it", 3)
	W := p.Func("core.WaitAvailableKeys")
	RL := p.Func(fnReadline)
	if W == nil {
		r.Unk("C01.eof-propagates", "core.WaitAvailableKeys", "-", "anchor not found")
		return
	}
	r.Fn(fnName(W))
	// (a) every error outcome of the read leaves the loop: in the read loop, the block(s) where err != nil is known must not reach the loop head again
	var L *Loop
	for _, l := range findLoops(W) {
		for b := range l.Blocks {
			for _, in := range b.Instrs {
				if isCallTo(in, "(*core.Keys).readInputFiltered") {
					L = l
				}
			}
		}
	}
	var rd *ssa.Call
	for _, cl := range callsTo(W, false, "(*core.Keys).readInputFiltered") {
		rd, _ = cl.(*ssa.Call)
	}
	if L == nil || rd == nil {
		r.Unk("C01.eof-propagates", fnName(W)+":read-loop", p.Pos(W.Pos()), "read loop not found")
	} else {
		var errv ssa.Value
		for _, ref := range referrersOf(rd) {
			if ex, ok := ref.(*ssa.Extract); ok && ex.Index == 1 {
				errv = ex
			}
		}
		// a path from the read back to the loop head on which err != nil is never excluded
		spins := false
		if errv == nil {
			spins = true
		} else {
			// find blocks in loop reachable from rd where facts do not establish err == nil, that jump to head
			bf := blockFacts(W)
			for _, pb := range L.Head.Preds {
				if !L.Blocks[pb] {
					continue
				}
				if pathAvoiding(W, rd, func(in ssa.Instruction) bool { return in.Block() == pb }, nil) == nil && rd.Block() != pb {
					continue
				}
				if !knownNil(bf[pb], errv) {
					// the back edge can be taken with a non-nil error
					spins = true
				}
			}
		}
		r.Check(!spins, "C01.eof-propagates", fnName(W)+":error-leaves-loop", p.IPos(rd), "no back edge is reachable with a non-nil read error", "the read loop can iterate again after a failed read (a non-EOF error, or EOF with no key, `continue`s): on a dead terminal the call spins at 100% CPU")
		// (a') every return reachable after a failed read hands the error back
		if errv != nil && W.Signature.Results().Len() > 0 {
			bfW := blockFacts(W)
			okErr := true
			eachInstrRaw(W, func(in ssa.Instruction) {
				ret, ok := in.(*ssa.Return)
				if !ok || in.Block() == W.Recover {
					return
				}
				if !knownNonNil(bfW[in.Block()], errv) {
					return
				}
				for _, v := range mayValues(ret.Results[0]) {
					if isNilConst(v) {
						okErr = false
					}
				}
				if !dependsOn(ret.Results[0], func(x ssa.Value) bool { return x == errv }) {
					okErr = false
				}
			})
			r.Check(okErr, "C01.eof-propagates", fnName(W)+":failed-read-returns-error", p.IPos(rd), "a failed read is always reported", "a path returns nil although the terminal read failed: with keys still pending (a half-typed sequence) the main loop re-parks them and spins without ever blocking or returning")
		}
		// (b) WaitAvailableKeys reports the condition
		reports := W.Signature.Results().Len() > 0
		r.Check(reports, "C01.eof-propagates", fnName(W)+":reports-status", p.Pos(W.Pos()), "returns a status/error", "WaitAvailableKeys has no result: Readline cannot tell end-of-input from a key and re-dispatches the previous command forever (or panics on an empty key)")
		// (c) Readline returns on it
		if RL != nil && reports {
			okRet := false
			for _, cl := range callsTo(RL, false, "core.WaitAvailableKeys") {
				call, ok := cl.(*ssa.Call)
				if !ok {
					continue
				}
				// a return reachable under fact result != nil / false before MatchLocal
				var res ssa.Value = call
				bf := blockFacts(RL)
				eachInstrRaw(RL, func(in ssa.Instruction) {
					if !isReturn(in) {
						return
					}
					if knownNonNil(bf[in.Block()], res) || knownBool(bf[in.Block()], res, false) {
						okRet = true
					}
				})
			}
			r.Check(okRet, "C01.eof-propagates", fnReadline+":returns-on-eof", p.Pos(RL.Pos()), "Readline returns when the wait fails", "Readline ignores WaitAvailableKeys' status")
		} else if RL != nil {
			r.Bad("C01.eof-propagates", fnReadline+":returns-on-eof", p.Pos(RL.Pos()), "Readline cannot return on end-of-input because the wait reports nothing")
		}
	}

	checkChanProtocol(c, "C01.chan")
}

// checkChanProtocol: unconditional sends on unbuffered channels on the input path.
func checkChanProtocol(c *Ctx, rule string) {
	p, r := c.P, c.R
	cp := p.Pkg("internal/core")
	r.Rule(rule, "K6", "every channel send on the input path is on a buffered channel or inside a select with an alternative", 1)
	nSend := 0
	for _, f := range p.AllFuncs {
		if f.Package() == nil || cp == nil || f.Package().Pkg != cp.Types {
			continue
		}
		k := 0
		eachInstrRaw(f, func(in ssa.Instruction) {
			sd, ok := in.(*ssa.Send)
			if !ok {
				return
			}
			nSend++
			key := fmt.Sprintf("%s:send#%d", fnName(f), k)
			k++
			r.Fn(fnName(f))
			// which field?
			desc := sd.Chan.String()
			if tn, fld, ok := fieldReadName(sd.Chan); ok {
				desc = tn + "." + fld
				key = fmt.Sprintf("%s:send(%s)#%d", fnName(f), desc, k-1)
			}
			// buffered? find the make(chan) stores for that field
			buffered := chanFieldBuffered(p, sd.Chan)
			if !buffered {
				if ok, why := sendOnlyCrossGoroutine(p, f, sd); ok {
					r.OK(rule, key, p.IPos(in), "not reachable in the sequential flow: "+why)
					return
				}
			}
			r.Check(buffered, rule, key, p.IPos(in), "buffered channel", "unconditional send on the unbuffered channel "+desc+": if no receiver is parked on that very channel (stray or late terminal reply, channel re-created meanwhile) the main loop blocks forever")
		})
	}
	if nSend == 0 {
		r.OK(rule, "no-sends", "-", "no channel send in internal/core")
	}
}

func fieldReadName(v ssa.Value) (string, string, bool) {
	if u, ok := v.(*ssa.UnOp); ok && u.Op == token.MUL {
		return fieldOf(u.X)
	}
	return "", "", false
}

// chanFieldBuffered: every make(chan) stored into the same field has a constant capacity >= 1.
func chanFieldBuffered(p *Prog, ch ssa.Value) bool {
	tn, fld, ok := fieldReadName(ch)
	if !ok {
		return false
	}
	n, all := 0, true
	for _, f := range p.AllFuncs {
		eachInstrRaw(f, func(in ssa.Instruction) {
			if st, ok := isFieldStore(in, tn, fld); ok {
				if mk, ok := st.Val.(*ssa.MakeChan); ok {
					n++
					if k, ok := constInt(mk.Size); !ok || k < 1 {
						all = false
					}
				}
			}
		})
	}
	return n > 0 && all
}

// sendOnlyCrossGoroutine: the send executes only under `flag == true` for a bool
// field that is set only inside functions which (a) clear it again by a deferred
// store on every exit and (b) cannot reach the sending function — so in a single
// goroutine the send is dead; it is live only when another goroutine runs such a
// function concurrently (outside the keyboard-input quantifier).
func sendOnlyCrossGoroutine(p *Prog, f *ssa.Function, sd *ssa.Send) (bool, string) {
	bf := blockFacts(f)
	for fc := range factsAt(bf, sd) {
		if !fc.Val {
			continue
		}
		tn, fld, ok := fieldReadName(fc.Cond)
		if !ok {
			continue
		}
		setters := 0
		good := true
		for _, g := range p.AllFuncs {
			var sets []*ssa.Store
			eachInstrRaw(g, func(in ssa.Instruction) {
				if st, ok := isFieldStore(in, tn, fld); ok {
					if b, ok := constBool(st.Val); ok && b {
						sets = append(sets, st)
					}
				}
			})
			if len(sets) == 0 {
				continue
			}
			setters++
			// (a) a deferred closure of g stores false, and the defer is in g's entry region (dominates every exit after the set)
			cleared := false
			eachInstrRaw(g, func(in ssa.Instruction) {
				d, ok := in.(*ssa.Defer)
				if !ok {
					return
				}
				if mc, ok := d.Call.Value.(*ssa.MakeClosure); ok {
					eachInstrRaw(mc.Fn.(*ssa.Function), func(x ssa.Instruction) {
						if st, ok := isFieldStore(x, tn, fld); ok {
							if b, ok := constBool(st.Val); ok && !b {
								cleared = true
							}
						}
					})
				}
			})
			// (b) g cannot reach f
			parent := p.reachFrom([]*ssa.Function{g}, nil)
			_, reaches := parent[f]
			if !cleared || reaches {
				good = false
			}
		}
		if setters > 0 && good {
			return true, fmt.Sprintf("guarded by %s.%s, which is only set inside functions that clear it on exit and cannot reach %s", tn, fld, fnName(f))
		}
	}
	return false, ""
}

// ---------------- division ----------------

func checkC01Division(c *Ctx, fns []*ssa.Function) {
	p, r := c.P, c.R
	r.Rule("C01.division", "K4", "every integer division / modulo by a non-constant divisor is dominated by a test that the divisor is non-zero (or the divisor is clamped to >= 1)", 1)
	n := 0
	for _, f := range fns {
		var bf FactMap
		k := 0
		eachInstrRaw(f, func(in ssa.Instruction) {
			bo, ok := in.(*ssa.BinOp)
			if !ok || (bo.Op != token.QUO && bo.Op != token.REM) {
				return
			}
			if b, ok := bo.Type().Underlying().(*types.Basic); !ok || b.Info()&types.IsInteger == 0 {
				return
			}
			if kk, ok := constInt(bo.Y); ok {
				if kk == 0 {
					r.Bad("C01.division", fmt.Sprintf("%s:div#%d", fnName(f), k), p.IPos(in), "division by the constant zero")
				}
				return
			}
			if bf == nil {
				bf = blockFacts(f)
			}
			n++
			key := fmt.Sprintf("%s:div#%d", fnName(f), k)
			k++
			div := bo.Y
			if why, ok := reviewedDivisions[key]; ok {
				r.OK("C01.division", key, p.IPos(in), "reviewed: "+why)
				return
			}
			ok2 := nonZeroKnown(bf, in, div, 0) || globalNonZeroConst(p, div)
			r.Check(ok2, "C01.division", key, p.IPos(in), "divisor known non-zero", "integer division by `"+div.String()+"`, which is not known to be non-zero here: a zero (empty candidate list, zero-width value, terminal width 0) crashes Readline with a divide error")
		})
	}
	if n == 0 {
		r.OK("C01.division", "no-variable-division", "-", "no integer division by a non-constant")
	}
}

var reviewedDivisions = map[string]string{
	"(*completion.group).initCompletionsGrid:div#0": "pairLength = min(longestValueDescribed(), termWidth): longestValueDescribed returns a sum of non-negative lengths + 2, and termWidth comes from term.GetWidth(), which substitutes 80 for 0",
}

// globalNonZeroConst: v is a load of a package-level variable that is only ever
// assigned a non-zero constant (in its package initialiser).
func globalNonZeroConst(p *Prog, v ssa.Value) bool {
	u, ok := v.(*ssa.UnOp)
	if !ok || u.Op != token.MUL {
		return false
	}
	g, ok := u.X.(*ssa.Global)
	if !ok {
		return false
	}
	n, good := 0, true
	for _, f := range p.AllFuncs {
		eachInstrRaw(f, func(in ssa.Instruction) {
			if st, ok := in.(*ssa.Store); ok && st.Addr == ssa.Value(g) {
				n++
				if k, ok := constInt(st.Val); !ok || k == 0 || f.Name() != "init" {
					good = false
				}
			}
		})
		// address taken?
	}
	for _, ref := range referrersOfGlobal(p, g) {
		switch ref.(type) {
		case *ssa.Store, *ssa.UnOp, *ssa.DebugRef:
		default:
			good = false
		}
	}
	return n > 0 && good
}

func referrersOfGlobal(p *Prog, g *ssa.Global) []ssa.Instruction {
	var out []ssa.Instruction
	for _, f := range p.AllFuncs {
		eachInstrRaw(f, func(in ssa.Instruction) {
			for _, op := range in.Operands(nil) {
				if op != nil && *op == ssa.Value(g) {
					out = append(out, in)
				}
			}
		})
	}
	return out
}

// factsOfTruePhi: what holds whenever the boolean phi is true: the facts common
// to every incoming edge whose value is not the constant false.
func factsOfTruePhi(bf FactMap, ph *ssa.Phi) map[Fact]bool {
	var acc map[Fact]bool
	for i, e := range ph.Edges {
		if b, ok := constBool(e); ok && !b {
			continue
		}
		pred := ph.Block().Preds[i]
		facts := map[Fact]bool{}
		for f := range bf[pred] {
			facts[f] = true
		}
		if iff, ok := pred.Instrs[len(pred.Instrs)-1].(*ssa.If); ok && len(pred.Succs) == 2 {
			for _, f := range expandCond(iff.Cond, pred.Succs[0] == ph.Block()) {
				facts[f] = true
			}
		}
		if _, isC := e.(*ssa.Const); !isC {
			facts[Fact{e, true}] = true
		}
		if acc == nil {
			acc = facts
		} else {
			for f := range acc {
				if !facts[f] {
					delete(acc, f)
				}
			}
		}
	}
	return acc
}

// nonZeroKnown: facts at `at` (or the structure of v) establish v != 0.
func nonZeroKnown(bf FactMap, at ssa.Instruction, v ssa.Value, depth int) bool {
	if depth > 3 {
		return false
	}
	if k, ok := constInt(v); ok {
		return k != 0
	}
	all := map[Fact]bool{}
	for fc := range factsAt(bf, at) {
		all[fc] = true
		if ph, ok := fc.Cond.(*ssa.Phi); ok && fc.Val {
			for f2 := range factsOfTruePhi(bf, ph) {
				all[f2] = true
			}
		}
	}
	for fc := range all {
		rel, ok := relOf(fc.Cond, fc.Val)
		if !ok {
			continue
		}
		if sameValue(rel.X, v) {
			if k, ok := constInt(rel.Y); ok {
				if (rel.Op == token.NEQ && k == 0) || (rel.Op == token.GTR && k >= 0) || (rel.Op == token.GEQ && k >= 1) || (rel.Op == token.LSS && k <= 0) {
					return true
				}
			}
		}
		if sameValue(rel.Y, v) {
			if k, ok := constInt(rel.X); ok {
				if (rel.Op == token.NEQ && k == 0) || (rel.Op == token.LSS && k >= 0) || (rel.Op == token.LEQ && k >= 1) {
					return true
				}
			}
		}
	}
	switch x := v.(type) {
	case *ssa.Phi:
		// clamp idiom: every edge is non-zero (constant or tested on its edge)
		for i, e := range x.Edges {
			pred := x.Block().Preds[i]
			if k, ok := constInt(e); ok && k != 0 {
				continue
			}
			// facts at the end of pred plus the edge condition
			facts := map[Fact]bool{}
			for f := range bf[pred] {
				facts[f] = true
			}
			if iff, ok := pred.Instrs[len(pred.Instrs)-1].(*ssa.If); ok && len(pred.Succs) == 2 {
				for _, f := range expandCond(iff.Cond, pred.Succs[0] == x.Block()) {
					facts[f] = true
				}
			}
			good := false
			for fc := range facts {
				if rel, ok := relOf(fc.Cond, fc.Val); ok && sameValue(rel.X, e) {
					if k, ok := constInt(rel.Y); ok && ((rel.Op == token.NEQ && k == 0) || (rel.Op == token.GTR && k >= 0) || (rel.Op == token.GEQ && k >= 1)) {
						good = true
					}
				}
			}
			if !good {
				return false
			}
		}
		return len(x.Edges) > 0
	case *ssa.BinOp:
		// x + k with x >= 0 is not derivable here; accept (len(..)+const) with const >= 1
		if x.Op == token.ADD {
			if k, ok := constInt(x.Y); ok && k >= 1 && isLenCall(x.X) {
				return true
			}
		}
	case *ssa.Call:
		// term.GetWidth() never returns 0 (falls back to 80) — reviewed stdlib-like lemma for this repo
		if calleeName(x) == "term.GetWidth" || calleeName(x) == "term.GetLength" {
			return true
		}
	}
	return false
}

// checkSelfDeadlock: no call, while a (non-reentrant) mutex is held, to a module
// function that takes the same mutex (directly or through its callees).
func checkSelfDeadlock(c *Ctx, rule string) {
	p, r := c.P, c.R
	r.Rule(rule, "K8", "no function calls, while holding a mutex, a module function that (transitively) locks the same mutex", 1)
	// which functions lock which mutex directly
	locks := map[*ssa.Function]map[string]bool{}
	for _, f := range p.AllFuncs {
		eachInstrRaw(f, func(in ssa.Instruction) {
			if path, op, ok := lockOp(in); ok && (op == 'L' || op == 'R') {
				if locks[f] == nil {
					locks[f] = map[string]bool{}
				}
				locks[f][path] = true
			}
		})
	}
	n := 0
	for _, f := range p.AllFuncs {
		if locks[f] == nil {
			continue
		}
		ls := locksets(f)
		k := 0
		eachInstrRaw(f, func(in ssa.Instruction) {
			call, ok := in.(ssa.CallInstruction)
			if !ok || len(ls[in]) == 0 {
				return
			}
			if _, _, isLock := lockOp(in); isLock {
				return
			}
			if _, isDefer := in.(*ssa.Defer); isDefer {
				return
			}
			callee := staticCallee(call)
			if callee == nil || !inRepo(callee) {
				return
			}
			reach := p.reachFrom([]*ssa.Function{callee}, nil)
			for held := range ls[in] {
				for g := range reach {
					if locks[g][held] {
						n++
						r.Fn(fnName(f))
						r.Bad(rule, fmt.Sprintf("%s:call(%s)-holding(%s)#%d", fnName(f), fnName(callee), held, k), p.IPos(in), "calls "+fnName(callee)+" while holding "+held+", which "+fnName(g)+" locks again: sync mutexes are not reentrant, the call blocks forever")
						k++
						return
					}
				}
			}
		})
	}
	if n == 0 {
		r.OK(rule, "no-reentrant-locking", "-", fmt.Sprintf("%d locking functions inspected", len(locks)))
	}
}
