package main

import (
	"fmt"
	"go/token"
	"sort"

	"golang.org/x/tools/go/ssa"
)

func init() { propFuncs["C17"] = checkC17 }

const fnAdjust = "(*readline.Shell).adjustSelectionPending"

// selectionTextShape: f returns string((*s.line)[lo:hi]) with (lo,hi) the two
// results of one Selection.Pos() call. Returns whether the shape holds.
func selectionTextShape(f *ssa.Function) (bool, string) {
	found := false
	why := "no string((*s.line)[bpos:epos]) conversion found"
	eachInstr(f, func(in ssa.Instruction) {
		cv, ok := in.(*ssa.Convert)
		if !ok {
			return
		}
		sl, ok := cv.X.(*ssa.Slice)
		if !ok {
			return
		}
		u, ok := sl.X.(*ssa.UnOp)
		if !ok || u.Op != token.MUL || !isFieldLoad(u.X, "core.Selection", "line") {
			return
		}
		lo, hi := mayValues(sl.Low), mayValues(sl.High)
		okLo, okHi := false, false
		var tuple ssa.Value
		for _, v := range lo {
			if ex, ok := v.(*ssa.Extract); ok && ex.Index == 0 && isCallNamed(ex.Tuple, "(*core.Selection).Pos") {
				okLo, tuple = true, ex.Tuple
			}
		}
		for _, v := range hi {
			if ex, ok := v.(*ssa.Extract); ok && ex.Index == 1 && ex.Tuple == tuple {
				okHi = true
			}
		}
		if okLo && okHi {
			found = true
		} else {
			why = "the slice bounds are not the (bpos, epos) pair of one Selection.Pos() call"
		}
	})
	return found, why
}

func checkC17(c *Ctx) {
	p, r := c.P, c.R
	r.Explanation = "Decided statically (sibling cross-check of the operator implementations): vi-delete-to, vi-yank-to (and vi-change-to's selection branch) follow one protocol — in the active-selection branch adjustSelectionPending() runs before the selection is read; delete takes Selection.Cut(), yank takes Selection.Pop(), and both of those read string((*line)[bpos:epos]) with (bpos,epos) from one Selection.Pos() call, Cut removing exactly that range; in the repeated-operator (dd/yy) branch both mark the cursor, select line-wise and apply the same trailing-newline rule before Buffers.Write; yank cannot reach a buffer write (C06's movement table); execute runs the pending operator exactly when the command just run was not an argument, and Pending/RunPending push and pop the active bind; the inclusive/exclusive adjustment table names only registered commands and is shared by all operators. NOT decided: that every motion marks the range a user expects, and text equality for all buffers (value-level)."
	r.Trusted = []string{"go/packages type checker", "go/ssa construction", "rule tables in rlcheck/c17.go", "C06.pure-moves for vi-yank-to / vi-yank-whole-line"}
	r.Assumptions = []string{"Selection.Pos() is a pure function of selection+line state"}

	reg := p.Registry()
	D, Y, C := reg.Cmds["vi-delete-to"], reg.Cmds["vi-yank-to"], reg.Cmds["vi-change-to"]
	r.Rule("C17.anchors", "K0", "the three operators are registered", 3)
	for n, f := range map[string]*ssa.Function{"vi-delete-to": D, "vi-yank-to": Y, "vi-change-to": C} {
		if f == nil {
			r.Unk("C17.anchors", "command:"+n, "-", "operator not registered")
		} else {
			r.OK("C17.anchors", "command:"+n, p.Pos(f.Pos()), fnName(f))
			r.Fn(fnName(f))
		}
	}
	if D == nil || Y == nil || C == nil {
		return
	}

	// ---- same-adjust (K1)
	r.Rule("C17.same-adjust", "K1", "in each operator's active-selection branch, adjustSelectionPending() precedes the read of the selection", 3)
	type opInfo struct {
		f    *ssa.Function
		name string
		read string // callee that reads the selection in the active branch
	}
	ops := []opInfo{{D, "vi-delete-to", fnSelCut}, {Y, "vi-yank-to", fnSelPop}, {C, "vi-change-to", fnSelCut}}
	for _, op := range ops {
		bf := blockFacts(op.f)
		n := 0
		for _, rd := range callsTo(op.f, false, op.read) {
			// only the read in the Active() branch: facts contain Selection.Active() == true
			inActive := false
			for fc := range factsAt(bf, rd) {
				if isCallNamed(fc.Cond, "(*core.Selection).Active") && fc.Val {
					inActive = true
				}
			}
			if !inActive {
				continue
			}
			n++
			ok, _ := mustPassBefore(op.f, nil, func(in ssa.Instruction) bool { return in == ssa.Instruction(rd) }, func(in ssa.Instruction) bool {
				if !isCallTo(in, fnAdjust) {
					return false
				}
				// the adjust call must itself be in the active branch (after the Active() test)
				for fc := range factsAt(bf, in) {
					if isCallNamed(fc.Cond, "(*core.Selection).Active") && fc.Val {
						return true
					}
				}
				return false
			})
			r.Check(ok, "C17.same-adjust", "command:"+op.name+":adjust-before-read", p.IPos(rd), "adjustSelectionPending precedes "+op.read, op.name+" reads the selection without first applying the inclusive/exclusive adjustment: it acts on a different range than its sibling operators")
		}
		if n == 0 {
			r.Bad("C17.same-adjust", "command:"+op.name+":adjust-before-read", p.Pos(op.f.Pos()), op.name+" has no "+op.read+" call under selection.Active(): the operator protocol changed — table needs review")
		}
	}

	// ---- same exits (K1): once in the active-selection branch, every path reads the selection
	r.Rule("C17.same-exits", "K1", "in the active-selection branch of each operator every path reaches the selection read (no extra early exit in one sibling)", 3)
	for _, op := range ops {
		bf := blockFacts(op.f)
		// entry of the branch: the block reached by the true edge of the Active() test
		var entry *ssa.BasicBlock
		for _, b := range op.f.Blocks {
			if iff, ok := b.Instrs[len(b.Instrs)-1].(*ssa.If); ok && isCallNamed(iff.Cond, "(*core.Selection).Active") {
				entry = b.Succs[0]
			}
		}
		_ = bf
		if entry == nil {
			r.Unk("C17.same-exits", "command:"+op.name+":active-branch", p.Pos(op.f.Pos()), "the selection.Active() branch was not found")
			continue
		}
		first := entry.Instrs[0]
		isRead := func(in ssa.Instruction) bool { return isCallTo(in, op.read) }
		miss := pathAvoiding(op.f, first, func(in ssa.Instruction) bool { return isReturn(in) && in.Block() != op.f.Recover }, isRead)
		if isRead(first) {
			miss = nil
		}
		r.Check(miss == nil, "C17.same-exits", "command:"+op.name+":active-branch", p.IPos(first), "every path reads the selection", op.name+" can leave its active-selection branch without acting on the selection (an extra early return): for some selections it does nothing while its sibling operators act")
	}

	// ---- same-range (K3)
	r.Rule("C17.same-range", "K3", "Selection.Text (used by Cut) and Selection.Pop read string((*line)[bpos:epos]) with both bounds from one Selection.Pos() call", 2)
	for _, n := range []string{fnSelText, fnSelPop} {
		f := p.Func(n)
		if f == nil {
			r.Unk("C17.same-range", n, "-", "anchor not found")
			continue
		}
		r.Fn(n)
		ok, why := selectionTextShape(f)
		r.Check(ok, "C17.same-range", n+":text=line[Pos()]", p.Pos(f.Pos()), "text = line[bpos:epos] of Pos()", n+": "+why)
	}

	// ---- line-wise symmetry (K5)
	r.Rule("C17.linewise-symmetry", "K5", "the dd / yy branches mark the cursor, select line-wise (Visual(true)) and apply the same trailing-newline rule before Buffers.Write", 2)
	type lw struct {
		mark, visualTrue, newlineRule, write bool
	}
	analyse := func(op opInfo) lw {
		var res lw
		bf := blockFacts(op.f)
		pending := func(in ssa.Instruction) bool {
			for fc := range factsAt(bf, in) {
				if isCallNamed(fc.Cond, "(*keymap.Engine).IsPending") && fc.Val {
					return true
				}
			}
			return false
		}
		eachInstr(op.f, func(in ssa.Instruction) {
			if !pending(in) {
				return
			}
			if isCallTo(in, "(*core.Selection).Mark") {
				if isCallNamed(in.(ssa.CallInstruction).Common().Args[1], "(*core.Cursor).Pos") {
					res.mark = true
				}
			}
			if isCallTo(in, "(*core.Selection).Visual") {
				if b, ok := constBool(in.(ssa.CallInstruction).Common().Args[1]); ok && b {
					res.visualTrue = true
				}
			}
			if isCallTo(in, fnBufWrite) {
				res.write = true
				// newline rule: the written text is phi(text, text + "\n") guarded by last rune != '\n'
				for _, l := range backSlice(in.(ssa.CallInstruction).Common().Args[1], &SliceOpts{P: p, IsSource: func(v ssa.Value) bool {
					return isCallNamed(v, fnSelCut) || isCallNamed(v, fnSelPop)
				}}) {
					if s, ok := constString(l.V); ok && s == "\n" {
						res.newlineRule = true
					}
					if k, ok := constInt(l.V); ok && k == 10 {
						res.newlineRule = true
					}
				}
				// the constant may be folded: string(rune(10)) appears as Convert of const
				if !res.newlineRule {
					if dependsOn(in.(ssa.CallInstruction).Common().Args[1], func(v ssa.Value) bool {
						if k, ok := constInt(v); ok && k == 10 {
							return true
						}
						if s, ok := constString(v); ok && s == "\n" {
							return true
						}
						return false
					}) {
						res.newlineRule = true
					}
				}
			}
		})
		return res
	}
	dl, yl := analyse(ops[0]), analyse(ops[1])
	r.Check(dl.mark && dl.visualTrue && dl.write && yl.mark && yl.visualTrue && yl.write, "C17.linewise-symmetry", "dd/yy:mark+linewise+write", p.Pos(D.Pos()),
		"both mark the cursor, select line-wise and write", fmt.Sprintf("the repeated-operator branches differ: delete %+v, yank %+v", dl, yl))
	r.Check(dl.newlineRule == yl.newlineRule, "C17.linewise-symmetry", "dd/yy:trailing-newline", p.Pos(D.Pos()),
		fmt.Sprintf("same trailing-newline rule (applied: %v)", dl.newlineRule), fmt.Sprintf("delete applies the trailing-newline rule: %v, yank: %v — dd and yy store different text for the same line", dl.newlineRule, yl.newlineRule))

	// ---- yank is pure (K10) — same engine as C06
	r.Rule("C17.yank-pure", "K10", "vi-yank-to and vi-yank-whole-line cannot reach a primitive buffer write (except the reviewed completion-reset sites)", 2)
	{
		writes := p.primitiveLineWrites()
		prim := map[*ssa.Function]bool{}
		for _, w := range writes {
			prim[w.Fn] = true
		}
		mutAll := p.coreMutators(writes)
		for _, cmd := range []string{"vi-yank-to", "vi-yank-whole-line"} {
			f := reg.Cmds[cmd]
			if f == nil {
				r.Unk("C17.yank-pure", "command:"+cmd, "-", "not registered")
				continue
			}
			sites, n := p.effectSitesFrom(f, mutAll, prim)
			bad := ""
			for s, path := range sites {
				if _, ok := reviewedMoveEffects[cmd+"|"+s]; !ok {
					bad = path
				}
			}
			r.Check(bad == "", "C17.yank-pure", "command:"+cmd, p.Pos(f.Pos()), fmt.Sprintf("no unreviewed buffer write among %d reachable functions", n), "yank can reach a buffer write: "+bad)
		}
	}

	// ---- pending protocol (K1+K3)
	r.Rule("C17.pending-protocol", "K1", "execute runs the pending operator exactly when the command was not an argument; Pending pushes the active bind and RunPending pops and re-invokes it", 4)
	if EX := p.Func("(*readline.Shell).execute"); EX != nil {
		r.Fn(fnName(EX))
		bf := blockFacts(EX)
		n := 0
		for _, call := range callsTo(EX, false, "(*keymap.Engine).RunPending") {
			n++
			okG := false
			for fc := range factsAt(bf, call) {
				if isCallNamed(fc.Cond, "(*core.Iterations).IsPending") && !fc.Val {
					okG = true
				}
			}
			// and it is called on every path where !IsPending
			r.Check(okG, "C17.pending-protocol", fnName(EX)+":RunPending-guard", p.IPos(call), "under !Iterations.IsPending()", "RunPending is not guarded by !Iterations.IsPending(): a count typed between operator and motion would trigger the operator")
		}
		if n == 0 {
			r.Bad("C17.pending-protocol", fnName(EX)+":RunPending-guard", p.Pos(EX.Pos()), "execute no longer runs pending operators: d<motion> never deletes")
		}
		// the dispatched command runs before RunPending (motion first, then operator)
		okOrder := true
		for _, call := range callsTo(EX, false, "(*keymap.Engine).RunPending") {
			var cmdCall ssa.Instruction
			eachInstr(EX, func(in ssa.Instruction) {
				if cl, ok := in.(ssa.CallInstruction); ok && cl.Common().Value == ssa.Value(EX.Params[1]) {
					cmdCall = in
				}
			})
			if cmdCall == nil || pathAvoiding(EX, call, func(in ssa.Instruction) bool { return in == cmdCall }, nil) != nil {
				okOrder = false
			}
		}
		r.Check(okOrder, "C17.pending-protocol", fnName(EX)+":motion-before-operator", p.Pos(EX.Pos()), "the command runs before the pending operator", "the pending operator can run before the motion command")
	} else {
		r.Unk("C17.pending-protocol", "(*readline.Shell).execute", "-", "anchor not found")
	}
	if PD := p.Func("(*keymap.Engine).Pending"); PD != nil {
		r.Fn(fnName(PD))
		ok := false
		eachInstr(PD, func(in ssa.Instruction) {
			if st, isS := isFieldStore(in, "keymap.Engine", "pending"); isS {
				if cl, isC := st.Val.(*ssa.Call); isC {
					if b, isB := cl.Call.Value.(*ssa.Builtin); isB && b.Name() == "append" && isFieldLoad(cl.Call.Args[0], "keymap.Engine", "pending") {
						for _, l := range backSlice(cl.Call.Args[1], &SliceOpts{P: p, ElemOf: true, IsSource: func(v ssa.Value) bool { return isFieldLoad(v, "keymap.Engine", "active") }}) {
							if l.Kind == LeafSource {
								ok = true
							}
						}
					}
				}
			}
		})
		r.Check(ok, "C17.pending-protocol", fnName(PD)+":push-active", p.Pos(PD.Pos()), "pending = append(pending, active)", "Pending does not push the active bind: the operator re-invoked after the motion is not the one typed")
	} else {
		r.Unk("C17.pending-protocol", "(*keymap.Engine).Pending", "-", "anchor not found")
	}
	if RP := p.Func("(*keymap.Engine).RunPending"); RP != nil {
		r.Fn(fnName(RP))
		// command := m.resolve(pending) with pending = m.pending[len-1]; then command()
		ok := false
		for _, call := range callsTo(RP, false, "(*keymap.Engine).resolve") {
			arg := structValue(call.Common().Args[1])
			if u, isU := arg.(*ssa.UnOp); isU {
				if ia, isIA := u.X.(*ssa.IndexAddr); isIA && isFieldLoad(ia.X, "keymap.Engine", "pending") {
					if k, okK := lenMinusField(ia.Index, "keymap.Engine", "pending"); okK && k == 1 {
						// the resolved func is called
						for _, ref := range referrersOf(call.(*ssa.Call)) {
							if cl, isCl := ref.(ssa.CallInstruction); isCl && cl.Common().Value == ssa.Value(call.(*ssa.Call)) {
								ok = true
							}
						}
					}
				}
			}
		}
		r.Check(ok, "C17.pending-protocol", fnName(RP)+":pop-and-run", p.Pos(RP.Pos()), "runs resolve(pending[len-1])", "RunPending does not resolve and run the last pushed operator")
	} else {
		r.Unk("C17.pending-protocol", "(*keymap.Engine).RunPending", "-", "anchor not found")
	}

	// ---- adjust table (K5)
	r.Rule("C17.adjust-table", "K5", "every command named in adjustSelectionPending's table is registered, and each case makes the selection exclusive (Visual(false))", 10)
	if AD := p.Func(fnAdjust); AD != nil {
		r.Fn(fnAdjust)
		cs := stringConstsCompared(AD, func(v ssa.Value) bool { return true })
		// the table is a reviewed inventory: which last commands make the pending selection exclusive
		want := map[string]bool{"vi-end-word": true, "vi-end-bigword": true, "vi-find-next-char": true, "vi-find-next-char-skip": true, "vi-find-prev-char": true, "vi-find-prev-char-skip": true, "vi-match": true,
			"select-in-word": true, "select-a-word": true, "select-in-blank-word": true, "select-a-blank-word": true, "select-in-shell-word": true, "select-a-shell-word": true, "vi-select-inside": true, "vi-change-to": true}
		var added, dropped []string
		for a := range cs {
			if !want[a] {
				added = append(added, a)
			}
		}
		for a := range want {
			if _, ok := cs[a]; !ok {
				dropped = append(dropped, a)
			}
		}
		sort.Strings(added)
		sort.Strings(dropped)
		r.Check(len(added) == 0 && len(dropped) == 0, "C17.adjust-table", "adjust:table-inventory", p.Pos(AD.Pos()), fmt.Sprintf("%d reviewed entries", len(want)),
			fmt.Sprintf("the inclusive/exclusive adjustment table changed (added %v, dropped %v): an operator named here loses its visual-line flag, a motion dropped here keeps its last character — needs review", added, dropped))
		for a, in := range cs {
			r.Check(reg.Cmds[a] != nil, "C17.adjust-table", "adjust:"+a, p.IPos(in), "registered", "adjustSelectionPending names \""+a+"\", which is not a registered command: that motion silently loses its adjustment")
		}
		for i, call := range callsTo(AD, false, "(*core.Selection).Visual") {
			b, ok := constBool(call.Common().Args[1])
			r.Check(ok && !b, "C17.adjust-table", siteKey(AD, "Visual", i), p.IPos(call), "Visual(false)", "an adjustment case does not call Visual(false)")
		}
	} else {
		r.Unk("C17.adjust-table", fnAdjust, "-", "anchor not found")
	}
	checkMatchersPaired(c, "C17.matchers-paired")
	unitRule(c, "C17.units", []string{"(*core.Line).Cut", "(*core.Line).CutRune", "(*core.Line).Insert", "(*core.Line).InsertBetween", "(*core.Selection).Cut", "(*core.Selection).Pop", "(*core.Selection).Text"}, 1)
	checkRangeKeepsEmpty(c, "C17.empty-range-kept")
	checkDoubledOperatorCancels(c, "C17.doubled-operator-cancels")
	checkSuggestionNotUnderOperator(c, "C17.suggestion-not-as-motion")
	checkHistoryNotUnderOperator(c, "C17.history-not-as-motion")
	checkC17PendingGuard(c)
	checkRound4Misc(c, "C17")
}
