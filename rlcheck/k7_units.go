package main

import (
	"fmt"
	"go/token"
	"go/types"
	"sort"
	"strings"

	"golang.org/x/tools/go/ssa"
)

// K7 — unit analysis: BYTES / RUNES / COLS.
//
// unitOf evaluates, demand-driven with memoisation, the unit of an integer SSA
// value. Unknown is neutral in arithmetic; a definite clash yields Mixed. Only
// definite mismatches at sinks are reported (ignorance never alarms).

type Unit int

const (
	UUnknown Unit = iota
	UBytes
	URunes
	UCols
	UMixed
)

func (u Unit) String() string {
	return [...]string{"?", "BYTES", "RUNES", "COLS", "MIXED"}[u]
}

type unitEngine struct {
	p       *Prog
	memo    map[ssa.Value]Unit
	busy    map[ssa.Value]bool
	retMemo map[string]Unit // fn name + "#" + idx
	retBusy map[string]bool
	fldMemo map[string]Unit
	fldBusy map[string]bool
	why     map[ssa.Value]string // for Mixed values: explanation
}

func newUnitEngine(p *Prog) *unitEngine {
	return &unitEngine{p: p, memo: map[ssa.Value]Unit{}, busy: map[ssa.Value]bool{}, retMemo: map[string]Unit{}, retBusy: map[string]bool{},
		fldMemo: map[string]Unit{}, fldBusy: map[string]bool{}, why: map[ssa.Value]string{}}
}

func joinArith(a, b Unit) Unit {
	switch {
	case a == UUnknown:
		return b
	case b == UUnknown:
		return a
	case a == b:
		return a
	}
	return UMixed
}

func isRuneSeq(t types.Type) bool {
	if p, ok := t.Underlying().(*types.Pointer); ok {
		if a, ok := p.Elem().Underlying().(*types.Array); ok {
			t = types.NewSlice(a.Elem())
		}
	}
	s, ok := t.Underlying().(*types.Slice)
	if !ok {
		return false
	}
	b, ok := s.Elem().Underlying().(*types.Basic)
	return ok && b.Kind() == types.Int32
}

func isByteSeq(t types.Type) bool {
	if b, ok := t.Underlying().(*types.Basic); ok && b.Info()&types.IsString != 0 {
		return true
	}
	s, ok := t.Underlying().(*types.Slice)
	if !ok {
		return false
	}
	b, ok := s.Elem().Underlying().(*types.Basic)
	return ok && b.Kind() == types.Uint8
}

// library functions with known result units
var resultUnits = map[string]Unit{
	"(*core.Line).Len":                          URunes,
	"(*core.Cursor).Pos":                        URunes,
	"(*core.Cursor).Mark":                       URunes,
	"(*core.Selection).Cursor":                  URunes,
	"unicode/utf8.RuneCountInString":            URunes,
	"unicode/utf8.RuneCount":                    URunes,
	"strings.Index":                             UBytes,
	"strings.IndexRune":                         UBytes,
	"strings.IndexByte":                         UBytes,
	"strings.IndexAny":                          UBytes,
	"strings.LastIndex":                         UBytes,
	"strings.LastIndexAny":                      UBytes,
	"strings.LastIndexByte":                     UBytes,
	"bytes.Index":                               UBytes,
	"github.com/rivo/uniseg.StringWidth":        UCols,
	"strutil.RealLength":                        UCols,
	"(*github.com/rivo/uniseg.Graphemes).Width": UCols,
	"(*uniseg.Graphemes).Width":                 UCols,
	"term.GetWidth":                             UCols,
	"golang.org/x/text/width.LookupRune#unused": UUnknown,
}

// multi-result functions: unit per result index
var resultUnitsIdx = map[string]map[int]Unit{
	"strutil.LineSpan":                    {0: UCols}, // x: the column the line ends on (its body is checked like any other in scope)
	"(*core.Selection).Pos":               {0: URunes, 1: URunes},
	"unicode/utf8.DecodeRuneInString":     {1: UBytes},
	"unicode/utf8.DecodeRune":             {1: UBytes},
	"unicode/utf8.DecodeLastRuneInString": {1: UBytes},
}

func (e *unitEngine) unitOf(v ssa.Value) Unit {
	if v == nil {
		return UUnknown
	}
	if u, ok := e.memo[v]; ok {
		return u
	}
	if e.busy[v] {
		return UUnknown
	}
	e.busy[v] = true
	u := e.compute(v)
	delete(e.busy, v)
	e.memo[v] = u
	return u
}

func (e *unitEngine) compute(v ssa.Value) Unit {
	if b, ok := v.Type().Underlying().(*types.Basic); !ok || b.Info()&types.IsInteger == 0 {
		if _, isT := v.Type().(*types.Tuple); !isT {
			return UUnknown
		}
	}
	switch x := v.(type) {
	case *ssa.Const:
		return UUnknown
	case *ssa.Call:
		return e.callUnit(x, -1)
	case *ssa.Extract:
		if cl, ok := x.Tuple.(*ssa.Call); ok {
			return e.callUnit(cl, x.Index)
		}
		return UUnknown
	case *ssa.BinOp:
		switch x.Op {
		case token.ADD, token.SUB:
			a, b := e.unitOf(x.X), e.unitOf(x.Y)
			u := joinArith(a, b)
			if u == UMixed && a != UMixed && b != UMixed {
				e.why[v] = fmt.Sprintf("%s %s %s", a, x.Op, b)
			} else if u == UMixed {
				if w, ok := e.why[x.X]; ok {
					e.why[v] = w
				} else if w, ok := e.why[x.Y]; ok {
					e.why[v] = w
				}
			}
			return u
		case token.MUL:
			if _, ok := constInt(x.X); ok {
				return e.unitOf(x.Y)
			}
			if _, ok := constInt(x.Y); ok {
				return e.unitOf(x.X)
			}
			return UUnknown
		case token.QUO, token.REM:
			return UUnknown
		}
		return UUnknown
	case *ssa.UnOp:
		switch x.Op {
		case token.SUB:
			return e.unitOf(x.X)
		case token.MUL:
			// load: local alloc → stores; field → field-based summary
			if a, ok := x.X.(*ssa.Alloc); ok {
				u := UUnknown
				for _, ref := range referrersOf(a) {
					if st, ok := ref.(*ssa.Store); ok && st.Addr == ssa.Value(a) {
						u = joinPhi(u, e.unitOf(st.Val))
					}
				}
				return u
			}
			if tn, fld, ok := fieldOf(x.X); ok {
				return e.fieldUnit(tn, fld)
			}
			if ia, ok := x.X.(*ssa.IndexAddr); ok {
				return e.elemUnit(ia.X, 0)
			}
		}
		return UUnknown
	case *ssa.Phi:
		u := UUnknown
		for _, ed := range x.Edges {
			u = joinPhi(u, e.unitOf(ed))
		}
		return u
	case *ssa.Index:
		return e.elemUnit(x.X, 0)
	case *ssa.Convert:
		return e.unitOf(x.X)
	case *ssa.ChangeType:
		return e.unitOf(x.X)
	case *ssa.Parameter:
		return e.paramUnit(x)
	case *ssa.FreeVar:
		return UUnknown
	}
	return UUnknown
}

// joinPhi: merging alternatives (phi, stores): differing known units are MIXED too,
// but flagged separately by callers through why.
func joinPhi(a, b Unit) Unit {
	return joinArith(a, b)
}

func (e *unitEngine) callUnit(c *ssa.Call, idx int) Unit {
	if b, ok := c.Call.Value.(*ssa.Builtin); ok {
		if b.Name() == "len" && len(c.Call.Args) == 1 {
			t := c.Call.Args[0].Type()
			switch {
			case isRuneSeq(t):
				return URunes
			case isByteSeq(t):
				return UBytes
			}
		}
		return UUnknown
	}
	n := calleeName(c)
	if idx < 0 {
		if u, ok := resultUnits[n]; ok {
			return u
		}
	} else if m, ok := resultUnitsIdx[n]; ok {
		return m[idx]
	}
	callee := staticCallee(c)
	if callee == nil || !inRepo(callee) || len(callee.Blocks) == 0 {
		// dynamic call through a core.Tokenizer value: (split []string, index int, newPos int)
		if idx == 2 && strings.HasSuffix(typeStr(c.Call.Value.Type()), "core.Tokenizer") {
			return UUnknown
		}
		return UUnknown
	}
	return e.returnUnit(callee, idx)
}

func (e *unitEngine) returnUnit(f *ssa.Function, idx int) Unit {
	key := fmt.Sprintf("%s#%d", fnName(f), idx)
	if u, ok := e.retMemo[key]; ok {
		return u
	}
	if e.retBusy[key] {
		return UUnknown
	}
	e.retBusy[key] = true
	u := UUnknown
	eachInstrRaw(f, func(in ssa.Instruction) {
		ret, ok := in.(*ssa.Return)
		if !ok || in.Block() == f.Recover {
			return
		}
		// results handed back together with a non-nil error are not used as positions
		for _, res := range ret.Results {
			if types.Identical(res.Type(), types.Universe.Lookup("error").Type()) && !isNilConst(res) {
				if _, isPhi := res.(*ssa.Phi); !isPhi {
					return
				}
			}
		}
		i := idx
		if i < 0 {
			i = 0
		}
		if i < len(ret.Results) {
			u = joinPhi(u, e.unitOf(ret.Results[i]))
		}
	})
	delete(e.retBusy, key)
	e.retMemo[key] = u
	return u
}

// fields whose unit is part of their meaning (declared, not inferred); stores into them are sinks.
var declaredFieldUnits = map[string]Unit{
	"core.Cursor.pos":                      URunes,
	"core.Cursor.mark":                     URunes,
	"core.Selection.bpos":                  URunes,
	"core.Selection.epos":                  URunes,
	"history.undoItem.pos":                 URunes,
	"completion.SuffixMatcher.pos":         URunes,
	"history.Sources.cpos":                 URunes,
	"completion.Engine.isearchStartCursor": URunes,
}

func (e *unitEngine) fieldUnit(tn, fld string) Unit {
	if u, ok := declaredFieldUnits[tn+"."+fld]; ok {
		return u
	}
	key := tn + "." + fld
	if u, ok := e.fldMemo[key]; ok {
		return u
	}
	if e.fldBusy[key] {
		return UUnknown
	}
	e.fldBusy[key] = true
	u := UUnknown
	for _, f := range e.p.AllFuncs {
		eachInstrRaw(f, func(in ssa.Instruction) {
			if st, ok := isFieldStore(in, tn, fld); ok {
				u = joinPhi(u, e.unitOf(st.Val))
			}
		})
	}
	delete(e.fldBusy, key)
	e.fldMemo[key] = u
	return u
}

func (e *unitEngine) paramUnit(prm *ssa.Parameter) Unit {
	fn := prm.Parent()
	pi := -1
	for i, q := range fn.Params {
		if q == prm {
			pi = i
		}
	}
	if pi < 0 {
		return UUnknown
	}
	u := UUnknown
	n := 0
	for _, ed := range e.p.callersOf(fn) {
		if ed.Site == nil {
			continue
		}
		cc := ed.Site.Common()
		if cc.IsInvoke() || staticCallee(ed.Site) != fn {
			continue
		}
		if pi < len(cc.Args) {
			n++
			u = joinPhi(u, e.unitOf(cc.Args[pi]))
		}
	}
	if u == UMixed {
		return UUnknown // call sites disagree: the parameter has no single unit; the sites themselves are judged at their own sinks
	}
	return u
}

// ---------- sinks ----------

type UnitFinding struct {
	Fn   *ssa.Function
	In   ssa.Instruction
	Sink string // description of the sink
	Want Unit
	Got  Unit
	Why  string
}

// position parameters that must be RUNES: callee name -> parameter indexes (including receiver)
var runeSinks = map[string][]int{
	"(*core.Cursor).Set":           {1},
	"(*core.Cursor).Move":          {1},
	"(*core.Line).Insert":          {1},
	"(*core.Line).InsertBetween":   {1, 2},
	"(*core.Line).Cut":             {1, 2},
	"(*core.Line).CutRune":         {1},
	"(*core.Line).Find":            {2},
	"(*core.Line).SelectWord":      {1},
	"(*core.Line).SelectBlankWord": {1},
	"(*core.Selection).Mark":       {1},
	"(*core.Selection).MarkRange":  {1, 2},
}

var colSinks = map[string][]int{
	"term.MoveCursorUp":        {0},
	"term.MoveCursorDown":      {0},
	"term.MoveCursorForwards":  {0},
	"term.MoveCursorBackwards": {0},
}

func (e *unitEngine) findingsIn(f *ssa.Function) []UnitFinding {
	var out []UnitFinding
	chk := func(in ssa.Instruction, v ssa.Value, want Unit, sink string) {
		if v == nil {
			return
		}
		got := e.unitOf(v)
		if got == UUnknown || got == want {
			return
		}
		why := ""
		if got == UMixed {
			why = e.why[v]
		}
		out = append(out, UnitFinding{f, in, sink, want, got, why})
	}
	eachInstrRaw(f, func(in ssa.Instruction) {
		switch x := in.(type) {
		case *ssa.Store:
			if tn, fld, ok := fieldOf(x.Addr); ok {
				if u, ok := declaredFieldUnits[tn+"."+fld]; ok {
					chk(in, x.Val, u, "store to "+tn+"."+fld)
				}
			}
		case *ssa.IndexAddr:
			if isRuneSeq(x.X.Type()) {
				chk(in, x.Index, URunes, "index of a []rune")
			}
		case *ssa.Index:
			if isByteSeq(x.X.Type()) {
				chk(in, x.Index, UBytes, "index of a string")
			}
		case *ssa.Slice:
			t := x.X.Type()
			switch {
			case isRuneSeq(t):
				chk(in, x.Low, URunes, "slice bound of a []rune")
				chk(in, x.High, URunes, "slice bound of a []rune")
			case isByteSeq(t):
				chk(in, x.Low, UBytes, "slice bound of a string")
				chk(in, x.High, UBytes, "slice bound of a string")
			}
		case ssa.CallInstruction:
			n := calleeName(x)
			args := x.Common().Args
			for _, i := range runeSinks[n] {
				if i < len(args) {
					chk(in, args[i], URunes, "position argument of "+n)
				}
			}
			for _, i := range colSinks[n] {
				if i < len(args) {
					chk(in, args[i], UCols, "column argument of "+n)
				}
			}
		case *ssa.BinOp:
			switch x.Op {
			case token.ADD, token.SUB:
				// adding or subtracting two quantities of different known units is a unit error by itself
				a, b := e.unitOf(x.X), e.unitOf(x.Y)
				if a != UUnknown && b != UUnknown && a != b && a != UMixed && b != UMixed {
					out = append(out, UnitFinding{f, in, "arithmetic", a, b, fmt.Sprintf("%s %s %s", a, x.Op, b)})
				}
			case token.LSS, token.LEQ, token.GTR, token.GEQ, token.EQL, token.NEQ:
				a, b := e.unitOf(x.X), e.unitOf(x.Y)
				if a != UUnknown && b != UUnknown && a != b && a != UMixed && b != UMixed {
					out = append(out, UnitFinding{f, in, "comparison", a, b, fmt.Sprintf("%s compared with %s", a, b)})
				}
			}
		}
	})
	return out
}

// allUnitFindings scans the given functions.
func (e *unitEngine) allFindings(fns []*ssa.Function) []UnitFinding {
	var out []UnitFinding
	for _, f := range fns {
		if len(f.Blocks) == 0 {
			continue
		}
		out = append(out, e.findingsIn(f)...)
	}
	sort.SliceStable(out, func(i, j int) bool {
		if fnName(out[i].Fn) != fnName(out[j].Fn) {
			return fnName(out[i].Fn) < fnName(out[j].Fn)
		}
		return instrPos(out[i].In) < instrPos(out[j].In)
	})
	return out
}

// unitFindingKey: stable key = function + sink + ordinal among same-sink findings of the function.
func unitFindingKeys(fs []UnitFinding) []string {
	cnt := map[string]int{}
	keys := make([]string, len(fs))
	for i, f := range fs {
		base := fmt.Sprintf("%s:%s:%s→%s", fnName(f.Fn), f.Sink, f.Got, f.Want)
		keys[i] = fmt.Sprintf("%s#%d", base, cnt[base])
		cnt[base]++
	}
	return keys
}

// elemUnit: unit of the integer elements of a (nested) slice value — byte
// offsets for the results of the regexp index functions.
func (e *unitEngine) elemUnit(v ssa.Value, depth int) Unit {
	if depth > 6 || v == nil {
		return UUnknown
	}
	switch x := v.(type) {
	case *ssa.Call:
		n := calleeName(x)
		switch n {
		case "(*regexp.Regexp).FindAllStringIndex", "(*regexp.Regexp).FindStringIndex", "(*regexp.Regexp).FindAllIndex", "(*regexp.Regexp).FindIndex",
			"(*regexp.Regexp).FindStringSubmatchIndex", "(*regexp.Regexp).FindAllStringSubmatchIndex", "(*regexp.Regexp).FindSubmatchIndex":
			return UBytes
		}
		if callee := staticCallee(x); callee != nil && inRepo(callee) && len(callee.Blocks) > 0 {
			u := UUnknown
			eachInstrRaw(callee, func(in ssa.Instruction) {
				if ret, ok := in.(*ssa.Return); ok && len(ret.Results) > 0 && in.Block() != callee.Recover {
					u = joinPhi(u, e.elemUnit(ret.Results[0], depth+1))
				}
			})
			return u
		}
	case *ssa.Extract:
		if cl, ok := x.Tuple.(*ssa.Call); ok {
			return e.elemUnit(cl, depth+1)
		}
		if nx, ok := x.Tuple.(*ssa.Next); ok {
			if rg, ok := nx.Iter.(*ssa.Range); ok {
				return e.elemUnit(rg.X, depth+1)
			}
		}
	case *ssa.UnOp:
		if x.Op == token.MUL {
			if ia, ok := x.X.(*ssa.IndexAddr); ok {
				return e.elemUnit(ia.X, depth+1)
			}
			if a, ok := x.X.(*ssa.Alloc); ok {
				u := UUnknown
				for _, ref := range referrersOf(a) {
					if st, ok := ref.(*ssa.Store); ok && st.Addr == ssa.Value(a) {
						u = joinPhi(u, e.elemUnit(st.Val, depth+1))
					}
				}
				return u
			}
		}
	case *ssa.Index:
		return e.elemUnit(x.X, depth+1)
	case *ssa.Phi:
		u := UUnknown
		for _, ed := range x.Edges {
			u = joinPhi(u, e.elemUnit(ed, depth+1))
		}
		return u
	case *ssa.Slice:
		return e.elemUnit(x.X, depth+1)
	}
	return UUnknown
}
