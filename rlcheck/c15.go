package main

// C15 — menu completion cycles through every candidate exactly once.
//
// The cycle itself (moveSelector / findFirstCandidate arithmetic over a grid whose
// shape comes from run-time widths) is NOT decided: see DESIGN.md §5 C15.  What is
// decided here are the structural clauses the cycle rests on, each a necessary
// condition of the property (breaking one loses, repeats or strands a candidate):
//
//   - the grid is a partition of the candidate list: every place where the list of
//     candidates is cut into rows cuts it into adjacent tiles (algebra on the slice
//     bounds), the row count covers the list, every alias goes to exactly one row;
//   - no candidate is dropped between the completer's values and the groups;
//   - the selector's bounds (maxY / maxX) are taken from the rows after the last
//     write of the rows;
//   - the commands step by the constant (+1,0) / (-1,0) through the one selector;
//   - leaving a group forward enters the next group at its first cell, backward the
//     previous group at its last cell, and the group walk wraps around at both ends.

import (
	"fmt"
	"go/token"
	"go/types"
	"sort"
	"strings"

	"golang.org/x/tools/go/ssa"
)

func init() { propFuncs["C15"] = checkC15 }

const (
	tGroup         = "completion.group"
	fnCreateRow    = "completion.createRow"
	fnCreateGrid   = "completion.createGrid"
	fnWrapExcess   = "(*completion.group).wrapExcessAliases"
	fnDescribed    = "(*completion.group).createDescribedRows"
	fnInitGrid     = "(*completion.group).initCompletionsGrid"
	fnInitAliased  = "(*completion.group).initCompletionAliased"
	fnMaxWidths    = "(*completion.group).calculateMaxColumnWidths"
	fnSelect       = "(*completion.Engine).Select"
	fnMoveSelector = "(*completion.group).moveSelector"
	fnNextGroup    = "(*completion.Engine).cycleNextGroup"
	fnPrevGroup    = "(*completion.Engine).cyclePreviousGroup"
	fnFirstCell    = "(*completion.group).firstCell"
	fnLastCell     = "(*completion.group).lastCell"
	fnGroupNonDesc = "(*completion.Engine).groupNonDescribed"
	fnNewGroup     = "(*completion.Engine).newCompletionGroup"
)

// ---------- a small polynomial normaliser over SSA integer values ----------

// poly maps a monomial (sorted leaf names joined by '*', "" for the constant term) to its coefficient.
type poly map[string]int64

func (a poly) clean() poly {
	for k, v := range a {
		if v == 0 {
			delete(a, k)
		}
	}
	return a
}

func polyConst(c int64) poly { return poly{"": c}.clean() }

func polyAdd(a, b poly, sign int64) poly {
	out := poly{}
	for k, v := range a {
		out[k] += v
	}
	for k, v := range b {
		out[k] += sign * v
	}
	return out.clean()
}

func polyMul(a, b poly) poly {
	out := poly{}
	for ka, va := range a {
		for kb, vb := range b {
			var parts []string
			if ka != "" {
				parts = append(parts, strings.Split(ka, "*")...)
			}
			if kb != "" {
				parts = append(parts, strings.Split(kb, "*")...)
			}
			sort.Strings(parts)
			out[strings.Join(parts, "*")] += va * vb
		}
	}
	return out.clean()
}

func polyEq(a, b poly) bool { return len(polyAdd(a, b, -1)) == 0 }

func (a poly) String() string {
	var ks []string
	for k := range a {
		ks = append(ks, k)
	}
	sort.Strings(ks)
	var sb []string
	for _, k := range ks {
		if k == "" {
			sb = append(sb, fmt.Sprint(a[k]))
		} else {
			sb = append(sb, fmt.Sprintf("%d·%s", a[k], k))
		}
	}
	if len(sb) == 0 {
		return "0"
	}
	return strings.Join(sb, " + ")
}

// polyOf normalises v; subst replaces leaves (by identity) with polynomials.
func polyOf(v ssa.Value, subst map[ssa.Value]poly) poly {
	if s, ok := subst[v]; ok {
		return s
	}
	switch x := v.(type) {
	case *ssa.Const:
		if c, ok := constInt(x); ok {
			return polyConst(c)
		}
	case *ssa.BinOp:
		switch x.Op {
		case token.ADD:
			return polyAdd(polyOf(x.X, subst), polyOf(x.Y, subst), 1)
		case token.SUB:
			return polyAdd(polyOf(x.X, subst), polyOf(x.Y, subst), -1)
		case token.MUL:
			return polyMul(polyOf(x.X, subst), polyOf(x.Y, subst))
		}
	case *ssa.Convert:
		if isIntType(x.Type()) && isIntType(x.X.Type()) {
			return polyOf(x.X, subst)
		}
	case *ssa.ChangeType:
		return polyOf(x.X, subst)
	}
	return poly{leafName(v): 1}
}

func leafName(v ssa.Value) string {
	// len(x) of the same sequence is one leaf whatever the instruction
	if c, ok := v.(*ssa.Call); ok {
		if b, ok := c.Call.Value.(*ssa.Builtin); ok && b.Name() == "len" && len(c.Call.Args) == 1 {
			return "len(" + stripChangeType(c.Call.Args[0]).Name() + ")"
		}
	}
	return v.Name()
}

func stripChangeType(v ssa.Value) ssa.Value {
	for {
		if ct, ok := v.(*ssa.ChangeType); ok {
			v = ct.X
			continue
		}
		return v
	}
}

func isCandidateSeq(t types.Type) bool {
	s, ok := t.Underlying().(*types.Slice)
	if !ok {
		return false
	}
	return strings.HasSuffix(typeStr(s.Elem()), "completion.Candidate")
}

func isLenOfSeq(v, seq ssa.Value) bool {
	c, ok := v.(*ssa.Call)
	if !ok {
		return false
	}
	b, ok := c.Call.Value.(*ssa.Builtin)
	if !ok || b.Name() != "len" || len(c.Call.Args) != 1 {
		return false
	}
	return stripChangeType(c.Call.Args[0]) == stripChangeType(seq)
}

// clampedToLen: hi = (A > len(seq)) ? len(seq) : A, or min(A, len(seq)). Returns A.
func clampedToLen(hi, seq ssa.Value) (ssa.Value, bool) {
	if c, ok := hi.(*ssa.Call); ok {
		if b, ok := c.Call.Value.(*ssa.Builtin); ok && b.Name() == "min" && len(c.Call.Args) == 2 {
			if isLenOfSeq(c.Call.Args[1], seq) {
				return c.Call.Args[0], true
			}
			if isLenOfSeq(c.Call.Args[0], seq) {
				return c.Call.Args[1], true
			}
		}
		return nil, false
	}
	ph, ok := hi.(*ssa.Phi)
	if !ok || len(ph.Edges) != 2 {
		return nil, false
	}
	var a ssa.Value
	li := -1
	for i, e := range ph.Edges {
		if isLenOfSeq(e, seq) {
			li = i
		} else {
			a = e
		}
	}
	if li < 0 || a == nil {
		return nil, false
	}
	// the edge carrying len(seq) must be taken exactly when A exceeds (or reaches) len(seq)
	pred := ph.Block().Preds[li]
	cond, val, ok := edgeCondition(pred, ph.Block())
	if !ok {
		// the len edge comes from a then-block: look one block up
		if len(pred.Preds) == 1 {
			cond, val, ok = edgeCondition(pred.Preds[0], pred)
		}
		if !ok {
			return nil, false
		}
	}
	rel, ok := relOf(cond, val)
	if !ok {
		return nil, false
	}
	// accepted: A > len, A >= len (and the flipped spellings)
	if sameValue(rel.X, a) && isLenOfSeq(rel.Y, seq) && (rel.Op == token.GTR || rel.Op == token.GEQ) {
		return a, true
	}
	if sameValue(rel.Y, a) && isLenOfSeq(rel.X, seq) && (rel.Op == token.LSS || rel.Op == token.LEQ) {
		return a, true
	}
	return nil, false
}

// edgeCondition: the branch condition and its value on the CFG edge from -> to.
func edgeCondition(from, to *ssa.BasicBlock) (ssa.Value, bool, bool) {
	if len(from.Instrs) == 0 {
		return nil, false, false
	}
	iff, ok := from.Instrs[len(from.Instrs)-1].(*ssa.If)
	if !ok || len(from.Succs) != 2 || from.Succs[0] == from.Succs[1] {
		return nil, false, false
	}
	if from.Succs[0] == to {
		return iff.Cond, true, true
	}
	if from.Succs[1] == to {
		return iff.Cond, false, true
	}
	return nil, false, false
}

// countedFromZero: v is a loop variable starting at 0 (or -1 pre-incremented, the range form)
// stepping by one, bounded by `v < N`; returns N.
func countedFromZero(v ssa.Value) (ssa.Value, bool) {
	// range form: t8 = t7 + 1 with t7 = phi[-1, t8]
	if b, ok := v.(*ssa.BinOp); ok && b.Op == token.ADD {
		if c, ok := constInt(b.Y); ok && c == 1 {
			if ph, ok := b.X.(*ssa.Phi); ok && len(ph.Edges) >= 2 {
				init, okI := false, true
				for _, e := range ph.Edges {
					if c, ok := constInt(e); ok && c == -1 {
						init = true
					} else if e != v {
						okI = false
					}
				}
				if init && okI {
					return loopBound(v)
				}
			}
		}
		return nil, false
	}
	ph, ok := v.(*ssa.Phi)
	if !ok || len(ph.Edges) < 2 {
		return nil, false
	}
	init := false
	for _, e := range ph.Edges {
		if c, ok := constInt(e); ok && c == 0 {
			init = true
			continue
		}
		b, ok := e.(*ssa.BinOp)
		if !ok || b.Op != token.ADD || b.X != v {
			return nil, false
		}
		if c, ok := constInt(b.Y); !ok || c != 1 {
			return nil, false
		}
	}
	if !init {
		return nil, false
	}
	return loopBound(v)
}

func loopBound(v ssa.Value) (ssa.Value, bool) {
	for _, ref := range referrersOf(v) {
		b, ok := ref.(*ssa.BinOp)
		if !ok {
			continue
		}
		isCond := false
		for _, r2 := range referrersOf(b) {
			if _, ok := r2.(*ssa.If); ok {
				isCond = true
			}
		}
		if !isCond {
			continue
		}
		if b.Op == token.LSS && b.X == v {
			return b.Y, true
		}
		if b.Op == token.GTR && b.Y == v {
			return b.X, true
		}
	}
	return nil, false
}

// ceilDiv: n = ceil(len(seq)/w) in one of the accepted spellings; returns (seqLenLeaf, w).
func ceilDivOfLen(n ssa.Value) (seq ssa.Value, w ssa.Value, ok bool) {
	// int(math.Ceil(float64(len(seq)) / float64(w)))
	if cv, isC := n.(*ssa.Convert); isC {
		if call, isCall := cv.X.(*ssa.Call); isCall && calleeName(call) == "math.Ceil" && len(call.Call.Args) == 1 {
			if q, isQ := call.Call.Args[0].(*ssa.BinOp); isQ && q.Op == token.QUO {
				nx, ok1 := q.X.(*ssa.Convert)
				dx, ok2 := q.Y.(*ssa.Convert)
				if ok1 && ok2 {
					if lc, ok := nx.X.(*ssa.Call); ok {
						if b, ok := lc.Call.Value.(*ssa.Builtin); ok && b.Name() == "len" {
							return lc.Call.Args[0], dx.X, true
						}
					}
				}
			}
		}
		return nil, nil, false
	}
	// (len(seq) + w - 1) / w
	if q, isQ := n.(*ssa.BinOp); isQ && q.Op == token.QUO {
		num := polyOf(q.X, nil)
		wl := leafName(q.Y)
		var lenLeaf string
		for k := range num {
			if strings.HasPrefix(k, "len(") {
				lenLeaf = k
			}
		}
		if lenLeaf != "" && polyEq(num, poly{lenLeaf: 1, wl: 1, "": -1}) {
			// recover the sequence value
			var sv ssa.Value
			var find func(v ssa.Value)
			find = func(v ssa.Value) {
				if c, ok := v.(*ssa.Call); ok {
					if b, ok := c.Call.Value.(*ssa.Builtin); ok && b.Name() == "len" {
						sv = c.Call.Args[0]
					}
				}
				if b, ok := v.(*ssa.BinOp); ok {
					find(b.X)
					find(b.Y)
				}
			}
			find(q.X)
			if sv != nil {
				return sv, q.Y, true
			}
		}
	}
	return nil, nil, false
}

// flowsToAppend: v is stored into a one-element varargs array that is appended to a slice;
// returns the append calls.
func flowsToAppend(v ssa.Value) []*ssa.Call {
	var out []*ssa.Call
	for _, ref := range referrersOf(v) {
		st, ok := ref.(*ssa.Store)
		if !ok || st.Val != v {
			continue
		}
		ia, ok := st.Addr.(*ssa.IndexAddr)
		if !ok {
			continue
		}
		for _, r2 := range referrersOf(ia.X) {
			sl, ok := r2.(*ssa.Slice)
			if !ok {
				continue
			}
			for _, r3 := range referrersOf(sl) {
				if c, ok := r3.(*ssa.Call); ok {
					if b, ok := c.Call.Value.(*ssa.Builtin); ok && b.Name() == "append" && len(c.Call.Args) == 2 && c.Call.Args[1] == sl {
						out = append(out, c)
					}
				}
			}
		}
	}
	return out
}

func checkC15(c *Ctx) {
	p, r := c.P, c.R
	r.Explanation = "Decided statically: the structural clauses the menu cycle rests on, each a necessary condition of 'every candidate exactly once'. (1) The grid is a partition of the candidate list: every instruction of package completion that cuts a sequence of candidates is either an indexed tile [lo(i):min(lo(i+1),len)] with lo(0)=0 filled for i = 0..N-1 in order with N = ceil(len/width) (polynomial identity on the SSA bounds), or a carve loop that emits row[:k], keeps row[k:] with the same k, and emits the remainder after the loop; aliases sharing a description go to exactly one row on every path of the grouping loop and every row is emitted once. (2) No candidate is dropped between the completer's values and the groups (each value reaches exactly one of the lists handed to newCompletionGroup, the error pseudo-value excepted). (3) The selector bounds maxY/maxX are written from the rows/columns after the last write of the rows on every path of both grid constructors. (4) menu-complete, complete-word, accept-and-menu-complete step by the constants (+1,0) and menu-complete-backward by (-1,0) through Engine.Select, after generating when the menu is not active. (5) Engine.Select leaves a finished group forward to the next group's first cell and backward to the previous group's last cell; the group walk wraps at both ends. NOT decided: the visiting arithmetic itself (moveSelector / findFirstCandidate over run-time grid shapes, including aliased groups with ragged rows), i.e. that the walk inside one group visits each cell once — no structural argument in reach bounds it (DESIGN.md §5 C15)."
	r.Trusted = []string{"go/packages type checker", "go/ssa construction", "rule tables in rlcheck/c15.go"}
	r.Assumptions = []string{"integer arithmetic on row/column counts does not overflow"}

	anchors := []string{fnCreateGrid, fnWrapExcess, fnDescribed, fnInitGrid, fnInitAliased, fnMaxWidths, fnSelect, fnMoveSelector, fnNextGroup, fnPrevGroup, fnFirstCell, fnLastCell, fnGroupNonDesc, fnNewGroup,
		"(*readline.Shell).menuComplete", "(*readline.Shell).menuCompleteBackward"}
	r.Rule("C15.anchors", "K0", "anchored functions resolve", len(anchors)/2)
	missing := false
	for _, n := range anchors {
		f := p.Func(n)
		if f == nil {
			r.Unk("C15.anchors", n, "-", "anchor not found — rule table needs review")
			missing = true
			continue
		}
		r.OK("C15.anchors", n, p.Pos(f.Pos()), "")
		r.Fn(n)
	}
	if missing {
		return
	}
	c15Partition(c)
	c15Described(c)
	c15NoDrop(c)
	c15Bounds(c)
	c15Steps(c)
	c15GroupWalk(c)
}

// ---- (1) partition: tiles and carve loops

func c15Partition(c *Ctx) {
	p, r := c.P, c.R
	r.Rule("C15.grid-partition", "K9", "every cut of a candidate sequence into rows is an adjacent tiling of the whole sequence (indexed tile or carve loop)", 3)
	cp := p.Pkg("internal/completion")
	for _, f := range p.RepoFuncs {
		if f.Package() == nil || cp == nil || f.Package().Pkg != cp.Types {
			continue
		}
		n := 0
		carved := map[*ssa.Phi]bool{}
		for _, fn := range withAnons(f) {
			eachInstr(fn, func(in ssa.Instruction) {
				sl, ok := in.(*ssa.Slice)
				if !ok || !isCandidateSeq(sl.X.Type()) {
					return
				}
				if sl.Low == nil && sl.High == nil {
					return
				}
				if sl.Low == nil {
					if c0, ok := constInt(sl.High); ok && c0 == 0 {
						return // s[:0] : emptied buffer reuse
					}
				}
				key := siteKey(f, "cut", n)
				n++
				r.CallSites++
				// carve loop?
				if ph, ok := sl.X.(*ssa.Phi); ok {
					if carved[ph] {
						r.OK("C15.grid-partition", key, p.IPos(sl), "second half of the carve pair judged with the first")
						return
					}
					carved[ph] = true
					ok, why := carveLoop(ph)
					r.Check(ok, "C15.grid-partition", key, p.IPos(sl), "carve loop: "+why, "the candidate row is cut by a loop that is not a carve (emit row[:k], keep row[k:] with the same k, emit the remainder): "+why)
					return
				}
				ok2, why := indexedTile(p, fn, sl)
				r.Check(ok2, "C15.grid-partition", key, p.IPos(sl), "indexed tile: "+why, "a candidate sequence is cut by bounds that do not tile it: "+why)
			})
		}
	}
}

// carveLoop: ph = phi[init, slice ph[k:]]; the other cuts of ph are slice ph[:k] with the
// same k, appended to an accumulator; ph itself is appended after the loop.
func carveLoop(ph *ssa.Phi) (bool, string) {
	var rest, head *ssa.Slice
	for _, ref := range referrersOf(ph) {
		sl, ok := ref.(*ssa.Slice)
		if !ok || sl.X != ph {
			continue
		}
		switch {
		case sl.Low != nil && sl.High == nil:
			if rest != nil {
				return false, "two remainders are kept"
			}
			rest = sl
		case sl.Low == nil && sl.High != nil:
			if head != nil {
				return false, "two heads are emitted"
			}
			head = sl
		default:
			return false, "a cut with both bounds inside a carve loop"
		}
	}
	if rest == nil || head == nil {
		return false, "no head/remainder pair on the row variable"
	}
	if !sameValue(rest.Low, head.High) {
		return false, fmt.Sprintf("the emitted head ends at %s but the remainder starts at %s", head.High.Name(), rest.Low.Name())
	}
	// the remainder is the back-edge value of the phi
	back := false
	for _, e := range ph.Edges {
		if e == rest {
			back = true
		}
	}
	if !back {
		return false, "the remainder does not become the next row"
	}
	if rest.Block() != head.Block() {
		return false, "head and remainder are not cut in the same iteration step"
	}
	ha := flowsToAppend(head)
	if len(ha) != 1 {
		return false, fmt.Sprintf("the head is appended %d times", len(ha))
	}
	// the accumulator of the head append must be carried around the loop
	pa := flowsToAppend(ph)
	if len(pa) != 1 {
		return false, fmt.Sprintf("the remainder is appended %d times after the loop", len(pa))
	}
	// the final append executes after the loop: its block is not in the carve loop but is reached from the header
	fn := ph.Parent()
	for _, l := range findLoops(fn) {
		if l.Head == ph.Block() {
			if l.Blocks[pa[0].Block()] {
				return false, "the remainder is appended inside the loop"
			}
			if !l.Blocks[ha[0].Block()] {
				return false, "the head is appended outside the loop"
			}
			// every iteration emits the head
			if !loopEveryIterationPasses(l, func(in ssa.Instruction) bool { return in == ssa.Instruction(ha[0]) }) {
				return false, "an iteration cuts the row without emitting the head"
			}
			// every exit of the loop reaches the final append before leaving the function / the next outer iteration
			if w := pathAvoiding(fn, lastInstr(l.Head), func(in ssa.Instruction) bool {
				return (isReturn(in) || (in.Block() != l.Head && isPhiOfOuterLoop(in, l))) && !l.Blocks[in.Block()]
			}, func(in ssa.Instruction) bool {
				return in == ssa.Instruction(pa[0]) || l.Blocks[in.Block()] && in.Block() != l.Head
			}); w != nil {
				return false, "a path leaves the carve loop without emitting the remainder"
			}
			// both appends extend the same accumulator: head's accumulator is a phi at the loop head fed by the head append; the final append takes that phi
			acc, ok := ha[0].Call.Args[0].(*ssa.Phi)
			if !ok || acc.Block() != l.Head {
				return false, "the head is not appended to the accumulator carried by the loop"
			}
			if pa[0].Call.Args[0] != ssa.Value(acc) {
				return false, "the remainder is not appended to the accumulator of the heads"
			}
			fed := false
			for _, e := range acc.Edges {
				if e == ssa.Value(ha[0]) {
					fed = true
				}
			}
			if !fed {
				return false, "the appended head is dropped (accumulator not updated)"
			}
			return true, fmt.Sprintf("row[:%s] emitted, row[%s:] kept, remainder emitted after the loop", head.High.Name(), rest.Low.Name())
		}
	}
	return false, "the row variable is not a loop variable"
}

func lastInstr(b *ssa.BasicBlock) ssa.Instruction { return b.Instrs[len(b.Instrs)-1] }

func isPhiOfOuterLoop(in ssa.Instruction, inner *Loop) bool {
	ph, ok := in.(*ssa.Phi)
	if !ok {
		return false
	}
	return !inner.Blocks[ph.Block()]
}

// indexedTile: sl = seq[lo:hi], hi = min(A, len(seq)), A == lo[i := i+1], lo[i := 0] == 0,
// i counted 0..N-1 (possibly through the callers), N == ceil(len(seq)/width).
func indexedTile(p *Prog, fn *ssa.Function, sl *ssa.Slice) (bool, string) {
	if sl.Low == nil || sl.High == nil {
		return false, "one-sided cut outside a carve loop"
	}
	a, ok := clampedToLen(sl.High, sl.X)
	if !ok {
		return false, "the upper bound is not clamped to the length of the sequence (the last row must end at the last candidate)"
	}
	lo := polyOf(sl.Low, nil)
	// the index variable: an int leaf i of lo such that lo[i:=i+1] == A and lo[i:=0] == 0
	var cands []ssa.Value
	var collect func(v ssa.Value)
	seen := map[ssa.Value]bool{}
	collect = func(v ssa.Value) {
		if seen[v] {
			return
		}
		seen[v] = true
		switch x := v.(type) {
		case *ssa.BinOp:
			if x.Op == token.ADD || x.Op == token.SUB || x.Op == token.MUL {
				collect(x.X)
				collect(x.Y)
				return
			}
		case *ssa.Const:
			return
		}
		cands = append(cands, v)
	}
	collect(sl.Low)
	ap := polyOf(a, nil)
	for _, i := range cands {
		next := polyOf(sl.Low, map[ssa.Value]poly{i: polyAdd(poly{leafName(i): 1}, polyConst(1), 1)})
		zero := polyOf(sl.Low, map[ssa.Value]poly{i: polyConst(0)})
		if !polyEq(next, ap) || len(zero) != 0 {
			continue
		}
		width := polyAdd(ap, lo, -1)
		if len(width) != 1 {
			return false, fmt.Sprintf("tile width %s is not a single quantity", width)
		}
		var wname string
		for k, v := range width {
			if v != 1 {
				return false, fmt.Sprintf("tile width %s", width)
			}
			wname = k
		}
		var wv ssa.Value
		for _, cv := range cands {
			if leafName(cv) == wname {
				wv = cv
			}
		}
		if wv == nil {
			return false, "tile width is not a value of the function"
		}
		ok, why := tileIndexCovers(p, fn, i, wv, sl.X, 0)
		if !ok {
			return false, why
		}
		return true, fmt.Sprintf("lo=%s hi=min(%s,len) width=%s; %s", lo, ap, wname, why)
	}
	return false, fmt.Sprintf("no index variable i with lo(0)=0 and hi = lo(i+1): lo=%s hi=min(%s, len)", lo, ap)
}

// tileIndexCovers: i runs 0..N-1 in order and N = ceil(len(seq)/w), following parameters to the callers.
func tileIndexCovers(p *Prog, fn *ssa.Function, i, w, seq ssa.Value, depth int) (bool, string) {
	if depth > 3 {
		return false, "index variable not resolved within 3 call levels"
	}
	ip, iIsParam := i.(*ssa.Parameter)
	if iIsParam {
		// every caller must pass a covering index; w and seq are mapped to the caller's arguments
		edges := p.callersOf(fn)
		if len(edges) == 0 {
			return false, "the tile function has no caller"
		}
		var notes []string
		for _, e := range edges {
			site := e.Site
			if site == nil || site.Common().IsInvoke() || staticCallee(site) != fn {
				return false, "the tile function is called dynamically"
			}
			args := site.Common().Args
			mapArg := func(v ssa.Value) ssa.Value {
				v = stripChangeType(v)
				if pp, ok := v.(*ssa.Parameter); ok {
					for k, fp := range fn.Params {
						if fp == pp && k < len(args) {
							return args[k]
						}
					}
				}
				return nil
			}
			ci, cw, cs := mapArg(ip), mapArg(w), mapArg(seq)
			if ci == nil || cw == nil || cs == nil {
				return false, "index, width or sequence of the tile is not a parameter"
			}
			// the row produced must be placed at position i of the grid (or appended in order)
			if !placedInOrder(site, ci) {
				return false, fmt.Sprintf("the row built at %s is not stored at the grid position of its index", p.IPos(site))
			}
			ok, why := tileIndexCovers(p, site.Parent(), ci, cw, cs, depth+1)
			if !ok {
				return false, why
			}
			notes = append(notes, why)
		}
		return true, strings.Join(notes, "; ")
	}
	n, ok := countedFromZero(i)
	if !ok {
		return false, fmt.Sprintf("index %s is not counted 0,1,2,… up to a bound", i.Name())
	}
	return rowCountCovers(p, fn, n, w, seq, depth)
}

// placedInOrder: the call's result is stored at grid[i] or appended.
func placedInOrder(site ssa.CallInstruction, i ssa.Value) bool {
	v := site.Value()
	if v == nil {
		return false
	}
	for _, ref := range referrersOf(v) {
		if st, ok := ref.(*ssa.Store); ok && st.Val == ssa.Value(v) {
			if ia, ok := st.Addr.(*ssa.IndexAddr); ok && ia.Index == i {
				return true
			}
		}
	}
	return len(flowsToAppend(v)) == 1
}

// rowCountCovers: n (the loop bound) is ceil(len(seq)/w), possibly clamped below at 0 and passed through parameters.
func rowCountCovers(p *Prog, fn *ssa.Function, n, w, seq ssa.Value, depth int) (bool, string) {
	if depth > 3 {
		return false, "row count not resolved within 3 call levels"
	}
	// n = max(n', 0) spelled as a phi
	if ph, ok := n.(*ssa.Phi); ok && len(ph.Edges) == 2 {
		var other ssa.Value
		zero := false
		for _, e := range ph.Edges {
			if c0, ok := constInt(e); ok && c0 == 0 {
				zero = true
			} else {
				other = e
			}
		}
		if zero && other != nil {
			n = other
		}
	}
	if np, ok := stripChangeType(n).(*ssa.Parameter); ok {
		edges := p.callersOf(fn)
		if len(edges) == 0 {
			return false, "the grid function has no caller"
		}
		var notes []string
		for _, e := range edges {
			site := e.Site
			if site == nil || staticCallee(site) != fn {
				return false, "the grid function is called dynamically"
			}
			args := site.Common().Args
			mapArg := func(v ssa.Value) ssa.Value {
				v = stripChangeType(v)
				if pp, ok := v.(*ssa.Parameter); ok {
					for k, fp := range fn.Params {
						if fp == pp && k < len(args) {
							return args[k]
						}
					}
				}
				return nil
			}
			cn, cw, cs := mapArg(np), mapArg(w), mapArg(seq)
			if cn == nil || cw == nil || cs == nil {
				return false, "row count, width or sequence is not a parameter of the grid function"
			}
			ok, why := rowCountCovers(p, site.Parent(), cn, cw, cs, depth+1)
			if !ok {
				return false, why
			}
			notes = append(notes, why)
		}
		return true, strings.Join(notes, "; ")
	}
	s2, w2, ok := ceilDivOfLen(n)
	if !ok {
		return false, fmt.Sprintf("in %s the row count %s is not ceil(len(values)/columns)", fnName(fn), n.Name())
	}
	if stripChangeType(s2) != stripChangeType(seq) {
		return false, fmt.Sprintf("in %s the row count is computed from another sequence than the one that is cut", fnName(fn))
	}
	if !sameValue(w2, w) {
		return false, fmt.Sprintf("in %s the row count divides by %s but rows are %s wide", fnName(fn), w2.Name(), w.Name())
	}
	return true, fmt.Sprintf("%s: rows = ceil(len/%s), filled 0..rows-1", fnName(fn), w.Name())
}

// ---- aliases: every value goes to exactly one described row, every row is emitted

func c15Described(c *Ctx) {
	p, r := c.P, c.R
	r.Rule("C15.alias-rows", "K1", "grouping candidates by description puts each candidate in exactly one row, under its own description, and emits every row once", 4)
	f := p.Func(fnDescribed)
	if f == nil || len(f.Params) < 2 {
		r.Unk("C15.alias-rows", fnDescribed, "-", "anchor not found")
		return
	}
	values := f.Params[1]
	loops := findLoops(f)
	// the grouping loop: the one that indexes `values`
	var grp *Loop
	var elemAddrs []*ssa.IndexAddr
	eachInstr(f, func(in ssa.Instruction) {
		if ia, ok := in.(*ssa.IndexAddr); ok && ia.X == ssa.Value(values) {
			elemAddrs = append(elemAddrs, ia)
		}
	})
	for _, l := range loops {
		for _, ia := range elemAddrs {
			if l.Blocks[ia.Block()] {
				grp = l
			}
		}
	}
	if grp == nil {
		r.Unk("C15.alias-rows", fnDescribed+":grouping-loop", p.Pos(f.Pos()), "no loop over the values")
		return
	}
	// the loop index covers 0..len(values)-1
	var idx ssa.Value
	for _, ia := range elemAddrs {
		if _, isConst := ia.Index.(*ssa.Const); isConst {
			continue
		}
		if idx == nil {
			idx = ia.Index
		} else if ia.Index != idx {
			idx = nil
			break
		}
	}
	okIdx := false
	if idx != nil {
		if n, ok := countedFromZero(idx); ok && isLenOfSeq(n, values) {
			okIdx = true
		}
	}
	r.Check(okIdx, "C15.alias-rows", fnDescribed+":index", p.Pos(f.Pos()), "the loop visits values[0..len-1]", "the grouping loop does not visit every value (index not counted from 0 to len(values))")
	// emissions: map updates whose stored row derives from values[idx]
	isElem := func(v ssa.Value) bool {
		u, ok := v.(*ssa.UnOp)
		if !ok || u.Op != token.MUL {
			return false
		}
		ia, ok := u.X.(*ssa.IndexAddr)
		return ok && ia.X == ssa.Value(values)
	}
	holdsElem := func(v ssa.Value) bool { // v is a []Candidate built from exactly one element of values: append(old, values[i]) or []Candidate{values[i]}
		switch x := v.(type) {
		case *ssa.Call:
			if b, ok := x.Call.Value.(*ssa.Builtin); ok && b.Name() == "append" && len(x.Call.Args) == 2 {
				if sl, ok := x.Call.Args[1].(*ssa.Slice); ok {
					return arrayHoldsOnly(sl.X, isElem)
				}
			}
		case *ssa.Slice:
			return arrayHoldsOnly(x.X, isElem)
		}
		return false
	}
	var emits []*ssa.MapUpdate
	eachInstr(f, func(in ssa.Instruction) {
		mu, ok := in.(*ssa.MapUpdate)
		if !ok || !grp.Blocks[mu.Block()] || !isCandidateSeq(mu.Value.Type()) {
			return
		}
		emits = append(emits, mu)
	})
	if len(emits) == 0 {
		r.Unk("C15.alias-rows", fnDescribed+":emit", p.Pos(f.Pos()), "no row update in the grouping loop")
		return
	}
	isEmit := func(in ssa.Instruction) bool {
		for _, e := range emits {
			if in == ssa.Instruction(e) {
				return true
			}
		}
		return false
	}
	for i, mu := range emits {
		key := fmt.Sprintf("%s:row-update#%d", fnDescribed, i)
		good := holdsElem(mu.Value)
		r.Check(good, "C15.alias-rows", key, p.IPos(mu), "the row gains exactly the current value", "the row stored for a description is not built from exactly the current value (append(row, values[i]) or []Candidate{values[i]})")
		// an append must extend the row stored under the same key
		if call, ok := mu.Value.(*ssa.Call); ok {
			if lk, ok := call.Call.Args[0].(*ssa.Lookup); ok {
				same := lk.X == mu.Map && sameMemValue(lk.Index, mu.Key)
				r.Check(same, "C15.alias-rows", key+":same-row", p.IPos(mu), "extends the row it is stored under", "the value is appended to the row of one description and stored under another: the aliases already in the row are lost")
			} else {
				r.Bad("C15.alias-rows", key+":same-row", p.IPos(mu), "the value is appended to something else than the row of its description")
			}
		}
		// the key is the description of the current value
		kd := dependsOn(mu.Key, func(v ssa.Value) bool {
			if isElem(v) {
				return true
			}
			ia, ok := v.(*ssa.IndexAddr) // values[i].Description read in place
			return ok && ia.X == ssa.Value(values)
		})
		r.Check(kd, "C15.alias-rows", key+":key", p.IPos(mu), "keyed by the current value's description", "the row is stored under a key that does not come from the current value")
	}
	once := loopEveryIterationPasses(grp, isEmit)
	r.Check(once, "C15.alias-rows", fnDescribed+":every-value", p.Pos(f.Pos()), "every iteration stores the value in a row", "an iteration of the grouping loop ends without putting the value in any row")
	twice := false
	for _, mu := range emits {
		if w := pathAvoiding(f, mu, isEmit, func(in ssa.Instruction) bool { return in.Block() == grp.Head }); w != nil {
			twice = true
		}
	}
	r.Check(!twice, "C15.alias-rows", fnDescribed+":once", p.Pos(f.Pos()), "no iteration stores the value twice", "one iteration puts the value in two rows")
	// a fresh row (slice literal) registers its description in the list the second loop walks
	for i, mu := range emits {
		if _, isAppend := mu.Value.(*ssa.Call); isAppend {
			continue
		}
		key := fmt.Sprintf("%s:new-row#%d", fnDescribed, i)
		// in the same block (or dominated region) an append to a []string whose result feeds a phi at the loop head
		found := false
		for _, in := range mu.Block().Instrs {
			if call, ok := in.(*ssa.Call); ok {
				if b, ok := call.Call.Value.(*ssa.Builtin); ok && b.Name() == "append" && typeStr(call.Type()) == "[]string" {
					// the list carried around the loop (a phi at its head, possibly through the post / merge blocks) takes the appended value
					for _, x := range grp.Head.Instrs {
						ph, ok := x.(*ssa.Phi)
						if !ok {
							break
						}
						if typeStr(ph.Type()) == "[]string" && dependsOn(ph, func(v ssa.Value) bool { return v == ssa.Value(call) }) {
							found = true
						}
					}
				}
			}
		}
		r.Check(found, "C15.alias-rows", key, p.IPos(mu), "a new row registers its description", "a new row is created without adding its description to the list of rows to emit")
	}
	// the emitting loop: ranges over the unique descriptions and appends m[d] once per iteration
	var emitLoop *Loop
	var lookups []*ssa.Lookup
	eachInstr(f, func(in ssa.Instruction) {
		if lk, ok := in.(*ssa.Lookup); ok && !grp.Blocks[lk.Block()] && isCandidateSeq(lk.Type()) {
			lookups = append(lookups, lk)
		}
	})
	for _, l := range loops {
		if l == grp {
			continue
		}
		for _, lk := range lookups {
			if l.Blocks[lk.Block()] {
				emitLoop = l
			}
		}
	}
	if emitLoop == nil || len(lookups) != 1 {
		r.Bad("C15.alias-rows", fnDescribed+":emit-loop", p.Pos(f.Pos()), "the rows are not emitted by one loop over the descriptions")
		return
	}
	lk := lookups[0]
	ap := flowsToAppend(lk)
	good := len(ap) == 1 && emitLoop.Blocks[ap[0].Block()] && loopEveryIterationPasses(emitLoop, func(in ssa.Instruction) bool { return in == ssa.Instruction(ap[0]) })
	if good {
		// accumulator fed back
		fed := false
		for _, ref := range referrersOf(ap[0]) {
			if ph, ok := ref.(*ssa.Phi); ok && ph.Block() == emitLoop.Head {
				fed = true
				// and returned
				ret := false
				for _, r2 := range referrersOf(ph) {
					if _, ok := r2.(*ssa.Return); ok {
						ret = true
					}
				}
				if !ret {
					fed = false
				}
			}
		}
		good = fed
	}
	r.Check(good, "C15.alias-rows", fnDescribed+":emit-loop", p.IPos(lk), "every description's row is appended once and the list returned", "the loop over the descriptions does not append each row exactly once to the returned grid")
	// the key walks the description list from 0 to its length
	kOK := false
	if u, ok := lk.Index.(*ssa.UnOp); ok && u.Op == token.MUL {
		if ia, ok := u.X.(*ssa.IndexAddr); ok {
			if n, ok := countedFromZero(ia.Index); ok && isLenOfSeq(n, ia.X) {
				kOK = true
			}
		}
	}
	r.Check(kOK, "C15.alias-rows", fnDescribed+":emit-index", p.IPos(lk), "all descriptions are walked", "the emitting loop does not walk the whole list of descriptions")
}

func arrayHoldsOnly(arr ssa.Value, isElem func(ssa.Value) bool) bool {
	n, good := 0, true
	for _, ref := range referrersOf(arr) {
		ia, ok := ref.(*ssa.IndexAddr)
		if !ok {
			continue
		}
		for _, r2 := range referrersOf(ia) {
			if st, ok := r2.(*ssa.Store); ok && st.Addr == ssa.Value(ia) {
				n++
				if !isElem(st.Val) {
					good = false
				}
			}
		}
	}
	if al, ok := arr.(*ssa.Alloc); ok {
		if at, ok := al.Type().Underlying().(*types.Pointer); ok {
			if a, ok := at.Elem().Underlying().(*types.Array); ok && a.Len() != 1 {
				return false
			}
		}
	}
	return good && n == 1
}

// ---- (2) no candidate dropped on the way to the groups

func c15NoDrop(c *Ctx) {
	p, r := c.P, c.R
	r.Rule("C15.no-candidate-dropped", "K1", "every value of a tag reaches exactly one of the lists handed to newCompletionGroup", 3)
	f := p.Func(fnGroupNonDesc)
	if f == nil || len(f.Params) < 3 {
		r.Unk("C15.no-candidate-dropped", fnGroupNonDesc, "-", "anchor not found")
		return
	}
	values := f.Params[2]
	var loop *Loop
	for _, l := range findLoops(f) {
		for _, in := range l.Head.Instrs {
			if b, ok := in.(*ssa.BinOp); ok && b.Op == token.LSS && isLenOfSeq(b.Y, values) {
				loop = l
			}
		}
	}
	if loop == nil {
		r.Unk("C15.no-candidate-dropped", fnGroupNonDesc+":loop", p.Pos(f.Pos()), "no loop over the values")
		return
	}
	// emissions: appends of a Candidate-typed element to a RawValues/[]Candidate accumulator; Messages.Add is the error pseudo-value
	var emits []ssa.Instruction
	eachInstr(f, func(in ssa.Instruction) {
		if !loop.Blocks[in.Block()] {
			return
		}
		call, ok := in.(*ssa.Call)
		if !ok {
			return
		}
		if b, ok := call.Call.Value.(*ssa.Builtin); ok && b.Name() == "append" && isCandidateSeq(call.Type()) {
			emits = append(emits, in)
		}
	})
	isEmit := func(in ssa.Instruction) bool {
		for _, e := range emits {
			if in == e {
				return true
			}
		}
		return false
	}
	isMsg := func(in ssa.Instruction) bool { return isCallTo(in, "(*completion.Messages).Add") }
	every := loopEveryIterationPasses(loop, func(in ssa.Instruction) bool { return isEmit(in) || isMsg(in) })
	r.Check(every, "C15.no-candidate-dropped", fnGroupNonDesc+":every-value", p.Pos(f.Pos()), fmt.Sprintf("every iteration appends the value to one list (%d append sites) or reports it as a message", len(emits)), "an iteration over the tag's values ends without keeping the value in any list: that candidate is never offered")
	// a value is withheld from the lists (reported as a message instead) only when it carries the error marker:
	// the message branch is entered under the true outcome of the strings.HasPrefix test on the value, on every edge
	bf := blockFacts(f)
	nm := 0
	eachInstr(f, func(in ssa.Instruction) {
		if !isMsg(in) || !loop.Blocks[in.Block()] {
			return
		}
		marked := false
		for fc := range factsAt(bf, in) {
			if cl, ok := fc.Cond.(*ssa.Call); ok && calleeName(cl) == "strings.HasPrefix" && fc.Val {
				marked = true
			}
		}
		r.Check(marked, "C15.no-candidate-dropped", fmt.Sprintf("%s:message#%d", fnGroupNonDesc, nm), p.IPos(in), "only a value carrying the error marker is turned into a message", "a value is turned into a message and withheld from the candidates on a path where the error-marker test (strings.HasPrefix on the value) is not known to hold: ordinary candidates (for instance `_`) are never offered")
		nm++
	})
	twice := false
	for _, e := range emits {
		if w := pathAvoiding(f, e, isEmit, func(in ssa.Instruction) bool { return in.Block() == loop.Head }); w != nil {
			twice = true
		}
	}
	r.Check(!twice, "C15.no-candidate-dropped", fnGroupNonDesc+":once", p.Pos(f.Pos()), "no iteration keeps the value twice", "one iteration appends the value to two lists: the candidate is offered twice")
	// both returned lists are handed to newCompletionGroup by the caller
	for _, e := range p.callersOf(f) {
		site := e.Site
		if site == nil || site.Value() == nil {
			continue
		}
		caller := site.Parent()
		key := fnName(caller) + ":lists-used"
		used := map[int]bool{}
		for _, ref := range referrersOf(site.Value()) {
			ex, ok := ref.(*ssa.Extract)
			if !ok {
				continue
			}
			for _, r2 := range referrersOf(ex) {
				if call, ok := r2.(ssa.CallInstruction); ok && calleeName(call) == fnNewGroup {
					used[ex.Index] = true
				}
			}
		}
		r.Check(used[0] && used[1], "C15.no-candidate-dropped", key, p.IPos(site), "described and non-described values both become groups", "one of the two value lists returned by groupNonDescribed is not handed to newCompletionGroup: its candidates are never offered")
	}
}

// ---- (3) bounds follow rows

func c15Bounds(c *Ctx) {
	p, r := c.P, c.R
	r.Rule("C15.bounds-follow-rows", "K1", "after the last write of group.rows in a grid constructor, maxY is written from len(rows) (and maxX from the columns) before the constructor returns", 2)
	writes := func(fn *ssa.Function, field string, depth int) func(in ssa.Instruction) bool {
		var rec func(f *ssa.Function, d int) bool
		memo := map[*ssa.Function]bool{}
		rec = func(f *ssa.Function, d int) bool {
			if v, ok := memo[f]; ok {
				return v
			}
			memo[f] = false
			res := false
			eachInstr(f, func(in ssa.Instruction) {
				if _, ok := isFieldStore(in, tGroup, field); ok {
					res = true
				}
				if d < 3 {
					if call, ok := in.(*ssa.Call); ok {
						if h := staticCallee(call); h != nil && inRepo(h) && len(h.Blocks) > 0 && rec(h, d+1) {
							res = true
						}
					}
				}
			})
			memo[f] = res
			return res
		}
		return func(in ssa.Instruction) bool {
			if _, ok := isFieldStore(in, tGroup, field); ok {
				return true
			}
			if call, ok := in.(*ssa.Call); ok {
				if h := staticCallee(call); h != nil && inRepo(h) && len(h.Blocks) > 0 {
					return rec(h, 1)
				}
			}
			return false
		}
	}
	// a "good" maxY writer: a direct store of len(load g.rows), or a call to a helper whose every maxY store is of that form and which does not write rows afterwards
	goodStore := func(in ssa.Instruction, field, from string) bool {
		st, ok := isFieldStore(in, tGroup, field)
		if !ok {
			return false
		}
		call, ok := st.Val.(*ssa.Call)
		if !ok {
			return false
		}
		b, ok := call.Call.Value.(*ssa.Builtin)
		if !ok || b.Name() != "len" {
			return false
		}
		if from == "" {
			return true
		}
		return isFieldLoad(call.Call.Args[0], tGroup, from)
	}
	var goodWriter func(in ssa.Instruction, field, from string, d int) bool
	goodWriter = func(in ssa.Instruction, field, from string, d int) bool {
		if goodStore(in, field, from) {
			return true
		}
		call, ok := in.(*ssa.Call)
		if !ok || d > 2 {
			return false
		}
		h := staticCallee(call)
		if h == nil || !inRepo(h) || len(h.Blocks) == 0 {
			return false
		}
		// every path of h to a return passes a good store after which rows is not written
		isRows := writes(h, "rows", 0)
		w := pathAvoiding(h, nil, func(x ssa.Instruction) bool { return isReturn(x) }, func(x ssa.Instruction) bool { return goodWriter(x, field, from, d+1) })
		if w != nil {
			return false
		}
		bad := false
		eachInstr(h, func(x ssa.Instruction) {
			if goodWriter(x, field, from, d+1) {
				if pathAvoiding(h, x, isRows, func(ssa.Instruction) bool { return false }) != nil {
					bad = true
				}
			}
		})
		return !bad
	}
	for _, name := range []string{fnInitGrid, fnInitAliased} {
		f := p.Func(name)
		if f == nil {
			continue
		}
		isRows := writes(f, "rows", 0)
		n := 0
		eachInstr(f, func(in ssa.Instruction) {
			if !isRows(in) {
				return
			}
			// only the last rows writer on each path matters: a later rows writer is itself checked
			key := siteKey(f, "rows-write", n)
			n++
			r.CallSites++
			w := pathAvoiding(f, in, isReturn, func(x ssa.Instruction) bool { return goodWriter(x, "maxY", "rows", 0) || isRows(x) })
			r.Check(w == nil, "C15.bounds-follow-rows", key+":maxY", p.IPos(in), "maxY = len(rows) follows", "group.rows is written and the constructor returns without taking maxY from len(rows) afterwards: the selector wraps at a stale row count (rows skipped or an index past the grid)")
		})
		if n == 0 {
			r.Unk("C15.bounds-follow-rows", name+":rows-write", p.Pos(f.Pos()), "the grid constructor does not write group.rows")
		}
	}
	// maxX: in the aliased constructor, written from the column widths after they are cut to the wrap width
	if f := p.Func(fnInitAliased); f != nil {
		isCols := writes(f, "columnsWidth", 0)
		n := 0
		eachInstr(f, func(in ssa.Instruction) {
			if !isCols(in) {
				return
			}
			key := siteKey(f, "columns-write", n)
			n++
			w := pathAvoiding(f, in, isReturn, func(x ssa.Instruction) bool { return goodWriter(x, "maxX", "", 0) || isCols(x) })
			r.Check(w == nil, "C15.bounds-follow-rows", key+":maxX", p.IPos(in), "maxX follows the column widths", "the column widths are written and the aliased constructor returns without taking maxX afterwards")
		})
	}
}

// ---- (4) command steps

func c15Steps(c *Ctx) {
	p, r := c.P, c.R
	r.Rule("C15.step-constants", "K1", "the cycling commands move the one selector by the constant unit step, after generating the candidates when the menu is not active", 4)
	want := map[string]int64{
		"menu-complete":            1,
		"menu-complete-backward":   -1,
		"complete":                 1,
		"accept-and-menu-complete": 1,
	}
	reg := p.Registry()
	var names []string
	for n := range want {
		names = append(names, n)
	}
	sort.Strings(names)
	for _, n := range names {
		f := reg.Cmds[n]
		if f == nil {
			r.Unk("C15.step-constants", "command:"+n, "-", "command not registered")
			continue
		}
		r.Fn(fnName(f))
		sel := callsTo(f, false, fnSelect)
		if len(sel) == 0 {
			r.Bad("C15.step-constants", "command:"+n, p.Pos(f.Pos()), "the command never moves the selector")
			continue
		}
		for i, s := range sel {
			args := s.Common().Args
			a1, ok1 := constInt(args[len(args)-2])
			a2, ok2 := constInt(args[len(args)-1])
			good := ok1 && ok2 && a1 == want[n] && a2 == 0
			r.Check(good, "C15.step-constants", fmt.Sprintf("command:%s:Select#%d", n, i), p.IPos(s), fmt.Sprintf("Select(%d,0)", want[n]), fmt.Sprintf("%s moves the selector by something else than (%d,0)", n, want[n]))
		}
		// every path to a return passes Select, or returns right after a (failed or display-only) generation / inactive menu
		isSel := func(in ssa.Instruction) bool { return isCallTo(in, fnSelect) }
		w := reachUnder(f, func(cond ssa.Value) (bool, bool) { return false, false }, isReturn, func(in ssa.Instruction) bool {
			return isSel(in) || isCallTo(in, "(*inputrc.Config).GetBool") || isCallTo(in, "(*completion.Engine).IsInserting") || isCallTo(in, "(*completion.Engine).IsActive") && n == "accept-and-menu-complete"
		})
		r.Check(w == nil, "C15.step-constants", "command:"+n+":always-steps", p.Pos(f.Pos()), "every path steps the selector (display-prefix / inactive-menu exits excepted)", n+" can return without moving the selector")
	}
}

// ---- (5) the walk over groups

func c15GroupWalk(c *Ctx) {
	p, r := c.P, c.R
	r.Rule("C15.group-walk", "K4", "a finished group is left forward to the next group's first cell, backward to the previous group's last cell; the group walk wraps at both ends", 6)
	f := p.Func(fnSelect)
	mv := callsTo(f, false, fnMoveSelector)
	if len(mv) != 1 {
		r.Unk("C15.group-walk", fnSelect+":moveSelector", p.Pos(f.Pos()), fmt.Sprintf("%d calls of moveSelector", len(mv)))
		return
	}
	var done, next ssa.Value
	for _, ref := range referrersOf(mv[0].Value()) {
		if ex, ok := ref.(*ssa.Extract); ok {
			if ex.Index == 0 {
				done = ex
			} else if ex.Index == 1 {
				next = ex
			}
		}
	}
	if done == nil || next == nil {
		r.Unk("C15.group-walk", fnSelect+":results", p.IPos(mv[0]), "moveSelector's results are not both used")
		return
	}
	bf := blockFacts(f)
	type pair struct {
		cycle, cell string
		nextVal     bool
	}
	for _, pr := range []pair{{fnNextGroup, fnFirstCell, true}, {fnPrevGroup, fnLastCell, false}} {
		cy := callsTo(f, false, pr.cycle)
		key := fnSelect + ":" + strings.TrimPrefix(pr.cycle, "(*completion.Engine).")
		if len(cy) == 0 {
			r.Bad("C15.group-walk", key, p.Pos(f.Pos()), "Select never calls "+pr.cycle)
			continue
		}
		for _, call := range cy {
			facts := factsAt(bf, call)
			good := knownBool(facts, done, true) && knownBool(facts, next, pr.nextVal)
			r.Check(good, "C15.group-walk", key, p.IPos(call), fmt.Sprintf("under done && next==%v", pr.nextVal), fmt.Sprintf("%s is not called exactly when the group is finished in that direction (needs done && next==%v)", pr.cycle, pr.nextVal))
			// followed by the matching cell before return
			w := pathAvoiding(f, call, isReturn, func(in ssa.Instruction) bool { return isCallTo(in, pr.cell) })
			r.Check(w == nil, "C15.group-walk", key+":cell", p.IPos(call), "enters at "+pr.cell, fmt.Sprintf("after %s the new group is not entered through %s", pr.cycle, pr.cell))
			// and not the other one
			other := fnFirstCell
			if pr.cell == fnFirstCell {
				other = fnLastCell
			}
			w2 := pathAvoiding(f, call, func(in ssa.Instruction) bool { return isCallTo(in, other) }, func(in ssa.Instruction) bool { return false })
			r.Check(w2 == nil, "C15.group-walk", key+":not-other", p.IPos(call), "only that cell", fmt.Sprintf("after %s the new group is entered through %s", pr.cycle, other))
		}
	}
	// backward entry into an aliased group starts from the grid's last column — the one the forward walk ends on
	if LC := p.Func(fnLastCell); LC != nil {
		ffc := callsTo(LC, false, "(*completion.group).findFirstCandidate")
		if len(ffc) == 0 {
			r.OK("C15.group-walk", fnLastCell+":aliased-start", p.Pos(LC.Pos()), "lastCell does not search a candidate: no aliased start to judge")
		}
		for i, cl := range ffc {
			call := cl.(ssa.Instruction)
			var last *ssa.Store
			eachInstr(LC, func(in ssa.Instruction) {
				st, ok := isFieldStore(in, tGroup, "posX")
				if !ok || !instrDominates(st, call) {
					return
				}
				if last == nil || instrDominates(last, st) {
					last = st
				}
			})
			good, what := false, "no store of posX before the search"
			if last != nil {
				pv := polyOf(last.Val, nil)
				what = pv.String()
				// len(columnsWidth) - 1, or maxX - 1
				if len(pv) == 2 && pv[""] == -1 {
					for k, v := range pv {
						if k == "" || v != 1 {
							continue
						}
						if strings.HasPrefix(k, "len(") {
							// which sequence: the leaf is len(<load>): accept when that load is of columnsWidth
							if c2, ok := findLenArg(last.Val); ok && isFieldLoad(c2, tGroup, "columnsWidth") {
								good = true
							}
						} else if isFieldLoadByName(last.Val, k, tGroup, "maxX") {
							good = true
						}
					}
				}
			}
			r.Check(good, "C15.group-walk", fmt.Sprintf("%s:aliased-start#%d", fnLastCell, i), p.IPos(call), "the search starts from the last column of the grid", "entering an aliased group backwards, the search for the last candidate starts from column "+what+" instead of the grid's last column (len(columnsWidth)-1): the walk of an aliased group goes column by column, so when the last row is shorter than another row the columns to its right are never reached by menu-complete-backward")
		}
	}
	// wrap-around of the group walk
	for _, d := range []struct {
		fn      string
		forward bool
	}{{fnNextGroup, true}, {fnPrevGroup, false}} {
		g := p.Func(d.fn)
		ok, why := groupWrap(g, d.forward)
		r.Check(ok, "C15.group-walk", d.fn+":wrap", p.Pos(g.Pos()), why, "the group walk does not wrap correctly: "+why)
	}
}

// groupWrap: in the loop over e.groups, under isCurrent: the flag is cleared, and the flag set is that of
// groups[0] when pos == len-1 else groups[pos+1] (forward) / groups[len-1] when pos == 0 else groups[pos-1] (backward).
func groupWrap(g *ssa.Function, forward bool) (bool, string) {
	bf := blockFacts(g)
	var sets []*ssa.Store
	// the loop position (a range index is `phi + 1` in go/ssa: one leaf for the algebra below)
	subst := map[ssa.Value]poly{}
	eachInstr(g, func(in ssa.Instruction) {
		if ia, ok := in.(*ssa.IndexAddr); ok {
			if _, ok := countedFromZero(ia.Index); ok {
				subst[ia.Index] = poly{"pos": 1}
			}
		}
	})
	eachInstr(g, func(in ssa.Instruction) {
		if st, ok := isFieldStore(in, tGroup, "isCurrent"); ok {
			if b, ok := constBool(st.Val); ok && b {
				sets = append(sets, st)
			}
		}
	})
	if len(sets) == 1 {
		// the modular spelling: groups[(pos+1) % len(groups)] forward, groups[(pos+len(groups)-1) % len(groups)] backward
		fa := sets[0].Addr.(*ssa.FieldAddr)
		if ld, ok := fa.X.(*ssa.UnOp); ok {
			if ia, ok := ld.X.(*ssa.IndexAddr); ok {
				if rem, ok := ia.Index.(*ssa.BinOp); ok && rem.Op == token.REM {
					num, den := polyOf(rem.X, subst), polyOf(rem.Y, subst)
					lenLeaf := ""
					for k, v := range den {
						if strings.HasPrefix(k, "len(") && v == 1 && len(den) == 1 {
							lenLeaf = k
						}
					}
					if lenLeaf == "" {
						return false, "the modulus of the group index is not the number of groups"
					}
					want := poly{"pos": 1, "": 1}
					if !forward {
						want = poly{"pos": 1, lenLeaf: 1, "": -1}
					}
					// every len(groups) leaf is the same quantity: normalise the names
					norm := poly{}
					for k, v := range num {
						if strings.HasPrefix(k, "len(") {
							k = lenLeaf
						}
						norm[k] += v
					}
					if !polyEq(norm.clean(), want) {
						return false, fmt.Sprintf("the walk goes to groups[(%s) %% len]", num)
					}
					cleared := false
					eachInstr(g, func(in ssa.Instruction) {
						if st, ok := isFieldStore(in, tGroup, "isCurrent"); ok {
							if b, ok := constBool(st.Val); ok && !b {
								cleared = true
							}
						}
					})
					if !cleared {
						return false, "the previous current group keeps its flag"
					}
					return true, "steps by one modulo the number of groups, clears the old flag"
				}
			}
		}
	}
	if len(sets) != 2 {
		return false, fmt.Sprintf("%d stores isCurrent=true (want the wrap case and the step case)", len(sets))
	}
	wrapSeen, stepSeen := false, false
	for _, st := range sets {
		fa := st.Addr.(*ssa.FieldAddr)
		ld, ok := fa.X.(*ssa.UnOp)
		if !ok {
			return false, "isCurrent set on something else than an element of the group list"
		}
		ia, ok := ld.X.(*ssa.IndexAddr)
		if !ok {
			return false, "isCurrent set on something else than an element of the group list"
		}
		ip := polyOf(ia.Index, subst)
		// facts: pos == len-1 (forward) or pos == 0 (backward) on the wrap side
		var atEnd, known bool
		for fct := range factsAt(bf, st) {
			rel, ok := relOf(fct.Cond, fct.Val)
			if !ok {
				continue
			}
			if rel.Op != token.EQL && rel.Op != token.NEQ {
				continue
			}
			px, py := polyOf(rel.X, subst), polyOf(rel.Y, subst)
			d := polyAdd(px, py, -1)
			// forward: pos - (len-1) ; backward: pos - 0
			isEndTest := false
			if forward {
				for k := range d {
					if strings.HasPrefix(k, "len(") {
						isEndTest = true
					}
				}
			} else {
				isEndTest = len(d) == 1
				for k := range d {
					if k == "" || strings.HasPrefix(k, "len(") {
						isEndTest = false
					}
				}
			}
			if isEndTest {
				known = true
				atEnd = rel.Op == token.EQL
			}
		}
		if !known {
			return false, "the new current group is chosen without testing for the end of the list"
		}
		if atEnd {
			wrapSeen = true
			if forward {
				if len(ip) != 0 {
					return false, fmt.Sprintf("at the last group the walk goes to groups[%s], not groups[0]", ip)
				}
			} else {
				// len(groups) - 1
				good := len(ip) == 2 && ip[""] == -1
				for k, v := range ip {
					if k != "" && !(strings.HasPrefix(k, "len(") && v == 1) {
						good = false
					}
				}
				if !good {
					return false, fmt.Sprintf("at the first group the backward walk goes to groups[%s], not groups[len-1]", ip)
				}
			}
		} else {
			stepSeen = true
			want := int64(1)
			if !forward {
				want = -1
			}
			good := len(ip) == 2 && ip[""] == want
			for k, v := range ip {
				if k != "" && (strings.HasPrefix(k, "len(") || v != 1) {
					good = false
				}
			}
			if !good {
				return false, fmt.Sprintf("inside the list the walk goes to groups[%s], not groups[pos%+d]", ip, want)
			}
		}
	}
	if !wrapSeen || !stepSeen {
		return false, "wrap case or step case missing"
	}
	// the current flag is cleared before
	cleared := false
	eachInstr(g, func(in ssa.Instruction) {
		if st, ok := isFieldStore(in, tGroup, "isCurrent"); ok {
			if b, ok := constBool(st.Val); ok && !b {
				cleared = true
			}
		}
	})
	if !cleared {
		return false, "the previous current group keeps its flag"
	}
	return true, "wraps at the end, steps by one inside, clears the old flag"
}

// findLenArg: the argument of the len() call inside an expression `len(x) ± k`.
func findLenArg(v ssa.Value) (ssa.Value, bool) {
	switch x := v.(type) {
	case *ssa.Call:
		if b, ok := x.Call.Value.(*ssa.Builtin); ok && b.Name() == "len" && len(x.Call.Args) == 1 {
			return x.Call.Args[0], true
		}
	case *ssa.BinOp:
		if a, ok := findLenArg(x.X); ok {
			return a, true
		}
		return findLenArg(x.Y)
	}
	return nil, false
}

// isFieldLoadByName: the leaf named `name` inside v is a load of tn.field.
func isFieldLoadByName(v ssa.Value, name, tn, field string) bool {
	switch x := v.(type) {
	case *ssa.BinOp:
		return isFieldLoadByName(x.X, name, tn, field) || isFieldLoadByName(x.Y, name, tn, field)
	default:
		return v.Name() == name && isFieldLoad(v, tn, field)
	}
}
