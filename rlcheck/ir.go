package main

import (
	"fmt"
	"go/constant"
	"go/token"
	"go/types"
	"sort"
	"strings"

	"golang.org/x/tools/go/callgraph"
	"golang.org/x/tools/go/ssa"
)

// ---------- instruction iteration ----------

// eachInstr visits every instruction of fn (not nested closures), then those of the functions
// fn absorbs (absorb.go: helpers the pinned tree did not have); the rule tables iterate
// Prog.RepoFuncs, which leaves the absorbed helpers out, so a site is judged under the name of each
// function that reaches it.
func eachInstr(fn *ssa.Function, f func(ssa.Instruction)) {
	if fn == nil {
		return
	}
	if len(isAbsorbed) == 0 {
		eachInstrRaw(fn, f)
		return
	}
	eachInstrAbs(fn, f, 0)
}

// withAnons returns fn and all (transitively) nested anonymous functions.
func withAnons(fn *ssa.Function) []*ssa.Function {
	if fn == nil {
		return nil
	}
	out := []*ssa.Function{fn}
	for _, a := range fn.AnonFuncs {
		out = append(out, withAnons(a)...)
	}
	return out
}

// ---------- callee resolution ----------

// staticCallee returns the statically resolved callee, looking through
// bound-method closures and direct closures.
func staticCallee(c ssa.CallInstruction) *ssa.Function {
	cc := c.Common()
	if cc.IsInvoke() {
		return nil
	}
	if f := cc.StaticCallee(); f != nil {
		return unbound(f)
	}
	return nil
}

// unbound maps a $bound wrapper to the underlying method.
func unbound(f *ssa.Function) *ssa.Function {
	if f == nil {
		return nil
	}
	if strings.HasSuffix(f.Name(), "$bound") && f.Synthetic != "" && f.Object() != nil {
		if m := f.Prog.FuncValue(f.Object().(*types.Func)); m != nil {
			return m
		}
	}
	if strings.HasSuffix(f.Name(), "$thunk") && f.Synthetic != "" && f.Object() != nil {
		if m := f.Prog.FuncValue(f.Object().(*types.Func)); m != nil {
			return m
		}
	}
	return f
}

// calleeName returns the canonical short name of what a call resolves to:
// static callee name, or "invoke:<Iface>.<Method>" for interface calls,
// "builtin:<name>" for builtins, or "dynamic" for func values.
func calleeName(c ssa.CallInstruction) string {
	cc := c.Common()
	if cc.IsInvoke() {
		recv := cc.Value.Type()
		return "invoke:" + shortName(types.TypeString(recv, nil)) + "." + cc.Method.Name()
	}
	if f := staticCallee(c); f != nil {
		return fnName(f)
	}
	if b, ok := cc.Value.(*ssa.Builtin); ok {
		return "builtin:" + b.Name()
	}
	return "dynamic"
}

// isCallTo reports whether instr is a call (Call/Defer/Go) whose callee name is one of names.
func isCallTo(in ssa.Instruction, names ...string) bool {
	c, ok := in.(ssa.CallInstruction)
	if !ok {
		return false
	}
	n := calleeName(c)
	for _, x := range names {
		if n == x {
			return true
		}
	}
	return false
}

// callsTo lists call instructions in fn (optionally with nested closures) to any of names.
func callsTo(fn *ssa.Function, anons bool, names ...string) []ssa.CallInstruction {
	var out []ssa.CallInstruction
	fs := []*ssa.Function{fn}
	if anons {
		fs = withAnons(fn)
	}
	for _, f := range fs {
		eachInstr(f, func(in ssa.Instruction) {
			if isCallTo(in, names...) {
				out = append(out, in.(ssa.CallInstruction))
			}
		})
	}
	return out
}

// allCalls lists all call instructions in fn.
func allCalls(fn *ssa.Function, anons bool) []ssa.CallInstruction {
	var out []ssa.CallInstruction
	fs := []*ssa.Function{fn}
	if anons {
		fs = withAnons(fn)
	}
	for _, f := range fs {
		eachInstr(f, func(in ssa.Instruction) {
			if c, ok := in.(ssa.CallInstruction); ok {
				out = append(out, c)
			}
		})
	}
	return out
}

// ---------- positions ----------

func instrPos(in ssa.Instruction) token.Pos {
	if in == nil {
		return token.NoPos
	}
	if p := in.Pos(); p.IsValid() {
		return p
	}
	// fall back: nearest instruction in the block with a position
	b := in.Block()
	if b == nil {
		return token.NoPos
	}
	idx := -1
	for i, x := range b.Instrs {
		if x == in {
			idx = i
		}
	}
	for d := 1; d < len(b.Instrs); d++ {
		for _, j := range []int{idx - d, idx + d} {
			if j >= 0 && j < len(b.Instrs) && b.Instrs[j].Pos().IsValid() {
				return b.Instrs[j].Pos()
			}
		}
	}
	if v, ok := in.(ssa.Value); ok {
		if refs := v.Referrers(); refs != nil {
			for _, r := range *refs {
				if r.Pos().IsValid() {
					return r.Pos()
				}
			}
		}
	}
	return in.Parent().Pos()
}

func (p *Prog) IPos(in ssa.Instruction) string { return p.Pos(instrPos(in)) }

// ---------- CFG: cut reachability ----------

func instrIndex(in ssa.Instruction) int {
	for i, x := range in.Block().Instrs {
		if x == in {
			return i
		}
	}
	return -1
}

// isExit reports whether the instruction ends the function normally (Return).
// Panic exits are not "returns"; callers choose.
func isReturn(in ssa.Instruction) bool { _, ok := in.(*ssa.Return); return ok }
func isPanic(in ssa.Instruction) bool  { _, ok := in.(*ssa.Panic); return ok }

// pathAvoiding: is there a CFG path starting *after* instruction `from` (or at
// function entry when from==nil) that reaches an instruction satisfying `target`
// without first executing an instruction satisfying `cut`? Returns the target
// reached, or nil. `cut` is tested before `target` on each instruction.
//
// A call to an unexported helper of the module in which every path to a return executes a
// cut instruction is itself a cut (the wrapper rule: a helper that always takes the lock
// takes the lock). Predicates that name instructions of fn by identity are simply false
// inside the helper, which then is no cut, as before.
func pathAvoiding(fn *ssa.Function, from ssa.Instruction, target, cut func(ssa.Instruction) bool) ssa.Instruction {
	return pathAvoidingD(fn, from, target, cut, 0)
}

func pathAvoidingD(fn *ssa.Function, from ssa.Instruction, target, cut func(ssa.Instruction) bool, depth int) ssa.Instruction {
	if fn == nil || len(fn.Blocks) == 0 {
		return nil
	}
	wrapperCuts := func(in ssa.Instruction) bool {
		if depth >= 2 {
			return false
		}
		c, ok := in.(*ssa.Call)
		if !ok {
			return false
		}
		h := c.Call.StaticCallee()
		if h == nil || h == fn || !inRepo(h) || !isPrivateHelper(h) || len(h.Blocks) == 0 {
			return false
		}
		return pathAvoidingD(h, nil, func(x ssa.Instruction) bool { return isReturn(x) && x.Block() != h.Recover }, cut, depth+1) == nil
	}
	notRet := func(x ssa.Instruction) bool {
		if isReturn(x) {
			return false // a helper's returns are not the function's
		}
		return target(x)
	}
	// a start inside a helper fn absorbs: to the helper's returns, then on from its calls in fn
	if from != nil && from.Parent() != fn && isAbsorbed[from.Parent()] && depth < 2 {
		h := from.Parent()
		if t := pathAvoidingD(h, from, notRet, cut, depth+1); t != nil {
			return t
		}
		if pathAvoidingD(h, from, func(x ssa.Instruction) bool { return isReturn(x) && x.Block() != h.Recover }, cut, depth+1) == nil {
			return nil
		}
		for _, c := range callsOfIn(h, fn) {
			if t := pathAvoidingD(fn, c, target, cut, depth); t != nil {
				return t
			}
		}
		return nil
	}
	// scan returns (found, blocked)
	scan := func(b *ssa.BasicBlock, i int) (ssa.Instruction, bool) {
		for ; i < len(b.Instrs); i++ {
			in := b.Instrs[i]
			if cut != nil && (cut(in) || wrapperCuts(in)) {
				return nil, true
			}
			if target(in) {
				return in, false
			}
			if len(isAbsorbed) > 0 && depth < 2 {
				if c, ok := in.(*ssa.Call); ok {
					if h := c.Call.StaticCallee(); h != nil && isAbsorbed[h] && h != fn {
						// walk into the absorbed helper, and out again at its returns
						if t := pathAvoidingD(h, nil, notRet, cut, depth+1); t != nil {
							return t, false
						}
						if pathAvoidingD(h, nil, func(x ssa.Instruction) bool { return isReturn(x) && x.Block() != h.Recover }, cut, depth+1) == nil {
							return nil, true
						}
					}
				}
			}
		}
		return nil, false
	}
	seen := map[*ssa.BasicBlock]bool{}
	var work []*ssa.BasicBlock
	if from == nil {
		work = append(work, fn.Blocks[0])
	} else {
		found, blocked := scan(from.Block(), instrIndex(from)+1)
		if found != nil {
			return found
		}
		if blocked {
			return nil
		}
		work = append(work, from.Block().Succs...)
	}
	for len(work) > 0 {
		b := work[len(work)-1]
		work = work[:len(work)-1]
		if seen[b] {
			continue
		}
		seen[b] = true
		found, blocked := scan(b, 0)
		if found != nil {
			return found
		}
		if blocked {
			continue
		}
		work = append(work, b.Succs...)
	}
	return nil
}

// mustPassBefore: on every path from `from` (nil = entry) to an instruction in
// `target`, an instruction in `via` is executed first.
func mustPassBefore(fn *ssa.Function, from ssa.Instruction, target, via func(ssa.Instruction) bool) (bool, ssa.Instruction) {
	w := pathAvoiding(fn, from, target, via)
	return w == nil, w
}

// instrDominates: a executes before b on every path to b (same function).
func instrDominates(a, b ssa.Instruction) bool {
	if pa, pb := a.Parent(), b.Parent(); pa != pb {
		// b in a helper pa absorbs: a dominates every call of the helper in pa
		if isAbsorbed[pb] {
			if sites := callsOfIn(pb, pa); len(sites) > 0 {
				all := true
				for _, c := range sites {
					if !instrDominatesSame(a, c) {
						all = false
					}
				}
				if all {
					return true
				}
			}
		}
		// a in a helper pb absorbs: a call of the helper dominates b and a is on every path through the helper
		if isAbsorbed[pa] {
			for _, c := range callsOfIn(pa, pb) {
				if instrDominatesSame(c, b) && pathAvoidingD(pa, nil, func(x ssa.Instruction) bool { return isReturn(x) && x.Block() != pa.Recover }, func(x ssa.Instruction) bool { return x == a }, 2) == nil {
					return true
				}
			}
		}
		return false
	}
	return instrDominatesSame(a, b)
}

func instrDominatesSame(a, b ssa.Instruction) bool {
	if a.Block() == b.Block() {
		return instrIndex(a) < instrIndex(b)
	}
	return a.Block().Dominates(b.Block())
}

// ---------- natural loops ----------

type Loop struct {
	Head   *ssa.BasicBlock
	Blocks map[*ssa.BasicBlock]bool
	Backs  []*ssa.BasicBlock // sources of back edges
}

func findLoops(fn *ssa.Function) []*Loop {
	byHead := map[*ssa.BasicBlock]*Loop{}
	var order []*ssa.BasicBlock
	for _, b := range fn.Blocks {
		for _, s := range b.Succs {
			if s.Dominates(b) { // back edge b->s
				l := byHead[s]
				if l == nil {
					l = &Loop{Head: s, Blocks: map[*ssa.BasicBlock]bool{s: true}}
					byHead[s] = l
					order = append(order, s)
				}
				l.Backs = append(l.Backs, b)
				// collect body
				stack := []*ssa.BasicBlock{b}
				for len(stack) > 0 {
					x := stack[len(stack)-1]
					stack = stack[:len(stack)-1]
					if l.Blocks[x] {
						continue
					}
					l.Blocks[x] = true
					stack = append(stack, x.Preds...)
				}
			}
		}
	}
	var out []*Loop
	for _, h := range order {
		out = append(out, byHead[h])
	}
	return out
}

// loopEveryIterationPasses: every cyclic path head -> ... -> head inside the loop
// executes an instruction satisfying via.
func loopEveryIterationPasses(l *Loop, via func(ssa.Instruction) bool) bool {
	// DFS from head through loop blocks not containing via; if we can get back to head, fail.
	seen := map[*ssa.BasicBlock]bool{}
	var dfs func(b *ssa.BasicBlock, entry bool) bool
	dfs = func(b *ssa.BasicBlock, entry bool) bool {
		if !entry {
			if b == l.Head {
				return true // completed a cycle without via
			}
			if seen[b] {
				return false
			}
			seen[b] = true
		}
		for _, in := range b.Instrs {
			if via(in) {
				return false
			}
		}
		for _, s := range b.Succs {
			if !l.Blocks[s] {
				continue
			}
			if dfs(s, false) {
				return true
			}
		}
		return false
	}
	return !dfs(l.Head, true)
}

// ---------- branch facts (K4) ----------

// A Fact says "cond evaluated to Val on every path reaching this point".
type Fact struct {
	Cond ssa.Value
	Val  bool
}

// blockFacts computes, for each block, the set of branch conditions known at
// its entry: facts(B) = ∩_{P∈preds(B)} (facts(P) ∪ edge(P→B)).
func blockFacts(fn *ssa.Function) map[*ssa.BasicBlock]map[Fact]bool {
	res := blockFactsRaw(fn)
	if len(isAbsorbed) == 0 {
		return res
	}
	// the blocks of the helpers fn absorbs: their own facts plus what holds at every call in the host
	var add func(host *ssa.Function, depth int)
	add = func(host *ssa.Function, depth int) {
		if depth >= 2 {
			return
		}
		for _, h := range absorbedOf[host] {
			var common map[Fact]bool
			for _, c := range callsOfIn(h, host) {
				at := res[c.Block()]
				if common == nil {
					common = map[Fact]bool{}
					for f := range at {
						common[f] = true
					}
				} else {
					for f := range common {
						if !at[f] {
							delete(common, f)
						}
					}
				}
			}
			for b, fs := range blockFactsRaw(h) {
				m := map[Fact]bool{}
				for f := range fs {
					m[f] = true
				}
				for f := range common {
					m[f] = true
				}
				if _, seen := res[b]; !seen {
					res[b] = m
				}
			}
			add(h, depth+1)
		}
	}
	add(fn, 0)
	return res
}

func blockFactsRaw(fn *ssa.Function) map[*ssa.BasicBlock]map[Fact]bool {
	res := map[*ssa.BasicBlock]map[Fact]bool{}
	if len(fn.Blocks) == 0 {
		return res
	}
	top := map[*ssa.BasicBlock]bool{} // true = not yet computed (⊤)
	for _, b := range fn.Blocks {
		top[b] = true
	}
	entry := fn.Blocks[0]
	res[entry] = map[Fact]bool{}
	top[entry] = false
	// recover block (if any) has no preds; treat as empty.
	if fn.Recover != nil {
		res[fn.Recover] = map[Fact]bool{}
		top[fn.Recover] = false
	}
	edgeFacts := func(p, b *ssa.BasicBlock) []Fact {
		if iff, ok := p.Instrs[len(p.Instrs)-1].(*ssa.If); ok && len(p.Succs) == 2 && p.Succs[0] != p.Succs[1] {
			if p.Succs[0] == b {
				return expandCond(iff.Cond, true)
			}
			if p.Succs[1] == b {
				return expandCond(iff.Cond, false)
			}
		}
		return nil
	}
	changed := true
	for changed {
		changed = false
		for _, b := range fn.Blocks {
			if b == entry || b == fn.Recover {
				continue
			}
			var acc map[Fact]bool
			any := false
			for _, p := range b.Preds {
				if top[p] {
					continue
				}
				in := map[Fact]bool{}
				for f := range res[p] {
					in[f] = true
				}
				for _, f := range edgeFacts(p, b) {
					in[f] = true
				}
				if !any {
					acc = in
					any = true
				} else {
					for f := range acc {
						if !in[f] {
							delete(acc, f)
						}
					}
				}
			}
			if !any {
				continue
			}
			if top[b] || len(acc) != len(res[b]) {
				res[b] = acc
				top[b] = false
				changed = true
			}
		}
	}
	return res
}

// expandCond: a condition being v implies sub-facts (e.g. !x true => x false).
func expandCond(c ssa.Value, v bool) []Fact {
	out := []Fact{{c, v}}
	if u, ok := c.(*ssa.UnOp); ok && u.Op == token.NOT {
		out = append(out, expandCond(u.X, !v)...)
	}
	return out
}

// ---------- access paths ----------

// accessPath renders a value as a canonical path expression when it is a pure
// chain of parameter/freevar/global + field selections + loads; "" otherwise.
func accessPath(v ssa.Value) string {
	switch x := v.(type) {
	case *ssa.Parameter:
		return "$" + x.Name()
	case *ssa.FreeVar:
		return "$" + x.Name()
	case *ssa.Global:
		return "g:" + x.Name()
	case *ssa.UnOp:
		if x.Op == token.MUL {
			if p := accessPath(x.X); p != "" {
				return "*" + p
			}
		}
	case *ssa.FieldAddr:
		if p := accessPath(x.X); p != "" {
			return p + "." + fieldName(x.X.Type(), x.Field)
		}
	case *ssa.Field:
		if p := accessPath(x.X); p != "" {
			return p + "." + fieldName(x.X.Type(), x.Field)
		}
	case *ssa.Alloc:
		return fmt.Sprintf("alloc:%s", x.Name())
	case *ssa.ChangeType:
		return accessPath(x.X)
	case *ssa.MakeInterface:
		return accessPath(x.X)
	case *ssa.Call, *ssa.Extract, *ssa.Phi, *ssa.Lookup, *ssa.TypeAssert, *ssa.Next:
		// any other SSA value is a root of its own (names are unique per function)
		return "%" + v.Name()
	}
	return ""
}

func fieldName(t types.Type, i int) string {
	if p, ok := t.Underlying().(*types.Pointer); ok {
		t = p.Elem()
	}
	if s, ok := t.Underlying().(*types.Struct); ok && i < s.NumFields() {
		n := s.Field(i).Name()
		if len(fieldAliases) > 0 {
			// a field renamed since the pinned tree answers to its pinned name (names.go)
			if a, ok := fieldAliases[shortName(types.TypeString(t, nil))+"."+n]; ok {
				return a
			}
		}
		return n
	}
	return fmt.Sprintf("f%d", i)
}

// fieldOf returns (struct type name short, field name) for a FieldAddr/Field.
func fieldOf(v ssa.Value) (string, string, bool) {
	var x ssa.Value
	var idx int
	switch f := v.(type) {
	case *ssa.FieldAddr:
		x, idx = f.X, f.Field
	case *ssa.Field:
		x, idx = f.X, f.Field
	default:
		return "", "", false
	}
	t := x.Type()
	if p, ok := t.Underlying().(*types.Pointer); ok {
		t = p.Elem()
	}
	name := shortName(types.TypeString(t, nil))
	return name, fieldName(x.Type(), idx), true
}

// ---------- constants ----------

func constInt(v ssa.Value) (int64, bool) {
	c, ok := v.(*ssa.Const)
	if !ok || c.Value == nil {
		return 0, false
	}
	if c.Value.Kind() != constant.Int {
		return 0, false
	}
	i, ok := constant.Int64Val(c.Value)
	return i, ok
}

func constString(v ssa.Value) (string, bool) {
	c, ok := v.(*ssa.Const)
	if !ok || c.Value == nil || c.Value.Kind() != constant.String {
		return "", false
	}
	return constant.StringVal(c.Value), true
}

func constBool(v ssa.Value) (bool, bool) {
	c, ok := v.(*ssa.Const)
	if !ok || c.Value == nil || c.Value.Kind() != constant.Bool {
		return false, false
	}
	return constant.BoolVal(c.Value), true
}

func isNilConst(v ssa.Value) bool {
	c, ok := v.(*ssa.Const)
	return ok && c.Value == nil
}

// ---------- call graph reachability (K10) ----------

// reachFrom computes in-repo functions reachable from roots over the call graph.
// Returns parent map for path reconstruction. `through` decides whether an edge
// into callee may be followed (nil = all in-repo callees).
func (p *Prog) reachFrom(roots []*ssa.Function, through func(e *callgraph.Edge) bool) map[*ssa.Function]*callgraph.Edge {
	parent := map[*ssa.Function]*callgraph.Edge{}
	var work []*ssa.Function
	for _, r := range roots {
		if r == nil {
			continue
		}
		if _, ok := parent[r]; !ok {
			parent[r] = nil
			work = append(work, r)
		}
	}
	for len(work) > 0 {
		f := work[0]
		work = work[1:]
		n := p.CG.Nodes[f]
		if n == nil {
			continue
		}
		// deterministic order
		outs := append([]*callgraph.Edge(nil), n.Out...)
		sort.SliceStable(outs, func(i, j int) bool {
			return fnName(outs[i].Callee.Func) < fnName(outs[j].Callee.Func)
		})
		for _, e := range outs {
			c := e.Callee.Func
			if !inRepo(c) {
				continue
			}
			if through != nil && !through(e) {
				continue
			}
			if _, ok := parent[c]; ok {
				continue
			}
			parent[c] = e
			work = append(work, c)
		}
		// closures created in f are considered reachable when f is (they may be
		// invoked via non-repo callers like sort.Slice); conservative.
		for _, a := range f.AnonFuncs {
			if _, ok := parent[a]; !ok {
				parent[a] = &callgraph.Edge{Caller: n, Callee: p.CG.Nodes[a]}
				if p.CG.Nodes[a] == nil {
					parent[a] = nil
				}
				work = append(work, a)
			}
		}
	}
	return parent
}

func cgPath(parent map[*ssa.Function]*callgraph.Edge, f *ssa.Function) string {
	var parts []string
	for i := 0; f != nil && i < 40; i++ {
		parts = append([]string{fnName(f)}, parts...)
		e := parent[f]
		if e == nil || e.Caller == nil {
			break
		}
		f = e.Caller.Func
	}
	return strings.Join(parts, " → ")
}

// callersOf lists in-repo call sites that may call f (call graph in-edges).
func (p *Prog) callersOf(f *ssa.Function) []*callgraph.Edge {
	n := p.CG.Nodes[f]
	if n == nil {
		return nil
	}
	var out []*callgraph.Edge
	for _, e := range n.In {
		if inRepo(e.Caller.Func) {
			out = append(out, e)
		}
	}
	sort.SliceStable(out, func(i, j int) bool {
		a, b := out[i], out[j]
		if fnName(a.Caller.Func) != fnName(b.Caller.Func) {
			return fnName(a.Caller.Func) < fnName(b.Caller.Func)
		}
		return a.Pos() < b.Pos()
	})
	return out
}

// ---------- misc ----------

// referrersOf returns referrers (may be nil).
func referrersOf(v ssa.Value) []ssa.Instruction {
	r := v.Referrers()
	if r == nil {
		return nil
	}
	return *r
}

func typeStr(t types.Type) string { return shortName(types.TypeString(t, nil)) }

// nthCallKey builds a stable construct key for the n-th call (in source order) to callee within fn.
func siteKey(fn *ssa.Function, what string, n int) string {
	return fmt.Sprintf("%s:%s#%d", fnName(fn), what, n)
}

// sortCallsByPos orders call sites by position for stable numbering.
func sortCallsByPos(cs []ssa.CallInstruction) {
	sort.SliceStable(cs, func(i, j int) bool { return instrPos(cs[i]) < instrPos(cs[j]) })
}

// onlyReachedThrough: every chain of callers of f passes through a function named in allowed
// before it leaves the module's unexported functions: f's callers are allowed functions, or
// unexported module functions (closures count as their enclosing function) of which the same
// holds. A who-may-call rule stated with it accepts a site moved into a private helper of the
// allowed function and still rejects a new entry point. bad names the offending chain.
func (p *Prog) onlyReachedThrough(f *ssa.Function, allowed map[string]bool) (ok bool, bad string) {
	seen := map[*ssa.Function]bool{}
	var visit func(g *ssa.Function, chain string) (bool, string)
	visit = func(g *ssa.Function, chain string) (bool, string) {
		for g.Parent() != nil {
			g = g.Parent()
		}
		if allowed[fnName(g)] {
			return true, ""
		}
		if seen[g] {
			return true, ""
		}
		seen[g] = true
		if !isPrivateHelper(g) {
			return false, chain
		}
		for _, e := range p.callersOf(g) {
			cf := e.Caller.Func
			if ok, b := visit(cf, chain+" ← "+fnName(cf)); !ok {
				return false, b
			}
		}
		return true, ""
	}
	for _, e := range p.callersOf(f) {
		cf := e.Caller.Func
		if ok, b := visit(cf, fnName(f)+" ← "+fnName(cf)); !ok {
			return false, b
		}
	}
	return true, ""
}

// hostView: a function as a place where a rule looks for its sites — fn itself, or an unexported
// helper it calls, with the helper's parameters standing for the arguments of that call. A rule
// written over views accepts `e.replacePrefix(e.compLine, e.compCursor)` for the statements the
// helper now holds: val maps the helper's `cursor` back to the caller's `e.compCursor`.
type hostView struct {
	fn   *ssa.Function
	at   ssa.CallInstruction // the call in the outer function (nil for the function itself)
	bind map[*ssa.Parameter]ssa.Value
}

func (hv hostView) val(v ssa.Value) ssa.Value {
	if prm, ok := v.(*ssa.Parameter); ok {
		if a, ok := hv.bind[prm]; ok {
			return a
		}
	}
	return v
}

func hostViews(f *ssa.Function) []hostView {
	out := []hostView{{fn: f}}
	for _, cl := range allCalls(f, false) {
		if _, isCall := cl.(*ssa.Call); !isCall {
			continue
		}
		h := staticCallee(cl)
		if h == nil || h == f || !inRepo(h) || !isPrivateHelper(h) || len(h.Blocks) == 0 {
			continue
		}
		hv := hostView{fn: h, at: cl, bind: map[*ssa.Parameter]ssa.Value{}}
		args := cl.Common().Args
		for i, prm := range h.Params {
			if i < len(args) {
				hv.bind[prm] = args[i]
			}
		}
		out = append(out, hv)
	}
	return out
}
