package main

import (
	"go/token"

	"golang.org/x/tools/go/ssa"
)

// K4 helpers — branch facts known at an instruction.

type FactMap map[*ssa.BasicBlock]map[Fact]bool

func factsAt(bf FactMap, in ssa.Instruction) map[Fact]bool { return bf[in.Block()] }

// sameValue: identical SSA value, or the same pure access path (two loads of
// the same field chain). Optimistic across intervening stores/calls: used only
// to *recognise* guards, which can only reduce reports.
func sameValue(a, b ssa.Value) bool {
	if a == b {
		return true
	}
	pa := accessPath(a)
	return pa != "" && pa == accessPath(b)
}

// nilCmp recognises `v == nil` / `v != nil`. trueMeansNil tells which.
func nilCmp(cond ssa.Value) (v ssa.Value, trueMeansNil bool, ok bool) {
	b, isBin := cond.(*ssa.BinOp)
	if !isBin || (b.Op != token.EQL && b.Op != token.NEQ) {
		return nil, false, false
	}
	switch {
	case isNilConst(b.Y):
		v = b.X
	case isNilConst(b.X):
		v = b.Y
	default:
		return nil, false, false
	}
	return v, b.Op == token.EQL, true
}

// knownNil / knownNonNil: do the facts establish (non-)nilness of v?
func knownNil(facts map[Fact]bool, v ssa.Value) bool {
	for f := range facts {
		if x, tn, ok := nilCmp(f.Cond); ok && sameValue(x, v) && f.Val == tn {
			return true
		}
	}
	return false
}

func knownNonNil(facts map[Fact]bool, v ssa.Value) bool {
	for f := range facts {
		if x, tn, ok := nilCmp(f.Cond); ok && sameValue(x, v) && f.Val != tn {
			return true
		}
	}
	return false
}

// knownBool: do the facts establish that boolean value v is `want`?
func knownBool(facts map[Fact]bool, v ssa.Value, want bool) bool {
	for f := range facts {
		if sameValue(f.Cond, v) && f.Val == want {
			return true
		}
	}
	return false
}

// Relational normal form of an integer comparison: X rel Y.
type Rel struct {
	X, Y ssa.Value
	Op   token.Token // LSS LEQ GTR GEQ EQL NEQ
}

func negateOp(op token.Token) token.Token {
	switch op {
	case token.LSS:
		return token.GEQ
	case token.LEQ:
		return token.GTR
	case token.GTR:
		return token.LEQ
	case token.GEQ:
		return token.LSS
	case token.EQL:
		return token.NEQ
	case token.NEQ:
		return token.EQL
	}
	return token.ILLEGAL
}

func flipOp(op token.Token) token.Token {
	switch op {
	case token.LSS:
		return token.GTR
	case token.LEQ:
		return token.GEQ
	case token.GTR:
		return token.LSS
	case token.GEQ:
		return token.LEQ
	}
	return op
}

// relOf returns the relation that holds when cond evaluates to val.
func relOf(cond ssa.Value, val bool) (Rel, bool) {
	for {
		u, ok := cond.(*ssa.UnOp)
		if !ok || u.Op != token.NOT {
			break
		}
		cond, val = u.X, !val
	}
	b, ok := cond.(*ssa.BinOp)
	if !ok {
		// a predicate extracted into a module function with a single return of a comparison:
		// the relation is the callee's (its operands are the callee's values — loads of the
		// receiver's fields, calls on it — which the rules recognise by type, not by identity)
		if cl, isCall := cond.(*ssa.Call); isCall {
			if callee := cl.Call.StaticCallee(); callee != nil && inRepo(callee) && len(callee.Blocks) == 1 {
				for _, in := range callee.Blocks[0].Instrs {
					if ret, isRet := in.(*ssa.Return); isRet && len(ret.Results) == 1 {
						if _, isCmp := stripNot(ret.Results[0]).(*ssa.BinOp); isCmp {
							return relOf(ret.Results[0], val)
						}
					}
				}
			}
		}
		return Rel{}, false
	}
	switch b.Op {
	case token.LSS, token.LEQ, token.GTR, token.GEQ, token.EQL, token.NEQ:
	default:
		return Rel{}, false
	}
	op := b.Op
	if !val {
		op = negateOp(op)
	}
	return Rel{b.X, b.Y, op}, true
}

// blockReaches: can control starting at block `from` reach an instruction
// satisfying target without entering any block in `avoid`?
func blockReaches(from *ssa.BasicBlock, target func(ssa.Instruction) bool, avoid map[*ssa.BasicBlock]bool) bool {
	seen := map[*ssa.BasicBlock]bool{}
	work := []*ssa.BasicBlock{from}
	for len(work) > 0 {
		b := work[len(work)-1]
		work = work[:len(work)-1]
		if seen[b] || avoid[b] {
			continue
		}
		seen[b] = true
		for _, in := range b.Instrs {
			if target(in) {
				return true
			}
		}
		work = append(work, b.Succs...)
	}
	return false
}

// isInvoke reports an interface method call with the given method name on an
// interface type whose short name is iface (e.g. "history.Source").
func isInvoke(in ssa.Instruction, iface, method string) bool {
	c, ok := in.(ssa.CallInstruction)
	if !ok {
		return false
	}
	cc := c.Common()
	if !cc.IsInvoke() || cc.Method.Name() != method {
		return false
	}
	return typeStr(cc.Value.Type()) == iface
}

// sameMemValue: a and b denote the same value, where field loads with the same
// access path count as equal only if no store to that field can execute between
// the two loads (a before b).
func sameMemValue(a, b ssa.Value) bool {
	if a == b {
		return true
	}
	pa := accessPath(a)
	if pa == "" || pa != accessPath(b) {
		return false
	}
	la, ok1 := a.(*ssa.UnOp)
	lb, ok2 := b.(*ssa.UnOp)
	if !ok1 || !ok2 {
		return true
	}
	tn, fld, ok := fieldOf(la.X)
	if !ok {
		return true
	}
	fn := la.Parent()
	pr := progFor(fn)
	isStore := func(in ssa.Instruction) bool {
		if st, ok := in.(*ssa.Store); ok {
			t2, f2, ok := fieldOf(st.Addr)
			return ok && t2 == tn && f2 == fld
		}
		// a call whose callees (transitively, call graph) store that field
		if ci, ok := in.(ssa.CallInstruction); ok && pr != nil {
			if _, isDefer := in.(*ssa.Defer); isDefer {
				return false // runs at return, after every load
			}
			return pr.callMayWriteField(ci, tn, fld)
		}
		return false
	}
	// a store reachable from a (without passing b) from which b is reachable?
	var stores []ssa.Instruction
	eachInstrRaw(fn, func(in ssa.Instruction) {
		if isStore(in) {
			stores = append(stores, in)
		}
	})
	// a store s with a path  a → … → s → … → b  on which a is not executed
	// again (b itself may be: in a loop the store can follow an earlier
	// execution of b and precede the next one)
	isA := func(in ssa.Instruction) bool { return in == ssa.Instruction(la) }
	for _, s := range stores {
		r1 := pathAvoiding(fn, la, func(in ssa.Instruction) bool { return in == s }, isA)
		if r1 == nil {
			continue
		}
		r2 := pathAvoiding(fn, s, func(in ssa.Instruction) bool { return in == ssa.Instruction(lb) }, isA)
		if r2 != nil {
			return false
		}
	}
	return true
}

func stripNot(v ssa.Value) ssa.Value {
	for {
		u, ok := v.(*ssa.UnOp)
		if !ok || u.Op != token.NOT {
			return v
		}
		v = u.X
	}
}

// reachUnder: the first instruction satisfying target that control can reach from the entry of
// fn when every branch whose condition the assumption decides takes the decided side; paths
// stop at instructions satisfying cut. The assumption is asked about the condition with its
// negations stripped. nil when no such instruction is reachable. Unlike a dominating-facts
// test this does not depend on how the tests are spelled: `if a { return }; if b { return }`
// and `if a || b { return }` prune the same edges.
func reachUnder(fn *ssa.Function, assume func(cond ssa.Value) (val, known bool), target, cut func(ssa.Instruction) bool) ssa.Instruction {
	return reachUnderD(fn, assume, target, cut, 0)
}

func reachUnderD(fn *ssa.Function, assume func(cond ssa.Value) (val, known bool), target, cut func(ssa.Instruction) bool, depth int) ssa.Instruction {
	if len(fn.Blocks) == 0 {
		return nil
	}
	// a call of an unexported helper: a target reachable inside it (its own returns excepted) is
	// reachable here; if no return of the helper is reachable without a cut, the call is a cut
	intoHelper := func(in ssa.Instruction) (found ssa.Instruction, stops bool) {
		cl, ok := in.(*ssa.Call)
		if !ok || depth >= 2 {
			return nil, false
		}
		h := cl.Call.StaticCallee()
		if h == nil || h == fn || !inRepo(h) || !isPrivateHelper(h) || len(h.Blocks) == 0 {
			return nil, false
		}
		if t := reachUnderD(h, assume, func(x ssa.Instruction) bool { return !isReturn(x) && target(x) }, cut, depth+1); t != nil {
			return t, false
		}
		if cut != nil && reachUnderD(h, assume, func(x ssa.Instruction) bool { return isReturn(x) && x.Block() != h.Recover }, cut, depth+1) == nil {
			return nil, true
		}
		return nil, false
	}
	seen := map[*ssa.BasicBlock]bool{}
	work := []*ssa.BasicBlock{fn.Blocks[0]}
	for len(work) > 0 {
		b := work[len(work)-1]
		work = work[:len(work)-1]
		if seen[b] {
			continue
		}
		seen[b] = true
		stopped := false
		for _, in := range b.Instrs {
			if target(in) {
				return in
			}
			if cut != nil && cut(in) {
				stopped = true
				break
			}
			if t, stops := intoHelper(in); t != nil {
				return t
			} else if stops {
				stopped = true
				break
			}
		}
		if stopped {
			continue
		}
		if iff, ok := b.Instrs[len(b.Instrs)-1].(*ssa.If); ok && len(b.Succs) == 2 {
			cond, flip := iff.Cond, false
			for {
				u, isU := cond.(*ssa.UnOp)
				if !isU || u.Op != token.NOT {
					break
				}
				cond, flip = u.X, !flip
			}
			v, known := assume(cond)
			if !known {
				// a condition computed by an unexported helper of the module (`if hasAvailableKeys(keys)`): the
				// value every return reachable in the helper under the same assumption agrees on
				v, known = helperCondUnder(cond, assume, 0)
			}
			if known {
				if v != flip {
					work = append(work, b.Succs[0])
				} else {
					work = append(work, b.Succs[1])
				}
				continue
			}
		}
		work = append(work, b.Succs...)
	}
	return nil
}

// lenPositiveCond: the value of cond when len(x) > 0 (pos) or len(x) == 0 (!pos) for the x that
// isX accepts; known is false when cond is not such a test.
func lenPositiveCond(cond ssa.Value, isX func(ssa.Value) bool, pos bool) (val, known bool) {
	rel, ok := relOf(cond, true)
	if !ok {
		return false, false
	}
	x, y, op := rel.X, rel.Y, rel.Op
	if !isLenCall(x) {
		x, y, op = y, x, flipOp(op)
	}
	if !isLenCall(x) || !isX(x.(*ssa.Call).Call.Args[0]) {
		return false, false
	}
	k, ok := constInt(y)
	if !ok {
		return false, false
	}
	// evaluate len OP k with len >= 1 (pos) or len == 0
	if !pos {
		switch op {
		case token.GTR:
			return 0 > k, true
		case token.GEQ:
			return 0 >= k, true
		case token.LSS:
			return 0 < k, true
		case token.LEQ:
			return 0 <= k, true
		case token.EQL:
			return 0 == k, true
		case token.NEQ:
			return 0 != k, true
		}
		return false, false
	}
	switch op {
	case token.GTR: // len > k: certain when k <= 0
		if k <= 0 {
			return true, true
		}
	case token.GEQ:
		if k <= 1 {
			return true, true
		}
	case token.LSS: // len < k: false when k <= 1
		if k <= 1 {
			return false, true
		}
	case token.LEQ:
		if k <= 0 {
			return false, true
		}
	case token.EQL:
		if k <= 0 {
			return false, true
		}
	case token.NEQ:
		if k <= 0 {
			return true, true
		}
	}
	return false, false
}

// helperCondUnder: cond is a call of an unexported boolean helper; explore the helper with the
// branches the assumption decides pruned and collect what its reachable returns return: known when
// they all return the same constant (a phi of constants counts edge by edge only when every edge agrees).
func helperCondUnder(cond ssa.Value, assume func(ssa.Value) (bool, bool), depth int) (val, known bool) {
	cl, ok := cond.(*ssa.Call)
	if !ok || depth >= 2 {
		return false, false
	}
	h := cl.Call.StaticCallee()
	if h == nil || !inRepo(h) || !isPrivateHelper(h) || len(h.Blocks) == 0 || h.Signature.Results().Len() != 1 {
		return false, false
	}
	seen := map[*ssa.BasicBlock]bool{}
	type item struct{ b, from *ssa.BasicBlock }
	work := []item{{h.Blocks[0], nil}}
	first, any, agree := false, false, true
	note := func(k bool) {
		if !any {
			first, any = k, true
		} else if k != first {
			agree = false
		}
	}
	for len(work) > 0 && agree {
		it := work[len(work)-1]
		work = work[:len(work)-1]
		b := it.b
		// a return block reached over several edges returns what its phi holds on each of them
		if ret, isRet := b.Instrs[len(b.Instrs)-1].(*ssa.Return); isRet && len(ret.Results) == 1 {
			r := ret.Results[0]
			if ph, isPhi := r.(*ssa.Phi); isPhi && ph.Block() == b && it.from != nil {
				for i, p := range b.Preds {
					if p == it.from {
						if k, isK := constBool(ph.Edges[i]); isK {
							note(k)
						} else {
							return false, false
						}
					}
				}
				continue
			}
			if seen[b] {
				continue
			}
			seen[b] = true
			if k, isK := constBool(r); isK {
				note(k)
				continue
			}
			return false, false
		}
		if seen[b] {
			continue
		}
		seen[b] = true
		if iff, ok := b.Instrs[len(b.Instrs)-1].(*ssa.If); ok && len(b.Succs) == 2 {
			c, flip := iff.Cond, false
			for {
				u, isU := c.(*ssa.UnOp)
				if !isU || u.Op != token.NOT {
					break
				}
				c, flip = u.X, !flip
			}
			v, k := assume(c)
			if !k {
				v, k = helperCondUnder(c, assume, depth+1)
			}
			if k {
				if v != flip {
					work = append(work, item{b.Succs[0], b})
				} else {
					work = append(work, item{b.Succs[1], b})
				}
				continue
			}
		}
		for _, sc := range b.Succs {
			work = append(work, item{sc, b})
		}
	}
	if !any || !agree {
		return false, false
	}
	return first, true
}
