package main

import (
	"fmt"
	"go/constant"
	"go/token"
	"go/types"
	"sort"
	"strings"

	"golang.org/x/tools/go/ssa"
)

// Rules added after seeding round 4 (DESIGN.md §11).

// ---- key-code tables: the control / meta encodings of package inputrc
func checkKeyCodeTables(c *Ctx, rule string) {
	p, r := c.P, c.R
	r.Rule(rule, "K5", "the key-code helpers of package inputrc keep their tables: IsMeta is the inclusive range Delete < c <= 0xff, Decontrol sets bit 0x40, Encontrol masks with Control (0x1f), Enmeta / Demeta set / clear Meta (0x80)", 4)
	intConsts := func(f *ssa.Function) map[int64]token.Token {
		out := map[int64]token.Token{}
		eachInstr(f, func(in ssa.Instruction) {
			if bo, ok := in.(*ssa.BinOp); ok {
				if k, isK := constInt(bo.Y); isK {
					out[k] = bo.Op
				}
				if k, isK := constInt(bo.X); isK {
					out[k] = bo.Op
				}
			}
		})
		return out
	}
	type want struct {
		fn   string
		k    int64
		op   token.Token
		what string
	}
	for _, w := range []want{
		{"inputrc.IsMeta", 0xff, token.LEQ, "c <= 0xff (0xff, Meta-Rubout, is a meta key)"},
		{"inputrc.IsMeta", 0x7f, token.GTR, "c > Delete"},
		{"inputrc.Decontrol", 0x40, token.OR, "c | 0x40 (maps 0x00–0x1f onto '@'–'_')"},
		{"inputrc.Encontrol", 0x1f, token.AND, "c & Control"},
		{"inputrc.Enmeta", 0x80, token.OR, "c | Meta"},
		{"inputrc.Demeta", 0x80, token.AND_NOT, "c &^ Meta"},
	} {
		f := p.Func(w.fn)
		if f == nil {
			r.Unk(rule, w.fn, "-", "anchor not found")
			continue
		}
		r.Fn(w.fn)
		cs := intConsts(f)
		op, ok := cs[w.k]
		// Demeta may be written c & ^Meta (constant -129 / 0x7f mask) instead of &^
		if w.fn == "inputrc.Demeta" && !ok {
			if o2, ok2 := cs[^int64(0x80)]; ok2 && o2 == token.AND {
				op, ok = token.AND_NOT, true
			}
			if o2, ok2 := cs[0x7f]; ok2 && o2 == token.AND {
				op, ok = token.AND_NOT, true
			}
		}
		r.Check(ok && op == w.op, rule, fmt.Sprintf("%s:%#x", w.fn, w.k), p.Pos(f.Pos()), w.what, fmt.Sprintf("%s no longer computes %s: some key code is encoded by one side of the bind tables / macro codec and not recognised by the other", w.fn, w.what))
	}
}

// ---- C18.pop-order: every function that takes a key off the queues agrees with PeekKey
func checkPopOrder(c *Ctx, rule string) {
	p, r := c.P, c.R
	r.Rule(rule, "K5", "Keys.Pop and PopForce take the next key from the same source order as PopKey / PeekKey (typed keys first): keys the dispatcher pushed back for a command's argument are the ones the command reads", 1)
	order := func(f *ssa.Function) []string {
		var out []string
		for _, b := range f.Blocks {
			for _, in := range b.Instrs {
				bo, ok := in.(*ssa.BinOp)
				if !ok || (bo.Op != token.GTR && bo.Op != token.NEQ && bo.Op != token.EQL) || !isLenCall(bo.X) {
					continue
				}
				if _, fld, ok := fieldRead(bo.X.(*ssa.Call).Call.Args[0]); ok && (fld == "buf" || fld == "macroKeys") {
					out = append(out, fld)
				}
			}
		}
		return out
	}
	ref := p.Func("core.PopKey")
	if ref == nil {
		r.Unk(rule, "core.PopKey", "-", "anchor not found")
		return
	}
	want := strings.Join(order(ref), ",")
	for _, fn := range []string{"(*core.Keys).Pop", "core.PopForce"} {
		f := p.Func(fn)
		if f == nil {
			continue
		}
		got := order(f)
		if len(got) < 2 {
			continue // does not choose between the two sources
		}
		r.Fn(fn)
		r.Check(strings.Join(got, ",") == want, rule, fn+"~core.PopKey", p.Pos(f.Pos()), "same order: "+want, fmt.Sprintf("%s consults %v but PopKey consults [%s]: during a macro replay the surround / argument key pushed back by the dispatcher is skipped and the next macro key is taken as the argument", fn, got, want))
	}
}

// ---- C10.tail-check-guard / C10.write-before-success
func checkC10Round4(c *Ctx) {
	p, r := c.P, c.R
	W := p.Func("(*history.fileHistory).Write")
	r.Rule("C10.tail-check-guard", "K4", "the last byte of the history file is inspected whenever the file is not empty (Size() > 0), at offset Size()-1, and decides by being compared with the record terminator '\\n'", 3)
	r.Rule("C10.write-before-success", "K1", "fileHistory.Write reports success for a non-blank line only after it appended the record to the file", 1)
	if W == nil {
		r.Unk("C10.tail-check-guard", "(*history.fileHistory).Write", "-", "anchor not found")
		return
	}
	r.Fn(fnName(W))
	bf := blockFacts(W)
	isSize := func(v ssa.Value) bool {
		cl, ok := v.(*ssa.Call)
		return ok && cl.Call.IsInvoke() && cl.Call.Method.Name() == "Size"
	}
	for i, ra := range callsTo(W, false, "(*os.File).ReadAt") {
		guard := false
		for fc := range factsAt(bf, ra.(ssa.Instruction)) {
			rel, ok := relOf(fc.Cond, fc.Val)
			if !ok || !isSize(rel.X) {
				continue
			}
			if k, isK := constInt(rel.Y); isK && ((rel.Op == token.GTR && k == 0) || (rel.Op == token.GEQ && k == 1) || (rel.Op == token.NEQ && k == 0)) {
				guard = true
			}
		}
		r.Check(guard, "C10.tail-check-guard", siteKey(W, "ReadAt-guard", i), p.IPos(ra.(ssa.Instruction)), "under Size() > 0", "the tail check does not run for every non-empty file (its guard is not Size() > 0): a file holding a single torn byte gets the next record glued to it")
		off := ra.Common().Args[2]
		okOff := false
		if bo, ok := off.(*ssa.BinOp); ok && bo.Op == token.SUB && isSize(bo.X) {
			if k, isK := constInt(bo.Y); isK && k == 1 {
				okOff = true
			}
		}
		r.Check(okOff, "C10.tail-check-guard", siteKey(W, "ReadAt-offset", i), p.IPos(ra.(ssa.Instruction)), "offset Size()-1", "the tail check does not read the last byte (offset Size()-1): it reads past the end, fails, and the fresh-line repair is silently skipped")
		// the byte read decides by being compared with '\n' — the record terminator — and nothing else
		buf := ra.Common().Args[1]
		nlTest := false
		eachInstr(W, func(x ssa.Instruction) {
			bo, ok := x.(*ssa.BinOp)
			if !ok || (bo.Op != token.NEQ && bo.Op != token.EQL) {
				return
			}
			k, isK := constInt(bo.Y)
			if !isK || k != '\n' {
				return
			}
			ld, ok := stripConv(bo.X).(*ssa.UnOp)
			if !ok || ld.Op != token.MUL {
				return
			}
			ia, ok := ld.X.(*ssa.IndexAddr)
			if !ok {
				return
			}
			if ia.X == buf || sameValue(ia.X, buf) {
				// and it is a branch condition
				if refs := bo.Referrers(); refs != nil {
					for _, rf := range *refs {
						if _, isIf := rf.(*ssa.If); isIf {
							nlTest = true
						}
					}
				}
			}
		})
		r.Check(nlTest, "C10.tail-check-guard", siteKey(W, "ReadAt-newline-test", i), p.IPos(ra.(ssa.Instruction)), "the byte read is compared with '\\n'", "the last byte of the file is not tested against '\\n' (the record terminator): a torn record ending in another byte the test lets through (a space, the last byte of a multi-byte character) is taken for a complete one, and the next entry is glued to it and lost")
	}
	// every return whose error result may be nil and whose count is not the literal 0 (blank line) passes the file write
	isFileWrite := func(in ssa.Instruction) bool { return isCallTo(in, "(*os.File).Write", "(*os.File).WriteString") }
	okAll := true
	eachInstr(W, func(in ssa.Instruction) {
		ret, ok := in.(*ssa.Return)
		if !ok || len(ret.Results) != 2 || !isNilConst(ret.Results[1]) {
			return
		}
		if k, isK := constInt(ret.Results[0]); isK && k == 0 {
			return // the blank-line return
		}
		if w := pathAvoiding(W, nil, func(x ssa.Instruction) bool { return x == in }, isFileWrite); w != nil {
			okAll = false
		}
	})
	r.Check(okAll, "C10.write-before-success", fnName(W)+":nil-error-returns", p.Pos(W.Pos()), "every success return follows the file append", "a path returns (n, nil) without having appended to the file (a line equal to the last in-memory entry): after a failed write the retry is reported written and is gone after a restart")
}

// ---- C04.hint-rows-after-display / C04.secondary-prompt-column
func checkC04Round4(c *Ctx) {
	p, r := c.P, c.R
	r.Rule("C04.hint-rows-after-display", "K1", "displayHelpers measures the hint (CoordinatesHint) after DisplayHint printed it — DisplayHint drops an expired temporary hint — and climbs back by a fresh measure", 2)
	DH := p.Func("(*display.Engine).displayHelpers")
	if DH == nil {
		r.Unk("C04.hint-rows-after-display", "(*display.Engine).displayHelpers", "-", "anchor not found")
	} else {
		r.Fn(fnName(DH))
		disp := callsTo(DH, false, "ui.DisplayHint")
		n := 0
		for i, ch := range callsTo(DH, false, "ui.CoordinatesHint") {
			n++
			after := false
			for _, d := range disp {
				if instrDominates(d.(ssa.Instruction), ch.(ssa.Instruction)) {
					after = true
				}
			}
			r.Check(after, "C04.hint-rows-after-display", siteKey(DH, "CoordinatesHint", i), p.IPos(ch.(ssa.Instruction)), "measured after DisplayHint", "the hint rows are counted before DisplayHint runs: on the redisplay that drops an expired temporary hint the count is one row too many and the prompt creeps up")
		}
		// the upward move over the hint uses a CoordinatesHint result (not a stored field)
		for i, mv := range callsTo(DH, false, "term.MoveCursorUp") {
			arg := mv.Common().Args[0]
			if _, fld, ok := fieldRead(arg); ok && fld == "hintRows" {
				r.Bad("C04.hint-rows-after-display", siteKey(DH, "MoveCursorUp(hintRows)", i), p.IPos(mv.(ssa.Instruction)), "the climb back over the hint uses the stored row count instead of a fresh measure taken after the hint was printed")
			}
		}
		if n == 0 {
			r.Unk("C04.hint-rows-after-display", fnName(DH)+":CoordinatesHint", "-", "no hint measure found")
		}
	}
	r.Rule("C04.secondary-prompt-column", "K5", "after the secondary prompt, displayMultilinePrompts puts the cursor back on the column where the text ends (lineCol) — the same column it tells the right prompt the text ends at", 1)
	DM := p.Func("(*display.Engine).displayMultilinePrompts")
	if DM == nil {
		r.Unk("C04.secondary-prompt-column", "(*display.Engine).displayMultilinePrompts", "-", "anchor not found")
		return
	}
	r.Fn(fnName(DM))
	var rightCol string
	for _, rp := range callsTo(DM, false, "(*ui.Prompt).RightPrint") {
		for _, a := range rp.Common().Args[1:] {
			if _, fld, ok := fieldRead(a); ok && strings.HasSuffix(fld, "Col") {
				rightCol = fld
			}
		}
	}
	n := 0
	for i, mv := range callsTo(DM, false, "term.MoveCursorForwards") {
		_, fld, ok := fieldRead(mv.Common().Args[0])
		if !ok {
			continue
		}
		n++
		r.Check(rightCol == "" || fld == rightCol, "C04.secondary-prompt-column", siteKey(DM, "MoveCursorForwards", i), p.IPos(mv.(ssa.Instruction)), "same column as the right prompt is given: "+fld, "the cursor is put back on "+fld+" while the right prompt is told the text ends at "+rightCol+": its padding overwrites the last row or overflows onto the next one")
	}
	if n == 0 {
		r.OK("C04.secondary-prompt-column", fnName(DM)+":no-move", p.Pos(DM.Pos()), "no forward move by a column field")
	}
}

// ---- guard-only: a call is conditioned by nothing but the listed kinds of facts
func extraFacts(bf FactMap, at ssa.Instruction, allowed func(v ssa.Value) bool) string {
	for fc := range factsAt(bf, at) {
		var v ssa.Value = fc.Cond
		if u, ok := v.(*ssa.UnOp); ok && u.Op == token.NOT {
			v = u.X
		}
		if !allowed(v) {
			return v.String()
		}
	}
	return ""
}

// ---- C08.write-guard: Accept records the line whenever it is accepted without an error
func checkC08WriteGuard(c *Ctx) {
	p, r := c.P, c.R
	r.Rule("C08.write-guard", "K4", "Sources.Accept calls Write under `err == nil` and nothing else (no state of an earlier acceptance decides whether this line is recorded)", 1)
	A := p.Func(fnSourcesAccept)
	if A == nil {
		r.Unk("C08.write-guard", fnSourcesAccept, "-", "anchor not found")
		return
	}
	r.Fn(fnName(A))
	bf := blockFacts(A)
	n := 0
	for i, w := range callsTo(A, false, "(*history.Sources).Write") {
		n++
		extra := extraFacts(bf, w.(ssa.Instruction), func(v ssa.Value) bool {
			if x, _, isNil := nilCmp(v); isNil {
				_, isP := x.(*ssa.Parameter)
				return isP
			}
			return false
		})
		r.Check(extra == "", "C08.write-guard", siteKey(A, "Write", i), p.IPos(w.(ssa.Instruction)), "under err == nil only", "the line is recorded only under an extra condition ("+extra+"): an accepted line can be returned to the caller and recorded nowhere")
	}
	if n == 0 {
		r.Bad("C08.write-guard", fnName(A)+":Write", p.Pos(A.Pos()), "Accept no longer records the line")
	}
}

// ---- C09.search-text-agreement / C09.repeat-search-cursor / C07+C09 sibling prologue
func checkC09Round4(c *Ctx) {
	p, r := c.P, c.R
	checkC09WalkDown(c)
	r.Rule("C09.filter-prefix-agreement", "K5", "history.Complete filters the entries on the same text it hands to the completion engine as the prefix to replace (the whole line)", 1)
	if CP := p.Func("history.Complete"); CP != nil {
		r.Fn(fnName(CP))
		// the PREFIX store and the HasPrefix filter argument: both must be string(*h.line) conversions of the same load shape
		shape := func(v ssa.Value) string {
			cv, ok := v.(*ssa.Convert)
			if !ok {
				return "other:" + v.String()
			}
			x := cv.X
			if sl, isSl := x.(*ssa.Slice); isSl {
				return "slice-of:" + accessPath(sl.X)
			}
			return "whole:" + accessPath(x)
		}
		var pre, filt string
		eachInstr(CP, func(in ssa.Instruction) {
			if st, ok := in.(*ssa.Store); ok {
				if _, fld, ok := fieldOf(st.Addr); ok && fld == "PREFIX" {
					pre = shape(st.Val)
				}
			}
			if cl, ok := in.(*ssa.Call); ok && calleeName(cl) == "strings.HasPrefix" {
				filt = shape(cl.Call.Args[1])
			}
		})
		if pre == "" || filt == "" {
			r.Unk("C09.filter-prefix-agreement", fnName(CP), "-", "prefix store or filter not found")
		} else {
			r.Check(pre == filt, "C09.filter-prefix-agreement", fnName(CP)+":PREFIX~filter", p.Pos(CP.Pos()), "same text: "+pre, "the entries are filtered on "+filt+" but the engine is told to replace "+pre+": selecting a match with the cursor inside the line leaves the text after the cursor behind the inserted entry")
		}
	}
	r.Rule("C09.repeat-search-cursor", "K1", "NonIsearchStart leaves the minibuffer cursor at the end of the (possibly restored) search text: only the text before the cursor is searched for", 1)
	if NS := p.Func("(*completion.Engine).NonIsearchStart"); NS != nil {
		r.Fn(fnName(NS))
		// every path from a Line.Set on the minibuffer (restoring the last search) to the return passes Cursor.Set
		n := 0
		for i, st := range callsTo(NS, false, "(*core.Line).Set") {
			n++
			ok, _ := mustPassBefore(NS, st.(ssa.Instruction), isReturn, func(in ssa.Instruction) bool {
				return isCallTo(in, "(*core.Cursor).Set")
			})
			r.Check(ok, "C09.repeat-search-cursor", siteKey(NS, "restore", i), p.IPos(st.(ssa.Instruction)), "cursor set after the text is restored", "the previous search text is put back in the minibuffer but the cursor stays at 0: vi-search-again searches for the empty string and lands on the neighbouring entry")
		}
		if n == 0 {
			r.OK("C09.repeat-search-cursor", fnName(NS)+":no-restore", p.Pos(NS.Pos()), "no search text is restored")
		}
	}
	r.Rule("C09.search-sibling-prologue", "K5", "history-search-backward and history-search-forward start the same way (both save the buffer before searching): the state the search leaves behind does not depend on the direction", 1)
	B, F := p.Func("(*readline.Shell).historySearchBackward"), p.Func("(*readline.Shell).historySearchForward")
	if B != nil && F != nil {
		r.Fn(fnName(B), fnName(F))
		calls := func(f *ssa.Function) string {
			var out []string
			eachInstr(f, func(in ssa.Instruction) {
				if ci, ok := in.(ssa.CallInstruction); ok {
					if n := calleeName(ci); strings.HasPrefix(n, "(*history.Sources).") {
						out = append(out, strings.TrimPrefix(n, "(*history.Sources)."))
					}
				}
			})
			return strings.Join(out, ",")
		}
		r.Check(calls(B) == calls(F), "C09.search-sibling-prologue", "historySearchBackward~historySearchForward", p.Pos(B.Pos()), "same history calls: "+calls(B), fmt.Sprintf("the two prefix searches call the history differently (%s vs %s): one of them no longer saves the buffer first, and the line it lands on is never recorded as that line's first undo state", calls(B), calls(F)))
	}
}

// ---- C20.printf-clears-below / C20.wait-returns-keys
func checkC20Round4(c *Ctx) {
	p, r := c.P, c.R
	r.Rule("C20.printf-clears-below", "K5", "Shell.Printf erases everything below the input (ClearScreenBelow) before it prints a message that may span several rows", 1)
	if PF := p.Func("(*readline.Shell).Printf"); PF != nil {
		r.Fn(fnName(PF))
		want := ""
		if tp := p.Pkg("internal/term"); tp != nil {
			if cst, ok := tp.Types.Scope().Lookup("ClearScreenBelow").(*types.Const); ok {
				want = constant.StringVal(cst.Val())
			}
		}
		found := false
		eachInstr(PF, func(in ssa.Instruction) {
			if !isCallTo(in, "fmt.Print", "fmt.Printf") {
				return
			}
			for _, a := range in.(ssa.CallInstruction).Common().Args {
				for _, lf := range backSlice(a, &SliceOpts{P: p, ElemOf: true}) {
					if s, ok := constString(lf.V); ok && want != "" && s == want {
						found = true
					}
				}
			}
		})
		r.Check(found, "C20.printf-clears-below", fnName(PF)+":ClearScreenBelow", p.Pos(PF.Pos()), "prints ClearScreenBelow", "Printf does not erase the rows below the input before printing: a message of several rows is written over old hint / completion rows, which stay on screen")
	}
	// ---- C20.prompt-print-recorded: a prompt printed on a fresh row is recorded, so that the redisplay does not climb back
	r.Rule("C20.prompt-print-recorded", "K2", "the primary prompt is printed only through (*display.Engine).PrintPrimaryPrompt, which records it: Refresh moves the cursor up by the (old) cursor row unless it knows the prompt was just printed, so a message followed by a bare Prompt.PrimaryPrint and a Refresh — Shell.Printf from another goroutine — is overwritten whenever the cursor is not on the first row of the input", 1)
	if PP := p.Func("(*ui.Prompt).PrimaryPrint"); PP != nil {
		n := 0
		for _, e := range p.callersOf(PP) {
			F := e.Caller.Func
			if F == nil || !inRepo(F) || e.Site == nil {
				continue
			}
			n++
			ok := fnName(F) == "(*display.Engine).PrintPrimaryPrompt"
			if !ok {
				// recorded all the same when the caller itself stores primaryPrinted = true on every path to its return
				rec := func(x ssa.Instruction) bool {
					st, is := isFieldStore(x, "display.Engine", "primaryPrinted")
					if !is {
						return false
					}
					b, isB := constBool(st.Val)
					return isB && b
				}
				ok = pathAvoiding(F, e.Site, isReturn, rec) == nil
			}
			r.Check(ok, "C20.prompt-print-recorded", fnName(F)+":PrimaryPrint", p.IPos(e.Site), "printed through the display engine, which records it", fnName(F)+" prints the primary prompt directly: the display engine does not know, and the Refresh that follows first moves the cursor up by the cursor row of the previous display — with the cursor on a wrapped or second row, onto the message just printed, which is overwritten")
		}
		if n == 0 {
			r.Unk("C20.prompt-print-recorded", "(*ui.Prompt).PrimaryPrint:callers", p.Pos(PP.Pos()), "nothing prints the primary prompt: anchor changed")
		}
	} else {
		r.Unk("C20.prompt-print-recorded", "(*ui.Prompt).PrimaryPrint", "-", "anchor not found")
	}
	r.Rule("C20.wait-returns-keys", "K4", "WaitAvailableKeys returns to the main loop only with keys in hand: after a read that held nothing but a cursor report (a resize redisplay) it keeps waiting, whatever the reading state", 1)
	W := p.Func("core.WaitAvailableKeys")
	if W == nil {
		r.Unk("C20.wait-returns-keys", "core.WaitAvailableKeys", "-", "anchor not found")
		return
	}
	r.Fn(fnName(W))
	bf := blockFacts(W)
	// the success return that follows a read: len(keyBuf) known > 0
	var read *ssa.Call
	for _, cl := range callsTo(W, false, "(*core.Keys).readInputFiltered") {
		read, _ = cl.(*ssa.Call)
	}
	if read == nil {
		r.Unk("C20.wait-returns-keys", fnName(W)+":read", "-", "the read was not found")
		return
	}
	var buf ssa.Value
	for _, ref := range referrersOf(read) {
		if ex, ok := ref.(*ssa.Extract); ok && ex.Index == 0 {
			buf = ex
		}
	}
	okAll, n := true, 0
	eachInstr(W, func(in ssa.Instruction) {
		ret, ok := in.(*ssa.Return)
		if !ok || len(ret.Results) != 1 || in.Block() == W.Recover {
			return
		}
		// the result is spilled (deferred cleanup): a success return is one that may return nil
		mayNil := isNilConst(ret.Results[0])
		for _, v := range mayValues(ret.Results[0]) {
			if isNilConst(v) {
				mayNil = true
			}
		}
		if !mayNil {
			return
		}
		if !instrDominates(read, in) {
			return // the early return with buffered keys
		}
		n++
		nonEmpty := false
		for fc := range factsAt(bf, in) {
			rel, isR := relOf(fc.Cond, fc.Val)
			if !isR || !isLenOf(rel.X, buf) {
				continue
			}
			if k, isK := constInt(rel.Y); isK && ((rel.Op == token.GTR && k == 0) || (rel.Op == token.NEQ && k == 0) || (rel.Op == token.GEQ && k == 1)) {
				nonEmpty = true
			}
		}
		if !nonEmpty {
			okAll = false
		}
	})
	r.Check(okAll && n > 0, "C20.wait-returns-keys", fnName(W)+":return-after-read", p.Pos(W.Pos()), "under len(keyBuf) > 0", "a path returns to the main loop after a read that may have held only a cursor report: with no key to dispatch the previous command runs a second time (a resize after Backspace deletes two characters)")
}

// ---- C14.isearch-stop-resets / C17.same-empty-guard / C16.search-buffer-selection / C02 continuation test / C05.macro-keys-flag
func checkRound4Misc(c *Ctx, which string) {
	p, r := c.P, c.R
	switch which {
	case "C14":
		r.Rule("C14.isearch-stop-resets", "K1", "IsearchStop clears the forced-autocompletion flag on every path (a flag left set makes the next menu's Ctrl-C accept the candidate instead of restoring the line)", 1)
		if IS := p.Func("(*completion.Engine).IsearchStop"); IS != nil {
			r.Fn(fnName(IS))
			for _, fld := range []string{"autoForce", "auto"} {
				ok, _ := mustPassBefore(IS, nil, isReturn, func(in ssa.Instruction) bool {
					st, is := isFieldStore(in, "completion.Engine", fld)
					if !is {
						return false
					}
					b, isK := constBool(st.Val)
					return isK && !b
				})
				r.Check(ok, "C14.isearch-stop-resets", fnName(IS)+":"+fld+"=false", p.Pos(IS.Pos()), "cleared on every path", "IsearchStop returns with "+fld+" still set: after a history autocompletion menu was cancelled, Ctrl-C on the application's menu accepts the inserted candidate instead of restoring the typed text")
			}
		}
	case "C17":
		r.Rule("C17.same-empty-guard", "K5", "Selection.Pop (yank), Selection.Text and Selection.Cut (delete) give up on the same condition: an empty line (Len() == 0), not a short one", 2)
		for _, fn := range []string{"(*core.Selection).Pop", "(*core.Selection).Text", "(*core.Selection).Cut", "(*core.Selection).Len"} {
			f := p.Func(fn)
			if f == nil {
				continue
			}
			k := 0
			eachInstr(f, func(in ssa.Instruction) {
				bo, ok := in.(*ssa.BinOp)
				if !ok {
					return
				}
				cl, isC := bo.X.(*ssa.Call)
				if !isC || calleeName(cl) != "(*core.Line).Len" {
					return
				}
				kv, isK := constInt(bo.Y)
				if !isK {
					return
				}
				// only guards that lead straight to a return
				r.Fn(fn)
				good := (bo.Op == token.EQL && kv == 0) || (bo.Op == token.NEQ && kv == 0) || (bo.Op == token.LEQ && kv == 0) || (bo.Op == token.GTR && kv == 0) || (bo.Op == token.LSS && kv == 1)
				r.Check(good, "C17.same-empty-guard", fmt.Sprintf("%s:Len-guard#%d", fn, k), p.IPos(in), "Len() == 0", fmt.Sprintf("%s gives up when Len() %s %d, its siblings when the line is empty: on a buffer of that length the yank copies nothing while the delete of the same motion removes and stores the text", fn, bo.Op, kv))
				k++
			})
		}
	case "C16":
		r.Rule("C16.search-buffer-selection", "K3", "in search mode GetBuffer pairs the minibuffer and its cursor with a selection built on them (kills run on the minibuffer cut the minibuffer, not the input line)", 1)
		if GB := p.Func("(*completion.Engine).GetBuffer"); GB != nil {
			r.Fn(fnName(GB))
			n := 0
			eachInstr(GB, func(in ssa.Instruction) {
				ret, ok := in.(*ssa.Return)
				if !ok || len(ret.Results) != 3 {
					return
				}
				if _, fld, ok := fieldRead(ret.Results[0]); !ok || fld != "isearchBuf" {
					return
				}
				n++
				good := false
				if cl, ok := ret.Results[2].(*ssa.Call); ok && calleeName(cl) == "core.NewSelection" {
					good = sameValue(cl.Call.Args[0], ret.Results[0]) && sameValue(cl.Call.Args[1], ret.Results[1])
				}
				r.Check(good, "C16.search-buffer-selection", siteKey(GB, "isearch-return", n-1), p.IPos(in), "NewSelection(isearchBuf, isearchCur)", "the search minibuffer is returned together with a selection bound to another line: a kill typed in the minibuffer cuts text out of the input line, and the yank inserts that foreign text")
			})
			if n == 0 {
				r.Unk("C16.search-buffer-selection", fnName(GB), "-", "the search-mode return was not found")
			}
		}
	case "C02":
		DC := p.Func("(*keymap.Engine).dispatchCharacter")
		if DC == nil {
			return
		}
		bf := blockFacts(DC)
		for i, pk := range callsTo(DC, false, "core.PopKey") {
			extra := extraFacts(bf, pk.(ssa.Instruction), func(v ssa.Value) bool {
				if cl, ok := v.(*ssa.Call); ok {
					n := calleeName(cl)
					return n == "unicode/utf8.RuneStart" || n == "unicode/utf8.FullRune"
				}
				if ex, ok := v.(*ssa.Extract); ok {
					if cl, ok := ex.Tuple.(*ssa.Call); ok && calleeName(cl) == "core.PeekKey" {
						return true
					}
				}
				return false
			})
			r.Check(extra == "", "C02.multibyte-dispatch", fmt.Sprintf("%s:continuation-test#%d", fnName(DC), i), p.IPos(pk.(ssa.Instruction)), "a continuation byte is whatever utf8.RuneStart rejects", "a continuation byte is accepted only under an extra test ("+extra+"): some byte value (0x80) is taken for the start of another character and the typed character is dropped")
		}
	case "C05":
		r.Rule("C05.macro-keys-flag", "K4", "MacroKeys withholds the matched keys exactly while a prefix is pending (Keys.mustWait) — the flag MatchedPrefix sets — so a sequence cut across two reads is recorded once", 1)
		if MK := p.Func("core.MacroKeys"); MK != nil {
			r.Fn(fnName(MK))
			bf := blockFacts(MK)
			okF := false
			n := 0
			eachInstr(MK, func(in ssa.Instruction) {
				ret, ok := in.(*ssa.Return)
				if !ok || !isNilConst(ret.Results[0]) {
					return
				}
				n++
				for fc := range factsAt(bf, in) {
					if _, fld, ok := fieldRead(fc.Cond); ok && fld == "mustWait" && fc.Val {
						okF = true
					}
				}
			})
			r.Check(okF && n > 0, "C05.macro-keys-flag", fnName(MK)+":nil-under-mustWait", p.Pos(MK.Pos()), "nil under mustWait", "MacroKeys does not test Keys.mustWait: while a macro is recorded, the first part of a key sequence cut across two reads is recorded twice and the replay differs from what was typed")
		}
	}
}

// ---- nil-belief (Engler): a pointer field that the package tests for nil before using it is tested at every use
func checkNilBelief(c *Ctx, rule string) {
	p, r := c.P, c.R
	r.Rule(rule, "K4", "a pointer-typed struct field that most of its users test for nil before calling a method on it is tested by all of them (or assigned non-nil in the function): a sibling that forgot the test dereferences nil in the state the others guard against", 1)
	type use struct {
		f       *ssa.Function
		in      ssa.Instruction
		guarded bool
	}
	uses := map[string][]use{}
	for _, f := range p.RepoFuncs {
		if len(f.Blocks) == 0 {
			continue
		}
		var bf FactMap
		eachInstr(f, func(in ssa.Instruction) {
			cl, ok := in.(*ssa.Call)
			if !ok || cl.Call.IsInvoke() || len(cl.Call.Args) == 0 {
				return
			}
			callee := staticCallee(cl)
			if callee == nil || callee.Signature.Recv() == nil {
				return
			}
			recv := cl.Call.Args[0]
			ld, ok := recv.(*ssa.UnOp)
			if !ok || ld.Op != token.MUL {
				return
			}
			tn, fld, ok := fieldOf(ld.X)
			if !ok {
				return
			}
			if _, isPtr := recv.Type().Underlying().(*types.Pointer); !isPtr {
				return
			}
			// only external pointer types whose methods dereference (regexp); module types often accept nil receivers knowingly
			if !strings.Contains(recv.Type().String(), "regexp.Regexp") {
				return
			}
			if bf == nil {
				bf = blockFacts(f)
			}
			guarded := false
			for fc := range factsAt(bf, in) {
				v, trueMeansNil, isNil := nilCmp(fc.Cond)
				if !isNil {
					continue
				}
				if t2, f2, ok := fieldOf(loadAddr(v)); ok && t2 == tn && f2 == fld && fc.Val != trueMeansNil {
					guarded = true
				}
			}
			// or stored non-nil earlier in the function on every path
			if !guarded {
				ok2, _ := mustPassBefore(f, nil, func(x ssa.Instruction) bool { return x == in }, func(x ssa.Instruction) bool {
					st, is := isFieldStore(x, tn, fld)
					return is && !isNilConst(st.Val)
				})
				guarded = ok2
			}
			uses[tn+"."+fld] = append(uses[tn+"."+fld], use{f, in, guarded})
		})
	}
	n, bad := 0, 0
	for key, us := range uses {
		g := 0
		for _, u := range us {
			if u.guarded {
				g++
			}
		}
		for i, u := range us {
			n++
			if u.guarded || g == 0 {
				continue
			}
			bad++
			r.Fn(fnName(u.f))
			r.Bad(rule, fmt.Sprintf("%s:%s-use#%d", fnName(u.f), key, i), p.IPos(u.in), fmt.Sprintf("a method is called on %s without the nil test that %d other use(s) of the field make first: in the state they guard against (the pattern did not compile) this one panics", key, g))
		}
	}
	if bad == 0 {
		r.OK(rule, "no-unguarded-sibling", "-", fmt.Sprintf("%d method calls on nil-tested pointer fields inspected", n))
	}
}

func loadAddr(v ssa.Value) ssa.Value {
	if u, ok := v.(*ssa.UnOp); ok && u.Op == token.MUL {
		return u.X
	}
	return v
}

// ---- C09.walk-down-restores
func checkC09WalkDown(c *Ctx) {
	p, r := c.P, c.R
	r.Rule("C09.walk-down-restores", "K1", "whenever Walk resets the position to the in-progress buffer (hpos = -1) the buffer is brought back too: restoreLineBuffer runs on that path unless the walk started on the in-progress buffer", 1)
	WK := p.Func("(*history.Sources).Walk")
	if WK == nil {
		r.Unk("C09.walk-down-restores", "(*history.Sources).Walk", "-", "anchor not found")
		return
	}
	r.Fn(fnName(WK))
	n := 0
	eachInstr(WK, func(in ssa.Instruction) {
		st, ok := isFieldStore(in, "history.Sources", "hpos")
		if !ok {
			return
		}
		if k, isK := constInt(st.Val); !isK || k != -1 {
			return
		}
		n++
		// some path into this store passes restoreLineBuffer: the block (or a predecessor chain) calls it
		restored := false
		seen := map[*ssa.BasicBlock]bool{}
		var back func(b *ssa.BasicBlock, d int)
		back = func(b *ssa.BasicBlock, d int) {
			if seen[b] || d > 3 {
				return
			}
			seen[b] = true
			for _, x := range b.Instrs {
				if isCallTo(x, "(*history.Sources).restoreLineBuffer") {
					restored = true
				}
			}
			for _, pb := range b.Preds {
				back(pb, d+1)
			}
		}
		back(in.Block(), 0)
		r.Check(restored, "C09.walk-down-restores", siteKey(WK, "hpos=-1", n-1), p.IPos(in), "restoreLineBuffer reaches this reset", "Walk goes back to the in-progress position without restoring the in-progress text on any path: a downward move that overshoots the newest entry leaves a history line in the buffer and what the user was typing is lost")
	})
	if n == 0 {
		r.OK("C09.walk-down-restores", fnName(WK)+":no-direct-reset", p.Pos(WK.Pos()), "Walk only resets the position through restoreLineBuffer")
	}
}

// ---- C07.undo-keeps-start
func checkC07UndoKeepsStart(c *Ctx) {
	p, r := c.P, c.R
	r.Rule("C07.undo-keeps-start", "K3", "before stepping back, Undo records the text the line holds when it is not the state the line sits on (the newest one, or the one undone to) — typed characters are never saved by self-insert: the text is appended to the states up to and including that one (the steps undone before are dropped), so that as many redos as undos come back to it and an edit made after an undo discards the undone steps", 1)
	U := p.Func("(*history.Sources).Undo")
	if U == nil {
		r.Unk("C07.undo-keeps-start", "(*history.Sources).Undo", "-", "anchor not found")
		return
	}
	r.Fn(fnName(U))
	bf := blockFacts(U)
	found, cuts, underDiff := false, false, false
	var at ssa.Instruction
	eachInstr(U, func(in ssa.Instruction) {
		st, ok := isFieldStore(in, lhT, "items")
		if !ok {
			return
		}
		cl, ok := st.Val.(*ssa.Call)
		if !ok {
			return
		}
		if b, isB := cl.Call.Value.(*ssa.Builtin); !isB || b.Name() != "append" {
			return
		}
		found = true
		at = in
		// appended to a cut of the states: items[:last+1]
		if sl, isSl := cl.Call.Args[0].(*ssa.Slice); isSl && sl.Low == nil && sl.High != nil && isFieldLoad(sl.X, lhT, "items") {
			cuts = true
		}
		// under a comparison of two strings that differ (the state's text and the line's)
		for fc := range factsAt(bf, in) {
			rel, isR := relOf(fc.Cond, fc.Val)
			if !isR || rel.Op != token.NEQ {
				continue
			}
			if b, isB := rel.X.Type().Underlying().(*types.Basic); isB && b.Kind() == types.String {
				underDiff = true
			}
		}
	})
	pos := p.Pos(U.Pos())
	if at != nil {
		pos = p.IPos(at)
	}
	r.Check(found && cuts && underDiff, "C07.undo-keeps-start", fnName(U)+":records-start", pos, "appends the current text to a cut of the states, where it differs from the state the line sits on", fmt.Sprintf("Undo does not record the unsaved text it starts from in place of the undone steps (appends: %v, to a cut of the states: %v, under a text comparison: %v): after typing, undo cannot be reversed by redo, or a state undone before resurfaces", found, cuts, underDiff))
}

// ---- C19.prefix-char-plain
func checkC19PrefixPlain(c *Ctx) {
	p, r := c.P, c.R
	r.Rule("C19.prefix-char-plain", "K4", "escape() uses the \\\\C- / \\\\M- prefixes only when the character written after them is not a backslash or a quote (which the reader, and the quoted form of a bind line, would take for an escape or for the end of the sequence)", 2)
	E := p.Func("inputrc.escape")
	if E == nil {
		r.Unk("C19.prefix-char-plain", "inputrc.escape", "-", "anchor not found")
		return
	}
	r.Fn(fnName(E))
	// the predicate: a closure (or function) comparing its argument with '\\', '"' and '\''
	isPlainPred := func(f *ssa.Function) bool {
		if f == nil {
			return false
		}
		seen := map[int64]bool{}
		eachInstr(f, func(in ssa.Instruction) {
			if bo, ok := in.(*ssa.BinOp); ok && (bo.Op == token.NEQ || bo.Op == token.EQL) {
				if k, isK := constInt(bo.Y); isK {
					seen[k] = true
				}
			}
		})
		return seen['\\'] && seen['"'] && seen['\'']
	}
	bf := blockFacts(E)
	for _, pfx := range []string{`\C-`, `\M-`} {
		n := 0
		eachInstr(E, func(in ssa.Instruction) {
			bo, ok := in.(*ssa.BinOp)
			if !ok || bo.Op != token.ADD {
				return
			}
			s, isS := constString(bo.Y)
			if !isS || s != pfx {
				return
			}
			n++
			guarded := false
			for fc := range factsAt(bf, in) {
				cl, isC := fc.Cond.(*ssa.Call)
				if !isC || !fc.Val {
					continue
				}
				callee := staticCallee(cl)
				if callee == nil {
					// a call through a local closure value
					if mc, ok := cl.Call.Value.(*ssa.MakeClosure); ok {
						callee, _ = mc.Fn.(*ssa.Function)
					} else if fn, ok := cl.Call.Value.(*ssa.Function); ok {
						callee = fn
					}
				}
				if isPlainPred(callee) {
					guarded = true
				}
			}
			r.Check(guarded, "C19.prefix-char-plain", fmt.Sprintf("inputrc.escape:%s#%d", pfx, n-1), p.IPos(in), "only before a character that is neither a backslash nor a quote", "the "+pfx+" prefix is written whatever character follows it: a control or meta character whose base is a backslash or a quote comes out as a prefix plus a bare backslash or quote, and the printed bind line does not read back")
		})
		if n == 0 {
			r.Unk("C19.prefix-char-plain", "inputrc.escape:"+pfx, "-", "the prefix is not written by string concatenation any more — rule needs review")
		}
	}
}

// ---- C16.unused-argument-dropped
func checkC16ArgDropped(c *Ctx) {
	p, r := c.P, c.R
	r.Rule("C16.unused-argument-dropped", "K1", "after every command the shell drops the count of a numeric argument the command did not use (Iterations.DropUnused, skipped only while a vi operator is pending): a kill that ignores its count does not hand it to the following yank", 2)
	DU := p.Func("(*core.Iterations).DropUnused")
	UP := p.Func("(*readline.Shell).updatePosRunHints")
	if DU == nil || UP == nil {
		r.Bad("C16.unused-argument-dropped", "core.Iterations.DropUnused", "-", "the count of an unused numeric argument is never dropped: \"M-3 M-d C-y\" kills one word and yanks it three times")
		return
	}
	r.Fn(fnName(DU), fnName(UP))
	clears := false
	eachInstr(DU, func(in ssa.Instruction) {
		if st, ok := isFieldStore(in, "core.Iterations", "times"); ok {
			if s, isS := constString(st.Val); isS && s == "" {
				clears = true
			}
		}
	})
	r.Check(clears, "C16.unused-argument-dropped", fnName(DU)+":times-cleared", p.Pos(DU.Pos()), "clears the stored count", "DropUnused no longer clears the stored count")
	// called from the post-command hook under nothing but the vi-opp test
	bf := blockFacts(UP)
	n := 0
	for i, call := range callsTo(UP, false, "(*core.Iterations).DropUnused") {
		n++
		extra := extraFacts(bf, call.(ssa.Instruction), func(v ssa.Value) bool {
			bo, ok := v.(*ssa.BinOp)
			if !ok {
				return false
			}
			for _, o := range []ssa.Value{bo.X, bo.Y} {
				if s, isS := constString(o); isS && s == "vi-opp" {
					return true
				}
			}
			return false
		})
		r.Check(extra == "", "C16.unused-argument-dropped", siteKey(UP, "DropUnused", i), p.IPos(call.(ssa.Instruction)), "after every command, except with a pending vi operator", "the unused count is dropped only under an extra condition ("+extra+")")
		// DropUnused acts only on an argument that is not active anymore: the post-command reset that
		// clears the active flag must have run before it, or the argument still looks in use and is kept
		readsActive := false
		eachInstr(DU, func(in ssa.Instruction) {
			if u, ok := in.(*ssa.UnOp); ok && isFieldLoad(u, "core.Iterations", "active") {
				readsActive = true
			}
		})
		if readsActive {
			after := false
			for _, cl := range allCalls(UP, false) {
				h := staticCallee(cl)
				if h == nil || !inRepo(h) || h == DU {
					continue
				}
				clearsActive := false
				eachInstr(h, func(in ssa.Instruction) {
					if st, ok := isFieldStore(in, "core.Iterations", "active"); ok {
						if b, isB := constBool(st.Val); isB && !b {
							clearsActive = true
						}
					}
				})
				if clearsActive && instrDominates(cl.(ssa.Instruction), call.(ssa.Instruction)) {
					after = true
				}
			}
			r.Check(after, "C16.unused-argument-dropped", siteKey(UP, "DropUnused", i)+":after-reset", p.IPos(call.(ssa.Instruction)), "runs after the reset that clears the active flag it tests", "DropUnused tests the active flag of the argument, but the post-command reset that clears this flag has not run yet at this call: an argument the command ignored still looks in use and is handed to the next command (\"M-2 M-d C-y\" yanks twice)")
		}
	}
	if n == 0 {
		r.Bad("C16.unused-argument-dropped", fnName(UP)+":DropUnused", p.Pos(UP.Pos()), "the post-command hook does not drop unused arguments: \"M-3 M-d C-y\" kills one word and yanks it three times")
	}
}

// ---- C09.search-down-restores (round 6): the searches come back to the typed line the way Walk does
func checkC09SearchDown(c *Ctx) {
	p, r := c.P, c.R
	const rule = "C09.search-down-restores"
	r.Rule(rule, "K5", "when a forward history search finds nothing newer and goes back to the line being typed, InsertMatch brings the typed text back with restoreLineBuffer, like Walk does — not with Undo, which skips the saved states equal to what the buffer shows: when the typed text equals the entry just shown (or an older state exists) undoing lands on an earlier text, or on nothing, and what the user was typing is lost", 1)
	IM := p.Func("(*history.Sources).InsertMatch")
	if IM == nil {
		r.Unk(rule, "(*history.Sources).InsertMatch", "-", "anchor not found")
		return
	}
	r.Fn(fnName(IM))
	undo := callsTo(IM, false, "(*history.Sources).Undo")
	for i, cl := range undo {
		r.Bad(rule, siteKey(IM, "Undo", i), p.IPos(cl.(ssa.Instruction)), "InsertMatch restores the line being typed by undoing: Undo steps over every saved state equal to the text on screen, so `ls -la` typed, history-search-backward (shows the entry `ls -la`), history-search-forward leaves an empty line")
	}
	// every direct reset of the position to the typed line is preceded or followed by restoreLineBuffer before the return,
	// except the early return taken when the search starts on the typed line itself (nothing was replaced)
	n := 0
	bf := blockFacts(IM)
	eachInstr(IM, func(in ssa.Instruction) {
		st, ok := isFieldStore(in, "history.Sources", "hpos")
		if !ok {
			return
		}
		if k, isK := constInt(st.Val); !isK || k != -1 {
			return
		}
		// already on the typed line: the store is under `hpos <= -1`
		onTyped := false
		for fc := range factsAt(bf, in) {
			rel, ok := relOf(fc.Cond, fc.Val)
			if !ok {
				continue
			}
			if isFieldLoad(rel.X, "history.Sources", "hpos") {
				if k, isK := constInt(rel.Y); isK && ((rel.Op == token.LEQ && k == -1) || (rel.Op == token.LSS && k == 0) || (rel.Op == token.EQL && k == -1)) {
					onTyped = true
				}
			}
		}
		n++
		if onTyped {
			r.OK(rule, siteKey(IM, "hpos=-1", n-1), p.IPos(in), "the search starts on the typed line: nothing to restore")
			return
		}
		w := pathAvoiding(IM, in, isReturn, func(x ssa.Instruction) bool { return isCallTo(x, "(*history.Sources).restoreLineBuffer") })
		r.Check(w == nil, rule, siteKey(IM, "hpos=-1", n-1), p.IPos(in), "restoreLineBuffer follows", "InsertMatch goes back to the position of the typed line without bringing its text back")
	})
	if len(undo) == 0 {
		rs := callsTo(IM, false, "(*history.Sources).restoreLineBuffer")
		r.Check(len(rs) > 0, rule, fnName(IM)+":restores", p.Pos(IM.Pos()), fmt.Sprintf("%d call(s) of restoreLineBuffer, no Undo", len(rs)), "InsertMatch never brings the typed line back: a forward search with nothing newer leaves a history entry in the buffer")
	}
}

// ---- C16.ring-top-written (round 7): a kill always lands on top of the ring
func checkC16RingTop(c *Ctx) {
	p, r := c.P, c.R
	const rule = "C16.ring-top-written"
	r.Rule(rule, "K1", "writing to the kill ring (register 0 of (*editor.Buffers).writeNum) stores the killed text under key 0 on every path, whatever the number of entries already in the ring: the oldest entry is dropped, never the new one — otherwise the eleventh kill of a session leaves the line but yank gives back the tenth", 1)
	WN := p.Func("(*editor.Buffers).writeNum")
	if WN == nil || len(WN.Params) < 3 {
		r.Unk(rule, "(*editor.Buffers).writeNum", "-", "anchor not found")
		return
	}
	r.Fn(fnName(WN))
	register, buf := WN.Params[1], WN.Params[2]
	assume := func(cond ssa.Value) (bool, bool) {
		// the ring path: register == 0, so `register > k` (k >= 0) and `register != 0` are false, `register == 0`, `register < 1` true
		rel, ok := relOf(cond, true)
		if !ok || rel.X != ssa.Value(register) {
			return false, false
		}
		k, isK := constInt(rel.Y)
		if !isK {
			// `register > numRegisters-1`: the size of the ring is a package variable (10); with at least one register, false for register 0
			fromSize := dependsOn(rel.Y, func(v ssa.Value) bool {
				g, ok := v.(*ssa.Global)
				return ok && g.Name() == "numRegisters"
			})
			if fromSize && (rel.Op == token.GTR || rel.Op == token.GEQ) {
				return false, true
			}
			return false, false
		}
		switch rel.Op {
		case token.GTR:
			return 0 > k, true
		case token.GEQ:
			return 0 >= k, true
		case token.LSS:
			return 0 < k, true
		case token.LEQ:
			return 0 <= k, true
		case token.EQL:
			return k == 0, true
		case token.NEQ:
			return k != 0, true
		}
		return false, false
	}
	isTopStore := func(in ssa.Instruction) bool {
		mu, ok := in.(*ssa.MapUpdate)
		if !ok {
			return false
		}
		if k, isK := constInt(mu.Key); !isK || k != 0 {
			return false
		}
		return dependsOn(mu.Value, func(v ssa.Value) bool { return v == ssa.Value(buf) })
	}
	w := reachUnder(WN, assume, func(in ssa.Instruction) bool { return isReturn(in) && in.Block() != WN.Recover }, isTopStore)
	pos := p.Pos(WN.Pos())
	if w != nil {
		pos = p.IPos(w)
	}
	r.Check(w == nil, rule, fnName(WN)+":register0", pos, "every path of the ring case stores the text under key 0", "writing to the kill ring can return without storing the killed text on top of it (a full ring): the text is removed from the line and lost, and the next yank inserts an older kill")
}

// ---- C09.no-save-after-growth (round 7): once the accepted line is written, positions counted from the newest entry are stale
func checkC09NoSaveAfterGrowth(c *Ctx) {
	p, r := c.P, c.R
	const rule = "C09.no-save-after-growth"
	r.Rule(rule, "K1", "after (*Sources).Accept has written the accepted line to the sources, the save that ends the accepting command is skipped (Sources.skip set on every path from the write to the return): the walk position counts from the newest entry, the write adds one, and a state saved then is kept under the next newer entry — which Walk shows instead of the stored text in every later call (C-p C-p Enter, then C-p C-p shows the accepted entry again in place of the newest but one)", 1)
	AC := p.Func("(*history.Sources).Accept")
	if AC == nil {
		r.Unk(rule, "(*history.Sources).Accept", "-", "anchor not found")
		return
	}
	r.Fn(fnName(AC))
	isSkip := func(in ssa.Instruction) bool {
		st, ok := isFieldStore(in, "history.Sources", "skip")
		if !ok {
			return false
		}
		b, isB := constBool(st.Val)
		return isB && b
	}
	// also fine: the position goes back to the line being typed before the return
	isReset := func(in ssa.Instruction) bool {
		st, ok := isFieldStore(in, "history.Sources", "hpos")
		if !ok {
			return false
		}
		k, isK := constInt(st.Val)
		return isK && k == -1
	}
	n := 0
	for i, w := range callsTo(AC, false, "(*history.Sources).Write") {
		n++
		leak := pathAvoiding(AC, w.(ssa.Instruction), isReturn, func(x ssa.Instruction) bool {
			return isSkip(x) || isReset(x) || isCallTo(x, "(*history.Sources).SkipSave")
		})
		r.Check(leak == nil, rule, siteKey(AC, "Write", i), p.IPos(w.(ssa.Instruction)), "the closing save is skipped after the write", "Accept writes the accepted line to the history sources and returns with the closing save of the command still armed: that save files the accepted text under the walk position, which now designates the next newer entry, and going up in later calls shows the accepted line twice and hides a stored entry")
	}
	if n == 0 {
		r.Unk(rule, fnName(AC)+":Write", p.Pos(AC.Pos()), "Accept does not write the line: anchor changed")
	}
}

// ---- C09.isearch-restores-when-nothing-inserted (round 7)
func checkC09IsearchRestores(c *Ctx) {
	p, r := c.P, c.R
	const rule = "C09.isearch-restores-when-nothing-inserted"
	r.Rule(rule, "K1", "an incremental history search that replaces the line puts in the buffer either a matching entry (Select) or the text the user was typing (Line.Set from isearchStartBuf), on every path of updateIncrementalSearch: the line was emptied to receive the previous match, so a path that does neither — a search text erased back to nothing — leaves an empty buffer in place of the typed text", 1)
	U := p.Func("(*completion.Engine).updateIncrementalSearch")
	if U == nil {
		r.Unk(rule, "(*completion.Engine).updateIncrementalSearch", "-", "anchor not found")
		return
	}
	r.Fn(fnName(U))
	assume := func(cond ssa.Value) (bool, bool) {
		if isFieldLoad(cond, "completion.Engine", "isearchReplaceLine") {
			return true, true
		}
		return false, false
	}
	restores := func(in ssa.Instruction) bool {
		if isCallTo(in, "(*completion.Engine).Select") {
			return true
		}
		if !isCallTo(in, "(*core.Line).Set") {
			return false
		}
		args := in.(ssa.CallInstruction).Common().Args
		if len(args) < 2 {
			return false
		}
		return dependsOn(args[1], func(v ssa.Value) bool { return isFieldLoad(v, "completion.Engine", "isearchStartBuf") })
	}
	w := reachUnder(U, assume, func(in ssa.Instruction) bool { return isReturn(in) && in.Block() != U.Recover }, restores)
	pos := p.Pos(U.Pos())
	if w != nil {
		pos = p.IPos(w)
	}
	r.Check(w == nil, rule, fnName(U)+":replace-line", pos, "a candidate is selected or the typed text restored on every path", "when the search replaces the line, a path through updateIncrementalSearch neither selects a matching entry nor restores the text being typed: the buffer stays as the last update left it (emptied), e.g. after the search text is erased")
}

// ---- C20.readkey-skips-report-only-read (round 7): sibling of C20.wait-returns-keys
func checkC20ReadKeyReport(c *Ctx) {
	p, r := c.P, c.R
	const rule = "C20.readkey-skips-report-only-read"
	r.Rule(rule, "K4", "(*Keys).ReadKey — a command reading its argument key from the terminal — gives up (abort) after its own read only when the read failed: a read that returned no key without an error held nothing but a cursor position report, asked by a resize or an application print redisplaying meanwhile, and, like WaitAvailableKeys, ReadKey reads again — otherwise `d f <resize> b` aborts the command and the next key is run as a command of its own", 1)
	RK := p.Func("(*core.Keys).ReadKey")
	if RK == nil {
		r.Unk(rule, "(*core.Keys).ReadKey", "-", "anchor not found")
		return
	}
	r.Fn(fnName(RK))
	bf := blockFacts(RK)
	n := 0
	for i, cl := range callsTo(RK, false, "(*core.Keys).readInputFiltered") {
		read := cl.(*ssa.Call)
		var buf, errv ssa.Value
		for _, ref := range referrersOf(read) {
			if ex, ok := ref.(*ssa.Extract); ok {
				if ex.Index == 0 {
					buf = ex
				} else if ex.Index == 1 {
					errv = ex
				}
			}
		}
		// abort returns (second result true) reachable right after this read without a key taken from it
		eachInstr(RK, func(in ssa.Instruction) {
			ret, ok := in.(*ssa.Return)
			if !ok || len(ret.Results) != 2 || in.Block() == RK.Recover {
				return
			}
			// the results are spilled (deferred cleanup): an abort return is one whose second result can only be true
			vals := mayValues(ret.Results[1])
			if len(vals) == 0 {
				return
			}
			for _, v := range vals {
				if b, isB := constBool(v); !isB || !b {
					return
				}
			}
			if !instrDominates(read, in) {
				return
			}
			n++
			// on every edge into the return the error is known non-nil: the empty-read case does not lead here
			failed := func(facts map[Fact]bool) bool { return errv != nil && knownNonNil(facts, errv) }
			good := onEveryEdgeInto(bf, in.Block(), failed, 0)
			_ = buf
			r.Check(good, rule, siteKey(RK, "abort-after-read", i), p.IPos(in), "aborts only when the read failed", "ReadKey aborts when its read returns no key and no error — a read that only held the terminal's answer to a cursor position query (resize, Printf): the pending command (vi f / r / t, quoted-insert …) is dropped and its argument key is dispatched as a command")
		})
	}
	if n == 0 {
		r.OK(rule, fnName(RK)+":no-abort-after-read", p.Pos(RK.Pos()), "ReadKey never aborts after its own terminal read")
	}
}

// ---- C09.saved-position-not-narrowed (round 7)
func checkC09SavedPosition(c *Ctx) {
	p, r := c.P, c.R
	const rule = "C09.saved-position-not-narrowed"
	r.Rule(rule, "K2", "the cursor position that (*Sources).Save keeps with a state is clamped to the buffer only (CheckAppend), never to the last character (CheckCommand): the searches take the text before the saved position of the typed line as what to look for, and a position pulled back by one makes `gi` search for `g` (up-line-or-search shows `gx`); the clamp onto a character belongs to vi command mode and is applied by execute after every command", 1)
	SV := p.Func("(*history.Sources).Save")
	if SV == nil {
		r.Unk(rule, "(*history.Sources).Save", "-", "anchor not found")
		return
	}
	r.Fn(fnName(SV))
	bad := callsTo(SV, false, "(*core.Cursor).CheckCommand")
	for i, cl := range bad {
		r.Bad(rule, siteKey(SV, "CheckCommand", i), p.IPos(cl.(ssa.Instruction)), "Save clamps the position it keeps onto the last character of the line: with the cursor at the end of the typed text the saved position is one short, the prefix searches look for the text minus its last character, and coming back down restores the cursor one character to the left")
	}
	if len(bad) == 0 {
		r.OK(rule, fnName(SV)+":position", p.Pos(SV.Pos()), "the kept position is not pulled onto the last character")
	}
}

// ---- C06.init-clamps (round 7): the buffer a call starts with gets the clamp every command gets
func checkC06InitClamps(c *Ctx) {
	p, r := c.P, c.R
	const rule = "C06.init-clamps"
	r.Rule(rule, "K1", "(*Shell).init — which may install a line kept by accept-and-hold or fetched by operate-and-get-next, cursor at its end — puts the cursor on a character when the main keymap is a Vi command keymap, like execute does after every command: on every path from history.Init to the return, assuming Keymap.Main() is vi-command, Cursor.CheckCommand runs — otherwise the call waits with the cursor past the last character and `x` deletes nothing", 1)
	IN := p.Func("(*readline.Shell).init")
	if IN == nil {
		r.Unk(rule, "(*readline.Shell).init", "-", "anchor not found")
		return
	}
	r.Fn(fnName(IN))
	hi := callsTo(IN, false, "history.Init")
	if len(hi) == 0 {
		r.Unk(rule, fnName(IN)+":history.Init", p.Pos(IN.Pos()), "init does not call history.Init: anchor changed")
		return
	}
	assume := func(cond ssa.Value) (bool, bool) {
		bo, ok := cond.(*ssa.BinOp)
		if !ok || (bo.Op != token.EQL && bo.Op != token.NEQ) {
			return false, false
		}
		var k string
		var other ssa.Value
		if s, isS := constString(bo.Y); isS {
			k, other = s, bo.X
		} else if s, isS := constString(bo.X); isS {
			k, other = s, bo.Y
		} else {
			return false, false
		}
		cl, isC := stripConv(other).(*ssa.Call)
		if !isC || calleeName(cl) != "(*keymap.Engine).Main" {
			return false, false
		}
		eq := k == "vi-command"
		if bo.Op == token.NEQ {
			return !eq, true
		}
		return eq, true
	}
	after := false
	isClamp := func(x ssa.Instruction) bool { return isCallTo(x, "(*core.Cursor).CheckCommand") }
	// reachUnder starts at the entry: the clamp must come after history.Init, so cut only clamps that history.Init dominates
	w := reachUnder(IN, assume, func(x ssa.Instruction) bool { return isReturn(x) && x.Block() != IN.Recover }, func(x ssa.Instruction) bool {
		if isClamp(x) && instrDominates(hi[0].(ssa.Instruction), x) {
			after = true
			return true
		}
		return false
	})
	r.Check(w == nil && after, rule, fnName(IN)+":clamp-after-history-init", p.IPos(hi[0].(ssa.Instruction)), "CheckCommand follows history.Init in Vi command mode", "with a Vi command keymap as the main keymap, init returns without putting the cursor on a character after history.Init installed the kept / fetched line (cursor at its end): Readline waits with the cursor past the last character")
}

// ---- C16.kill-repositions-cursor (round 7)
func checkC16KillRepositions(c *Ctx) {
	p, r := c.P, c.R
	const rule = "C16.kill-repositions-cursor"
	r.Rule(rule, "K5", "every command that removes text through Selection.Cut also places the cursor (a Cursor.Set / Move / BeginningOfLine … call, before the cut for the backward kills, after it for the others): Selection.Cut leaves the cursor where it was, so a kill that never touches the cursor — kill-region with point at the end of the region — leaves it past the place of the cut, and the yank that follows inserts the text somewhere else", 5)
	movers := map[string]bool{}
	for _, f := range p.RepoFuncs {
		n := fnName(f)
		if strings.HasPrefix(n, "(*core.Cursor).") {
			// a mutator of the position: stores Cursor.pos (directly)
			eachInstr(f, func(in ssa.Instruction) {
				if _, ok := isFieldStore(in, "core.Cursor", "pos"); ok {
					movers[n] = true
				}
			})
		}
	}
	reg := p.Registry()
	var names []string
	for n := range reg.Cmds {
		names = append(names, n)
	}
	sort.Strings(names)
	seen := map[*ssa.Function]bool{}
	k := 0
	for _, name := range names {
		f := reg.Cmds[name]
		if f == nil || seen[f] {
			continue
		}
		seen[f] = true
		cuts := callsTo(f, true, "(*core.Selection).Cut")
		if len(cuts) == 0 {
			continue
		}
		k++
		r.Fn(fnName(f))
		moves := false
		for _, fn := range withAnons(f) {
			for _, cl := range allCalls(fn, false) {
				if movers[calleeName(cl)] {
					moves = true
				}
				// a helper of the shell that moves the cursor (viSelect*, backwardWord …) counts too
				if h := staticCallee(cl); h != nil && inRepo(h) && len(h.Blocks) > 0 && strings.HasPrefix(fnName(h), "(*readline.Shell).") {
					for _, c2 := range allCalls(h, false) {
						if movers[calleeName(c2)] {
							moves = true
						}
					}
				}
			}
		}
		r.Check(moves, rule, "command:"+name, p.Pos(f.Pos()), "places the cursor", name+" cuts the selected text and never places the cursor: Selection.Cut leaves it where it was, past the cut when point was at the end of the region — the following yank does not put the text back where it was")
	}
	if k == 0 {
		r.Unk(rule, "commands", "-", "no command cuts through Selection.Cut: anchor changed")
	}
}
