package main

import (
	"fmt"
	"go/token"
	"go/types"
	"sort"

	"golang.org/x/tools/go/ssa"
)

// K6 — loop inventory. Every natural loop gets a recognised termination
// variant (P1–P5) or must appear in a reviewed table with its ranking argument.

type LoopClass struct {
	Fn      *ssa.Function
	L       *Loop
	Ord     int    // ordinal of the loop in its function (by header block index)
	Variant string // P1..P5 or ""
	Detail  string
}

var blockingCalls = map[string]bool{
	"(*core.Keys).ReadKey":           true,
	"(*core.Keys).readInputFiltered": true,
	"(*os.File).Read":                true,
	"core.WaitAvailableKeys":         true,
	"(*core.Keys).GetCursorPos":      false, // bounded by its own loop, not a wait
}

func isBlockingInstr(in ssa.Instruction) bool {
	switch x := in.(type) {
	case *ssa.Select:
		return x.Blocking
	case *ssa.UnOp:
		return x.Op == token.ARROW
	case ssa.CallInstruction:
		n := calleeName(x)
		if blockingCalls[n] {
			return true
		}
		// interface Read on the terminal
		if x.Common().IsInvoke() && x.Common().Method.Name() == "Read" {
			return true
		}
	}
	return false
}

func classifyLoops(fn *ssa.Function) []LoopClass {
	loops := findLoops(fn)
	sort.Slice(loops, func(i, j int) bool { return loops[i].Head.Index < loops[j].Head.Index })
	var out []LoopClass
	for i, l := range loops {
		lc := LoopClass{Fn: fn, L: l, Ord: i}
		lc.Variant, lc.Detail = loopVariant(fn, l)
		out = append(out, lc)
	}
	return out
}

// exitConds: If instructions in the loop with exactly one successor outside the loop.
func exitConds(l *Loop) []*ssa.If {
	var out []*ssa.If
	for b := range l.Blocks {
		iff, ok := b.Instrs[len(b.Instrs)-1].(*ssa.If)
		if !ok {
			continue
		}
		in0, in1 := l.Blocks[b.Succs[0]], l.Blocks[b.Succs[1]]
		if in0 != in1 {
			out = append(out, iff)
		}
	}
	sort.Slice(out, func(i, j int) bool { return out[i].Block().Index < out[j].Block().Index })
	return out
}

func loopVariant(fn *ssa.Function, l *Loop) (string, string) {
	// P5: range over map/string (Next in the loop) — finite iteration
	for b := range l.Blocks {
		for _, in := range b.Instrs {
			if _, ok := in.(*ssa.Next); ok {
				return "P5", "range (iterator)"
			}
		}
	}
	// P4: Scanner.Scan / iterator call as exit condition
	for _, iff := range exitConds(l) {
		if cl, ok := iff.Cond.(*ssa.Call); ok {
			switch calleeName(cl) {
			case "(*bufio.Scanner).Scan":
				return "P4", "bufio.Scanner.Scan on a finite reader"
			}
		}
	}
	// P1: integer phi in the header (or a dominating block of the loop) stepped by a non-zero constant on every back-edge, tested in an exit condition
	for _, in := range l.Head.Instrs {
		ph, ok := in.(*ssa.Phi)
		if !ok {
			break
		}
		if b, ok := ph.Type().Underlying().(*types.Basic); !ok || b.Info()&types.IsInteger == 0 {
			continue
		}
		step, ok := phiConstStep(ph, l)
		if !ok || step == 0 {
			continue
		}
		// tested: an exit condition whose comparison involves the phi (or phi±const)
		for _, iff := range exitConds(l) {
			if condMentions(iff.Cond, ph) {
				// direction must agree with the comparison: i<n with i++ , i>n with i--, != either
				if dirOK(iff, ph, step, l) {
					return "P1", fmt.Sprintf("counter %s steps %+d, tested in the exit condition", ph.Name(), step)
				}
			}
		}
	}
	// P2: slice/string phi re-sliced to a strict sub-slice on every back edge, exit on its length
	for _, in := range l.Head.Instrs {
		ph, ok := in.(*ssa.Phi)
		if !ok {
			break
		}
		switch ph.Type().Underlying().(type) {
		case *types.Slice:
		case *types.Basic:
			if ph.Type().Underlying().(*types.Basic).Info()&types.IsString == 0 {
				continue
			}
		default:
			continue
		}
		if shrinksEveryBackEdge(ph, l) {
			for _, iff := range exitConds(l) {
				if condMentionsLen(iff.Cond, ph) {
					return "P2", fmt.Sprintf("%s is re-sliced to a strict sub-slice on every back edge, exit on its length", ph.Name())
				}
			}
		}
	}
	// P3: every iteration passes a blocking read / receive
	if loopEveryIterationPasses(l, isBlockingInstr) {
		return "P3", "every iteration blocks on input (read / receive / select)"
	}
	return "", ""
}

// phiConstStep: every in-loop incoming edge of ph is ph ± constant (same sign); returns the step.
func phiConstStep(ph *ssa.Phi, l *Loop) (int64, bool) {
	var step int64
	found := false
	for i, e := range ph.Edges {
		pred := ph.Block().Preds[i]
		if !l.Blocks[pred] {
			continue
		}
		s, ok := stepOf(e, ph, 0)
		if !ok || s == 0 {
			return 0, false
		}
		if found && (s > 0) != (step > 0) {
			return 0, false
		}
		step, found = s, true
	}
	return step, found
}

// stepOf: value v equals ph + k along all paths inside the loop, with k in a
// constant range of one sign; returns the step of smallest magnitude. Inner
// merges may contribute a zero step as long as the total never is zero.
func stepOf(v ssa.Value, ph *ssa.Phi, depth int) (int64, bool) {
	lo, hi, ok := stepRange(v, ph, depth, map[ssa.Value]bool{})
	if !ok {
		return 0, false
	}
	if lo > 0 {
		return lo, true
	}
	if hi < 0 {
		return hi, true
	}
	return 0, lo == 0 && hi == 0
}

func stepRange(v ssa.Value, ph *ssa.Phi, depth int, seen map[ssa.Value]bool) (int64, int64, bool) {
	if depth > 6 {
		return 0, 0, false
	}
	if v == ssa.Value(ph) {
		return 0, 0, true
	}
	switch x := v.(type) {
	case *ssa.BinOp:
		if x.Op == token.ADD || x.Op == token.SUB {
			if k, ok := constInt(x.Y); ok {
				lo, hi, ok := stepRange(x.X, ph, depth+1, seen)
				if !ok {
					return 0, 0, false
				}
				if x.Op == token.SUB {
					k = -k
				}
				return lo + k, hi + k, true
			}
			if k, ok := constInt(x.X); ok && x.Op == token.ADD {
				lo, hi, ok := stepRange(x.Y, ph, depth+1, seen)
				if !ok {
					return 0, 0, false
				}
				return lo + k, hi + k, true
			}
		}
	case *ssa.Phi:
		if seen[x] {
			return 0, 0, false
		}
		seen[x] = true
		first := true
		var lo, hi int64
		for _, e := range x.Edges {
			l, h, ok := stepRange(e, ph, depth+1, seen)
			if !ok {
				return 0, 0, false
			}
			if first || l < lo {
				lo = l
			}
			if first || h > hi {
				hi = h
			}
			first = false
		}
		delete(seen, x)
		return lo, hi, !first
	}
	return 0, 0, false
}

func abs64(x int64) int64 {
	if x < 0 {
		return -x
	}
	return x
}

func condMentions(c ssa.Value, ph *ssa.Phi) bool {
	seen := map[ssa.Value]bool{}
	var walk func(v ssa.Value, d int) bool
	walk = func(v ssa.Value, d int) bool {
		if v == ssa.Value(ph) {
			return true
		}
		if d > 4 || seen[v] {
			return false
		}
		seen[v] = true
		switch x := v.(type) {
		case *ssa.BinOp:
			return walk(x.X, d+1) || walk(x.Y, d+1)
		case *ssa.UnOp:
			return walk(x.X, d+1)
		case *ssa.Convert:
			return walk(x.X, d+1)
		}
		return false
	}
	return walk(c, 0)
}

// dirOK: the exit comparison and the step direction agree (so the exit is eventually taken).
func dirOK(iff *ssa.If, ph *ssa.Phi, step int64, l *Loop) bool {
	exitOnTrue := !l.Blocks[iff.Block().Succs[0]]
	rel, ok := relOf(iff.Cond, true)
	if !ok {
		return false
	}
	// normalise so that the phi side is X
	op := rel.Op
	phiLeft := condMentions(rel.X, ph)
	phiRight := condMentions(rel.Y, ph)
	if phiLeft == phiRight {
		return false
	}
	if phiRight {
		op = flipOp(op)
	}
	// `stay` relation: the relation that holds while staying in the loop
	stay := op
	if exitOnTrue {
		stay = negateOp(op)
	}
	switch stay {
	case token.LSS, token.LEQ:
		return step > 0
	case token.GTR, token.GEQ:
		return step < 0
	case token.NEQ:
		return abs64(step) == 1
	}
	return false
}

func shrinksEveryBackEdge(ph *ssa.Phi, l *Loop) bool {
	any := false
	for i, e := range ph.Edges {
		pred := ph.Block().Preds[i]
		if !l.Blocks[pred] {
			continue
		}
		if !strictSubslice(e, ph, 0) {
			return false
		}
		any = true
	}
	return any
}

func strictSubslice(v ssa.Value, ph *ssa.Phi, depth int) bool {
	if depth > 4 {
		return false
	}
	switch x := v.(type) {
	case *ssa.Slice:
		base := x.X
		if base != ssa.Value(ph) {
			// allow slicing of an already-shrunk value
			if !(strictSubslice(base, ph, depth+1) || base == ssa.Value(ph)) {
				return false
			}
			return true
		}
		if x.Low != nil {
			if k, ok := constInt(x.Low); ok && k >= 1 {
				return true
			}
			// low = idx+1 where idx >= 0 is established elsewhere (strings.Index result guarded) — accept BinOp ADD const>=1
			if bo, ok := x.Low.(*ssa.BinOp); ok && bo.Op == token.ADD {
				if k, ok := constInt(bo.Y); ok && k >= 1 {
					return true
				}
			}
		}
		if x.High != nil {
			// high = len-1 style
			if bo, ok := x.High.(*ssa.BinOp); ok && bo.Op == token.SUB {
				if k, ok := constInt(bo.Y); ok && k >= 1 {
					return true
				}
			}
		}
		return false
	case *ssa.Phi:
		for _, e := range x.Edges {
			if e == ssa.Value(ph) {
				return false
			}
			if !strictSubslice(e, ph, depth+1) {
				return false
			}
		}
		return len(x.Edges) > 0
	}
	return false
}

func condMentionsLen(c ssa.Value, ph *ssa.Phi) bool {
	found := false
	var walk func(v ssa.Value, d int)
	walk = func(v ssa.Value, d int) {
		if d > 4 || found {
			return
		}
		switch x := v.(type) {
		case *ssa.Call:
			if b, ok := x.Call.Value.(*ssa.Builtin); ok && b.Name() == "len" && x.Call.Args[0] == ssa.Value(ph) {
				found = true
			}
		case *ssa.BinOp:
			walk(x.X, d+1)
			walk(x.Y, d+1)
			if x.X == ssa.Value(ph) || x.Y == ssa.Value(ph) {
				found = true // string compared with ""
			}
		case *ssa.UnOp:
			walk(x.X, d+1)
		}
	}
	walk(c, 0)
	return found
}

// loopKey: stable construct key for a loop: function + ordinal among the
// function's loops + the callee names it calls (a behaviour fingerprint that
// survives renames of locals and line moves).
func loopKey(lc LoopClass) string {
	return fmt.Sprintf("%s:loop#%d", fnName(lc.Fn), lc.Ord)
}
