package main

import (
	"fmt"
	"go/token"
	"go/types"
	"strings"

	"golang.org/x/tools/go/ssa"
)

func init() { propFuncs["C05"] = checkC05 }

const keysT = "core.Keys"

// isTerminalRead: a Read on the terminal — invoke Read on the core.Stdin
// reader, or (*os.File).Read on os.Stdin.
func isTerminalRead(in ssa.Instruction) bool {
	cl, ok := in.(*ssa.Call)
	if !ok {
		return false
	}
	cc := cl.Common()
	if cc.IsInvoke() && cc.Method.Name() == "Read" {
		if u, ok := cc.Value.(*ssa.UnOp); ok {
			if g, ok := u.X.(*ssa.Global); ok && g.Name() == "Stdin" {
				return true
			}
		}
	}
	if calleeName(cl) == "(*os.File).Read" && len(cc.Args) > 0 {
		if u, ok := cc.Args[0].(*ssa.UnOp); ok {
			if g, ok := u.X.(*ssa.Global); ok && g.Name() == "Stdin" {
				return true
			}
		}
	}
	return false
}

// derivesFromBytes: v derives only from the byte buffer `src` (slices, conversions).
func derivesFromBytes(p *Prog, v, src ssa.Value) bool {
	n, opaque := bytesLeaves(p, v, src)
	return n > 0 && opaque == 0
}

// mayCarryBytes: on some path v is (a view of) the bytes in src.
func mayCarryBytes(p *Prog, v, src ssa.Value) bool {
	n, _ := bytesLeaves(p, v, src)
	return n > 0
}

// readCarrier: the call carries the bytes of a terminal read through — every input key is
// represented in its output, or kept in a field of core.Keys for the next read. That is
// strutil.ConvertMeta (per-rune conversion of the chunk), or an unexported function of package
// core every result of which, and everything it stores to a []byte field of core.Keys, is built
// only from its []byte parameters and those fields (through ConvertMeta, append, slicing), and
// which drops nothing: a head `b[:k]` it cuts has its tail `b[k:]` stored in such a field.
// Returns the operands the slice continues from, or nil.
func readCarrier(p *Prog, cl *ssa.Call) []ssa.Value {
	if calleeName(cl) == "strutil.ConvertMeta" {
		return cl.Call.Args
	}
	h := staticCallee(cl)
	if h == nil || !inRepo(h) || !isPrivateHelper(h) || len(h.Blocks) == 0 || h.Package() == nil || !strings.HasSuffix(h.Package().Pkg.Path(), "internal/core") {
		return nil
	}
	isBytes := func(t types.Type) bool {
		sl, ok := t.Underlying().(*types.Slice)
		if !ok {
			return false
		}
		b, ok := sl.Elem().Underlying().(*types.Basic)
		return ok && b.Kind() == types.Uint8
	}
	isKeysBytesField := func(addr ssa.Value) bool {
		t, _, ok := fieldOf(addr)
		if !ok || t != "core.Keys" {
			return false
		}
		pt, ok := addr.Type().Underlying().(*types.Pointer)
		return ok && isBytes(pt.Elem())
	}
	isSrc := func(v ssa.Value) bool {
		if pa, ok := v.(*ssa.Parameter); ok && isBytes(pa.Type()) {
			return true
		}
		if u, ok := v.(*ssa.UnOp); ok && u.Op == token.MUL && isKeysBytesField(u.X) {
			return true
		}
		return false
	}
	pure := func(v ssa.Value) bool {
		if isNilConst(v) {
			return true
		}
		leaves := backSlice(v, &SliceOpts{P: p, IsSource: isSrc, Through: func(c *ssa.Call) []ssa.Value {
			if calleeName(c) == "strutil.ConvertMeta" {
				return c.Call.Args
			}
			return nil
		}})
		if len(leaves) == 0 {
			return false
		}
		for _, l := range leaves {
			if l.Kind == LeafOpaque {
				return false
			}
		}
		return true
	}
	good := true
	nret := 0
	var heads, tails []*ssa.Slice
	eachInstr(h, func(in ssa.Instruction) {
		switch x := in.(type) {
		case *ssa.Return:
			for _, res := range x.Results {
				if isBytes(res.Type()) {
					nret++
					if !pure(res) {
						good = false
					}
				}
			}
		case *ssa.Store:
			if isKeysBytesField(x.Addr) && !pure(x.Val) {
				good = false
			}
		case *ssa.Slice:
			if !isBytes(x.X.Type()) {
				return
			}
			switch {
			case x.Low == nil && x.High != nil:
				if k, ok := constInt(x.High); ok && k == 0 {
					return
				}
				heads = append(heads, x)
			case x.Low != nil && x.High == nil:
				tails = append(tails, x)
			case x.Low != nil && x.High != nil:
				good = false
			}
		}
	})
	if !good || nret == 0 {
		return nil
	}
	for _, hd := range heads {
		kept := false
		for _, tl := range tails {
			if !sameValue(tl.X, hd.X) || !sameValue(tl.Low, hd.High) {
				continue
			}
			eachInstr(h, func(in ssa.Instruction) {
				if st, ok := in.(*ssa.Store); ok && isKeysBytesField(st.Addr) && dependsOn(st.Val, func(v ssa.Value) bool { return v == ssa.Value(tl) }) {
					kept = true
				}
			})
		}
		if !kept {
			return nil
		}
	}
	var out []ssa.Value
	for _, a := range cl.Call.Args {
		if isBytes(a.Type()) {
			out = append(out, a)
		}
	}
	return out
}

func bytesLeaves(p *Prog, v, src ssa.Value) (int, int) {
	leaves := backSlice(v, &SliceOpts{P: p, IsSource: func(x ssa.Value) bool { return x == src }, Through: func(cl *ssa.Call) []ssa.Value {
		// per-rune meta conversion of the chunk: every input key is represented in the output
		return readCarrier(p, cl)
	}})
	n, opaque := 0, 0
	for _, l := range leaves {
		if l.Kind == LeafSource {
			n++
		} else if l.Kind == LeafOpaque {
			opaque++
		}
	}
	return n, opaque
}

// onEveryEdgeInto: pred holds for the facts on every edge entering b (looking
// through empty forwarding blocks) — how a `a || b` guarded block is recognised.
func onEveryEdgeInto(bf FactMap, b *ssa.BasicBlock, pred func(map[Fact]bool) bool, depth int) bool {
	if pred(bf[b]) {
		return true
	}
	if depth > 3 || len(b.Preds) == 0 {
		return false
	}
	for _, pb := range b.Preds {
		facts := map[Fact]bool{}
		for f := range bf[pb] {
			facts[f] = true
		}
		if iff, ok := pb.Instrs[len(pb.Instrs)-1].(*ssa.If); ok && len(pb.Succs) == 2 && pb.Succs[0] != pb.Succs[1] {
			for _, f := range expandCond(iff.Cond, pb.Succs[0] == b) {
				facts[f] = true
			}
		}
		if pred(facts) {
			continue
		}
		// forwarding block: only a jump
		if len(pb.Instrs) == 1 && onEveryEdgeInto(bf, pb, pred, depth+1) {
			continue
		}
		return false
	}
	return true
}

// storesIntoKeyBuf: in is `k.buf = append(k.buf, X...)` or `append(X, k.buf...)`; returns X.
func keyBufAppend(in ssa.Instruction) (ssa.Value, bool, bool) {
	st, ok := isFieldStore(in, keysT, "buf")
	if !ok {
		return nil, false, false
	}
	cl, ok := st.Val.(*ssa.Call)
	if !ok {
		return nil, false, false
	}
	b, ok := cl.Call.Value.(*ssa.Builtin)
	if !ok || b.Name() != "append" || len(cl.Call.Args) != 2 {
		return nil, false, false
	}
	if isFieldLoad(cl.Call.Args[0], keysT, "buf") {
		return cl.Call.Args[1], false, true // appended at the tail
	}
	if isFieldLoad(cl.Call.Args[1], keysT, "buf") {
		return cl.Call.Args[0], true, true // pushed in front
	}
	return nil, false, false
}

func checkC05(c *Ctx) {
	p, r := c.P, c.R
	r.Explanation = "Decided statically (a byte that some path drops or bypasses makes the outcome depend on which read delivered it): the terminal is read only in readInputFiltered and GetCursorPos; on every non-failing path from such a read the bytes read reach the key buffer, a key hand-off, or the caller — through extractCursorPos, whose remainder is kept — so type-ahead sharing a read with a cursor report is not lost; every consumer of readInputFiltered's result keeps all of it (whole append / hand-off, or first rune + the rest appended); ReadKey goes to the terminal only when both pending queues (macro keys, buffered keys) are empty; MatchedPrefix computes mustWait from the buffer before it pushes the partially matched keys back in front, MatchedKeys pushes unmatched keys back in front; WaitAvailableKeys returns without reading when usable keys are buffered. NOT decided: schedule independence as such (a property of interleavings), lone-ESC timing in Vi modes, and cursor reports split across two reads."
	r.Trusted = []string{"go/packages type checker", "go/ssa construction", "rule tables in rlcheck/c05.go"}
	r.Assumptions = []string{"Read returns the bytes in buf[:n]", "the regular expression in extractCursorPos removes only cursor reports"}
	progs := []*Prog{p}
	cfgs := []string{"linux/amd64"}
	if c.Tier == "thorough" {
		for _, cfg := range [][2]string{{"darwin", "arm64"}, {"freebsd", "amd64"}} {
			if q := c.loadOther(cfg[0], cfg[1]); q != nil {
				progs = append(progs, q)
				cfgs = append(cfgs, cfg[0]+"/"+cfg[1])
			}
		}
	}
	for i, q := range progs {
		checkC05On(c, q, cfgs[i])
	}
}

func checkC05On(c *Ctx, p *Prog, cfg string) {
	r := c.R
	sfx := ""
	if cfg != "linux/amd64" {
		sfx = "[" + cfg + "]"
	}
	// ---- single reader (K2)
	r.Rule("C05.single-reader", "K2", "the terminal is read only by readInputFiltered and GetCursorPos", 2)
	allowed := map[string]bool{"(*core.Keys).readInputFiltered": true, "(*core.Keys).GetCursorPos": true}
	type readSite struct {
		f  *ssa.Function
		cl *ssa.Call
	}
	var reads []readSite
	for _, f := range p.RepoFuncs {
		eachInstr(f, func(in ssa.Instruction) {
			if isTerminalRead(in) {
				reads = append(reads, readSite{f, in.(*ssa.Call)})
				r.CallSites++
				r.Fn(fnName(f))
				r.Check(allowed[fnName(f)], "C05.single-reader", fnName(f)+":terminal-read"+sfx, p.IPos(in), "reviewed reader", "a new function reads the terminal directly: bytes it consumes bypass the key buffer and the cursor-report filter (new schedule dependence)")
			}
		})
	}
	if len(reads) < 2 {
		r.Unk("C05.single-reader", "terminal-read-sites"+sfx, "-", fmt.Sprintf("only %d terminal read sites found, expected ≥ 2", len(reads)))
	}

	// ---- no drop at the read sites (K3+K1)
	r.Rule("C05.no-drop", "K3", "on every non-failing path from a terminal read, the bytes read reach Keys.buf, a hand-off, or the caller (through extractCursorPos, whose remainder is kept)", 2)
	for _, rs := range reads {
		f, rd := rs.f, rs.cl
		args := rd.Call.Args
		bufArg := args[len(args)-1]
		var errv ssa.Value
		for _, ref := range referrersOf(rd) {
			if ex, ok := ref.(*ssa.Extract); ok && ex.Index == 1 {
				errv = ex
			}
		}
		bf := blockFacts(f)
		keeps := func(in ssa.Instruction) bool {
			// whole-chunk append to the key buffer
			if x, _, ok := keyBufAppend(in); ok && mayCarryBytes(p, x, bufArg) {
				return true
			}
			// extractCursorPos(chunk) whose remainder is appended or returned
			if cl, ok := in.(*ssa.Call); ok && calleeName(cl) == "(*core.Keys).extractCursorPos" && mayCarryBytes(p, cl.Call.Args[1], bufArg) {
				for _, ref := range referrersOf(cl) {
					ex, ok := ref.(*ssa.Extract)
					if !ok || ex.Index != 1 {
						continue
					}
					used := false
					// returned (possibly through a spilled result) or appended to buf
					eachInstr(f, func(x ssa.Instruction) {
						if ret, ok := x.(*ssa.Return); ok {
							for _, res := range ret.Results {
								for _, v := range mayValues(res) {
									if v == ssa.Value(ex) {
										used = true
									}
								}
							}
						}
						if y, _, ok := keyBufAppend(x); ok && y == ssa.Value(ex) {
							used = true
						}
					})
					if used {
						return true
					}
				}
			}
			return false
		}
		var lost ssa.Instruction
		pathAvoiding(f, rd, func(in ssa.Instruction) bool {
			ret, ok := in.(*ssa.Return)
			if !ok {
				// another read of the terminal before the previous chunk was kept
				if in != ssa.Instruction(rd) && isTerminalRead(in) {
					lost = in
					return true
				}
				if in == ssa.Instruction(rd) {
					lost = in
					return true
				}
				return false
			}
			_ = ret
			// failing returns are exempt: read error known non-nil, or `return disable()`
			if errv != nil && knownNonNil(bf[in.Block()], errv) {
				return false
			}
			for _, x := range in.Block().Instrs {
				if cl, ok := x.(*ssa.Call); ok {
					// `return disable()`: the function's own failure closure
					if callee := staticCallee(cl); callee != nil && callee.Parent() == f {
						return false
					}
				}
			}
			lost = in
			return true
		}, keeps)
		key := fnName(f) + ":read→kept" + sfx
		if lost == nil {
			r.OK("C05.no-drop", key, p.IPos(rd), "every non-failing path keeps the chunk")
		} else {
			r.Bad("C05.no-drop", key, p.IPos(lost), "a path from the terminal read reaches `"+lost.String()+"` without the bytes read having been put in the key buffer or handed on: keys sharing a read with a cursor report (or with an earlier key) are lost")
		}
	}

	// ---- consumers of readInputFiltered keep everything (K3)
	r.Rule("C05.consumers-keep-all", "K3", "every caller of readInputFiltered keeps all the keys it returns: whole append / hand-off, or first rune plus the rest appended", 2)
	for _, f := range p.RepoFuncs {
		for i, call := range callsTo(f, false, "(*core.Keys).readInputFiltered") {
			cl, ok := call.(*ssa.Call)
			if !ok {
				continue
			}
			var keysV, errv ssa.Value
			for _, ref := range referrersOf(cl) {
				if ex, ok := ref.(*ssa.Extract); ok {
					if ex.Index == 0 {
						keysV = ex
					} else {
						errv = ex
					}
				}
			}
			key := siteKey(f, "readInputFiltered", i) + sfx
			r.Fn(fnName(f))
			r.CallSites++
			if keysV == nil {
				r.Bad("C05.consumers-keep-all", key, p.IPos(call), "the keys returned by the terminal reader are discarded")
				continue
			}
			bf := blockFacts(f)
			keeps := func(in ssa.Instruction) bool {
				if x, _, ok := keyBufAppend(in); ok {
					if derivesFromBytes(p, x, keysV) {
						// whole, or rest after DecodeRune
						if sl, ok := stripConv(x).(*ssa.Slice); ok && sl.Low != nil {
							ex, ok := sl.Low.(*ssa.Extract)
							if !ok || ex.Index != 1 {
								return false
							}
							dc, ok := ex.Tuple.(*ssa.Call)
							if !ok || calleeName(dc) != "unicode/utf8.DecodeRune" {
								return false
							}
							// the decoded buffer is the read itself, possibly through the variable of a read-again loop (nil before the first read)
							if dc.Call.Args[0] == keysV {
								return true
							}
							same := false
							for _, v := range mayValues(dc.Call.Args[0]) {
								if v == keysV {
									same = true
								} else if !isNilConst(v) {
									return false
								}
							}
							return same
						}
						return true
					}
				}
				if sd, ok := in.(*ssa.Send); ok && sd.X == keysV {
					return true
				}
				return false
			}
			var lost ssa.Instruction
			pathAvoiding(f, cl, func(in ssa.Instruction) bool {
				if in == ssa.Instruction(cl) {
					// looping back to read again is fine only if the chunk was empty
					return false
				}
				if !isReturn(in) || in.Block() == f.Recover {
					return false
				}
				failed := func(facts map[Fact]bool) bool {
					if errv != nil && knownNonNil(facts, errv) {
						return true
					}
					for fc := range facts {
						if rel, ok := relOf(fc.Cond, fc.Val); ok && isLenCall(rel.X) && rel.X.(*ssa.Call).Call.Args[0] == keysV {
							if k, ok := constInt(rel.Y); ok && k == 0 && rel.Op == token.EQL {
								return true
							}
						}
					}
					return false
				}
				if onEveryEdgeInto(bf, in.Block(), failed, 0) {
					return false
				}
				lost = in
				return true
			}, keeps)
			r.Check(lost == nil, "C05.consumers-keep-all", key, p.IPos(call), "all returned keys are kept", "a path returns after reading keys from the terminal without keeping all of them (only the first key of the chunk is used, the others are dropped)")
		}
	}

	// ---- extractCursorPos returns everything but the reports (K3)
	r.Rule("C05.extract-keeps-rest", "K3", "extractCursorPos returns as user input either its whole argument or ReplaceAll(argument, nil) — never a part of it", 1)
	if EX := p.Func("(*core.Keys).extractCursorPos"); EX != nil {
		r.Fn(fnName(EX))
		good := true
		why := ""
		eachInstr(EX, func(in ssa.Instruction) {
			ret, ok := in.(*ssa.Return)
			if !ok || in.Block() == EX.Recover || len(ret.Results) != 2 {
				return
			}
			for _, v := range mayValues(ret.Results[1]) {
				switch {
				case v == ssa.Value(EX.Params[1]):
				case isCallNamed(v, "(*regexp.Regexp).ReplaceAll") && v.(*ssa.Call).Call.Args[1] == ssa.Value(EX.Params[1]) && isNilConst(v.(*ssa.Call).Call.Args[2]):
				case isNilConst(v):
					// zero value of the named result before assignment
				default:
					good = false
					why = v.String()
				}
			}
		})
		r.Check(good, "C05.extract-keeps-rest", fnName(EX)+":remain"+sfx, p.Pos(EX.Pos()), "remain = keys | ReplaceAll(keys, nil)", "extractCursorPos returns only part of the chunk as user input ("+why+"): keys typed before or after a cursor report in the same read are lost")
	} else {
		r.Unk("C05.extract-keeps-rest", "(*core.Keys).extractCursorPos", "-", "anchor not found")
	}

	// ---- ReadKey decodes a whole rune from the buffered keys, like it does from a fresh read (K5)
	r.Rule("C05.readkey-rune", "K5", "ReadKey takes its key from the key buffer by decoding one UTF-8 rune and advancing by its size — the same way as from a fresh read", 1)
	if RK := p.Func("(*core.Keys).ReadKey"); RK != nil {
		okDecode, okAdvance := false, false
		eachInstr(RK, func(in ssa.Instruction) {
			cl, ok := in.(*ssa.Call)
			if !ok || calleeName(cl) != "unicode/utf8.DecodeRune" || !isFieldLoad(cl.Call.Args[0], keysT, "buf") {
				return
			}
			okDecode = true
			// k.buf = k.buf[size:]
			eachInstr(RK, func(x ssa.Instruction) {
				if st, ok := isFieldStore(x, keysT, "buf"); ok {
					if sl, ok := st.Val.(*ssa.Slice); ok && isFieldLoad(sl.X, keysT, "buf") {
						if ex, ok := sl.Low.(*ssa.Extract); ok && ex.Tuple == ssa.Value(cl) && ex.Index == 1 {
							okAdvance = true
						}
					}
				}
			})
		})
		// no other way of taking a key out of k.buf in ReadKey
		other := false
		eachInstr(RK, func(in ssa.Instruction) {
			if ia, ok := in.(*ssa.IndexAddr); ok && isFieldLoad(ia.X, keysT, "buf") {
				other = true
			}
		})
		r.Check(okDecode && okAdvance && !other, "C05.readkey-rune", fnName(RK)+":buffered-key"+sfx, p.Pos(RK.Pos()), "DecodeRune(k.buf); k.buf = k.buf[size:]", "ReadKey does not take a whole rune from the buffered keys: a multi-byte argument key that arrived in the same read as its command is split into bytes, unlike the same key arriving in its own read")
	}

	// ---- drain first (K4)
	r.Rule("C05.drain-first", "K4", "ReadKey reads the terminal only when the macro queue and the key buffer are both empty", 1)
	if RK := p.Func("(*core.Keys).ReadKey"); RK != nil {
		r.Fn(fnName(RK))
		bf := blockFacts(RK)
		n := 0
		for _, call := range callsTo(RK, false, "(*core.Keys).readInputFiltered") {
			n++
			emptyQ := func(field string) bool {
				for fc := range factsAt(bf, call) {
					rel, ok := relOf(fc.Cond, fc.Val)
					if !ok || !isLenCall(rel.X) || !isFieldLoad(rel.X.(*ssa.Call).Call.Args[0], keysT, field) {
						continue
					}
					if k, ok := constInt(rel.Y); ok && k == 0 && (rel.Op == token.LEQ || rel.Op == token.EQL) {
						return true
					}
				}
				return false
			}
			m, b := emptyQ("macroKeys"), emptyQ("buf")
			r.Check(m && b, "C05.drain-first", fnName(RK)+":terminal-read-guard"+sfx, p.IPos(call), "both queues empty", fmt.Sprintf("ReadKey reads the terminal while keys are still pending (macro queue known empty: %v, key buffer known empty: %v): an argument key that arrived in the same read as its command is skipped and later run as a command", m, b))
		}
		if n == 0 {
			r.Unk("C05.drain-first", fnName(RK)+":terminal-read-guard"+sfx, p.Pos(RK.Pos()), "ReadKey no longer calls readInputFiltered — rule table needs review")
		}
	} else {
		r.Unk("C05.drain-first", "(*core.Keys).ReadKey", "-", "anchor not found")
	}

	// ---- prefix push-back (K1+K3)
	r.Rule("C05.prefix-pushback", "K1", "MatchedPrefix derives mustWait from the buffer before pushing the prefix back in front of it; MatchedKeys pushes unmatched keys back in front and clears mustWait", 4)
	if MP := p.Func("core.MatchedPrefix"); MP != nil {
		r.Fn(fnName(MP))
		var mw *ssa.Store
		var push ssa.Instruction
		front := false
		eachInstr(MP, func(in ssa.Instruction) {
			if st, ok := isFieldStore(in, keysT, "mustWait"); ok {
				if bo, ok := st.Val.(*ssa.BinOp); ok && bo.Op == token.EQL && isLenCall(bo.X) && isFieldLoad(bo.X.(*ssa.Call).Call.Args[0], keysT, "buf") {
					if k, ok := constInt(bo.Y); ok && k == 0 {
						mw = st
					}
				}
			}
			if x, fr, ok := keyBufAppend(in); ok && x == ssa.Value(MP.Params[1]) {
				push, front = in, fr
			}
		})
		r.Check(mw != nil, "C05.prefix-pushback", fnName(MP)+":mustWait=(len(buf)==0)"+sfx, p.Pos(MP.Pos()), "mustWait computed from the buffer", "MatchedPrefix no longer sets mustWait = (len(buf) == 0): after a partial match with nothing else buffered the next wait returns at once and the prefix is dispatched again (spin / wrong command)")
		r.Check(push != nil && front, "C05.prefix-pushback", fnName(MP)+":push-front"+sfx, p.Pos(MP.Pos()), "buf = append(prefix, buf...)", "MatchedPrefix does not push the partially matched keys back in front of the buffer: key order changes with chunking")
		if mw != nil && push != nil {
			// the len(buf) used for mustWait is loaded before the push
			ld := mw.Val.(*ssa.BinOp).X.(*ssa.Call).Call.Args[0].(ssa.Instruction)
			r.Check(instrDominates(ld, push), "C05.prefix-pushback", fnName(MP)+":order"+sfx, p.IPos(mw), "mustWait reads the buffer before the push", "mustWait is computed after the prefix was pushed back (always false)")
		}
	} else {
		r.Unk("C05.prefix-pushback", "core.MatchedPrefix", "-", "anchor not found")
	}
	if MK := p.Func("core.MatchedKeys"); MK != nil {
		r.Fn(fnName(MK))
		front, clr := false, false
		eachInstr(MK, func(in ssa.Instruction) {
			if x, fr, ok := keyBufAppend(in); ok && x == ssa.Value(MK.Params[2]) && fr {
				front = true
			}
			if st, ok := isFieldStore(in, keysT, "mustWait"); ok {
				if b, ok := constBool(st.Val); ok && !b {
					clr = true
				}
			}
		})
		r.Check(front && clr, "C05.prefix-pushback", fnName(MK)+":push-front+clear"+sfx, p.Pos(MK.Pos()), "buf = append(args, buf...); mustWait = false", fmt.Sprintf("MatchedKeys does not push unmatched keys back in front (%v) and clear mustWait (%v)", front, clr))
	} else {
		r.Unk("C05.prefix-pushback", "core.MatchedKeys", "-", "anchor not found")
	}

	// ---- wait returns buffered keys without reading (K4)
	r.Rule("C05.wait-uses-buffer", "K4", "WaitAvailableKeys returns without reading when usable keys are buffered (len(buf) > 0 && !mustWait) or macro keys are queued", 2)
	if W := p.Func("core.WaitAvailableKeys"); W != nil {
		r.Fn(fnName(W))
		isRead := func(x ssa.Instruction) bool { return isCallTo(x, "(*core.Keys).readInputFiltered") }
		fld := func(name string) func(ssa.Value) bool {
			return func(v ssa.Value) bool { return isFieldLoad(v, keysT, name) }
		}
		// the assumptions are about the fields on entry: a store to one of them before the read ends them
		touches := func(names ...string) func(ssa.Instruction) bool {
			return func(x ssa.Instruction) bool {
				if isRead(x) {
					return true
				}
				for _, n := range names {
					if _, is := isFieldStore(x, keysT, n); is {
						return true
					}
				}
				return false
			}
		}
		// (a) usable keys are buffered: no path to the read
		okBuf := reachUnder(W, func(c ssa.Value) (bool, bool) {
			if isFieldLoad(c, keysT, "mustWait") {
				return false, true
			}
			return lenPositiveCond(c, fld("buf"), true)
		}, touches("buf", "mustWait"), nil) == nil
		// (b) macro keys are queued: no path to the read
		okMacro := reachUnder(W, func(c ssa.Value) (bool, bool) {
			return lenPositiveCond(c, fld("macroKeys"), true)
		}, touches("macroKeys"), nil) == nil
		// (c) the buffered keys are the rest of a prefix (mustWait) and no macro key is queued: every
		// path reads — a return is not reachable without passing the read
		if okBuf {
			okBuf = reachUnder(W, func(c ssa.Value) (bool, bool) {
				if isFieldLoad(c, keysT, "mustWait") {
					return true, true
				}
				return lenPositiveCond(c, fld("macroKeys"), false)
			}, func(x ssa.Instruction) bool { return isReturn(x) && x.Block() != W.Recover }, touches("macroKeys", "mustWait")) == nil
		}
		r.Check(okBuf, "C05.wait-uses-buffer", fnName(W)+":buffered-return"+sfx, p.Pos(W.Pos()), "early return on len(buf) > 0 && !mustWait", "WaitAvailableKeys no longer returns early when usable keys are buffered: a pasted line is consumed one read at a time (blocks although keys are pending)")
		r.Check(okMacro, "C05.wait-uses-buffer", fnName(W)+":macro-return"+sfx, p.Pos(W.Pos()), "early return on queued macro keys", "WaitAvailableKeys blocks on the terminal although macro keys are queued")
	} else {
		r.Unk("C05.wait-uses-buffer", "core.WaitAvailableKeys", "-", "anchor not found")
	}
	checkC05NewInputBehind(c, p, sfx)
	if sfx == "" {
		checkC05EscapeSingle(c)
		checkRound4Misc(c, "C05")
		checkRound5Small(c, "C05")
	}
}
