package main

import (
	"fmt"
	"go/token"
	"go/types"
	"os"
	"sort"

	"golang.org/x/tools/go/ssa"
)

// K9 — zone-domain bounds prover: abstract interpretation over go/ssa with
// difference constraints  a - b <= c  between integer SSA values, the constant
// zero, and symbolic lengths len(v). No paths are enumerated and no solver is
// involved: states are joined at merges and widened at loop heads.

const zInf = int64(1) << 50

type zterm struct {
	v   ssa.Value // nil = the constant zero
	len bool      // len(v)
}

var zZero = zterm{}

type zEntryFact struct {
	a, b zterm
	c    int64
}

func (t zterm) String() string {
	switch {
	case t.v == nil:
		return "0"
	case t.len:
		return "len(" + t.v.Name() + ")"
	}
	return t.v.Name()
}

type zcons struct {
	a, b zterm
	c    int64
}

func (c zcons) String() string { return fmt.Sprintf("%s - %s <= %d", c.a, c.b, c.c) }

type zstate struct {
	bottom  bool
	b       map[[2]zterm]int64
	terms   map[zterm]bool
	bools   map[ssa.Value]bool      // known boolean values
	guarded map[ssa.Value][]zcons   // bool value true ⇒ constraints
	ns      map[[3]ssa.Value]bool   // NS(r,i,end): i was returned by findNonSpace(r,·,end) and i < end
	nonzero map[ssa.Value]bool      // integer/rune value known != 0
	eq      map[ssa.Value]ssa.Value // value known equal to another value (NS lemma)
}

func newZState() *zstate {
	return &zstate{b: map[[2]zterm]int64{}, terms: map[zterm]bool{zZero: true}, bools: map[ssa.Value]bool{}, guarded: map[ssa.Value][]zcons{},
		ns: map[[3]ssa.Value]bool{}, nonzero: map[ssa.Value]bool{}, eq: map[ssa.Value]ssa.Value{}}
}

func (s *zstate) clone() *zstate {
	n := newZState()
	n.bottom = s.bottom
	for k, v := range s.b {
		n.b[k] = v
	}
	for k := range s.terms {
		n.terms[k] = true
	}
	for k, v := range s.bools {
		n.bools[k] = v
	}
	for k, v := range s.guarded {
		n.guarded[k] = append([]zcons(nil), v...)
	}
	for k := range s.ns {
		n.ns[k] = true
	}
	for k := range s.nonzero {
		n.nonzero[k] = true
	}
	for k, v := range s.eq {
		n.eq[k] = v
	}
	return n
}

func (s *zstate) bound(a, b zterm) int64 {
	if a == b {
		return 0
	}
	if v, ok := s.b[[2]zterm{a, b}]; ok {
		return v
	}
	// len(x) >= 0 :  0 - len(x) <= 0
	if a == zZero && b.len {
		return 0
	}
	if a == zZero && b.v != nil {
		if _, isHeap := b.v.(*heapVal); isHeap {
			return 0
		}
	}
	return zInf
}

func (s *zstate) touch(t zterm) {
	if !s.terms[t] {
		s.terms[t] = true
		if t.len {
			s.set(zZero, t, 0)
		}
	}
}

func (s *zstate) set(a, b zterm, c int64) {
	if a == b {
		if c < 0 {
			s.bottom = true
		}
		return
	}
	s.b[[2]zterm{a, b}] = c
}

// add inserts a - b <= c and restores closure incrementally.
func (s *zstate) add(a, b zterm, c int64) {
	if s.bottom {
		return
	}
	s.touch(a)
	s.touch(b)
	if s.bound(a, b) <= c {
		return
	}
	if s.bound(b, a)+c < 0 {
		s.bottom = true
		return
	}
	s.set(a, b, c)
	ts := make([]zterm, 0, len(s.terms))
	for t := range s.terms {
		ts = append(ts, t)
	}
	for _, x := range ts {
		xa := s.bound(x, a)
		if xa >= zInf {
			continue
		}
		for _, y := range ts {
			by := s.bound(b, y)
			if by >= zInf {
				continue
			}
			nb := xa + c + by
			if x == y {
				if nb < 0 {
					s.bottom = true
					return
				}
				continue
			}
			if nb < s.bound(x, y) {
				s.set(x, y, nb)
			}
		}
	}
}

func (s *zstate) addCons(c zcons) { s.add(c.a, c.b, c.c) }

func (s *zstate) holds(c zcons) bool { return s.bottom || s.bound(c.a, c.b) <= c.c }

// forget removes every constraint on t.
func (s *zstate) forget(t zterm) {
	for k := range s.b {
		if k[0] == t || k[1] == t {
			delete(s.b, k)
		}
	}
	delete(s.terms, t)
	// a guarded fact about the forgotten term describes its previous value
	for g, l := range s.guarded {
		keep := l[:0:0]
		for _, c := range l {
			if c.a != t && c.b != t {
				keep = append(keep, c)
			}
		}
		if len(keep) != len(l) {
			if len(keep) == 0 {
				delete(s.guarded, g)
			} else {
				s.guarded[g] = keep
			}
		}
	}
}

// redefine: the instruction defines v again (a loop came back to it): everything
// known about the previous instance of the value is dropped before the transfer.
func (s *zstate) redefine(v ssa.Value) {
	delete(s.bools, v)
	delete(s.guarded, v)
	delete(s.nonzero, v)
	delete(s.eq, v)
	for k, e := range s.eq {
		if e == v {
			delete(s.eq, k)
		}
	}
	for k := range s.ns {
		if k[0] == v || k[1] == v || k[2] == v {
			delete(s.ns, k)
		}
	}
	s.forget(zterm{v: v})
	s.forget(zterm{v, true})
}

func zjoin(a, b *zstate) *zstate {
	if a == nil || a.bottom {
		if b == nil {
			return nil
		}
		return b.clone()
	}
	if b == nil || b.bottom {
		return a.clone()
	}
	n := newZState()
	for k, va := range a.b {
		vb := b.bound(k[0], k[1])
		if vb >= zInf {
			continue
		}
		if vb > va {
			va = vb
		}
		n.b[k] = va
		n.terms[k[0]] = true
		n.terms[k[1]] = true
	}
	for k, v := range a.bools {
		if w, ok := b.bools[k]; ok && w == v {
			n.bools[k] = v
		}
	}
	for k := range a.ns {
		if b.ns[k] {
			n.ns[k] = true
		}
	}
	for k := range a.nonzero {
		if b.nonzero[k] {
			n.nonzero[k] = true
		}
	}
	for k, v := range a.eq {
		if b.eq[k] == v {
			n.eq[k] = v
		}
	}
	// guarded facts: g ⇒ c survives if in each state c holds, or g is known false, or g ⇒ c is recorded
	gs := map[ssa.Value]bool{}
	for g := range a.guarded {
		gs[g] = true
	}
	for g := range b.guarded {
		gs[g] = true
	}
	for g := range gs {
		var cand []zcons
		cand = append(cand, a.guarded[g]...)
		cand = append(cand, b.guarded[g]...)
		for _, c := range cand {
			if guardedHolds(a, g, c) && guardedHolds(b, g, c) && !n.holds(c) {
				n.guarded[g] = appendCons(n.guarded[g], c)
			}
		}
	}
	// a boolean known false in one state only: where it is true we came through
	// the other state, so the constraints of that state the join loses survive
	// as facts guarded by the boolean (bounds against zero only, to stay small)
	keepLost := func(from, other *zstate) {
		for g, v := range other.bools {
			if v {
				continue
			}
			if fv, ok := from.bools[g]; ok && !fv {
				continue
			}
			small := len(from.b) <= 150
			for k, c := range from.b {
				if !small && k[0] != zZero && k[1] != zZero {
					continue
				}
				cc := zcons{k[0], k[1], c}
				if !n.holds(cc) {
					n.guarded[g] = appendCons(n.guarded[g], cc)
				}
			}
		}
	}
	keepLost(a, b)
	keepLost(b, a)
	return n
}

func appendCons(l []zcons, c zcons) []zcons {
	for i, x := range l {
		if x.a == c.a && x.b == c.b {
			if c.c < x.c {
				l[i].c = c.c
			}
			return l
		}
	}
	return append(l, c)
}

func guardedHolds(s *zstate, g ssa.Value, c zcons) bool {
	if s.holds(c) {
		return true
	}
	if v, ok := s.bools[g]; ok && !v {
		return true
	}
	for _, x := range s.guarded[g] {
		if x.a == c.a && x.b == c.b && x.c <= c.c {
			return true
		}
	}
	return false
}

func zequal(a, b *zstate) bool {
	if a == nil || b == nil {
		return a == b
	}
	if a.bottom != b.bottom || len(a.b) != len(b.b) || len(a.bools) != len(b.bools) || len(a.ns) != len(b.ns) || len(a.nonzero) != len(b.nonzero) {
		return false
	}
	for k, v := range a.b {
		if w, ok := b.b[k]; !ok || w != v {
			return false
		}
	}
	for g, l := range a.guarded {
		if len(b.guarded[g]) != len(l) {
			return false
		}
	}
	return len(a.guarded) == len(b.guarded)
}

// zwiden: constraints that grew are dropped.
func zwiden(old, nw *zstate) *zstate {
	if old == nil || old.bottom {
		return nw
	}
	if nw == nil || nw.bottom {
		return old
	}
	n := nw.clone()
	for k, v := range nw.b {
		if ov, ok := old.b[k]; !ok || v > ov {
			delete(n.b, k)
			_ = ov
		}
	}
	return n
}

// ---------------------------------------------------------------------------
// contracts

type ZArg struct {
	Kind byte // 'P' param i, 'L' len(param i), 'R' result i, 'M' len(result i), 'Z' zero
	I    int
}

type ZC struct {
	A, B ZArg
	C    int64
}

type ZEnsure struct {
	Guard byte // 0 unconditional, 'T' result[GI] true, 'N' result[GI] != 0
	GI    int
	Cons  []ZC
}

type ZContract struct {
	// Trusted: a reviewed lemma about heap state; not checked against the body
	Trusted  bool
	Requires []ZC
	Ensures  []ZEnsure
	NSReq    [][3]int // NS(param a, param b, param c) required
}

func zh(i int) ZArg { return ZArg{'H', i} } // length of the line designated by *Line argument i
func zo(i int) ZArg { return ZArg{'O', i} } // length of the line of Cursor/Selection argument i
func zp(i int) ZArg { return ZArg{'P', i} }
func zl(i int) ZArg { return ZArg{'L', i} }
func zr(i int) ZArg { return ZArg{'R', i} }
func zm(i int) ZArg { return ZArg{'M', i} }

var zz = ZArg{'Z', 0}

// a <= b + c   ⇔  a - b <= c
func le(a, b ZArg, c int64) ZC { return ZC{a, b, c} }

// ---------------------------------------------------------------------------
// engine

type binopKey struct {
	op   token.Token
	x, y string
}

// valueKey numbers pure integer expressions structurally: constants, len(v),
// x ± y; anything else is itself.
func valueKey(v ssa.Value, d int) string {
	if d > 4 {
		return fmt.Sprintf("%p", v)
	}
	switch x := v.(type) {
	case *ssa.Const:
		return "const:" + x.String()
	case *ssa.BinOp:
		if x.Op == token.ADD || x.Op == token.SUB {
			return "(" + valueKey(x.X, d+1) + x.Op.String() + valueKey(x.Y, d+1) + ")"
		}
	case *ssa.Call:
		if b, ok := x.Call.Value.(*ssa.Builtin); ok && b.Name() == "len" && len(x.Call.Args) == 1 {
			// len of a string or of an SSA slice value (a value, not a memory read)
			return "len(" + fmt.Sprintf("%p", x.Call.Args[0]) + ")"
		}
	}
	return fmt.Sprintf("%p", v)
}

func mkBinopKey(bo *ssa.BinOp) binopKey {
	return binopKey{bo.Op, valueKey(bo.X, 0), valueKey(bo.Y, 0)}
}

type ZObl struct {
	Fn     *ssa.Function
	In     ssa.Instruction
	What   string
	OK     bool
	Detail string
	// for index/slice obligations: the non-negativity part alone (index >= 0, 0 <= low, 0 <= high)
	IsBound bool
	LowerOK bool
	UpperOK bool // the `<= len` clause alone (index < len, high <= len)
}

type zoneEngine struct {
	p         *Prog
	contracts map[string]*ZContract
	fn        *ssa.Function
	canon     map[ssa.Value]ssa.Value // canonical representative for field loads
	obls      []ZObl
	// field invariants: type.field -> minimal length (len(field) >= k) assumed at loads, checked at stores
	fieldMinLen map[string]int64
	// state getters (c01_bounds.go): call -> earlier call known to return the same value
	useGetters bool
	getterEq   map[*ssa.Call]*ssa.Call
	loadLB     map[*ssa.UnOp]int64
	loadUB     map[*ssa.UnOp]string // load <= length term of this line class
	sameBinOps map[binopKey][]*ssa.BinOp
	// heap length terms (zone_heap.go)
	useHeap   bool
	heapTerms map[string]*heapVal
	lineKills map[ssa.Instruction]bool
	curIn     ssa.Instruction
	// integer field invariants: type.field >= k, assumed at loads, checked at every store
	fieldLB map[string]int64
	// fieldLBCheck: like fieldLB but obligation only (no assumption at loads): class invariants
	fieldLBCheck map[string]int64
	// entryNonneg: integer parameters known >= 0 on entry (callbacks of sort.Slice, sort.Interface methods)
	entryNonneg func(fn *ssa.Function) []*ssa.Parameter
	// entryFacts: relational facts a - b <= c valid whenever both terms are defined (sort callbacks: i < len(sorted))
	entryFacts func(fn *ssa.Function) []zEntryFact
	// inLoop: blocks of the current function that belong to a natural loop (their values are redefined)
	inLoop map[*ssa.BasicBlock]bool
	// zone_inline.go: read-only leaf helpers are evaluated in the caller's state
	inlining bool
	inlineOK map[*ssa.Function]bool
}

func (z *zoneEngine) slcanon(v ssa.Value) ssa.Value {
	for i := 0; i < 8; i++ {
		switch x := v.(type) {
		case *ssa.ChangeType:
			v = x.X
			continue
		case *ssa.Convert:
			// conversions between slice types of the same element keep the length; string<->[]rune do not
			if sameSeqKind(x.Type(), x.X.Type()) {
				v = x.X
				continue
			}
		}
		break
	}
	if c, ok := z.canon[v]; ok {
		return c
	}
	return v
}

func sameSeqKind(a, b types.Type) bool {
	sa, ok1 := a.Underlying().(*types.Slice)
	sb, ok2 := b.Underlying().(*types.Slice)
	if ok1 && ok2 {
		return types.Identical(sa.Elem().Underlying(), sb.Elem().Underlying())
	}
	ba, ok1 := a.Underlying().(*types.Basic)
	bb, ok2 := b.Underlying().(*types.Basic)
	return ok1 && ok2 && ba.Info()&types.IsString != 0 && bb.Info()&types.IsString != 0
}

func (z *zoneEngine) lenOf(v ssa.Value) (zterm, int64) {
	if t, ok := z.heapLenOf(v); ok {
		return t, 0
	}
	if k, ok := z.elemLenLemma(v); ok {
		return zZero, k
	}
	v = z.slcanon(v)
	// pointer to array: constant length
	if pt, ok := v.Type().Underlying().(*types.Pointer); ok {
		if at, ok := pt.Elem().Underlying().(*types.Array); ok {
			return zZero, at.Len()
		}
	}
	if at, ok := v.Type().Underlying().(*types.Array); ok {
		return zZero, at.Len()
	}
	if s, ok := constString(v); ok {
		return zZero, int64(len(s))
	}
	if c, ok := v.(*ssa.Const); ok && c.Value == nil {
		return zZero, 0
	}
	return zterm{v, true}, 0
}

// lin normalises an integer value to base term + offset.
func (z *zoneEngine) lin(s *zstate, v ssa.Value) (zterm, int64) {
	for i := 0; i < 16; i++ {
		if e, ok := s.eq[v]; ok && e != v {
			v = e
			continue
		}
		if c, ok := z.canon[v]; ok && c != v {
			v = c
			continue
		}
		switch x := v.(type) {
		case *ssa.Const:
			if k, ok := constInt(x); ok {
				return zZero, k
			}
		case *ssa.BinOp:
			if x.Op == token.ADD || x.Op == token.SUB {
				if k, ok := constInt(x.Y); ok {
					t, o := z.lin(s, x.X)
					if x.Op == token.SUB {
						k = -k
					}
					return t, o + k
				}
				if k, ok := constInt(x.X); ok && x.Op == token.ADD {
					t, o := z.lin(s, x.Y)
					return t, o + k
				}
			}
		case *ssa.Convert:
			if isIntType(x.Type()) && isIntType(x.X.Type()) {
				v = x.X
				continue
			}
		case *ssa.Call:
			if b, ok := x.Call.Value.(*ssa.Builtin); ok && b.Name() == "len" && len(x.Call.Args) == 1 {
				return z.lenOf(x.Call.Args[0])
			}
		}
		break
	}
	return zterm{v: v}, 0
}

func isIntType(t types.Type) bool {
	b, ok := t.Underlying().(*types.Basic)
	return ok && b.Info()&types.IsInteger != 0
}

// leq adds  x + ox <= y + oy  i.e. x - y <= oy - ox
func (z *zoneEngine) leq(s *zstate, x zterm, ox int64, y zterm, oy int64) { s.add(x, y, oy-ox) }

func (z *zoneEngine) provesLeq(s *zstate, x zterm, ox int64, y zterm, oy int64) bool {
	if s.bottom || s.bound(x, y) <= oy-ox {
		return true
	}
	// sum lemma, evaluated with what is known now (the sign of an operand is often learnt
	// after the sum was computed): for t = A + B, A + lb(B) <= t <= A + ub(B); for t = A - B,
	// A - ub(B) <= t <= A - lb(B)
	type part struct {
		a      zterm
		oa     int64
		lb, ub int64 // bounds of the other operand's contribution (may be ±inf)
	}
	parts := func(t zterm) []part {
		if t.v == nil || t.len {
			return nil
		}
		bo, ok := t.v.(*ssa.BinOp)
		if !ok || (bo.Op != token.ADD && bo.Op != token.SUB) || !isIntType(bo.Type()) {
			return nil
		}
		contrib := func(v ssa.Value, neg bool) (int64, int64) {
			b, ob := z.lin(s, v)
			lb, ub := -zInf, zInf
			if b == zZero {
				lb, ub = ob, ob
			} else {
				if d := s.bound(zZero, b); d < zInf {
					lb = -d + ob
				}
				if d := s.bound(b, zZero); d < zInf {
					ub = d + ob
				}
			}
			if neg {
				lb, ub = -ub, -lb
			}
			return lb, ub
		}
		var out []part
		a, oa := z.lin(s, bo.X)
		lb, ub := contrib(bo.Y, bo.Op == token.SUB)
		out = append(out, part{a, oa, lb, ub})
		if bo.Op == token.ADD {
			a2, oa2 := z.lin(s, bo.Y)
			lb2, ub2 := contrib(bo.X, false)
			out = append(out, part{a2, oa2, lb2, ub2})
		}
		return out
	}
	// x + ox <= y + oy with y = a + [lb, ub]: enough that x + ox <= a + oa + lb + oy
	for _, p := range parts(y) {
		if p.lb > -zInf/2 && s.bound(x, p.a) <= p.oa+p.lb+oy-ox {
			return true
		}
	}
	// difference lemma: x <= A - B (+ oy) holds when B - A <= oy - ox - x, i.e. for the constant
	// zero on the left, when the zone bounds B - A; symmetrically A - B <= y.
	diff := func(t zterm) (a, b zterm, oa, ob int64, ok bool) {
		if t.v == nil || t.len {
			return
		}
		bo, isBo := t.v.(*ssa.BinOp)
		if !isBo || bo.Op != token.SUB || !isIntType(bo.Type()) {
			return
		}
		a, oa = z.lin(s, bo.X)
		b, ob = z.lin(s, bo.Y)
		return a, b, oa, ob, true
	}
	if x == zZero {
		if a, b, oa, ob, ok := diff(y); ok {
			// ox <= (a + oa) - (b + ob) + oy   <=>   b - a <= oa - ob + oy - ox
			if d := s.bound(b, a); d < zInf && d <= oa-ob+oy-ox {
				return true
			}
		}
	}
	if y == zZero {
		if a, b, oa, ob, ok := diff(x); ok {
			// (a + oa) - (b + ob) + ox <= oy   <=>   a - b <= oy - ox - oa + ob
			if d := s.bound(a, b); d < zInf && d <= oy-ox-oa+ob {
				return true
			}
		}
	}
	// x = a + [lb, ub]: enough that a + oa + ub + ox <= y + oy
	for _, p := range parts(x) {
		if p.ub < zInf/2 && s.bound(p.a, y) <= oy-ox-p.oa-p.ub {
			return true
		}
	}
	return false
}

// refine applies a branch condition.
func (z *zoneEngine) refine(s *zstate, cond ssa.Value, val bool) {
	if s.bottom {
		return
	}
	if k, ok := constBool(cond); ok {
		if k != val {
			s.bottom = true
		}
		return
	}
	if kv, ok := s.bools[cond]; ok && kv != val {
		s.bottom = true
		return
	}
	s.bools[cond] = val
	if !val {
		z.activate(s, cond, 'F')
	}
	// syntactically identical comparisons (same operator and operands, e.g. the
	// `pos == 0` of two switch cases) have the same value
	if bo, ok := cond.(*ssa.BinOp); ok {
		for _, other := range z.sameBinOps[mkBinopKey(bo)] {
			if other != bo {
				if kv, ok := s.bools[other]; ok && kv != val {
					s.bottom = true
					return
				}
				s.bools[other] = val
			}
		}
	}
	if val {
		for _, c := range s.guarded[cond] {
			s.addCons(c)
		}
		if bo, ok := cond.(*ssa.BinOp); ok {
			for _, other := range z.sameBinOps[mkBinopKey(bo)] {
				if other != bo {
					for _, c := range s.guarded[other] {
						s.addCons(c)
					}
				}
			}
		}
	}
	switch x := cond.(type) {
	case *ssa.Call:
		// lemma: unicode.IsSpace / IsPunct / IsLetter / IsDigit / IsPrint are false for rune 0
		if val {
			switch calleeName(x) {
			case "unicode.IsSpace", "unicode.IsPunct", "unicode.IsLetter", "unicode.IsDigit", "unicode.IsPrint":
				z.markNonZero(s, x.Call.Args[0])
			}
		}
	case *ssa.UnOp:
		if x.Op == token.NOT {
			z.refine(s, x.X, !val)
		}
	case *ssa.BinOp:
		op := x.Op
		if !val {
			op = negateOp(op)
		}
		// error result known nil: activate "err == nil ⇒ …" ensures
		if v, tn, ok := nilCmp(x); ok {
			isNil := (x.Op == token.EQL) == val
			_ = tn
			if isNil {
				z.activate(s, v, 'E')
			}
			return
		}
		if !isIntType(x.X.Type()) {
			return
		}
		a, oa := z.lin(s, x.X)
		b, ob := z.lin(s, x.Y)
		switch op {
		case token.LSS:
			z.leq(s, a, oa+1, b, ob)
		case token.LEQ:
			z.leq(s, a, oa, b, ob)
		case token.GTR:
			z.leq(s, b, ob+1, a, oa)
		case token.GEQ:
			z.leq(s, b, ob, a, oa)
		case token.EQL:
			z.leq(s, a, oa, b, ob)
			z.leq(s, b, ob, a, oa)
			// value == nonzero constant ⇒ value != 0
			if k, ok := constInt(x.Y); ok && k != 0 {
				z.markNonZero(s, x.X)
			}
			if k, ok := constInt(x.X); ok && k != 0 {
				z.markNonZero(s, x.Y)
			}
		case token.NEQ:
			// boundary rule: a >= b ∧ a != b ⇒ a >= b+1 (and symmetric)
			if z.provesLeq(s, b, ob, a, oa) {
				z.leq(s, b, ob+1, a, oa)
			} else if z.provesLeq(s, a, oa, b, ob) {
				z.leq(s, a, oa+1, b, ob)
			}
			if k, ok := constInt(x.Y); ok && k == 0 {
				z.markNonZero(s, x.X)
			}
		}
		// conditional ensures guarded by "result >= 0" ('P') or "len(result) >= 1" ('L')
		for _, opnd := range []ssa.Value{x.X, x.Y} {
			if cl, ok := opnd.(*ssa.Call); ok {
				if b, isB := cl.Call.Value.(*ssa.Builtin); isB && b.Name() == "len" && len(cl.Call.Args) == 1 {
					w := cl.Call.Args[0]
					l, ol := z.lenOf(w)
					if z.provesLeq(s, zZero, 1, l, ol) {
						z.activate(s, w, 'L')
					}
					continue
				}
			}
			if isIntType(opnd.Type()) {
				t, o := z.lin(s, opnd)
				if t != zZero && o == 0 && z.provesLeq(s, zZero, 0, t, 0) {
					z.activate(s, opnd, 'P')
				}
			}
		}
	}
}

// contractFor: the contract of a call — by callee name, or, for a call through
// a func value of a named func type, the contract of that type (every function
// stored in such a value is checked against it).
func (z *zoneEngine) contractFor(c *ssa.Call) *ZContract {
	n := calleeName(c)
	if ct := z.contracts[n]; ct != nil {
		return ct
	}
	if n == "dynamic" {
		return z.contracts["type:"+typeStr(c.Call.Value.Type())]
	}
	return nil
}

// saturate applies the facts guarded by comparisons the state already decides.
func (z *zoneEngine) saturate(s *zstate) {
	for i := 0; i < 3; i++ {
		changed := false
		for g, cons := range s.guarded {
			if _, known := s.bools[g]; known {
				continue
			}
			bo, ok := g.(*ssa.BinOp)
			if !ok || !isIntType(bo.X.Type()) {
				continue
			}
			a, oa := z.lin(s, bo.X)
			b, ob := z.lin(s, bo.Y)
			holds := false
			switch bo.Op {
			case token.LSS:
				holds = z.provesLeq(s, a, oa+1, b, ob)
			case token.LEQ:
				holds = z.provesLeq(s, a, oa, b, ob)
			case token.GTR:
				holds = z.provesLeq(s, b, ob+1, a, oa)
			case token.GEQ:
				holds = z.provesLeq(s, b, ob, a, oa)
			}
			if holds {
				s.bools[g] = true
				for _, c := range cons {
					s.addCons(c)
				}
				changed = true
			}
		}
		if !changed {
			return
		}
	}
}

func (z *zoneEngine) markNonZero(s *zstate, v ssa.Value) {
	if s.nonzero[v] {
		return
	}
	s.nonzero[v] = true
	// activate conditional ensures guarded by "result != 0"
	z.activate(s, v, 'N')
}

// activate applies conditional ensures of the call that produced v.
func (z *zoneEngine) activate(s *zstate, v ssa.Value, guard byte) {
	var call *ssa.Call
	idx := 0
	switch x := v.(type) {
	case *ssa.Call:
		call = x
	case *ssa.Extract:
		call, _ = x.Tuple.(*ssa.Call)
		idx = x.Index
	}
	if call == nil {
		return
	}
	ct := z.contractFor(call)
	if ct == nil {
		return
	}
	for _, e := range ct.Ensures {
		if e.Guard == guard && e.GI == idx {
			for _, c := range e.Cons {
				z.applyZC(s, call, c)
			}
		}
	}
}

func (z *zoneEngine) zarg(s *zstate, call *ssa.Call, a ZArg) (zterm, int64, bool) {
	args := call.Call.Args
	switch a.Kind {
	case 'Z':
		return zZero, 0, true
	case 'P':
		if a.I < len(args) {
			t, o := z.lin(s, args[a.I])
			return t, o, true
		}
	case 'L':
		if a.I < len(args) {
			t, o := z.lenOf(args[a.I])
			return t, o, true
		}
	case 'H', 'O':
		if !z.useHeap || a.I >= len(args) {
			return zterm{}, 0, false
		}
		class := ""
		if a.Kind == 'H' {
			class = lineClassOfPtr(args[a.I])
		} else {
			class = lineClassOfObj(args[a.I])
		}
		if class == "" {
			return zterm{}, 0, false
		}
		return z.lineTerm(class), 0, true
	case 'R', 'M':
		var rv ssa.Value
		if call.Type().(interface{ Underlying() types.Type }) != nil {
			if tup, ok := call.Type().(*types.Tuple); ok && tup.Len() > 1 {
				for _, ref := range referrersOf(call) {
					if ex, ok := ref.(*ssa.Extract); ok && ex.Index == a.I {
						rv = ex
					}
				}
			} else if a.I == 0 {
				rv = call
			}
		}
		if rv == nil {
			return zterm{}, 0, false
		}
		if a.Kind == 'M' {
			t, o := z.lenOf(rv)
			return t, o, true
		}
		t, o := z.lin(s, rv)
		return t, o, true
	}
	return zterm{}, 0, false
}

func (z *zoneEngine) applyZC(s *zstate, call *ssa.Call, c ZC) {
	a, oa, ok1 := z.zarg(s, call, c.A)
	b, ob, ok2 := z.zarg(s, call, c.B)
	if ok1 && ok2 {
		// (a+oa) - (b+ob) <= C
		s.add(a, b, c.C-oa+ob)
	}
}

func (z *zoneEngine) checkZC(s *zstate, call *ssa.Call, c ZC) bool {
	a, oa, ok1 := z.zarg(s, call, c.A)
	b, ob, ok2 := z.zarg(s, call, c.B)
	if !ok1 || !ok2 {
		return false
	}
	return s.bottom || s.bound(a, b) <= c.C-oa+ob
}

func (z *zoneEngine) obl(in ssa.Instruction, what string, ok bool, detail string) {
	z.obls = append(z.obls, ZObl{Fn: z.fn, In: in, What: what, OK: ok, Detail: detail})
}

func (z *zoneEngine) describe(s *zstate, t zterm, o int64) string {
	lo, hi := "-inf", "+inf"
	if b := s.bound(zZero, t); b < zInf {
		lo = fmt.Sprint(-b + o)
	}
	if b := s.bound(t, zZero); b < zInf {
		hi = fmt.Sprint(b + o)
	}
	return fmt.Sprintf("%s%+d ∈ [%s, %s]", t, o, lo, hi)
}

// transfer processes one instruction: obligations first, then effects.
func (z *zoneEngine) transfer(s *zstate, in ssa.Instruction, record bool) {
	if s.bottom {
		return
	}
	z.curIn = in
	if v, isVal := in.(ssa.Value); isVal && z.inLoop[in.Block()] {
		_, isPhi := in.(*ssa.Phi)
		_, isExtract := in.(*ssa.Extract)
		if !isPhi && !isExtract {
			s.redefine(v)
			// the components of a tuple get their facts from the instruction that produces the tuple
			if refs := v.Referrers(); refs != nil {
				if _, isTuple := v.Type().(*types.Tuple); isTuple {
					for _, r := range *refs {
						if ex, ok := r.(*ssa.Extract); ok {
							s.redefine(ex)
						}
					}
				}
			}
		}
	}
	if z.lineKills[in] {
		defer func() {
			// the instruction may change the length of a shared line
			for _, hv := range z.heapTerms {
				s.forget(zterm{v: hv})
			}
		}()
	}
	chkIndex := func(x ssa.Value, idx ssa.Value, what string) {
		if !record {
			return
		}
		i, oi := z.lin(s, idx)
		l, ol := z.lenOf(x)
		s.touch(l)
		lower := z.provesLeq(s, zZero, 0, i, oi)
		upper := z.provesLeq(s, i, oi+1, l, ol)
		det := ""
		if !lower || !upper {
			det = fmt.Sprintf("index %s; length %s; relation index-len <= %s", z.describe(s, i, oi), z.describe(s, l, ol), boundStr(s.bound(i, l)+oi-ol))
		}
		z.obl(in, what, lower && upper, det)
		z.obls[len(z.obls)-1].IsBound = true
		z.obls[len(z.obls)-1].LowerOK = lower
		z.obls[len(z.obls)-1].UpperOK = upper
	}
	switch x := in.(type) {
	case *ssa.IndexAddr:
		chkIndex(x.X, x.Index, "index")
	case *ssa.Index:
		chkIndex(x.X, x.Index, "index")
	case *ssa.Slice:
		l, ol := z.lenOf(x.X)
		s.touch(l)
		var lo, hi zterm
		var olo, ohi int64
		lo, olo = zZero, 0
		if x.Low != nil {
			lo, olo = z.lin(s, x.Low)
		}
		hi, ohi = l, ol
		if x.High != nil {
			hi, ohi = z.lin(s, x.High)
		}
		if record {
			ok1 := z.provesLeq(s, zZero, 0, lo, olo)
			ok2 := z.provesLeq(s, lo, olo, hi, ohi)
			ok3 := z.provesLeq(s, hi, ohi, l, ol)
			det := ""
			if !(ok1 && ok2 && ok3) {
				det = fmt.Sprintf("low %s; high %s; length %s (0<=low:%v low<=high:%v high<=len:%v)", z.describe(s, lo, olo), z.describe(s, hi, ohi), z.describe(s, l, ol), ok1, ok2, ok3)
			}
			z.obl(in, "slice", ok1 && ok2 && ok3, det)
			z.obls[len(z.obls)-1].IsBound = true
			z.obls[len(z.obls)-1].UpperOK = ok3
			// s[lo:hi] with lo given: a negative hi is an ordering failure (hi < lo), not checked here
			z.obls[len(z.obls)-1].LowerOK = ok1 && (x.Low != nil || x.High == nil || z.provesLeq(s, zZero, 0, hi, ohi))
		}
		// len(result) = hi - lo
		rl := zterm{x, true}
		s.forget(rl)
		s.touch(rl)
		if lo == zZero {
			// len = hi + ohi - olo
			s.add(rl, hi, ohi-olo)
			s.add(hi, rl, olo-ohi)
		} else {
			// len <= hi+ohi - lowerbound(lo)
			if lb := s.bound(zZero, lo); lb < zInf {
				s.add(rl, hi, ohi-(-lb+olo))
			}
			// len >= hi+ohi - upperbound(lo)  (only when hi is based on lo's own bound partner)
			if ub := s.bound(lo, hi); ub < zInf {
				// lo - hi <= ub  ⇒ hi - lo >= -ub ⇒ len >= -ub + ohi - olo
				s.add(zZero, rl, ub-ohi+olo)
			}
		}
	case *ssa.Convert:
		// []rune(string) / string([]rune): runes <= bytes
		if _, isSl := x.Type().Underlying().(*types.Slice); isSl {
			if bt, ok := x.X.Type().Underlying().(*types.Basic); ok && bt.Info()&types.IsString != 0 && isRuneSeq(x.Type()) {
				rl := zterm{x, true}
				s.forget(rl)
				s.touch(rl)
				sl, so := z.lenOf(x.X)
				s.add(rl, sl, so)
			}
		}
	case *ssa.MakeSlice:
		rl := zterm{x, true}
		s.forget(rl)
		s.touch(rl)
		n, on := z.lin(s, x.Len)
		s.add(rl, n, on)
		s.add(n, rl, -on)
	case *ssa.UnOp:
		if x.Op == token.MUL {
			if tn, fld, ok := fieldOf(x.X); ok {
				if k, ok := z.fieldMinLen[tn+"."+fld]; ok {
					l, ol := z.lenOf(x)
					s.touch(l)
					// len >= k
					s.add(zZero, l, ol-k)
				}
				if k, ok := z.fieldLB[tn+"."+fld]; ok && isIntType(x.Type()) {
					t := zterm{v: x}
					s.forget(t)
					s.add(zZero, t, -k)
				}
			}
			if k, ok := z.loadLB[x]; ok {
				s.add(zZero, zterm{v: x}, -k)
			}
			if cl, ok := z.loadUB[x]; ok {
				s.add(zterm{v: x}, z.lineTerm(cl), 0)
			}
		}
	case *ssa.Store:
		if tn, fld, ok := fieldOf(x.Addr); ok {
			if k, ok := z.fieldMinLen[tn+"."+fld]; ok && record {
				l, ol := z.lenOf(x.Val)
				s.touch(l)
				okLen := z.provesLeq(s, zZero, k, l, ol)
				z.obl(in, "field invariant len("+tn+"."+fld+") >= "+fmt.Sprint(k), okLen, "stored value "+z.describe(s, l, ol))
			}
			if k, ok := z.fieldLBCheck[tn+"."+fld]; ok && record && isIntType(x.Val.Type()) {
				fresh := false
				if fa, isFA := x.Addr.(*ssa.FieldAddr); isFA {
					_, fresh = fa.X.(*ssa.Alloc)
				}
				if !fresh {
					t, o := z.lin(s, x.Val)
					okLB := z.provesLeq(s, zZero, k, t, o)
					z.obl(in, "class invariant "+tn+"."+fld+" >= "+fmt.Sprint(k), okLB, "stored value "+z.describe(s, t, o))
				}
			}
			if k, ok := z.fieldLB[tn+"."+fld]; ok && record && isIntType(x.Val.Type()) {
				t, o := z.lin(s, x.Val)
				okLB := z.provesLeq(s, zZero, k, t, o)
				z.obl(in, "field invariant "+tn+"."+fld+" >= "+fmt.Sprint(k), okLB, "stored value "+z.describe(s, t, o))
			}
		}
	case *ssa.BinOp:
		// x + y with two non-constant operands: the domain has no sums, but
		// lower bounds add up and the result dominates each operand shifted
		// by the other one's lower bound
		if x.Op == token.ADD && isIntType(x.Type()) {
			_, kx := constInt(x.X)
			_, ky := constInt(x.Y)
			if !kx && !ky {
				tx, ox := z.lin(s, x.X)
				ty, oy := z.lin(s, x.Y)
				rt := zterm{v: x}
				s.forget(rt)
				lbx, lby := s.bound(zZero, tx), s.bound(zZero, ty)
				if lbx < zInf && lby < zInf {
					// x >= -lbx+ox, y >= -lby+oy
					s.add(zZero, rt, lbx+lby-ox-oy)
				}
				if lby < zInf {
					// r >= x + (y's lower bound)
					s.add(tx, rt, lby-oy-ox)
				}
				if lbx < zInf {
					s.add(ty, rt, lbx-ox-oy)
				}
			}
		}
	case *ssa.Call:
		z.call(s, x, record)
	case *ssa.Return:
		if record && x.Block() != z.fn.Recover {
			z.checkEnsures(s, x)
		}
	}
}

// checkEnsures verifies the analysed function's own postconditions at a return.
func (z *zoneEngine) checkEnsures(s *zstate, ret *ssa.Return) {
	ct := z.contracts[fnName(z.fn)]
	if ct == nil || ct.Trusted {
		return
	}
	term := func(a ZArg) (zterm, int64, bool) {
		switch a.Kind {
		case 'R':
			if a.I < len(ret.Results) {
				t, o := z.lin(s, ret.Results[a.I])
				return t, o, true
			}
		case 'M':
			if a.I < len(ret.Results) {
				t, o := z.lenOf(ret.Results[a.I])
				return t, o, true
			}
		default:
			return z.zargParam(z.fn, a)
		}
		return zterm{}, 0, false
	}
	for _, e := range ct.Ensures {
		var gv ssa.Value
		if e.Guard != 0 && e.GI < len(ret.Results) {
			gv = ret.Results[e.GI]
		}
		switch e.Guard {
		case 'T':
			if k, ok := constBool(gv); ok && !k {
				continue
			}
			if k, ok := s.bools[gv]; ok && !k {
				continue
			}
		case 'N':
			if k, ok := constInt(gv); ok && k == 0 {
				continue
			}
		case 'F':
			if k, ok := constBool(gv); ok && k {
				continue
			}
			if k, ok := s.bools[gv]; ok && k {
				continue
			}
		case 'L':
			if gv != nil {
				l, ol := z.lenOf(gv)
				if z.provesLeq(s, l, ol, zZero, 0) {
					continue // an empty result: the guarded ensure says nothing
				}
			}
		case 'P':
			if gv != nil {
				t, o := z.lin(s, gv)
				if z.provesLeq(s, t, o, zZero, -1) {
					continue // a negative result
				}
			}
		case 'E':
			if !isNilConst(gv) {
				if _, isPhi := gv.(*ssa.Phi); !isPhi {
					continue // a definite error value
				}
			}
		}
		// the guarded ensures are checked under their guard
		cs := s
		if gv != nil && (e.Guard == 'P' || e.Guard == 'L' || e.Guard == 'F') {
			cs = s.clone()
			switch e.Guard {
			case 'P':
				t, o := z.lin(cs, gv)
				z.leq(cs, zZero, 0, t, o)
			case 'L':
				l, ol := z.lenOf(gv)
				z.leq(cs, zZero, 1, l, ol)
			case 'F':
				z.refine(cs, gv, false)
			}
			z.saturate(cs)
			if cs.bottom {
				continue
			}
		}
		for _, c := range e.Cons {
			a, oa, ok1 := term(c.A)
			b, ob, ok2 := term(c.B)
			if !ok1 || !ok2 {
				z.obl(ret, "postcondition "+zcString(c), false, "terms not resolvable")
				continue
			}
			cons := zcons{a, b, c.C - oa + ob}
			ok := cs.holds(cons)
			if !ok && e.Guard == 'T' && gv != nil {
				ok = guardedHolds(s, gv, cons)
			}
			if !ok && e.Guard == 'N' {
				// ret != 0 guard: the returned value is an element r[i] read under i < end — recognised when the
				// return sits in a block where the constraint holds; otherwise fails
			}
			det := ""
			if !ok {
				det = fmt.Sprintf("%s; %s", z.describe(s, a, oa), z.describe(s, b, ob))
			}
			z.obl(ret, "postcondition "+zcString(c), ok, det)
		}
	}
}

func boundStr(b int64) string {
	if b >= zInf/2 {
		return "+inf"
	}
	return fmt.Sprint(b)
}

func (z *zoneEngine) call(s *zstate, c *ssa.Call, record bool) {
	if b, ok := c.Call.Value.(*ssa.Builtin); ok {
		switch b.Name() {
		case "append":
			if len(c.Call.Args) == 2 {
				rl := zterm{c, true}
				s.forget(rl)
				s.touch(rl)
				xl, xo := z.lenOf(c.Call.Args[0])
				yl, yo := z.lenOf(c.Call.Args[1])
				s.touch(xl)
				// len(x) + lb(len(y)) <= len(r) <= len(x) + ub(len(y))
				s.touch(yl)
				ylb, yub := int64(0), zInf
				if yl == zZero {
					ylb, yub = yo, yo
				} else {
					if b := s.bound(zZero, yl); b < zInf {
						ylb = -b + yo
					}
					if b := s.bound(yl, zZero); b < zInf {
						yub = b + yo
					}
				}
				if yub < zInf {
					s.add(rl, xl, xo+yub)
				}
				s.add(xl, rl, -xo-ylb)
			}
		case "min", "max":
			// r = min(a1..an): r <= ai for every i, and for every term t, t - r <= max_i (t - ai);
			// r = max(a1..an): r >= ai for every i, and for every term t, r - t <= max_i (ai - t).
			if !isIntType(c.Type()) || len(c.Call.Args) == 0 {
				return
			}
			isMin := b.Name() == "min"
			r := zterm{v: c}
			s.forget(r)
			type lt struct {
				t zterm
				o int64
			}
			var args []lt
			for _, a := range c.Call.Args {
				t, o := z.lin(s, a)
				s.touch(t)
				args = append(args, lt{t, o})
			}
			var terms []zterm
			for t := range s.terms {
				terms = append(terms, t)
			}
			type pend struct {
				a, b zterm
				c    int64
			}
			var adds []pend
			for _, t := range terms {
				if t == r {
					continue
				}
				worst := int64(-zInf)
				for _, a := range args {
					var bd int64
					if isMin {
						bd = s.bound(t, a.t) // t - a.t <= bd  ⇒  t - (a.t+a.o) <= bd - a.o
						if bd < zInf {
							bd -= a.o
						}
					} else {
						bd = s.bound(a.t, t) // a.t - t <= bd ⇒ (a.t+a.o) - t <= bd + a.o
						if bd < zInf {
							bd += a.o
						}
					}
					if bd >= zInf {
						worst = zInf
						break
					}
					if bd > worst {
						worst = bd
					}
				}
				if worst < zInf && worst > -zInf {
					if isMin {
						adds = append(adds, pend{t, r, worst})
					} else {
						adds = append(adds, pend{r, t, worst})
					}
				}
			}
			for _, a := range args {
				if isMin {
					adds = append(adds, pend{r, a.t, a.o}) // r <= a.t + a.o
				} else {
					adds = append(adds, pend{a.t, r, -a.o}) // a.t + a.o <= r
				}
			}
			for _, a := range adds {
				s.add(a.a, a.b, a.c)
			}
		}
		return
	}
	n := calleeName(c)
	if c1, ok := z.getterEq[c]; ok {
		s.eq[c] = c1
	}
	if n == "unicode/utf8.RuneCountInString" && len(c.Call.Args) == 1 {
		// lemma: string(r) of a []rune r has exactly len(r) runes (an invalid
		// rune becomes U+FFFD, still one rune)
		if cv, ok := c.Call.Args[0].(*ssa.Convert); ok && isRuneSeq(cv.X.Type()) {
			rt := zterm{v: c}
			s.forget(rt)
			l, ol := z.lenOf(cv.X)
			s.touch(l)
			s.add(rt, l, ol)
			s.add(l, rt, -ol)
			s.add(zZero, rt, 0)
			return
		}
	}
	switch n {
	case "strings.Index", "strings.IndexByte", "strings.IndexRune", "strings.LastIndex":
		// -1 <= ret <= len(s) - 1 for a non-empty needle
		nonEmpty := n != "strings.Index" && n != "strings.LastIndex"
		if k, ok := constString(c.Call.Args[1]); ok && len(k) > 0 {
			nonEmpty = true
		}
		if nonEmpty {
			rt := zterm{v: c}
			s.forget(rt)
			s.add(zZero, rt, 1)
			sl, so := z.lenOf(c.Call.Args[0])
			s.touch(sl)
			s.add(rt, sl, so-1)
		}
		return
	case "strings.HasPrefix", "strings.HasSuffix":
		if k, ok := constString(c.Call.Args[1]); ok {
			sl, so := z.lenOf(c.Call.Args[0])
			s.touch(sl)
			// true ⇒ len(s) >= len(k)
			s.guarded[c] = appendCons(s.guarded[c], zcons{zZero, sl, so - int64(len(k))})
		}
		return
	}
	ct := z.contractFor(c)
	if ct == nil {
		if f := z.inlineTarget(c); f != nil {
			z.inlineCall(s, c, f)
		}
		return
	}
	if record {
		for _, rq := range ct.Requires {
			ok := z.checkZC(s, c, rq)
			det := ""
			if !ok {
				a, oa, _ := z.zarg(s, c, rq.A)
				b, ob, _ := z.zarg(s, c, rq.B)
				det = fmt.Sprintf("need (%s) - (%s) <= %d; known %s, %s", z.describe(s, a, oa), z.describe(s, b, ob), rq.C, boundStr(s.bound(a, b)), "")
			}
			z.obl(c, "precondition of "+n+": "+zcString(rq), ok, det)
		}
		for _, nr := range ct.NSReq {
			args := c.Call.Args
			key := [3]ssa.Value{args[nr[0]], z.resolveEq(s, args[nr[1]]), args[nr[2]]}
			z.obl(c, "precondition of "+n+": position was returned by findNonSpace and is < end", s.ns[key], "")
		}
	}
	// NS lemma: findNonSpace(r,i,end) with NS(r,i,end) returns i
	if n == "inputrc.findNonSpace" {
		args := c.Call.Args
		key := [3]ssa.Value{args[0], z.resolveEq(s, args[1]), args[2]}
		if s.ns[key] {
			s.eq[c] = key[1]
		}
	}
	for _, e := range ct.Ensures {
		if e.Guard == 0 {
			for _, cc := range e.Cons {
				z.applyZC(s, c, cc)
			}
			continue
		}
		// conditional: record as guarded fact on the boolean result
		if e.Guard == 'T' {
			var bv ssa.Value
			for _, ref := range referrersOf(c) {
				if ex, ok := ref.(*ssa.Extract); ok && ex.Index == e.GI {
					bv = ex
				}
			}
			if tup, ok := c.Type().(*types.Tuple); !ok || tup.Len() <= 1 {
				bv = c
			}
			if bv != nil {
				for _, cc := range e.Cons {
					a, oa, ok1 := z.zarg(s, c, cc.A)
					b, ob, ok2 := z.zarg(s, c, cc.B)
					if ok1 && ok2 {
						s.guarded[bv] = appendCons(s.guarded[bv], zcons{a, b, cc.C - oa + ob})
					}
				}
			}
		}
	}
}

func (z *zoneEngine) resolveEq(s *zstate, v ssa.Value) ssa.Value {
	for i := 0; i < 8; i++ {
		if e, ok := s.eq[v]; ok && e != v {
			v = e
			continue
		}
		break
	}
	return v
}

func zcString(c ZC) string {
	n := func(a ZArg) string {
		switch a.Kind {
		case 'Z':
			return "0"
		case 'P':
			return fmt.Sprintf("arg%d", a.I)
		case 'L':
			return fmt.Sprintf("len(arg%d)", a.I)
		case 'R':
			return fmt.Sprintf("ret%d", a.I)
		case 'M':
			return fmt.Sprintf("len(ret%d)", a.I)
		case 'H':
			return fmt.Sprintf("Len(*arg%d)", a.I)
		case 'O':
			return fmt.Sprintf("Len(arg%d.line)", a.I)
		}
		return "?"
	}
	return fmt.Sprintf("%s - %s <= %d", n(c.A), n(c.B), c.C)
}

// edgeState: state flowing along pred → succ: branch refinement, then the
// parallel assignment of succ's phis (integer phis and the lengths of
// slice/string phis), evaluated in the predecessor's state.
func (z *zoneEngine) edgeState(out *zstate, pred, succ *ssa.BasicBlock) *zstate {
	s := out.clone()
	if iff, ok := pred.Instrs[len(pred.Instrs)-1].(*ssa.If); ok && len(pred.Succs) == 2 && pred.Succs[0] != pred.Succs[1] {
		z.refine(s, iff.Cond, pred.Succs[0] == succ)
		// NS: findNonSpace result tested against end
		z.nsFromBranch(s, iff.Cond, pred.Succs[0] == succ)
	}
	if s.bottom {
		return s
	}
	pi := -1
	for i, p := range succ.Preds {
		if p == pred {
			pi = i
		}
	}
	type asg struct {
		t   zterm
		src zterm
		off int64
	}
	var as []asg
	var boolPhis []*ssa.Phi
	for _, in := range succ.Instrs {
		ph, ok := in.(*ssa.Phi)
		if !ok {
			break
		}
		e := ph.Edges[pi]
		switch {
		case isIntType(ph.Type()):
			b, o := z.lin(s, e)
			as = append(as, asg{zterm{v: ph}, b, o})
		case isSeqType(ph.Type()):
			b, o := z.lenOf(e)
			s.touch(b)
			as = append(as, asg{zterm{ph, true}, b, o})
		default:
			if bt, ok := ph.Type().Underlying().(*types.Basic); ok && bt.Kind() == types.Bool {
				boolPhis = append(boolPhis, ph)
			}
		}
	}
	if len(as) > 0 {
		// evaluate rows relative to all terms before touching the targets
		ts := make([]zterm, 0, len(s.terms))
		for t := range s.terms {
			ts = append(ts, t)
		}
		type row struct{ up, down map[zterm]int64 }
		rows := make([]row, len(as))
		for i, a := range as {
			rows[i] = row{map[zterm]int64{}, map[zterm]int64{}}
			for _, t := range ts {
				if b := s.bound(a.src, t); b < zInf {
					rows[i].up[t] = b + a.off // new - t <= b + off
				}
				if b := s.bound(t, a.src); b < zInf {
					rows[i].down[t] = b - a.off // t - new <= b - off
				}
			}
			rows[i].up[a.src] = a.off
			rows[i].down[a.src] = -a.off
		}
		// relations between the new values themselves
		type pairB struct {
			i, j int
			b    int64
		}
		var pairs []pairB
		for i := range as {
			for j := range as {
				if i == j {
					continue
				}
				if b := s.bound(as[i].src, as[j].src); b < zInf || as[i].src == as[j].src {
					if as[i].src == as[j].src {
						b = 0
					}
					pairs = append(pairs, pairB{i, j, b + as[i].off - as[j].off})
				}
			}
		}
		targets := map[zterm]bool{}
		for _, a := range as {
			targets[a.t] = true
		}
		for _, a := range as {
			s.forget(a.t)
		}
		for i, a := range as {
			s.touch(a.t)
			for t, b := range rows[i].up {
				if !targets[t] {
					s.add(a.t, t, b)
				}
			}
			for t, b := range rows[i].down {
				if !targets[t] {
					s.add(t, a.t, b)
				}
			}
		}
		for _, pb := range pairs {
			s.add(as[pb.i].t, as[pb.j].t, pb.b)
		}
	}
	// boolean phis: value on this edge, and guarded facts for the join
	for _, ph := range boolPhis {
		e := ph.Edges[pi]
		delete(s.bools, ph)
		delete(s.guarded, ph)
		if k, ok := constBool(e); ok {
			s.bools[ph] = k
		} else if k, ok := s.bools[e]; ok {
			s.bools[ph] = k
		}
	}
	// seed guarded facts: on an edge where the bool phi is (or may be) true, everything that
	// holds about the phi targets is a candidate "phi ⇒ fact"
	for _, ph := range boolPhis {
		if k, ok := s.bools[ph]; ok && !k {
			continue
		}
		for _, a := range as {
			for t := range s.terms {
				if t == a.t {
					continue
				}
				if b := s.bound(a.t, t); b < zInf {
					s.guarded[ph] = appendCons(s.guarded[ph], zcons{a.t, t, b})
				}
				if b := s.bound(t, a.t); b < zInf {
					s.guarded[ph] = appendCons(s.guarded[ph], zcons{t, a.t, b})
				}
			}
		}
	}
	return s
}

func isSeqType(t types.Type) bool {
	switch u := t.Underlying().(type) {
	case *types.Slice:
		return true
	case *types.Basic:
		return u.Info()&types.IsString != 0
	}
	return false
}

// nsFromBranch: t = findNonSpace(r,i,end); on the edge where t < end (t != end) mark NS(r,t,end).
func (z *zoneEngine) nsFromBranch(s *zstate, cond ssa.Value, val bool) {
	bo, ok := cond.(*ssa.BinOp)
	if !ok {
		return
	}
	op := bo.Op
	if !val {
		op = negateOp(op)
	}
	try := func(a, b ssa.Value, strictLess bool) {
		a = z.resolveEq(s, a)
		cl, ok := a.(*ssa.Call)
		if !ok || calleeName(cl) != "inputrc.findNonSpace" {
			return
		}
		if cl.Call.Args[2] != b {
			return
		}
		if strictLess {
			s.ns[[3]ssa.Value{cl.Call.Args[0], a, b}] = true
		}
	}
	switch op {
	case token.NEQ:
		try(bo.X, bo.Y, true)
		try(bo.Y, bo.X, true)
	case token.LSS:
		try(bo.X, bo.Y, true)
	case token.GTR:
		try(bo.Y, bo.X, true)
	}
}

// analyse runs the fixpoint on fn under its contract's requires and records obligations.
func (z *zoneEngine) analyse(fn *ssa.Function) {
	z.fn = fn
	z.canon = map[ssa.Value]ssa.Value{}
	if len(fn.Blocks) == 0 {
		return
	}
	// canonical field loads: loads of the same field path with no intervening store
	var loads []*ssa.UnOp
	eachInstrRaw(fn, func(in ssa.Instruction) {
		if u, ok := in.(*ssa.UnOp); ok && u.Op == token.MUL {
			if _, _, ok := fieldOf(u.X); ok && (isSeqType(u.Type()) || (z.useGetters && isIntType(u.Type()))) {
				loads = append(loads, u)
			}
		}
	})
	rep := func(v ssa.Value) ssa.Value {
		for {
			c, ok := z.canon[v]
			if !ok {
				return v
			}
			v = c
		}
	}
	for changed := true; changed; {
		changed = false
		for _, a := range loads {
			for _, b := range loads {
				if a == b || rep(a) == rep(b) {
					continue
				}
				if _, done := z.canon[b]; done {
					continue
				}
				if instrDominates(a, b) && sameMemValue(a, b) {
					z.canon[b] = rep(a)
					changed = true
				}
			}
		}
	}
	// value numbering of integer arithmetic: the same operation on the same (immutable) SSA
	// operands, computed again where the first computation dominates, is the same value
	{
		var ariths []*ssa.BinOp
		eachInstrRaw(fn, func(in ssa.Instruction) {
			if bo, ok := in.(*ssa.BinOp); ok && isIntType(bo.Type()) {
				switch bo.Op {
				case token.ADD, token.SUB, token.MUL:
					if _, isK := bo.Y.(*ssa.Const); !isK {
						ariths = append(ariths, bo)
					}
				}
			}
		})
		for _, a := range ariths {
			for _, b := range ariths {
				if a == b || a.Op != b.Op || a.X != b.X || a.Y != b.Y {
					continue
				}
				if _, done := z.canon[b]; done {
					continue
				}
				if _, isRep := z.canon[a]; isRep {
					continue
				}
				if instrDominates(a, b) {
					z.canon[b] = a
				}
			}
		}
	}
	for k := range z.canon {
		z.canon[k] = rep(k)
	}
	z.sameBinOps = map[binopKey][]*ssa.BinOp{}
	eachInstrRaw(fn, func(in ssa.Instruction) {
		if bo, ok := in.(*ssa.BinOp); ok {
			switch bo.Op {
			case token.EQL, token.NEQ, token.LSS, token.LEQ, token.GTR, token.GEQ:
				k := mkBinopKey(bo)
				z.sameBinOps[k] = append(z.sameBinOps[k], bo)
			}
		}
	})
	z.heapTerms, z.lineKills = nil, nil
	if z.useHeap {
		z.lineKills = map[ssa.Instruction]bool{}
		eachInstrRaw(fn, func(in ssa.Instruction) {
			if lineChange(z.p, in) {
				z.lineKills[in] = true
			}
		})
	}
	z.getterEq, z.loadLB, z.loadUB = nil, nil, nil
	if z.useGetters {
		z.getterEq = z.getterEqualities(fn)
		z.loadLB = z.stateLoadBounds(fn)
	}
	entry := newZState()
	// parameter lengths are non-negative (implicit); contract requires
	if ct := z.contracts[fnName(fn)]; ct != nil {
		for _, rq := range ct.Requires {
			a, oa, ok1 := z.zargParam(fn, rq.A)
			b, ob, ok2 := z.zargParam(fn, rq.B)
			if ok1 && ok2 {
				entry.add(a, b, rq.C-oa+ob)
			}
		}
		for _, nr := range ct.NSReq {
			entry.ns[[3]ssa.Value{fn.Params[nr[0]], fn.Params[nr[1]], fn.Params[nr[2]]}] = true
		}
	}
	if z.entryNonneg != nil {
		for _, prm := range z.entryNonneg(fn) {
			entry.add(zZero, zterm{v: prm}, 0)
		}
	}
	if z.entryFacts != nil {
		for _, ef := range z.entryFacts(fn) {
			entry.add(ef.a, ef.b, ef.c)
		}
	}
	in := map[*ssa.BasicBlock]*zstate{fn.Blocks[0]: entry}
	out := map[*ssa.BasicBlock]*zstate{}
	visits := map[*ssa.BasicBlock]int{}
	loopHeads := map[*ssa.BasicBlock]bool{}
	z.inLoop = map[*ssa.BasicBlock]bool{}
	for _, l := range findLoops(fn) {
		loopHeads[l.Head] = true
		for b := range l.Blocks {
			z.inLoop[b] = true
		}
	}
	work := []*ssa.BasicBlock{fn.Blocks[0]}
	inWork := map[*ssa.BasicBlock]bool{fn.Blocks[0]: true}
	for steps := 0; len(work) > 0 && steps < 5000; steps++ {
		// pick the block with the smallest index (approximates RPO)
		sort.Slice(work, func(i, j int) bool { return work[i].Index < work[j].Index })
		b := work[0]
		work = work[1:]
		inWork[b] = false
		s := in[b].clone()
		for _, ins := range b.Instrs {
			z.transfer(s, ins, false)
		}
		out[b] = s
		for _, succ := range b.Succs {
			es := z.edgeState(s, b, succ)
			if os.Getenv("ZONE_DEBUG") == "2" {
				fmt.Printf("DBG2 %s step %d edge %d->%d out.bottom=%v es.bottom=%v\n", fnName(fn), steps, b.Index, succ.Index, s.bottom, es.bottom)
			}
			var ns *zstate
			if old, ok := in[succ]; ok {
				ns = zjoin(old, es)
				if loopHeads[succ] {
					visits[succ]++
					if visits[succ] > 4 {
						ns = zwiden(old, ns)
					}
				}
				if os.Getenv("ZONE_DEBUG") == "2" {
					d := func(x *zstate) string {
						out := ""
						for t := range x.terms {
							if t.v != nil && (t.v.Name() == "t3" || t.v.Name() == "t5") {
								out += fmt.Sprintf(" %s∈[%s,%s]", t, boundStr(-x.bound(zZero, t)), boundStr(x.bound(t, zZero)))
							}
						}
						return out
					}
					fmt.Printf("DBG2   join at %d: old{%s} es{%s} ns{%s} equal=%v\n", succ.Index, d(old), d(es), d(ns), zequal(old, ns))
				}
				if zequal(old, ns) {
					continue
				}
			} else {
				ns = es
			}
			in[succ] = ns
			if !inWork[succ] {
				work = append(work, succ)
				inWork[succ] = true
			}
		}
	}
	// final pass: record obligations
	for _, b := range fn.Blocks {
		s, ok := in[b]
		if !ok {
			continue // unreachable
		}
		if os.Getenv("ZONE_DEBUG") != "" {
			fmt.Printf("DBG %s block %d (%s) bottom=%v visits=%d head=%v:", fnName(fn), b.Index, b.Comment, s.bottom, visits[b], loopHeads[b])
			for t := range s.terms {
				if t.v != nil {
					fmt.Printf(" %s∈[%s,%s]", t, boundStr(-s.bound(zZero, t)), boundStr(s.bound(t, zZero)))
				}
			}
			fmt.Println()
		}
		s = s.clone()
		for _, ins := range b.Instrs {
			z.transfer(s, ins, true)
		}
	}
}

func (z *zoneEngine) zargParam(fn *ssa.Function, a ZArg) (zterm, int64, bool) {
	switch a.Kind {
	case 'Z':
		return zZero, 0, true
	case 'P':
		if a.I < len(fn.Params) {
			return zterm{v: fn.Params[a.I]}, 0, true
		}
	case 'L':
		if a.I < len(fn.Params) {
			return zterm{fn.Params[a.I], true}, 0, true
		}
	case 'H', 'O':
		if !z.useHeap || a.I >= len(fn.Params) {
			return zterm{}, 0, false
		}
		class := ""
		if a.Kind == 'H' {
			class = lineClassOfPtr(fn.Params[a.I])
		} else {
			class = lineClassOfObj(fn.Params[a.I])
		}
		if class == "" {
			return zterm{}, 0, false
		}
		return z.lineTerm(class), 0, true
	}
	return zterm{}, 0, false
}
