package main

import (
	"strings"

	"golang.org/x/tools/go/ssa"
)

// Field-write summaries: which module functions may (transitively, through the
// VTA call graph) store into a given struct field. Used to decide whether a
// call instruction between two loads of a field can change it.

var progOf = map[*ssa.Program]*Prog{}

func progFor(f *ssa.Function) *Prog {
	if f == nil {
		return nil
	}
	return progOf[f.Prog]
}

// mayWriteField: can executing fn (or anything it calls inside the module)
// store into field tn.fld ?
func (p *Prog) mayWriteField(fn *ssa.Function, tn, fld string) bool {
	key := tn + "." + fld
	if p.fieldWriters == nil {
		p.fieldWriters = map[string]map[*ssa.Function]bool{}
	}
	ws, ok := p.fieldWriters[key]
	if !ok {
		ws = map[*ssa.Function]bool{}
		// direct writers
		var work []*ssa.Function
		for _, f := range p.AllFuncs {
			direct := false
			eachInstrRaw(f, func(in ssa.Instruction) {
				if _, is := isFieldStore(in, tn, fld); is {
					direct = true
				}
			})
			if direct {
				ws[f] = true
				work = append(work, f)
			}
		}
		// callers, transitively
		for len(work) > 0 {
			f := work[len(work)-1]
			work = work[:len(work)-1]
			n := p.CG.Nodes[f]
			if n == nil {
				continue
			}
			for _, e := range n.In {
				c := e.Caller.Func
				if !ws[c] {
					ws[c] = true
					work = append(work, c)
				}
			}
		}
		p.fieldWriters[key] = ws
	}
	return ws[fn]
}

// callMayWriteField: can this call instruction store into tn.fld ?
func (p *Prog) callMayWriteField(call ssa.CallInstruction, tn, fld string) bool {
	if cal := staticCallee(call); cal != nil {
		if !inRepo(cal) {
			return p.externMayCallBack(call, tn, fld)
		}
		return p.mayWriteField(cal, tn, fld)
	}
	if _, isB := call.Common().Value.(*ssa.Builtin); isB {
		return false
	}
	n := p.CG.Nodes[call.Parent()]
	if n == nil {
		return true
	}
	any := false
	for _, e := range n.Out {
		if e.Site != call {
			continue
		}
		any = true
		if inRepo(e.Callee.Func) && p.mayWriteField(e.Callee.Func, tn, fld) {
			return true
		}
	}
	_ = any
	return false
}

// externMayCallBack: a call into another module can only write our fields by
// calling back a module function passed to it (closures, method values,
// interface values implemented in the module). The call graph has those edges
// from the external function; follow them one level.
func (p *Prog) externMayCallBack(call ssa.CallInstruction, tn, fld string) bool {
	cal := staticCallee(call)
	n := p.CG.Nodes[cal]
	if n == nil {
		return false
	}
	// only worth looking at when a func/interface value from the module is passed
	passes := false
	for _, a := range call.Common().Args {
		switch a.(type) {
		case *ssa.MakeClosure, *ssa.MakeInterface, *ssa.Function:
			passes = true
		}
	}
	if !passes {
		return false
	}
	seen := map[*ssa.Function]bool{}
	work := []*ssa.Function{cal}
	for d := 0; len(work) > 0 && d < 2000; d++ {
		f := work[len(work)-1]
		work = work[:len(work)-1]
		if seen[f] {
			continue
		}
		seen[f] = true
		nn := p.CG.Nodes[f]
		if nn == nil {
			continue
		}
		for _, e := range nn.Out {
			c := e.Callee.Func
			if inRepo(c) {
				if p.mayWriteField(c, tn, fld) {
					return true
				}
				continue
			}
			if !seen[c] && len(seen) < 400 {
				work = append(work, c)
			}
		}
	}
	return false
}

// ---------------------------------------------------------------------------
// state summaries used by the bounds prover on the editing code

// writersExcept: functions that may (transitively) execute a store to tn.fld
// located outside the functions named in except (normalisers such as
// Cursor.CheckAppend, which only clamp the field and are idempotent).
func (p *Prog) writersExcept(tn, fld string, except ...string) map[*ssa.Function]bool {
	key := "except:" + tn + "." + fld
	for _, e := range except {
		key += "|" + e
	}
	if p.fieldWriters == nil {
		p.fieldWriters = map[string]map[*ssa.Function]bool{}
	}
	if ws, ok := p.fieldWriters[key]; ok {
		return ws
	}
	skip := map[string]bool{}
	for _, e := range except {
		skip[e] = true
	}
	ws := map[*ssa.Function]bool{}
	var work []*ssa.Function
	for _, f := range p.AllFuncs {
		if skip[fnName(f)] {
			continue
		}
		direct := false
		eachInstrRaw(f, func(in ssa.Instruction) {
			if st, is := isFieldStore(in, tn, fld); is {
				// initialising a field of an object allocated right here writes no existing object
				if fa, ok := st.Addr.(*ssa.FieldAddr); ok {
					if _, fresh := fa.X.(*ssa.Alloc); fresh {
						return
					}
				}
				direct = true
			}
		})
		if direct {
			ws[f] = true
			work = append(work, f)
		}
	}
	p.closeOverCallers(ws, work)
	p.fieldWriters[key] = ws
	return ws
}

// freshReceiver: the call's receiver is an object created in the calling
// function (new(T), &T{}, or a constructor result) — its fields are not those
// of any object the caller was given.
func freshReceiver(site ssa.CallInstruction) bool {
	if site == nil {
		return false
	}
	cc := site.Common()
	if cc.IsInvoke() || len(cc.Args) == 0 {
		return false
	}
	callee := staticCallee(site)
	if callee == nil || callee.Signature.Recv() == nil {
		return false
	}
	v := cc.Args[0]
	switch x := v.(type) {
	case *ssa.Alloc:
		return true
	case *ssa.Call:
		if c := staticCallee(x); c != nil && strings.HasPrefix(c.Name(), "New") && inRepo(c) {
			// a module constructor: returns a newly allocated object
			fresh := true
			eachInstrRaw(c, func(in ssa.Instruction) {
				if r, ok := in.(*ssa.Return); ok && len(r.Results) > 0 {
					if _, isAlloc := r.Results[0].(*ssa.Alloc); !isAlloc {
						fresh = false
					}
				}
			})
			return fresh
		}
	}
	return false
}

func (p *Prog) closeOverCallers(ws map[*ssa.Function]bool, work []*ssa.Function) {
	for len(work) > 0 {
		f := work[len(work)-1]
		work = work[:len(work)-1]
		n := p.CG.Nodes[f]
		if n == nil {
			continue
		}
		for _, e := range n.In {
			c := e.Caller.Func
			if freshReceiver(e.Site) {
				continue
			}
			if !ws[c] {
				ws[c] = true
				work = append(work, c)
			}
		}
	}
}

// lineWriters: functions that may (transitively) change the length of a shared core.Line.
func (p *Prog) lineWriters() map[*ssa.Function]bool {
	key := "line-writers"
	if p.fieldWriters == nil {
		p.fieldWriters = map[string]map[*ssa.Function]bool{}
	}
	if ws, ok := p.fieldWriters[key]; ok {
		return ws
	}
	ws := map[*ssa.Function]bool{}
	var work []*ssa.Function
	for _, w := range p.primitiveLineWrites() {
		if w.Kind != "*line = …" {
			continue // element stores and copy() do not change the length
		}
		if !ws[w.Fn] {
			ws[w.Fn] = true
			work = append(work, w.Fn)
		}
	}
	p.closeOverCallers(ws, work)
	p.fieldWriters[key] = ws
	return ws
}

// callMayReach: can this call instruction execute one of the functions in set?
// (static callee, or the call-graph edges of a dynamic call; a call into
// another module counts when a module callback it may invoke is in the set)
func (p *Prog) callMayReach(call ssa.CallInstruction, set map[*ssa.Function]bool) bool {
	if _, isB := call.Common().Value.(*ssa.Builtin); isB {
		return false
	}
	n := p.CG.Nodes[call.Parent()]
	if n == nil {
		return true
	}
	for _, e := range n.Out {
		if e.Site != call {
			continue
		}
		c := e.Callee.Func
		if inRepo(c) {
			if set[c] {
				return true
			}
			continue
		}
		// external: follow to module callbacks
		seen := map[*ssa.Function]bool{}
		work := []*ssa.Function{c}
		for len(work) > 0 && len(seen) < 300 {
			f := work[len(work)-1]
			work = work[:len(work)-1]
			if seen[f] {
				continue
			}
			seen[f] = true
			nn := p.CG.Nodes[f]
			if nn == nil {
				continue
			}
			for _, e2 := range nn.Out {
				c2 := e2.Callee.Func
				if inRepo(c2) {
					if set[c2] {
						return true
					}
				} else if !seen[c2] {
					work = append(work, c2)
				}
			}
		}
	}
	return false
}
