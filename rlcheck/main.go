package main

import (
	"encoding/json"
	"flag"
	"fmt"
	"golang.org/x/tools/go/ssa"
	"os"
	"sort"
	"strconv"
	"strings"
	"time"
)

// propFuncs maps property id -> rule table runner.
var propFuncs = map[string]func(c *Ctx){}

// Ctx is what a property's rule table sees.
type Ctx struct {
	P     *Prog // primary load (linux/amd64)
	R     *Report
	Tier  string
	Repo  string
	Verif string
	// Others holds additional loads (thorough tier): keyed by "goos/goarch".
	Others map[string]*Prog
}

func usage() {
	fmt.Fprintln(os.Stderr, `usage:
  rlcheck check <Cxx> [--tier quick|thorough] [--repo /repo] [--verif /verif]
  rlcheck dump <funcname-substring> [--repo /repo]
  rlcheck funcs [--repo /repo]
  rlcheck explain <replay.json>`)
	os.Exit(2)
}

func main() {
	if len(os.Args) < 2 {
		usage()
	}
	cmd := os.Args[1]
	fs := flag.NewFlagSet(cmd, flag.ExitOnError)
	tier := fs.String("tier", "quick", "quick|thorough")
	repo := fs.String("repo", "/repo", "repository under analysis")
	verif := fs.String("verif", "/verif", "verif dir (evidence, known findings)")
	goos := fs.String("goos", "", "GOOS for dump")
	var pos []string
	args := os.Args[2:]
	// allow positional args before flags
	for len(args) > 0 && !strings.HasPrefix(args[0], "-") {
		pos = append(pos, args[0])
		args = args[1:]
	}
	fs.Parse(args)
	pos = append(pos, fs.Args()...)

	switch cmd {
	case "check":
		if len(pos) != 1 {
			usage()
		}
		os.Exit(runCheck(pos[0], *tier, *repo, *verif))
	case "dump":
		if len(pos) != 1 {
			usage()
		}
		p, err := Load(*repo, *goos, "", nil)
		if err != nil {
			fmt.Fprintln(os.Stderr, err)
			os.Exit(2)
		}
		for _, f := range p.AllFuncs {
			if strings.Contains(fnName(f), pos[0]) {
				fmt.Printf("### %s  (%s)\n", fnName(f), p.Pos(f.Pos()))
				f.WriteTo(os.Stdout)
			}
		}
	case "funcs":
		p, err := Load(*repo, *goos, "", nil)
		if err != nil {
			fmt.Fprintln(os.Stderr, err)
			os.Exit(2)
		}
		for _, f := range p.AllFuncs {
			fmt.Printf("%s\t%s\t%d blocks\n", fnName(f), p.Pos(f.Pos()), len(f.Blocks))
		}
	case "loops":
		p, err := Load(*repo, *goos, "", nil)
		if err != nil {
			fmt.Fprintln(os.Stderr, err)
			os.Exit(2)
		}
		n, un := 0, 0
		for _, f := range p.AllFuncs {
			for _, lc := range classifyLoops(f) {
				n++
				if lc.Variant == "" {
					un++
					fmt.Printf("UNCLASSIFIED %s  head@%s\n", loopKey(lc), p.Pos(lc.L.Head.Instrs[len(lc.L.Head.Instrs)-1].Pos()))
				}
			}
		}
		fmt.Printf("%d loops, %d unclassified\n", n, un)
	case "units":
		p, err := Load(*repo, *goos, "", nil)
		if err != nil {
			fmt.Fprintln(os.Stderr, err)
			os.Exit(2)
		}
		e := newUnitEngine(p)
		fs := e.allFindings(p.AllFuncs)
		keys := unitFindingKeys(fs)
		for i, f := range fs {
			fmt.Printf("%s  [%s] %s %s\n", keys[i], p.IPos(f.In), f.In.String(), f.Why)
		}
		fmt.Printf("%d findings\n", len(fs))
	case "bounds":
		p, err := Load(*repo, *goos, "", nil)
		if err != nil {
			fmt.Fprintln(os.Stderr, err)
			os.Exit(2)
		}
		n := 0
		for _, f := range p.AllFuncs {
			if len(pos) > 0 && !strings.Contains(fnName(f), pos[0]) {
				continue
			}
			eachInstr(f, func(in ssa.Instruction) {
				switch in.(type) {
				case *ssa.IndexAddr, *ssa.Index, *ssa.Slice:
					n++
					fmt.Printf("%s\t%s\t%s\n", fnName(f), p.IPos(in), in.String())
				}
			})
		}
		fmt.Println(n, "sites")
	case "whywrites":
		// rlcheck whywrites <function> : which callees make the function a writer of Cursor.pos (outside CheckAppend)
		p, err := Load(*repo, *goos, "", nil)
		if err != nil {
			fmt.Fprintln(os.Stderr, err)
			os.Exit(2)
		}
		ws := p.writersExcept("core.Cursor", "pos", "(*core.Cursor).CheckAppend")
		f := p.Func(pos[0])
		seen := map[*ssa.Function]bool{}
		var walk func(f *ssa.Function, depth int)
		walk = func(f *ssa.Function, depth int) {
			if seen[f] || depth > 8 {
				return
			}
			seen[f] = true
			n := p.CG.Nodes[f]
			if n == nil {
				return
			}
			for _, e := range n.Out {
				if ws[e.Callee.Func] && !freshReceiver(e.Site) {
					fmt.Printf("%*s%s -> %s\n", depth*2, "", fnName(f), fnName(e.Callee.Func))
					walk(e.Callee.Func, depth+1)
				}
			}
		}
		walk(f, 0)
	case "zone":
		p, err := Load(*repo, *goos, "", nil)
		if err != nil {
			fmt.Fprintln(os.Stderr, err)
			os.Exit(2)
		}
		z := &zoneEngine{p: p, contracts: coreContracts(), fieldMinLen: map[string]int64{}, useGetters: true, useHeap: os.Getenv("ZONE_HEAP") != "", entryNonneg: sortCallbackParams(p)}
		nOK, nBad, nLow := 0, 0, 0
		lowerOnly := os.Getenv("ZONE_LOWER") != ""
		for _, f := range p.AllFuncs {
			if len(pos) > 0 && !strings.Contains(fnName(f), pos[0]) {
				continue
			}
			if f.Synthetic != "" {
				continue
			}
			z.obls = nil
			z.analyse(f)
			for _, o := range z.obls {
				if o.OK || (lowerOnly && o.IsBound && o.LowerOK) {
					nOK++
				} else {
					nBad++
					if o.IsBound && !o.LowerOK {
						nLow++
					}
					fmt.Printf("UNPROVED %s [%s] %s :: %s\n", fnName(f), p.IPos(o.In), o.In.String(), o.Detail)
				}
			}
		}
		fmt.Println(nOK, "proved,", nBad, "unproved,", nLow, "of them with the non-negativity part unproved")
	case "explain":
		if len(pos) != 1 {
			usage()
		}
		b, err := os.ReadFile(pos[0])
		if err != nil {
			fmt.Fprintln(os.Stderr, err)
			os.Exit(2)
		}
		os.Stdout.Write(b)
	case "dump-names":
		// the tree's structs (fields in order, with types) and functions (signatures) under their
		// own names: the table names.go resolves renamed unexported identifiers against
		noAliases = true
		P, err := Load(*repo, "", "", nil)
		if err != nil {
			fmt.Fprintln(os.Stderr, err)
			os.Exit(2)
		}
		b, _ := json.MarshalIndent(collectNames(P), "", " ")
		os.Stdout.Write(append(b, '\n'))
	case "list":
		var ids []string
		for id := range propFuncs {
			ids = append(ids, id)
		}
		sort.Strings(ids)
		fmt.Println(strings.Join(ids, " "))
	default:
		usage()
	}
}

func runCheck(prop, tier, repo, verif string) (code int) {
	start := time.Now()
	seed := 0
	if s := os.Getenv("VERIF_SEED"); s != "" {
		if n, err := strconv.Atoi(s); err == nil {
			seed = n
		}
	}
	if t := os.Getenv("VERIF_TIER"); t != "" && (t == "quick" || t == "thorough") && tier == "" {
		tier = t
	}
	fn, ok := propFuncs[prop]
	if !ok {
		fmt.Fprintf(os.Stderr, "unknown or unclaimed property %s\n", prop)
		return 2
	}
	r := NewReport(prop, tier)
	r.Rule(prop+".load", "K0", "the current /repo tree loads, type-checks and builds to SSA with all 13 packages", 1)
	p, err := Load(repo, "", "", nil)
	if err != nil {
		r.Unk(prop+".load", "load:linux/amd64", "-", err.Error())
		return r.Finish(verif, start, seed)
	}
	if n := p.NumRepoPackages(); n < 13 {
		r.Unk(prop+".load", "load:linux/amd64", "-", fmt.Sprintf("only %d module packages loaded, expected ≥ 13", n))
		return r.Finish(verif, start, seed)
	}
	r.OK(prop+".load", "load:linux/amd64", "-", fmt.Sprintf("%d packages, %d repo functions, %d call-graph nodes", p.NumRepoPackages(), len(p.AllFuncs), len(p.CG.Nodes)))
	r.Configs = append(r.Configs, "linux/amd64")
	c := &Ctx{P: p, R: r, Tier: tier, Repo: repo, Verif: verif, Others: map[string]*Prog{}}
	defer func() {
		if e := recover(); e != nil {
			// an analysis panic is never a silent pass
			r.Rule(prop+".engine", "K0", "the analysis engine completed without internal error", 0)
			r.Unk(prop+".engine", "panic", "-", fmt.Sprintf("analysis panic: %v\n%s", e, stack()))
			code = r.Finish(verif, start, seed)
		}
	}()
	fn(c)
	if len(aliasNotes) > 0 {
		r.Extra["renamed_identifiers"] = aliasNotes
		for _, n := range aliasNotes {
			fmt.Println("note: " + n)
		}
	}
	return r.Finish(verif, start, seed)
}

// loadOther loads an additional GOOS/GOARCH configuration (thorough tier).
func (c *Ctx) loadOther(goos, goarch string) *Prog {
	key := goos + "/" + goarch
	if p, ok := c.Others[key]; ok {
		return p
	}
	p, err := Load(c.Repo, goos, goarch, nil)
	rule := c.R.Prop + ".load"
	if err != nil {
		c.R.Unk(rule, "load:"+key, "-", err.Error())
		c.Others[key] = nil
		return nil
	}
	c.R.OK(rule, "load:"+key, "-", fmt.Sprintf("%d packages, %d repo functions", p.NumRepoPackages(), len(p.AllFuncs)))
	c.R.Configs = append(c.R.Configs, key)
	c.Others[key] = p
	return p
}
