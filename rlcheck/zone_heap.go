package main

import (
	"go/token"
	"go/types"
	"strings"

	"golang.org/x/tools/go/ssa"
)

// Heap length terms for the bounds prover on the editing code: the current
// length of the line an access path designates ("*$rl.line", "$l", "*$c.line").
// A term is an ordinary integer term of the zone state; it is forgotten at
// every instruction that may change the length of a shared line (any line:
// paths may alias), so whatever is known about it was established since the
// last such instruction on every path.

type heapVal struct {
	name string
}

func (h *heapVal) Name() string                  { return h.name }
func (h *heapVal) String() string                { return h.name }
func (h *heapVal) Type() types.Type              { return types.Typ[types.Int] }
func (h *heapVal) Parent() *ssa.Function         { return nil }
func (h *heapVal) Referrers() *[]ssa.Instruction { return nil }
func (h *heapVal) Pos() token.Pos                { return token.NoPos }

// lineTerm returns the length term of a line class (created on demand).
func (z *zoneEngine) lineTerm(class string) zterm {
	if z.heapTerms == nil {
		z.heapTerms = map[string]*heapVal{}
	}
	hv, ok := z.heapTerms[class]
	if !ok {
		hv = &heapVal{"LEN(" + class + ")"}
		z.heapTerms[class] = hv
	}
	return zterm{v: hv}
}

func isLinePointer(t types.Type) bool {
	p, ok := t.Underlying().(*types.Pointer)
	return ok && typeStr(p.Elem()) == "core.Line"
}

// lineClassOfPtr: the class of a *core.Line value (its access path), "" if it has none.
func lineClassOfPtr(v ssa.Value) string {
	if !isLinePointer(v.Type()) {
		return ""
	}
	p := accessPath(v)
	if strings.HasPrefix(p, "%") || strings.HasPrefix(p, "alloc:") {
		return ""
	}
	return p
}

// lineClassOfObj: the class of the line a Cursor / Selection designates, under
// the object-triple assumption: the cursor and selection stored next to a line
// (fields cursor, selection, line — compCursor, compSelection, compLine — of
// one struct) are the ones built on that line, and a *Cursor / *Selection
// parameter designates its own line field.
func lineClassOfObj(v ssa.Value) string {
	p := accessPath(v)
	if p == "" || strings.HasPrefix(p, "%") || strings.HasPrefix(p, "alloc:") {
		return ""
	}
	for _, sfx := range [][2]string{{".cursor", ".line"}, {".selection", ".line"}, {".compCursor", ".compLine"}, {".compSelection", ".compLine"}} {
		if strings.HasSuffix(p, sfx[0]) {
			return strings.TrimSuffix(p, sfx[0]) + sfx[1]
		}
	}
	if strings.HasPrefix(p, "$") && !strings.Contains(p, ".") {
		// a parameter: its own line field
		return "*" + p + ".line"
	}
	return ""
}

// heapLenOf: the length of a dereferenced line pointer, as the class's term —
// only where the slice value cannot be stale: the function never changes a
// line's length, or the load sits in the block of the use with no such change
// between the two.
func (z *zoneEngine) heapLenOf(v ssa.Value) (zterm, bool) {
	if !z.useHeap {
		return zterm{}, false
	}
	for i := 0; i < 4; i++ {
		if ct, ok := v.(*ssa.ChangeType); ok {
			v = ct.X
			continue
		}
		break
	}
	ld, ok := v.(*ssa.UnOp)
	if !ok || ld.Op != token.MUL {
		return zterm{}, false
	}
	class := lineClassOfPtr(ld.X)
	if class == "" {
		return zterm{}, false
	}
	if len(z.lineKills) > 0 {
		use := z.curIn
		if use == nil || use.Block() != ld.Block() {
			return zterm{}, false
		}
		seen := false
		for _, in := range ld.Block().Instrs {
			if in == ssa.Instruction(ld) {
				seen = true
				continue
			}
			if in == use {
				break
			}
			if seen && z.lineKills[in] {
				return zterm{}, false
			}
		}
	}
	return z.lineTerm(class), true
}

// elemLenLemma: the length of an element of a slice of index pairs. The
// elements of (*core.Line).newlines() are built as []int{pos, pos+1}, those of
// regexp FindAll…Index results are [start, end] pairs.
func (z *zoneEngine) elemLenLemma(v ssa.Value) (int64, bool) {
	ld, ok := v.(*ssa.UnOp)
	if !ok || ld.Op != token.MUL {
		return 0, false
	}
	ia, ok := ld.X.(*ssa.IndexAddr)
	if !ok {
		return 0, false
	}
	src := ia.X
	for i := 0; i < 4; i++ {
		if ph, ok := src.(*ssa.Phi); ok && len(ph.Edges) > 0 {
			// all edges from the same producer
			src = ph.Edges[0]
			continue
		}
		break
	}
	cl, ok := src.(*ssa.Call)
	if !ok {
		return 0, false
	}
	switch calleeName(cl) {
	case "(*core.Line).newlines", "(*regexp.Regexp).FindAllStringIndex", "(*regexp.Regexp).FindAllIndex":
		return 2, true
	}
	return 0, false
}
