package main

import (
	"fmt"
	"sort"
	"strings"

	"golang.org/x/tools/go/callgraph"
	"golang.org/x/tools/go/ssa"
)

func init() { propFuncs["C12"] = checkC12 }

// Contract table for package inputrc (DESIGN.md Appendix B). Argument indexes
// include the receiver. Every `requires` is an obligation at each call site,
// every body is analysed under its `requires`, every `ensures` is checked at
// each return.
func inputrcContracts() map[string]*ZContract {
	seqReq := func(r, i, end int, strict bool) []ZC {
		c := []ZC{le(zz, zp(i), 0), le(zp(end), zl(r), 0)}
		if strict {
			c = append(c, le(zp(i), zp(end), -1))
		} else {
			c = append(c, le(zp(i), zp(end), 0))
		}
		return c
	}
	return map[string]*ZContract{
		"inputrc.grab": {
			Requires: []ZC{le(zz, zp(1), 0), le(zp(2), zl(0), 0)},
			Ensures:  []ZEnsure{{Guard: 'N', GI: 0, Cons: []ZC{le(zp(1), zp(2), -1)}}},
		},
		"inputrc.findNonSpace": {
			Requires: seqReq(0, 1, 2, false),
			Ensures:  []ZEnsure{{Cons: []ZC{le(zp(1), zr(0), 0), le(zr(0), zp(2), 0)}}},
		},
		"inputrc.findEnd": {
			Requires: seqReq(0, 1, 2, false),
			Ensures:  []ZEnsure{{Cons: []ZC{le(zp(1), zr(0), 0), le(zr(0), zp(2), 0)}}},
		},
		"inputrc.findStringEnd": {
			Requires: seqReq(0, 1, 2, true),
			Ensures:  []ZEnsure{{Guard: 'T', GI: 1, Cons: []ZC{le(zp(1), zr(0), -1), le(zr(0), zp(2), 0)}}},
		},
		"inputrc.decodeKey": {
			Requires: seqReq(0, 1, 2, true),
			Ensures: []ZEnsure{
				{Cons: []ZC{le(zz, zr(1), 0)}},
				{Guard: 'E', GI: 2, Cons: []ZC{le(zp(1), zr(1), 0), le(zr(1), zp(2), 0)}},
			},
		},
		"inputrc.unescapeRunes": {
			Requires: []ZC{le(zz, zp(1), 0), le(zp(2), zl(0), 0)},
		},
		"(*inputrc.Parser).readSymbols": {
			Requires: seqReq(1, 2, 3, false),
		},
		"(*inputrc.Parser).readNext": {
			Requires: seqReq(1, 2, 3, true),
			NSReq:    [][3]int{{1, 2, 3}},
		},
		"(*inputrc.Parser).next": {
			Requires: seqReq(2, 3, 4, true),
			NSReq:    [][3]int{{2, 3, 4}},
		},
	}
}

func checkC12(c *Ctx) {
	p, r := c.P, c.R
	r.Level = "proof"
	r.Explanation = "Decided statically for every function of package inputrc reachable from Parse / ParseBytes / ParseFile / UserDefault / Unescape / Escape / EscapeMacro and from keymap.ReloadConfig: (bounds) every index and slice expression is proved in range by a zone-domain abstract interpretation over go/ssa (difference constraints between integer values, constants and symbolic lengths, branch refinement, boolean-guarded facts, widening at loop heads), modularly: each helper is analysed under a stated precondition, each call site must establish the callee's precondition, each postcondition is checked at every return, and the condition stack keeps the field invariant len(conds) >= 1; (no panic) no explicit panic, no unchecked type assertion, no integer division by a possibly-zero value; (termination) every loop has a termination variant or a reviewed ranking argument, and the only call-graph cycle ($include) is bounded by a checked depth counter; errors are values: every error produced while handling a line reaches Parser.errs or the return value. When all obligations are discharged the level is proof; otherwise the undischarged ones are listed and the level drops to other. Trusted: the prover and its contract/lemma tables, go/ssa, totality of the standard-library calls used, a finite input reader, and handler callbacks that return."
	r.Trusted = []string{"zone-domain interpreter rlcheck/zone.go", "contract table rlcheck/c12.go (each requires is checked at every call site, each ensures at every return)", "lemmas: -1 <= strings.Index(s, nonempty) <= len(s)-1; HasPrefix(s,k) ⇒ len(s) >= len(k); len([]rune(s)) <= len(s); len >= 0", "go/ssa construction", "totality of strconv, strings, unicode, bufio.Scanner, fmt, bytes, os/user, filepath on all inputs"}
	r.Assumptions = []string{"the io.Reader given to Parse is finite", "Handler callbacks return (and do not panic)", "Config maps are non-nil (NewConfig / NewDefaultConfig)"}

	ip := p.Pkg("inputrc")
	if ip == nil {
		r.Rule("C12.anchors", "K0", "package inputrc is loaded", 1)
		r.Unk("C12.anchors", "inputrc", "-", "package not found")
		return
	}
	// reachable functions of package inputrc
	var roots []*ssa.Function
	for _, n := range []string{"inputrc.Parse", "inputrc.ParseBytes", "inputrc.ParseFile", "inputrc.UserDefault", "inputrc.Unescape", "inputrc.Escape", "inputrc.EscapeMacro", "(*inputrc.Parser).Parse", "(*keymap.Engine).ReloadConfig", "inputrc.New", "inputrc.NewConfig", "inputrc.NewDefaultConfig", "inputrc.DefaultBinds", "inputrc.DefaultVars"} {
		if f := p.Func(n); f != nil {
			roots = append(roots, f)
		}
	}
	r.Rule("C12.anchors", "K0", "entry points resolve", 8)
	for _, f := range roots {
		r.OK("C12.anchors", fnName(f), p.Pos(f.Pos()), "")
	}
	reach := p.reachFrom(roots, func(e *callgraph.Edge) bool { return true })
	var fns []*ssa.Function
	for f := range reach {
		if len(f.Blocks) == 0 {
			continue
		}
		if f.Package() != nil && f.Package().Pkg == ip.Types {
			fns = append(fns, f)
		} else if f.Parent() != nil && f.Parent().Package() != nil && f.Parent().Package().Pkg == ip.Types {
			fns = append(fns, f)
		}
	}
	sort.Slice(fns, func(i, j int) bool { return fnName(fns[i]) < fnName(fns[j]) })
	for _, f := range fns {
		r.Fn(fnName(f))
	}

	// ---- bounds (K9)
	r.Rule("C12.bounds", "K9", "every index / slice expression, every helper precondition at its call sites, every postcondition at its returns, and the len(conds) >= 1 invariant at every store", 100)
	z := &zoneEngine{p: p, contracts: inputrcContracts(), fieldMinLen: map[string]int64{"inputrc.Parser.conds": 1}}
	for _, f := range fns {
		z.analyse(f)
	}
	cnt := map[string]int{}
	nBad := 0
	for _, o := range z.obls {
		base := fmt.Sprintf("%s:%s", fnName(o.Fn), o.What)
		key := fmt.Sprintf("%s#%d", base, cnt[base])
		cnt[base]++
		if o.OK {
			r.OK("C12.bounds", key, p.IPos(o.In), "proved")
		} else {
			nBad++
			r.Bad("C12.bounds", key, p.IPos(o.In), "cannot prove `"+o.In.String()+"` in range: "+o.Detail+" — an input reaching this with the index outside the bounds panics the parser")
		}
	}
	r.Extra["bounds_obligations"] = len(z.obls)
	r.Extra["contracts"] = len(z.contracts)

	// the field invariant is established before any function that relies on it can run:
	// in (*Parser).Parse the reset store to conds dominates the call to next, and the
	// functions that load conds are reachable only through next
	if PA := p.Func("(*inputrc.Parser).Parse"); PA != nil {
		var reset ssa.Instruction
		eachInstr(PA, func(in ssa.Instruction) {
			if _, ok := isFieldStore(in, "inputrc.Parser", "conds"); ok && reset == nil {
				reset = in
			}
		})
		okDom := reset != nil
		for _, call := range callsTo(PA, false, "(*inputrc.Parser).next") {
			if reset == nil || !instrDominates(reset, call) {
				okDom = false
			}
		}
		r.Check(okDom, "C12.bounds", "(*inputrc.Parser).Parse:conds-reset-dominates-next", p.Pos(PA.Pos()), "invariant established first", "Parse can handle a line before resetting the condition stack: len(conds) >= 1 is not established")
		// loaders of conds are called only via next
		okOnly := true
		bad := ""
		for _, f := range fns {
			loads := false
			eachInstr(f, func(in ssa.Instruction) {
				if u, ok := in.(*ssa.UnOp); ok && isFieldLoad(u, "inputrc.Parser", "conds") {
					loads = true
				}
			})
			if !loads || f == PA {
				continue
			}
			if ok, b := p.onlyReachedThrough(f, map[string]bool{"(*inputrc.Parser).next": true, "(*inputrc.Parser).Parse": true}); !ok {
				okOnly = false
				bad = b
			}
		}
		r.Check(okOnly, "C12.bounds", "inputrc:conds-users-only-via-next", "-", "condition stack users are reached only from next", "a function reading the condition stack has a caller other than next ("+bad+"): it can run before the invariant is established")
	}

	// ---- nil discipline in the parser (K4)
	r.Rule("C12.nil", "K4", "no value the parser compares with nil is dereferenced where it may be nil", 1)
	{
		n := 0
		for _, f := range fns {
			for i, b := range nilContra(f) {
				n++
				r.Bad("C12.nil", fmt.Sprintf("%s:nil-use#%d", fnName(f), i), p.IPos(b.Use), b.Msg)
			}
		}
		r.OK("C12.nil", "functions-scanned", "-", fmt.Sprintf("%d functions, %d contradictions", len(fns), n))
	}

	// ---- no explicit panic / unchecked assertion / division (K6)
	r.Rule("C12.no-panic", "K6", "no explicit panic, no unchecked type assertion, no division by a possibly-zero value in the reachable parser functions", 1)
	nP := 0
	for _, f := range fns {
		k := 0
		var bf FactMap
		eachInstr(f, func(in ssa.Instruction) {
			switch x := in.(type) {
			case *ssa.Panic:
				if in.Pos().IsValid() {
					nP++
					r.Bad("C12.no-panic", fmt.Sprintf("%s:panic#%d", fnName(f), k), p.IPos(in), "explicit panic in the parser: a configuration reaching it crashes the application instead of reporting an error value")
					k++
				}
			case *ssa.TypeAssert:
				if !x.CommaOk {
					nP++
					r.Bad("C12.no-panic", fmt.Sprintf("%s:type-assert#%d", fnName(f), k), p.IPos(in), "unchecked type assertion: panics when the dynamic type differs")
					k++
				}
			case *ssa.BinOp:
				if x.Op.String() == "/" || x.Op.String() == "%" {
					if _, ok := constInt(x.Y); !ok && isIntType(x.Type()) {
						if bf == nil {
							bf = blockFacts(f)
						}
						if !nonZeroKnown(bf, in, x.Y, 0) {
							nP++
							r.Bad("C12.no-panic", fmt.Sprintf("%s:div#%d", fnName(f), k), p.IPos(in), "integer division by a value not known to be non-zero")
							k++
						}
					}
				}
			}
		})
	}
	if nP == 0 {
		r.OK("C12.no-panic", "no-panic-sites", "-", fmt.Sprintf("%d functions scanned", len(fns)))
	}

	// ---- termination (K6): loops and recursion of the parser
	r.Rule("C12.termination", "K6", "every loop of the reachable parser functions has a termination variant (or a reviewed argument) and the $include recursion is bounded", 10)
	for _, f := range fns {
		for _, lc := range classifyLoops(f) {
			key := loopKey(lc)
			if lc.Variant != "" {
				r.OK("C12.termination", key, p.Pos(f.Pos()), lc.Variant+": "+lc.Detail)
				continue
			}
			rv, ok := reviewedLoops[key]
			if !ok {
				r.Unk("C12.termination", key, p.Pos(f.Pos()), "loop without a recognised termination variant and not in the reviewed table")
				continue
			}
			if rv.check != nil {
				if good, why := rv.check(p, lc); !good {
					r.Bad("C12.termination", key, p.Pos(f.Pos()), "reviewed argument no longer holds: "+why)
					continue
				}
			}
			r.OK("C12.termination", key, p.Pos(f.Pos()), "reviewed: "+rv.arg)
		}
	}
	if good, why := includeDepthBounded(p); good {
		r.OK("C12.termination", "recursion:$include", "-", "nested Parse is under a depth bound and receives depth+1")
	} else {
		r.Bad("C12.termination", "recursion:$include", "-", why)
	}
	if good, why := includeBudget(p); good {
		r.OK("C12.termination", "recursion:$include-budget", "-", "the inclusions of the whole parse are counted against a constant, across nested parsers")
	} else {
		r.Bad("C12.termination", "recursion:$include-budget", "-", why)
	}
	if good, why := includeLinear(p); good {
		r.OK("C12.termination", "recursion:$include-linear", "-", "a too-deep error ends every enclosing Parse loop: at most maxIncludeDepth+1 nested parses")
	} else {
		r.Bad("C12.termination", "recursion:$include-linear", "-", why)
	}
	// any other cycle among the parser functions
	{
		in := map[*ssa.Function]bool{}
		for _, f := range fns {
			in[f] = true
		}
		for _, f := range fns {
			n := p.CG.Nodes[f]
			if n == nil {
				continue
			}
			for _, e := range n.Out {
				if e.Callee.Func == f {
					r.Bad("C12.termination", "recursion:"+fnName(f), p.Pos(f.Pos()), "self-recursive parser function without a reviewed bound")
				}
			}
		}
	}

	// ---- errors are values (K3)
	r.Rule("C12.errors-as-values", "K3", "every error produced while handling a line reaches Parser.errs or Parse's return value", 1)
	if PA := p.Func("(*inputrc.Parser).Parse"); PA != nil {
		n := 0
		for _, call := range callsTo(PA, false, "(*inputrc.Parser).next") {
			n++
			cl := call.(*ssa.Call)
			// the error result is tested, and under err != nil it is appended to p.errs
			appended := false
			eachInstr(PA, func(in ssa.Instruction) {
				if st, ok := isFieldStore(in, "inputrc.Parser", "errs"); ok {
					if dependsOn(st.Val, func(v ssa.Value) bool { return v == ssa.Value(cl) }) {
						appended = true
					}
				}
			})
			r.Check(appended, "C12.errors-as-values", fnName(PA)+":next-error→errs", p.IPos(call), "appended to p.errs", "the error returned for a line is dropped: malformed directives are not reported")
		}
		if n == 0 {
			r.Unk("C12.errors-as-values", fnName(PA)+":next", p.Pos(PA.Pos()), "Parse no longer calls next")
		}
	}
	_ = strings.Join
	if nBad > 0 || nP > 0 {
		r.Level = "other"
	}
}
