package main

import (
	"fmt"
	"go/ast"
	"go/constant"
	"go/token"
	"go/types"
	"sort"
	"strings"

	"golang.org/x/tools/go/ssa"
)

func init() { propFuncs["C03"] = checkC03 }

// dispatchKeys and the helpers that complete its result; they share the result
// roles (bind, prefix, read keys[, matched]) and are the only callers of PopKey.
var dispatcherFamily = []string{"(*keymap.Engine).dispatchKeys", "(*keymap.Engine).dispatchCharacter"}

// Action names bound by the default tables that this library does not
// implement — reviewed one by one (DESIGN.md §5 C03). A bind to one of these
// runs nothing, which is the documented behaviour for unimplemented bash
// functions; a bind to any *other* unknown name is a broken registration.
var reviewedUnimplemented = map[string]string{
	"complete-command":              "bash-only function",
	"complete-filename":             "bash-only function",
	"complete-hostname":             "bash-only function",
	"complete-into-braces":          "bash-only function",
	"complete-username":             "bash-only function",
	"complete-variable":             "bash-only function",
	"possible-command-completions":  "bash-only function",
	"possible-filename-completions": "bash-only function",
	"possible-hostname-completions": "bash-only function",
	"possible-username-completions": "bash-only function",
	"possible-variable-completions": "bash-only function",
	"glob-complete-word":            "bash-only function",
	"glob-expand-word":              "bash-only function",
	"glob-list-expansions":          "bash-only function",
	"history-expand-line":           "bash-only function",
	"shell-expand-line":             "bash-only function",
	"tilde-expand":                  "not implemented by this library",
	"vi-tilde-expand":               "not implemented by this library",
	"vi-fetch-history":              "not implemented by this library",
	"dynamic-complete-history":      "bash-only function",
	"display-shell-version":         "bash-only function",
	"downcase-word":                 "default table spells it downcase-word, command is registered as down-case-word (pre-existing mismatch)",
	"upcase-word":                   "default table spells it upcase-word, command is registered as up-case-word (pre-existing mismatch)",
	"delete-horizontal-space":       "command is registered as delete-horizontal-whitespace (pre-existing mismatch)",
	"copy-prev-word":                "not implemented (copy-prev-shell-word is)",
	"vi-goto-column":                "command is registered as vi-column (pre-existing mismatch)",
	"vi-swap-case":                  "command is registered as vi-change-case (pre-existing mismatch)",
	"switch-keyword":                "command is registered as keyword-increase/decrease (pre-existing mismatch)",
	"menu-select":                   "not implemented",
	"down-line":                     "not implemented",
	"up-line":                       "not implemented",
	"down-line-or-search":           "not implemented",
}

// Names in isearchCommands that match nothing on the pinned tree (harmless:
// a list entry that names no command filters nothing in or out).
var reviewedDeadListEntries = map[string]string{
	"history-incremental-search-backward": "zsh spelling; the commands are registered as incremental-*-search-history",
	"history-incremental-search-forward":  "zsh spelling; the commands are registered as incremental-*-search-history",
}

// collectBindActions: every constant Action of an inputrc.Bind composite literal
// (Macro not true) in non-test repo code, with one position each.
func collectBindActions(p *Prog) (map[string]token.Pos, int) {
	out := map[string]token.Pos{}
	n := 0
	bindT := p.LookupType("inputrc", "Bind")
	for _, pk := range p.Pkgs {
		if !strings.HasPrefix(pk.PkgPath, modPath) {
			continue
		}
		for _, file := range pk.Syntax {
			ast.Inspect(file, func(nd ast.Node) bool {
				cl, ok := nd.(*ast.CompositeLit)
				if !ok {
					return true
				}
				tv, ok := pk.TypesInfo.Types[cl]
				if !ok || bindT == nil || !types.Identical(tv.Type, bindT) {
					return true
				}
				var action string
				haveAction, macro := false, false
				for i, el := range cl.Elts {
					var name string
					var val ast.Expr
					if kv, ok := el.(*ast.KeyValueExpr); ok {
						if id, ok := kv.Key.(*ast.Ident); ok {
							name = id.Name
						}
						val = kv.Value
					} else {
						name = []string{"Action", "Macro"}[i%2]
						val = el
					}
					v := pk.TypesInfo.Types[val].Value
					if v == nil {
						continue
					}
					switch name {
					case "Action":
						if v.Kind() == constant.String {
							action, haveAction = constant.StringVal(v), true
						}
					case "Macro":
						if v.Kind() == constant.Bool {
							macro = constant.BoolVal(v)
						}
					}
				}
				if haveAction && !macro && action != "" {
					n++
					if _, seen := out[action]; !seen {
						out[action] = cl.Pos()
					}
				}
				return true
			})
		}
	}
	return out, n
}

// stringListVar extracts the constant strings of a package-level []string literal.
func stringListVar(p *Prog, pkg, name string) (map[string]token.Pos, bool) {
	pk := p.Pkg(pkg)
	if pk == nil {
		return nil, false
	}
	out := map[string]token.Pos{}
	found := false
	for _, file := range pk.Syntax {
		for _, d := range file.Decls {
			gd, ok := d.(*ast.GenDecl)
			if !ok {
				continue
			}
			for _, sp := range gd.Specs {
				vs, ok := sp.(*ast.ValueSpec)
				if !ok {
					continue
				}
				for i, id := range vs.Names {
					if id.Name != name || i >= len(vs.Values) {
						continue
					}
					cl, ok := vs.Values[i].(*ast.CompositeLit)
					if !ok {
						continue
					}
					found = true
					for _, el := range cl.Elts {
						if v := pk.TypesInfo.Types[el].Value; v != nil && v.Kind() == constant.String {
							out[constant.StringVal(v)] = el.Pos()
						}
					}
				}
			}
		}
	}
	return out, found
}

// stringConstsCompared: string constants a function compares a value with (switch cases / ==).
func stringConstsCompared(f *ssa.Function, onValue func(ssa.Value) bool) map[string]ssa.Instruction {
	out := map[string]ssa.Instruction{}
	eachInstr(f, func(in ssa.Instruction) {
		b, ok := in.(*ssa.BinOp)
		if !ok || (b.Op != token.EQL && b.Op != token.NEQ) {
			return
		}
		if s, ok := constString(b.Y); ok && onValue(b.X) {
			out[s] = in
		}
		if s, ok := constString(b.X); ok && onValue(b.Y) {
			out[s] = in
		}
	})
	return out
}

func checkC03(c *Ctx) {
	p, r := c.P, c.R
	r.Explanation = "Decided statically: (table agreement) every action name bound by the default bind tables, the isearch/non-isearch command lists and the operator-pending adjustment table resolves to a registered command or to a reviewed, frozen list of names this library does not implement — so no default binding silently runs nothing because of a renamed/dropped registration; the command handed back by MatchMain/MatchLocal is looked up under exactly the matched bind's Action and never for a macro bind; after dispatchKeys every path accounts for the read keys through exactly one of MatchedPrefix (prefix) / MatchedKeys (otherwise) with the read/matched slices in the right roles; every dispatch iteration consumes exactly one key; on the no-match and exact-match exits the active bind is the remembered prefix bind / the exact match; a macro bind re-feeds Unescape(bind.Action) at the tail and runs no command; execute calls only a non-nil command. NOT decided: the value-level prefix-matching semantics of matchBind (which sequence wins for which key string) and ConvertMeta's effect on the tables."
	r.Trusted = []string{"go/packages type checker (constant values of literals)", "go/ssa construction", "rule tables in rlcheck/c03.go incl. the reviewed list of unimplemented action names"}
	r.Assumptions = []string{"user inputrc files may bind arbitrary names; only the built-in tables are checked for agreement"}

	reg := p.Registry()
	r.Rule("C03.registry", "K5", "every action name in the built-in bind tables / restricted command lists resolves in the command registry or is on the reviewed unimplemented list", 150)
	for _, e := range reg.Errs {
		r.Unk("C03.registry", "registry", "-", e)
	}
	r.Extra["registered_commands"] = len(reg.Cmds)
	if len(reg.Cmds) < 200 {
		r.Unk("C03.registry", "registry:size", "-", fmt.Sprintf("only %d commands extracted from the four command tables (expected ≥ 200)", len(reg.Cmds)))
	}
	actions, nLits := collectBindActions(p)
	r.Extra["bind_literals"] = nLits
	var names []string
	for a := range actions {
		names = append(names, a)
	}
	sort.Strings(names)
	nUn := 0
	for _, a := range names {
		key := "bind-action:" + a
		if reg.Cmds[a] != nil {
			r.OK("C03.registry", key, p.Pos(actions[a]), "registered ("+fnName(reg.Cmds[a])+")")
			continue
		}
		if why, ok := reviewedUnimplemented[a]; ok {
			nUn++
			r.OK("C03.registry", key, p.Pos(actions[a]), "reviewed unimplemented: "+why)
			continue
		}
		r.Bad("C03.registry", key, p.Pos(actions[a]), "a built-in binding names command \""+a+"\", which is not registered: typing that sequence runs nothing")
	}
	r.Extra["reviewed_unimplemented_in_use"] = nUn
	for _, lst := range []string{"isearchCommands", "nonIsearchCommands"} {
		m, found := stringListVar(p, "internal/keymap", lst)
		if !found || len(m) == 0 {
			r.Unk("C03.registry", "list:"+lst, "-", "package-level list not found")
			continue
		}
		var ks []string
		for k := range m {
			ks = append(ks, k)
		}
		sort.Strings(ks)
		for _, a := range ks {
			key := lst + ":" + a
			// names in these lists filter binds by Action: a name that is neither registered nor ever bound is dead
			_, bound := actions[a]
			if why, ok := reviewedDeadListEntries[a]; ok && reg.Cmds[a] == nil && !bound {
				r.OK("C03.registry", key, p.Pos(m[a]), "reviewed dead entry: "+why)
				continue
			}
			r.Check(reg.Cmds[a] != nil || bound, "C03.registry", key, p.Pos(m[a]), "resolves", "\""+a+"\" in "+lst+" is neither a registered command nor a bound action: the command is unreachable in that search mode")
		}
	}
	if f := p.Func("(*readline.Shell).adjustSelectionPending"); f != nil {
		r.Fn(fnName(f))
		cs := stringConstsCompared(f, func(v ssa.Value) bool { return true })
		var ks []string
		for k := range cs {
			ks = append(ks, k)
		}
		sort.Strings(ks)
		for _, a := range ks {
			r.Check(reg.Cmds[a] != nil, "C03.registry", "adjustSelectionPending:"+a, p.IPos(cs[a]), "registered", "adjustSelectionPending tests for command \""+a+"\", which is not registered")
		}
	} else {
		r.Unk("C03.registry", "(*readline.Shell).adjustSelectionPending", "-", "anchor not found")
	}
	// action names compared in the keymap package (handleEscape, RunPending…)
	for _, n := range []string{"(*keymap.Engine).handleEscape", "(*keymap.Engine).InputIsTerminator"} {
		f := p.Func(n)
		if f == nil {
			r.Unk("C03.registry", n, "-", "anchor not found")
			continue
		}
		r.Fn(n)
		cs := stringConstsCompared(f, func(v ssa.Value) bool {
			_, fld, ok := fieldOf(v)
			if ok && fld == "Action" {
				return true
			}
			if u, ok := v.(*ssa.UnOp); ok {
				_, fld, ok := fieldOf(u.X)
				return ok && fld == "Action"
			}
			return false
		})
		for a, in := range cs {
			if a == "" {
				continue
			}
			r.Check(reg.Cmds[a] != nil, "C03.registry", n+":"+a, p.IPos(in), "registered", n+" tests for action \""+a+"\", which is not registered")
		}
	}

	MM, ML, DK, EX, RUN := p.Func("keymap.MatchMain"), p.Func("keymap.MatchLocal"), p.Func("(*keymap.Engine).dispatchKeys"), p.Func("(*readline.Shell).execute"), p.Func("(*readline.Shell).run")
	r.Rule("C03.anchors", "K0", "anchored functions resolve", 5)
	miss := false
	for n, f := range map[string]*ssa.Function{"keymap.MatchMain": MM, "keymap.MatchLocal": ML, "(*keymap.Engine).dispatchKeys": DK, "(*readline.Shell).execute": EX, "(*readline.Shell).run": RUN} {
		if f == nil {
			r.Unk("C03.anchors", n, "-", "anchor not found — rule table needs review")
			miss = true
		} else {
			r.OK("C03.anchors", n, p.Pos(f.Pos()), "")
			r.Fn(n)
		}
	}
	if miss {
		return
	}

	// ---- accounting (K1+K4+K3)
	nTailMM := 0
	r.Rule("C03.accounting", "K1", "after dispatchKeys, every path calls exactly one of MatchedPrefix (iff prefix) / MatchedKeys, with read/matched in the right roles", 6)
	for _, f := range []*ssa.Function{MM, ML} {
		dcalls := callsTo(f, false, "(*keymap.Engine).dispatchKeys")
		if len(dcalls) != 1 {
			r.Unk("C03.accounting", fnName(f)+":dispatchKeys", p.Pos(f.Pos()), fmt.Sprintf("expected one dispatchKeys call, found %d", len(dcalls)))
			continue
		}
		d := dcalls[0].(*ssa.Call)
		// The dispatcher family: dispatchKeys and the helpers that complete its
		// result (same result roles 0 = bind, 1 = prefix, 2 = read keys). A role
		// value is a result of one of them or a phi merging role values; ext[i]
		// is the final one (the value the rest of the function sees).
		role := map[int]map[ssa.Value]bool{0: {}, 1: {}, 2: {}, 3: {}}
		for _, dc := range callsTo(f, false, dispatcherFamily...) {
			for _, ref := range referrersOf(dc.(*ssa.Call)) {
				if ex, ok := ref.(*ssa.Extract); ok {
					role[ex.Index][ex] = true
					// the keys dispatchCharacter returns are all matched by the bind it returns
					if ex.Index == 2 && calleeName(dc) == "(*keymap.Engine).dispatchCharacter" {
						role[3][ex] = true
					}
				}
			}
		}
		for changed := true; changed; {
			changed = false
			eachInstr(f, func(in ssa.Instruction) {
				ph, ok := in.(*ssa.Phi)
				if !ok {
					return
				}
				for i := range role {
					if role[i][ph] {
						continue
					}
					all := len(ph.Edges) > 0
					for _, e := range ph.Edges {
						if !role[i][e] {
							all = false
						}
					}
					if all {
						role[i][ph] = true
						changed = true
					}
				}
			})
		}
		ext := map[int]ssa.Value{}
		ambiguous := false
		// the bind is a struct (often a spilled local): a read of one of its
		// fields is a read of "the dispatched bind" when every value that can
		// reach the read is a role-0 value
		isBindRead := func(v ssa.Value, fld string) bool {
			base, f2, ok := fieldRead(v)
			if !ok || f2 != fld {
				return false
			}
			if role[0][base] {
				return true
			}
			a, isA := base.(*ssa.Alloc)
			ld, isL := v.(*ssa.UnOp)
			if !isA || !isL {
				return false
			}
			vals, zero, simple := reachingStoresX(ld, a)
			if !simple || zero || len(vals) == 0 {
				return false
			}
			for _, x := range vals {
				if !role[0][structValue(x)] {
					return false
				}
			}
			return true
		}
		for i, vs := range role {
			if i == 0 {
				continue
			}
			for v := range vs {
				final := true
				for _, ref := range referrersOf(v) {
					if ph, ok := ref.(*ssa.Phi); ok && vs[ph] {
						final = false
					}
				}
				if final {
					if ext[i] != nil {
						ambiguous = true
					}
					ext[i] = v
				}
			}
		}
		if ambiguous {
			r.Unk("C03.accounting", fnName(f)+":dispatch-results", p.IPos(d), "the dispatcher results are merged in a way the rule does not follow")
			continue
		}
		isMP := func(in ssa.Instruction) bool { return isCallTo(in, "core.MatchedPrefix") }
		isMK := func(in ssa.Instruction) bool { return isCallTo(in, "core.MatchedKeys") }
		either := func(in ssa.Instruction) bool { return isMP(in) || isMK(in) }
		// every return after d passes one of them
		missR := pathAvoiding(f, d, isReturn, either)
		r.Check(missR == nil, "C03.accounting", fnName(f)+":accounted", p.IPos(d), "every path accounts for the read keys", "a path from dispatchKeys to return calls neither MatchedPrefix nor MatchedKeys: read keys are neither consumed nor pushed back")
		// never both
		both := false
		eachInstr(f, func(in ssa.Instruction) {
			if either(in) {
				if w := pathAvoiding(f, in, either, nil); w != nil {
					both = true
				}
			}
		})
		r.Check(!both, "C03.accounting", fnName(f)+":once", p.IPos(d), "exactly one accounting call per path", "two key-accounting calls can run on one path: keys would be pushed back twice")
		bf := blockFacts(f)
		from := func(v ssa.Value, idx int) bool {
			leaves := backSlice(v, &SliceOpts{P: p, IsSource: func(x ssa.Value) bool { return role[idx][x] }})
			ok, _ := leavesAll(p, leaves, false)
			return ok
		}
		eachInstr(f, func(in ssa.Instruction) {
			if isMP(in) {
				args := in.(ssa.CallInstruction).Common().Args
				ok := ext[1] != nil && knownBool(factsAt(bf, in), ext[1], true) && from(args[1], 2)
				r.Check(ok, "C03.accounting", fnName(f)+":MatchedPrefix", p.IPos(in), "under prefix, pushes back all read keys", "MatchedPrefix is not (under prefix == true ∧ given exactly the read keys): partially matched keys are lost or re-queued wrongly")
			}
			if isMK(in) {
				args := in.(ssa.CallInstruction).Common().Args
				okGuard := ext[1] != nil && knownBool(factsAt(bf, in), ext[1], false)
				var okArgs bool
				isTail := func(v ssa.Value) bool {
					// read[len(matched):]
					sl, ok := v.(*ssa.Slice)
					if !ok || !role[2][sl.X] || sl.High != nil {
						return false
					}
					cl, ok := sl.Low.(*ssa.Call)
					if !ok {
						return false
					}
					b, ok := cl.Call.Value.(*ssa.Builtin)
					return ok && b.Name() == "len" && role[3][cl.Call.Args[0]]
				}
				if f == MM {
					// either all read keys are consumed and nothing is pushed back (no bind ran, or it
					// matched every key), or the matched keys are consumed and the rest is pushed back
					formA := from(args[1], 2) && isNilConst(args[2])
					formB := from(args[1], 3) && isTail(args[2])
					okArgs = formA || formB
					if formB {
						nTailMM++
					}
				} else {
					// matched keys consumed; the unread tail read[len(matched):] is pushed back
					okArgs = from(args[1], 3)
					if sl, ok := args[2].(*ssa.Slice); ok && sl.X == ext[2] && sl.High == nil {
						if cl, ok := sl.Low.(*ssa.Call); ok {
							if b, ok := cl.Call.Value.(*ssa.Builtin); ok && b.Name() == "len" && cl.Call.Args[0] == ext[3] {
							} else {
								okArgs = false
							}
						} else {
							okArgs = false
						}
					} else {
						okArgs = false
					}
				}
				r.Check(okGuard && okArgs, "C03.accounting", fnName(f)+":MatchedKeys", p.IPos(in), "under !prefix with the right slices", fmt.Sprintf("MatchedKeys is not called under prefix == false with the expected read/matched slices (guard ok=%v, args ok=%v)", okGuard, okArgs))
			}
		})
		// command lookup (K3+K4)
		r.Rule("C03.command-lookup", "K3", "the command returned for a match is commands[bind.Action] of the dispatched bind, looked up only when the bind is not a macro", 2)
		eachInstr(f, func(in ssa.Instruction) {
			lk, ok := in.(*ssa.Lookup)
			if !ok || !isFieldLoad(lk.X, "keymap.Engine", "commands") {
				return
			}
			key := fnName(f) + ":commands[bind.Action]"
			okKey := isBindRead(lk.Index, "Action")
			okGuard := false
			for fc := range factsAt(bf, in) {
				if !fc.Val && isBindRead(fc.Cond, "Macro") {
					okGuard = true
				}
			}
			r.Check(okKey && okGuard, "C03.command-lookup", key, p.IPos(in), "commands[bind.Action] under !bind.Macro", fmt.Sprintf("command lookup is not keyed by the dispatched bind's Action under !bind.Macro (key ok=%v, guard ok=%v)", okKey, okGuard))
		})
	}
	r.Rule("C03.ruled-out-key", "K3", "when the main dispatcher runs a shorter bind because a key ruled out the longer sequences, it consumes the keys that matched and puts the rest back in front of the queue (MatchedKeys(keys, matched, read[len(matched):]...))", 1)
	r.Check(nTailMM > 0, "C03.ruled-out-key", "keymap.MatchMain:pushes-back-unmatched", p.Pos(MM.Pos()), "the unmatched tail is pushed back", "MatchMain marks every key it read as matched: the key that ruled out a longer bind is consumed with the shorter one (with \"jk\" bound, typing \"jazz\" gives \"jzz\")")
	// resolve(): the other lookup site
	if RS := p.Func("(*keymap.Engine).resolve"); RS != nil {
		r.Fn(fnName(RS))
		bf := blockFacts(RS)
		eachInstr(RS, func(in ssa.Instruction) {
			lk, ok := in.(*ssa.Lookup)
			if !ok || !isFieldLoad(lk.X, "keymap.Engine", "commands") {
				return
			}
			okKey, okGuard := false, false
			if b2, f2, ok := fieldRead(lk.Index); ok && b2 == ssa.Value(RS.Params[1]) && f2 == "Action" {
				okKey = true
			}
			for fc := range factsAt(bf, in) {
				if b2, f2, ok := fieldRead(fc.Cond); ok && b2 == ssa.Value(RS.Params[1]) && f2 == "Macro" && !fc.Val {
					okGuard = true
				}
			}
			r.Check(okKey && okGuard, "C03.command-lookup", fnName(RS)+":commands[bind.Action]", p.IPos(in), "commands[bind.Action] under !bind.Macro", fmt.Sprintf("resolve does not look up the bind's Action under !bind.Macro (key ok=%v, guard ok=%v)", okKey, okGuard))
		})
	} else {
		r.Rule("C03.command-lookup", "K3", "", 0)
		r.Unk("C03.command-lookup", "(*keymap.Engine).resolve", "-", "anchor not found")
	}
	// every other Lookup in commands in package keymap must be one of the above sites
	kp := p.Pkg("internal/keymap")
	for _, f := range p.RepoFuncs {
		if f.Package() == nil || kp == nil || f.Package().Pkg != kp.Types {
			continue
		}
		if f == MM || f == ML || fnName(f) == "(*keymap.Engine).resolve" {
			continue
		}
		eachInstr(f, func(in ssa.Instruction) {
			if lk, ok := in.(*ssa.Lookup); ok && isFieldLoad(lk.X, "keymap.Engine", "commands") {
				r.Bad("C03.command-lookup", fnName(f)+":commands[…]", p.IPos(in), "new lookup site in the command table outside MatchMain/MatchLocal/resolve — rule table needs review")
			}
		})
	}

	// ---- progress: one key per iteration (K1-loop)
	r.Rule("C03.progress", "K1", "every dispatchKeys iteration that sees a key pops exactly one key", 3)
	{
		loops := findLoops(DK)
		var L *Loop
		for _, l := range loops {
			for b := range l.Blocks {
				for _, in := range b.Instrs {
					if isCallTo(in, "core.PeekKey") {
						L = l
					}
				}
			}
		}
		isPop := func(in ssa.Instruction) bool { return isCallTo(in, "core.PopKey") }
		if L == nil {
			r.Unk("C03.progress", fnName(DK)+":loop", p.Pos(DK.Pos()), "dispatch loop (containing core.PeekKey) not found")
		} else {
			r.Check(loopEveryIterationPasses(L, isPop), "C03.progress", fnName(DK)+":back-edge", p.Pos(L.Head.Instrs[0].Pos()), "every back edge passes PopKey", "a dispatch iteration can loop without consuming a key (spin on the same key)")
			// from the non-empty edge of the PeekKey test, every path to return/head passes PopKey
			var peek *ssa.Call
			for _, cl := range callsTo(DK, false, "core.PeekKey") {
				peek = cl.(*ssa.Call)
			}
			// the `empty` result of any PeekKey call of the loop, also merged by the phi of a for-with-post loop
			emptyVs := map[ssa.Value]bool{}
			for _, cl := range callsTo(DK, false, "core.PeekKey") {
				for _, ref := range referrersOf(cl.(*ssa.Call)) {
					if ex, ok := ref.(*ssa.Extract); ok && ex.Index == 1 {
						emptyVs[ex] = true
					}
				}
			}
			eachInstr(DK, func(in ssa.Instruction) {
				ph, ok := in.(*ssa.Phi)
				if !ok || len(ph.Edges) == 0 {
					return
				}
				for _, e := range ph.Edges {
					if !emptyVs[e] {
						return
					}
				}
				emptyVs[ph] = true
			})
			var okEdge, found bool
			for _, b := range DK.Blocks {
				iff, ok := b.Instrs[len(b.Instrs)-1].(*ssa.If)
				if !ok {
					continue
				}
				cond, neg := iff.Cond, false
				for {
					if u, isU := cond.(*ssa.UnOp); isU && u.Op == token.NOT {
						cond, neg = u.X, !neg
						continue
					}
					break
				}
				if !emptyVs[cond] {
					continue
				}
				found = true
				nonEmpty := b.Succs[1]
				if neg {
					nonEmpty = b.Succs[0]
				}
				// path from nonEmpty to return or loop head avoiding PopKey?
				bad := false
				seen := map[*ssa.BasicBlock]bool{}
				var dfs func(x *ssa.BasicBlock)
				dfs = func(x *ssa.BasicBlock) {
					if seen[x] || bad {
						return
					}
					seen[x] = true
					for _, in := range x.Instrs {
						if isPop(in) {
							return
						}
						if isReturn(in) {
							bad = true
							return
						}
					}
					for _, s := range x.Succs {
						if s == L.Head {
							bad = true
							return
						}
						dfs(s)
					}
				}
				dfs(nonEmpty)
				okEdge = !bad
			}
			if !found {
				r.Unk("C03.progress", fnName(DK)+":peeked-key-popped", p.IPos(peek), "the `empty` test on PeekKey's result was not found")
			} else {
				r.Check(okEdge, "C03.progress", fnName(DK)+":peeked-key-popped", p.IPos(peek), "a peeked key is always popped before leaving the iteration", "a peeked key can be left in the queue when the iteration ends: it is dispatched twice")
			}
			twice := false
			eachInstr(DK, func(in ssa.Instruction) {
				if isPop(in) {
					if w := pathAvoiding(DK, in, isPop, func(x ssa.Instruction) bool { return x.Block() == L.Head }); w != nil {
						twice = true
					}
				}
			})
			r.Check(!twice, "C03.progress", fnName(DK)+":one-pop", p.Pos(DK.Pos()), "at most one PopKey per iteration", "two PopKey calls can run in one dispatch iteration: a key is dropped without being matched")
		}
	}

	// ---- active bind on exits (K3)
	r.Rule("C03.active-bind", "K3", "dispatchKeys stores into Engine.active only the exact match or the remembered prefix bind, and into Engine.prefixed only a match or the zero bind; it returns Engine.active", 3)
	{
		var mb *ssa.Call
		for _, cl := range callsTo(DK, false, "(*keymap.Engine).matchBind") {
			mb = cl.(*ssa.Call)
		}
		var matchV ssa.Value
		if mb != nil {
			for _, ref := range referrersOf(mb) {
				if ex, ok := ref.(*ssa.Extract); ok && ex.Index == 0 {
					matchV = ex
				}
			}
		}
		n := 0
		eachInstr(DK, func(in ssa.Instruction) {
			if st, ok := isFieldStore(in, "keymap.Engine", "active"); ok {
				key := fmt.Sprintf("%s:store(active)#%d", fnName(DK), n)
				n++
				ok2 := structValue(st.Val) == matchV || isFieldLoad(st.Val, "keymap.Engine", "prefixed")
				r.Check(ok2, "C03.active-bind", key, p.IPos(in), "active = match | prefixed", "Engine.active is assigned something other than the exact match or the remembered prefix bind: "+st.Val.String())
			}
			if st, ok := isFieldStore(in, "keymap.Engine", "prefixed"); ok {
				key := fmt.Sprintf("%s:store(prefixed)#%d", fnName(DK), n)
				n++
				ok2 := structValue(st.Val) == matchV
				if !ok2 {
					// zero Bind: load of a fresh local complit with no stores, or const
					leaves := backSlice(st.Val, &SliceOpts{P: p})
					ok2 = len(leaves) > 0
					for _, l := range leaves {
						if l.Kind != LeafConst {
							ok2 = false
						}
					}
				}
				r.Check(ok2, "C03.active-bind", key, p.IPos(in), "prefixed = match | zero", "Engine.prefixed is assigned something other than the current match or the zero bind")
			}
		})
		eachInstr(DK, func(in ssa.Instruction) {
			if ret, ok := in.(*ssa.Return); ok {
				r.Check(isFieldLoad(ret.Results[0], "keymap.Engine", "active"), "C03.active-bind", fnName(DK)+":return.bind", p.IPos(in), "returns Engine.active", "dispatchKeys returns a bind other than Engine.active")
			}
		})
	}

	// ---- remembered prefix bind is dropped once a bind becomes active (K1)
	r.Rule("C03.prefixed-reset", "K1", "after dispatchKeys makes a bind active, every path to return resets the remembered prefix bind (a stale one would run for a later unbound key)", 2)
	{
		n := 0
		eachInstr(DK, func(in ssa.Instruction) {
			if _, ok := isFieldStore(in, "keymap.Engine", "active"); !ok {
				return
			}
			key := fmt.Sprintf("%s:store(active)#%d→reset(prefixed)", fnName(DK), n)
			n++
			ok2, _ := mustPassBefore(DK, in, isReturn, func(x ssa.Instruction) bool {
				st, ok := isFieldStore(x, "keymap.Engine", "prefixed")
				if !ok {
					return false
				}
				for _, l := range backSlice(st.Val, &SliceOpts{P: p}) {
					if l.Kind != LeafConst {
						return false
					}
				}
				return true
			})
			r.Check(ok2, "C03.prefixed-reset", key, p.IPos(in), "prefixed reset on every path after the bind became active", "a path returns with a bind active and the remembered prefix bind still set: after a longer sequence completed, the next unbound key runs the shorter binding's command")
		})
	}
	// the dispatcher family is entered only from the two match functions, whose accounting is checked above
	r.Rule("C03.dispatcher-callers", "K2", "the helpers completing a dispatchKeys result are called only from MatchMain / MatchLocal, whose key accounting is checked", 1)
	for _, dn := range dispatcherFamily[1:] {
		df := p.Func(dn)
		if df == nil {
			continue
		}
		for _, e := range p.callersOf(df) {
			cn := fnName(e.Caller.Func)
			r.CallSites++
			r.Check(cn == "keymap.MatchMain" || cn == "keymap.MatchLocal", "C03.dispatcher-callers", cn+"→"+dn, p.Pos(e.Pos()), "match function", cn+" runs the dispatcher outside the match functions: the keys it pops are not accounted for")
		}
	}
	checkC03PeekPop(c)
	checkC03EscapeResets(c)
	checkRound5Small(c, "C03")
	checkFallbackKeepsLaterKeys(c, "C03.fallback-keeps-later-keys")
	// the pending-prefix test compares how much was read with how long the bound sequence is: both in bytes
	unitRule(c, "C03.units", []string{"(*keymap.Engine).matchBind"}, 0)
	checkReadersAgreeOnOrder(c, "C03.readers-agree-on-order")
	r.Rule("C03.popkey-owner", "K2", "core.PopKey (which leaves mustWait untouched) is called only by the dispatcher; any other consumer drops keys with PopForce", 1)
	if pk := p.Func("core.PopKey"); pk != nil {
		for _, e := range p.callersOf(pk) {
			cn := fnName(e.Caller.Func)
			r.CallSites++
			owner := false
			for _, dn := range dispatcherFamily {
				owner = owner || cn == dn
			}
			r.Check(owner, "C03.popkey-owner", cn+":core.PopKey", p.Pos(e.Pos()), "dispatcher", cn+" drops a key with PopKey: mustWait stays set, so the key is neither flushed from the macro recorder's view nor recorded (a standalone ESC disappears from vi macros)")
		}
	}

	// ---- macro feed (K3+K4)
	r.Rule("C03.macro-feed", "K3", "a macro bind feeds Unescape(bind.Action) at the tail of the key queue, only under bind.Macro", 1)
	{
		bf := blockFacts(RUN)
		bindP := RUN.Params[2]
		for i, call := range callsTo(RUN, false, fnFeed) {
			key := siteKey(RUN, "Feed", i)
			args := call.Common().Args
			guard := false
			for fc := range factsAt(bf, call) {
				if b2, f2, ok := fieldRead(fc.Cond); ok && b2 == ssa.Value(bindP) && f2 == "Macro" && fc.Val {
					guard = true
				}
			}
			b, isC := constBool(args[1])
			leaves := backSlice(args[2], &SliceOpts{P: p, ElemOf: true, IsSource: func(v ssa.Value) bool {
				cl, ok := v.(*ssa.Call)
				if !ok || calleeName(cl) != "inputrc.Unescape" {
					return false
				}
				b2, f2, ok := fieldRead(cl.Call.Args[0])
				return ok && b2 == ssa.Value(bindP) && f2 == "Action"
			}})
			okSrc, why := leavesAll(p, leaves, false)
			r.Check(guard && isC && !b && okSrc, "C03.macro-feed", key, p.IPos(call), "Feed(false, Unescape(bind.Action)) under bind.Macro",
				fmt.Sprintf("macro bind is not re-fed as Feed(false, Unescape(bind.Action)) under bind.Macro (guard=%v begin-const-false=%v source ok=%v %s)", guard, isC && !b, okSrc, why))
		}
	}

	// ---- nil command (K4)
	r.Rule("C03.nil-command", "K4", "execute calls the dispatched command only when it is non-nil (unbound keys run nothing)", 1)
	{
		bf := blockFacts(EX)
		cmd := EX.Params[1]
		n := 0
		eachInstr(EX, func(in ssa.Instruction) {
			cl, ok := in.(ssa.CallInstruction)
			if !ok || cl.Common().Value != ssa.Value(cmd) {
				return
			}
			n++
			r.Check(knownNonNil(factsAt(bf, in), cmd), "C03.nil-command", fnName(EX)+":command()", p.IPos(in), "under command != nil", "execute calls its command parameter without a dominating non-nil test: an unbound key sequence crashes Readline")
		})
		if n == 0 {
			r.Bad("C03.nil-command", fnName(EX)+":command()", p.Pos(EX.Pos()), "execute never calls the dispatched command")
		}
	}

	// ---- Register copies names and commands unchanged (K3)
	r.Rule("C03.register", "K3", "Engine.Register stores each command under exactly the name it was registered with", 1)
	if RG := p.Func("(*keymap.Engine).Register"); RG != nil {
		r.Fn(fnName(RG))
		n := 0
		eachInstr(RG, func(in ssa.Instruction) {
			mu, ok := in.(*ssa.MapUpdate)
			if !ok || !isFieldLoad(mu.Map, "keymap.Engine", "commands") {
				return
			}
			n++
			kx, ok1 := mu.Key.(*ssa.Extract)
			vx, ok2 := mu.Value.(*ssa.Extract)
			ok3 := ok1 && ok2 && kx.Tuple == vx.Tuple && kx.Index == 1 && vx.Index == 2
			if ok3 {
				_, isNext := kx.Tuple.(*ssa.Next)
				ok3 = isNext
			}
			r.Check(ok3, "C03.register", fnName(RG)+":commands[name]=command", p.IPos(in), "range key/value stored unchanged", "Register does not store the ranged (name, command) pair unchanged")
		})
		if n == 0 {
			r.Bad("C03.register", fnName(RG)+":commands[name]=command", p.Pos(RG.Pos()), "Register does not write the command table")
		}
	} else {
		r.Unk("C03.register", "(*keymap.Engine).Register", "-", "anchor not found")
	}
	checkKeyCodeTables(c, "C03.key-code-tables")
}

// macroFieldOf: cond is a read of a Bind's Macro field (Field or load of FieldAddr).
func macroFieldOf(v ssa.Value) (bool, bool) {
	if f, ok := v.(*ssa.Field); ok {
		return fieldName(f.X.Type(), f.Field) == "Macro", true
	}
	if u, ok := v.(*ssa.UnOp); ok && u.Op == token.MUL {
		if fa, ok := u.X.(*ssa.FieldAddr); ok {
			return fieldName(fa.X.Type(), fa.Field) == "Macro", true
		}
	}
	return false, false
}
