package main

import (
	"fmt"
	"go/token"

	"golang.org/x/tools/go/ssa"
)

func init() { propFuncs["C13"] = checkC13 }

const parserT = "inputrc.Parser"

func isHandlerInvoke(in ssa.Instruction, method string) bool {
	return isInvoke(in, "inputrc.Handler", method)
}

// topIsTrue: the facts establish that the top of the condition stack is true.
func condsTopKnownTrue(facts map[Fact]bool) bool {
	for f := range facts {
		if k, ok := stackElemLoad(f.Cond, parserT, "conds"); ok && k == 1 && f.Val {
			return true
		}
	}
	return false
}

func checkC13(c *Ctx) {
	p, r := c.P, c.R
	r.Explanation = "Decided statically on the inputrc parser: every handler effect (Bind, Set, ReadFile for $include, Do) is dominated by a test that the top of the condition stack is true; the value pushed by $if and the value written by $else depend (data or control) on the enclosing level, so a block nested in an inactive block cannot become active; the keymap handed to Bind is the parser field written only by Parse (reset) and by the guarded `set keymap`; sequence/action/macro reach Handler.Bind and Config.Bind's table unswapped, macro being exactly tok == tokenBindMacro; the $if evaluator compares the mode=/term=/application forms with the matching option field; $include passes app/term/mode on. NOT decided: the full iff over arbitrary programs (e.g. which quoting forms readNext classifies as macro) — that is value-level behaviour of the scanner."
	r.Trusted = []string{"go/packages type checker", "go/ssa construction", "rule tables in rlcheck/c13.go"}
	r.Assumptions = []string{"the application Handler implements Bind/Set as recording functions (Config does; checked for Config.Bind)"}

	names := []string{"(*inputrc.Parser).do", "(*inputrc.Parser).doBind", "(*inputrc.Parser).doSet", "(*inputrc.Parser).next", "(*inputrc.Parser).Parse", "(*inputrc.Config).Bind"}
	fs := map[string]*ssa.Function{}
	r.Rule("C13.anchors", "K0", "anchored functions resolve", len(names))
	for _, n := range names {
		f := p.Func(n)
		fs[n] = f
		if f == nil {
			r.Unk("C13.anchors", n, "-", "anchor not found — rule table needs review")
		} else {
			r.OK("C13.anchors", n, p.Pos(f.Pos()), "")
			r.Fn(n)
		}
	}
	for _, n := range names {
		if fs[n] == nil {
			return
		}
	}
	DO, DB, DS, NX, PA, CB := fs[names[0]], fs[names[1]], fs[names[2]], fs[names[3]], fs[names[4]], fs[names[5]]

	// ---- guarded effects (K4): all Handler effect invokes in package inputrc
	r.Rule("C13.guarded-effects", "K4", "every Handler.Bind/Set/ReadFile/Do invoke in the parser is dominated by `top of conds is true`", 6)
	ip := p.Pkg("inputrc")
	for _, f := range p.RepoFuncs {
		if f.Package() == nil || ip == nil || f.Package().Pkg != ip.Types {
			continue
		}
		var bf FactMap
		cnt := map[string]int{}
		eachInstr(f, func(in ssa.Instruction) {
			for _, m := range []string{"Bind", "Set", "ReadFile", "Do"} {
				if !isHandlerInvoke(in, m) {
					continue
				}
				if bf == nil {
					bf = blockFacts(f)
				}
				key := fmt.Sprintf("%s:Handler.%s#%d", fnName(f), m, cnt[m])
				cnt[m]++
				r.CallSites++
				r.Check(condsTopKnownTrue(factsAt(bf, in)), "C13.guarded-effects", key, p.IPos(in), "under conds[top] == true",
					"Handler."+m+" is reachable while the innermost $if block is inactive: directives in inactive blocks take effect")
			}
		})
	}

	// ---- nesting (must-depend)
	r.Rule("C13.nesting", "K3", "the value pushed by $if and the value written by $else depend on the enclosing condition level", 2)
	// $if: the append to conds under fact keyword == "$if"
	bfDO := blockFacts(DO)
	kwIs := func(in ssa.Instruction, kw string) bool {
		for f := range factsAt(bfDO, in) {
			if rel, ok := relOf(f.Cond, f.Val); ok && rel.Op == token.EQL {
				if s, ok := constString(rel.Y); ok && s == kw && rel.X == ssa.Value(DO.Params[2]) {
					return true
				}
			}
		}
		return false
	}
	nIf, nElse := 0, 0
	eachInstr(DO, func(in ssa.Instruction) {
		st, ok := isFieldStore(in, parserT, "conds")
		if ok && kwIs(in, "$if") {
			// pushed value(s): the non-conds operand of append
			cl, isCall := st.Val.(*ssa.Call)
			if !isCall {
				r.Unk("C13.nesting", fnName(DO)+":$if.push", p.IPos(in), "conds assigned from something other than append in the $if case")
				return
			}
			if b, isB := cl.Call.Value.(*ssa.Builtin); !isB || b.Name() != "append" || len(cl.Call.Args) != 2 {
				r.Unk("C13.nesting", fnName(DO)+":$if.push", p.IPos(in), "conds assigned from something other than append in the $if case")
				return
			}
			nIf++
			pushed := cl.Call.Args[1]
			dep := dependsOn(pushed, func(v ssa.Value) bool {
				k, ok := stackElemLoad(v, parserT, "conds")
				return ok && k == 1
			})
			r.Check(dep, "C13.nesting", fnName(DO)+":$if.push", p.IPos(in), "pushed value depends on the enclosing level",
				"$if pushes its own test only: a block nested inside an inactive $if becomes active when its own test is true (bindings leak out of inactive blocks)")
		}
		// $else: store into conds[len-1]
		if st2, ok := in.(*ssa.Store); ok && kwIs(in, "$else") {
			ia, isIA := st2.Addr.(*ssa.IndexAddr)
			if !isIA || !isFieldLoad(ia.X, parserT, "conds") {
				return
			}
			nElse++
			dep := dependsOn(st2.Val, func(v ssa.Value) bool {
				k, ok := stackElemLoad(v, parserT, "conds")
				return ok && k == 2
			})
			r.Check(dep, "C13.nesting", fnName(DO)+":$else.store", p.IPos(in), "$else value depends on the enclosing level",
				"$else negates the innermost level only: the $else branch of a block nested inside an inactive block becomes active")
		}
	})
	if nIf == 0 {
		r.Unk("C13.nesting", fnName(DO)+":$if.push", p.Pos(DO.Pos()), "no push onto conds found under keyword == \"$if\"")
	}
	if nElse == 0 {
		r.Unk("C13.nesting", fnName(DO)+":$else.store", p.Pos(DO.Pos()), "no store to the top of conds found under keyword == \"$else\"")
	}

	// ---- $else / $endif need an open $if (K4)
	r.Rule("C13.else-needs-if", "K4", "$else and $endif change the condition stack only when a $if is open (len(conds) != 1); at the base level they are errors", 2)
	for _, kw := range []string{"$else", "$endif"} {
		n := 0
		eachInstr(DO, func(in ssa.Instruction) {
			if !kwIs(in, kw) {
				return
			}
			isMut := false
			if st, ok := in.(*ssa.Store); ok {
				if ia, ok := st.Addr.(*ssa.IndexAddr); ok && isFieldLoad(ia.X, parserT, "conds") {
					isMut = true
				}
				if _, ok := isFieldStore(in, parserT, "conds"); ok {
					isMut = true
				}
			}
			if !isMut {
				return
			}
			n++
			guard := false
			for fc := range factsAt(bfDO, in) {
				rel, ok := relOf(fc.Cond, fc.Val)
				if !ok || !isLenCall(rel.X) || !isFieldLoad(rel.X.(*ssa.Call).Call.Args[0], parserT, "conds") {
					continue
				}
				if k, ok := constInt(rel.Y); ok && ((rel.Op == token.NEQ && k == 1) || (rel.Op == token.GTR && k == 1) || (rel.Op == token.GEQ && k == 2)) {
					guard = true
				}
			}
			r.Check(guard, "C13.else-needs-if", fmt.Sprintf("%s:%s#%d", fnName(DO), kw, n-1), p.IPos(in), "under len(conds) != 1", kw+" changes the condition stack without an open $if: at the top level it toggles / pops the base condition and every following directive is ignored (or applied) wrongly")
		})
		if n == 0 {
			r.Unk("C13.else-needs-if", fnName(DO)+":"+kw, p.Pos(DO.Pos()), "no condition-stack update found for "+kw)
		}
	}

	// ---- keymap (K2+K3)
	r.Rule("C13.keymap", "K2", "Handler.Bind's keymap is Parser.keymap; that field is written only by Parse (reset to emacs) and by the guarded `set keymap` case", 3)
	eachInstr(DB, func(in ssa.Instruction) {
		if isHandlerInvoke(in, "Bind") {
			args := in.(ssa.CallInstruction).Common().Args
			r.Check(isFieldLoad(args[0], parserT, "keymap"), "C13.keymap", fnName(DB)+":Bind.keymap", p.IPos(in), "keymap argument is p.keymap", "Handler.Bind's keymap argument is not the parser's current keymap")
		}
	})
	for _, f := range p.RepoFuncs {
		eachInstr(f, func(in ssa.Instruction) {
			st, ok := isFieldStore(in, parserT, "keymap")
			if !ok {
				return
			}
			key := fnName(f) + ":store(Parser.keymap)"
			switch f {
			case PA:
				s, isC := constString(st.Val)
				r.Check(isC && s == "emacs", "C13.keymap", key, p.IPos(in), "reset to emacs at the start of a parse", "Parse resets keymap to something other than the constant \"emacs\"")
			case DS:
				bf := blockFacts(DS)
				nameIsKeymap := false
				for fct := range factsAt(bf, in) {
					if rel, ok := relOf(fct.Cond, fct.Val); ok && rel.Op == token.EQL && rel.X == ssa.Value(DS.Params[2]) {
						if s, ok := constString(rel.Y); ok && s == "keymap" {
							nameIsKeymap = true
						}
					}
				}
				okv := st.Val == ssa.Value(DS.Params[3])
				r.Check(nameIsKeymap && okv && condsTopKnownTrue(factsAt(bf, in)), "C13.keymap", key, p.IPos(in), "set keymap <value> under an active block",
					fmt.Sprintf("keymap assignment in doSet is not (name==\"keymap\" ∧ active block ∧ value parameter): name=%v value=%v", nameIsKeymap, okv))
			default:
				r.Bad("C13.keymap", key, p.IPos(in), "Parser.keymap is written outside Parse/doSet")
			}
		})
	}

	// ---- macro flag and argument order (K3)
	r.Rule("C13.bind-args", "K3", "sequence, action and the macro flag travel from readNext through next/doBind/Handler.Bind into Config.Binds unswapped; macro is exactly tok == tokenBindMacro", 3)
	// next: doBind(handler, directive, val, tok == tokenBindMacro)
	tokMacro := lookupConstInt(p, "inputrc", "tokenBindMacro")
	for i, call := range callsTo(NX, false, "(*inputrc.Parser).doBind") {
		key := siteKey(NX, "doBind", i)
		args := call.Common().Args // p, handler, sequence, action, macro
		var rn *ssa.Call
		okSeq, okAct, okMac := false, false, false
		if ex, ok := args[2].(*ssa.Extract); ok && ex.Index == 0 {
			if cl, ok := ex.Tuple.(*ssa.Call); ok && calleeName(cl) == "(*inputrc.Parser).readNext" {
				rn, okSeq = cl, true
			}
		}
		if ex, ok := args[3].(*ssa.Extract); ok && ex.Index == 1 && ex.Tuple == ssa.Value(rn) {
			okAct = true
		}
		if b, ok := args[4].(*ssa.BinOp); ok && b.Op == token.EQL {
			if ex, ok := b.X.(*ssa.Extract); ok && ex.Index == 2 && ex.Tuple == ssa.Value(rn) {
				if k, ok := constInt(b.Y); ok && k == tokMacro && tokMacro >= 0 {
					okMac = true
				}
			}
		}
		r.Check(okSeq && okAct && okMac, "C13.bind-args", key, p.IPos(call), "doBind(readNext#0, readNext#1, tok == tokenBindMacro)",
			fmt.Sprintf("doBind arguments do not come from readNext in order (sequence ok=%v, action ok=%v, macro==(tok==tokenBindMacro) ok=%v)", okSeq, okAct, okMac))
	}
	eachInstr(DB, func(in ssa.Instruction) {
		if isHandlerInvoke(in, "Bind") {
			args := in.(ssa.CallInstruction).Common().Args
			ok := args[1] == ssa.Value(DB.Params[2]) && args[2] == ssa.Value(DB.Params[3]) && args[3] == ssa.Value(DB.Params[4])
			r.Check(ok, "C13.bind-args", fnName(DB)+":Handler.Bind", p.IPos(in), "Bind(keymap, sequence, action, macro) in parameter order", "doBind passes its sequence/action/macro parameters to Handler.Bind in a different order")
		}
	})
	// Config.Bind: Binds[keymap][sequence] = Bind{Action: action, Macro: macro}
	{
		okKey, okInner, okAct, okMac := false, false, false, false
		eachInstr(CB, func(in ssa.Instruction) {
			mu, ok := in.(*ssa.MapUpdate)
			if !ok {
				return
			}
			if mu.Key == ssa.Value(CB.Params[2]) { // sequence
				okKey = true
				if lk, ok := mu.Map.(*ssa.Lookup); ok && lk.Index == ssa.Value(CB.Params[1]) {
					okInner = true
				}
				// value: load of a local struct whose fields were stored from action/macro
				leaves := backSlice(mu.Value, &SliceOpts{P: p})
				for _, l := range leaves {
					if l.V == ssa.Value(CB.Params[3]) {
						okAct = true
					}
					if l.V == ssa.Value(CB.Params[4]) {
						okMac = true
					}
				}
				// field-precise: find stores into the struct alloc
				if u, ok := mu.Value.(*ssa.UnOp); ok {
					if a, ok := u.X.(*ssa.Alloc); ok {
						okAct, okMac = false, false
						for _, ref := range referrersOf(a) {
							if fa, ok := ref.(*ssa.FieldAddr); ok {
								for _, r2 := range referrersOf(fa) {
									if st, ok := r2.(*ssa.Store); ok {
										_, fname, _ := fieldOf(fa)
										if fname == "Action" && st.Val == ssa.Value(CB.Params[3]) {
											okAct = true
										}
										if fname == "Macro" && st.Val == ssa.Value(CB.Params[4]) {
											okMac = true
										}
									}
								}
							}
						}
					}
				}
			}
		})
		r.Check(okKey && okInner && okAct && okMac, "C13.bind-args", fnName(CB)+":Binds[keymap][sequence]", p.Pos(CB.Pos()), "Binds[keymap][sequence] = Bind{Action: action, Macro: macro}",
			fmt.Sprintf("Config.Bind does not record (keymap, sequence) → {Action: action, Macro: macro}: key=%v inner=%v action=%v macro=%v", okKey, okInner, okAct, okMac))
	}

	// ---- $if forms (K5)
	r.Rule("C13.if-forms", "K5", "$if compares `mode=`/`term=` values and the application name with the matching parser option field, under the matching prefix test", 3)
	type form struct{ prefix, field string }
	forms := []form{{"mode=", "mode"}, {"term=", "term"}}
	seenForm := map[string]bool{}
	eachInstr(DO, func(in ssa.Instruction) {
		b, ok := in.(*ssa.BinOp)
		if !ok || b.Op != token.EQL || !kwIs(in, "$if") {
			return
		}
		// one side a Parser field load, the other a call on val
		var fld string
		var other ssa.Value
		for _, fn_ := range []string{"mode", "term", "app"} {
			if isFieldLoad(b.X, parserT, fn_) {
				fld, other = fn_, b.Y
			}
			if isFieldLoad(b.Y, parserT, fn_) {
				fld, other = fn_, b.X
			}
		}
		if fld == "" {
			return
		}
		cl, ok := other.(*ssa.Call)
		if !ok {
			r.Bad("C13.if-forms", fnName(DO)+":$if."+fld, p.IPos(in), "comparison with p."+fld+" is not against a function of the directive value")
			return
		}
		key := fnName(DO) + ":$if." + fld
		seenForm[fld] = true
		switch fld {
		case "app":
			// (lowering one side only is rejected by C13.case-fold-symmetric)
			okA := calleeName(cl) == "strings.ToLower" && cl.Call.Args[0] == ssa.Value(DO.Params[3])
			// must be in the default branch: both prefix tests known false
			nf := 0
			for f := range factsAt(bfDO, in) {
				if hc, ok := f.Cond.(*ssa.Call); ok && calleeName(hc) == "strings.HasPrefix" && !f.Val {
					nf++
				}
			}
			r.Check(okA && nf >= 2, "C13.if-forms", key, p.IPos(in), "application form: ToLower(val) == p.app when no prefix matched", "application-name form of $if is not ToLower(val) == p.app in the default branch")
		default:
			var want form
			for _, f := range forms {
				if f.field == fld {
					want = f
				}
			}
			pfx, _ := "", false
			if calleeName(cl) == "strings.TrimPrefix" && cl.Call.Args[0] == ssa.Value(DO.Params[3]) {
				pfx, _ = constString(cl.Call.Args[1])
			}
			guard := false
			for f := range factsAt(bfDO, in) {
				if hc, ok := f.Cond.(*ssa.Call); ok && calleeName(hc) == "strings.HasPrefix" && f.Val {
					if s, ok := constString(hc.Call.Args[1]); ok && s == want.prefix && hc.Call.Args[0] == ssa.Value(DO.Params[3]) {
						guard = true
					}
				}
			}
			r.Check(pfx == want.prefix && guard, "C13.if-forms", key, p.IPos(in), fmt.Sprintf("TrimPrefix(val,%q) == p.%s under HasPrefix(val,%q)", want.prefix, fld, want.prefix),
				fmt.Sprintf("$if %s form compares p.%s with TrimPrefix(val,%q) (guarded by the matching HasPrefix: %v)", want.prefix, fld, pfx, guard))
		}
	})
	// the application form may also be written with strings.EqualFold(val, p.app)
	eachInstr(DO, func(in ssa.Instruction) {
		cl, ok := in.(*ssa.Call)
		if !ok || calleeName(cl) != "strings.EqualFold" || !kwIs(in, "$if") {
			return
		}
		a0, a1 := cl.Call.Args[0], cl.Call.Args[1]
		isVal := func(v ssa.Value) bool { return v == ssa.Value(DO.Params[3]) }
		isApp := func(v ssa.Value) bool { return isFieldLoad(v, parserT, "app") }
		if !((isVal(a0) && isApp(a1)) || (isVal(a1) && isApp(a0))) {
			return
		}
		seenForm["app"] = true
		nf := 0
		for f := range factsAt(bfDO, in) {
			if hc, ok := f.Cond.(*ssa.Call); ok && calleeName(hc) == "strings.HasPrefix" && !f.Val {
				nf++
			}
		}
		r.Check(nf >= 2, "C13.if-forms", fnName(DO)+":$if.app", p.IPos(in), "application form: EqualFold(val, p.app) when no prefix matched", "the application-name form of $if is not in the default branch (after both prefix tests failed)")
	})
	for _, fld := range []string{"mode", "term", "app"} {
		if !seenForm[fld] {
			r.Unk("C13.if-forms", fnName(DO)+":$if."+fld, p.Pos(DO.Pos()), "no comparison with p."+fld+" found in the $if case")
		}
	}

	// ---- include context (K3)
	r.Rule("C13.include-context", "K3", "$include re-parses with the including parser's app, term and mode", 3)
	{
		got := map[string]bool{}
		eachInstr(DO, func(in ssa.Instruction) {
			cl, ok := in.(*ssa.Call)
			if !ok {
				return
			}
			for opt, fld := range map[string]string{"inputrc.WithApp": "app", "inputrc.WithTerm": "term", "inputrc.WithMode": "mode"} {
				if calleeName(cl) == opt && kwIs(in, "$include") {
					got[fld] = isFieldLoad(cl.Call.Args[0], parserT, fld)
					r.Check(got[fld], "C13.include-context", fnName(DO)+":$include."+fld, p.IPos(in), opt+"(p."+fld+")", opt+" is not given the including parser's "+fld)
				}
			}
		})
		for _, fld := range []string{"app", "term", "mode"} {
			if _, ok := got[fld]; !ok {
				r.Bad("C13.include-context", fnName(DO)+":$include."+fld, p.Pos(DO.Pos()), "$include does not pass "+fld+" to the nested parse: conditions in included files are evaluated against empty settings")
			}
		}
		// the options must actually reach the nested Parse call
		var nested *ssa.Call
		eachInstr(DO, func(in ssa.Instruction) {
			if cl, ok := in.(*ssa.Call); ok && calleeName(cl) == "inputrc.Parse" && kwIs(in, "$include") {
				nested = cl
			}
		})
		if nested == nil {
			r.Unk("C13.include-context", fnName(DO)+":$include.Parse", p.Pos(DO.Pos()), "no nested inputrc.Parse call in the $include case")
		} else {
			n := 0
			for _, l := range backSlice(nested.Call.Args[2], &SliceOpts{P: p, ElemOf: true, IsSource: func(v ssa.Value) bool {
				cl, ok := v.(*ssa.Call)
				if !ok {
					return false
				}
				switch calleeName(cl) {
				case "inputrc.WithApp", "inputrc.WithTerm", "inputrc.WithMode":
					return true
				}
				return false
			}}) {
				if l.Kind == LeafSource {
					n++
				}
			}
			r.Check(n >= 3, "C13.include-context", fnName(DO)+":$include.Parse", p.IPos(nested), "WithApp/WithTerm/WithMode options reach the nested Parse", fmt.Sprintf("only %d of the app/term/mode options reach the nested Parse call", n))
			// handler is the same handler
			r.Check(nested.Call.Args[1] == ssa.Value(DO.Params[1]), "C13.include-context", fnName(DO)+":$include.handler", p.IPos(nested), "same handler", "the nested Parse does not receive the including handler")
		}
	}

	// ---- scanner loops test the character at their own index (K5)
	r.Rule("C13.scan-index-agreement", "K5", "in the symbol/key-name scanners, the character tested by the loop condition is the one at the loop index on every edge (so the first character of a symbol is examined and one-character symbols survive)", 2)
	for _, n := range []string{"inputrc.findEnd", "inputrc.decodeKey"} {
		f := p.Func(n)
		if f == nil {
			r.Unk("C13.scan-index-agreement", n, "-", "anchor not found")
			continue
		}
		r.Fn(n)
		found := false
		for _, l := range findLoops(f) {
			// c = phi of grab(r, idx, end) values; i = integer phi in the same header
			var cPhi, iPhi *ssa.Phi
			for _, in := range l.Head.Instrs {
				ph, ok := in.(*ssa.Phi)
				if !ok {
					break
				}
				allGrab := len(ph.Edges) > 0
				for _, e := range ph.Edges {
					if !isCallNamed(e, "inputrc.grab") {
						allGrab = false
					}
				}
				if allGrab {
					cPhi = ph
				}
			}
			if cPhi == nil {
				continue
			}
			// the index phi is the one the grab calls refer to
			for _, in := range l.Head.Instrs {
				ph, ok := in.(*ssa.Phi)
				if !ok {
					break
				}
				if ph != cPhi && typeStr(ph.Type()) == "int" {
					iPhi = ph
				}
			}
			if iPhi == nil {
				continue
			}
			found = true
			good := true
			why := ""
			for k, e := range cPhi.Edges {
				idx := e.(*ssa.Call).Call.Args[1]
				iv := iPhi.Edges[k]
				same := idx == iv
				if !same {
					// both are `iPhi + 1`
					b1, ok1 := idx.(*ssa.BinOp)
					b2, ok2 := iv.(*ssa.BinOp)
					if ok1 && ok2 && b1.Op == token.ADD && b2.Op == token.ADD && b1.X == b2.X {
						k1, _ := constInt(b1.Y)
						k2, _ := constInt(b2.Y)
						same = k1 == k2
					}
				}
				if !same {
					good = false
					why = fmt.Sprintf("on edge %d the tested character is at `%s` while the index is `%s`", k, idx.String(), iv.String())
				}
			}
			r.Check(good, "C13.scan-index-agreement", n+":scan-loop", p.Pos(l.Head.Instrs[0].Pos()), "tested character is r[index] on every edge", n+": "+why+" — the first character of a symbol is skipped and a one-character symbol/key name is lost")
		}
		if !found {
			r.Unk("C13.scan-index-agreement", n+":scan-loop", p.Pos(f.Pos()), "scanner loop (phi of grab() results next to an index phi) not found — rule table needs review")
		}
	}

	// ---- key-name modifiers (K4+K3, sibling of the quoted form)
	r.Rule("C13.key-modifiers", "K4", "decodeKey encodes Control-Meta-x as ESC followed by Encontrol(x), Control-x as Encontrol(x) and Meta-x as Enmeta(x) — the same encodings the quoted notation produces", 3)
	if DK := p.Func("inputrc.decodeKey"); DK != nil {
		bf := blockFacts(DK)
		// flags: bool phis compared in the final switch
		trueFlags := func(in ssa.Instruction) map[ssa.Value]bool {
			out := map[ssa.Value]bool{}
			for fc := range factsAt(bf, in) {
				if _, isPhi := fc.Cond.(*ssa.Phi); isPhi && fc.Val && typeStr(fc.Cond.Type()) == "bool" {
					out[fc.Cond] = true
				}
			}
			return out
		}
		var both map[ssa.Value]bool
		okBoth := false
		eachInstr(DK, func(in ssa.Instruction) {
			ret, ok := in.(*ssa.Return)
			if !ok {
				return
			}
			// string([]rune{27, Encontrol(c)})
			hasEsc, hasCtl, n := false, false, 0
			for _, l := range backSlice(ret.Results[0], &SliceOpts{P: p, ElemOf: true, IsSource: func(v ssa.Value) bool { return isCallNamed(v, "inputrc.Encontrol") }}) {
				n++
				if k, ok := constInt(l.V); ok && k == 27 {
					hasEsc = true
				}
				if l.Kind == LeafSource {
					hasCtl = true
				}
			}
			if hasEsc && hasCtl && n == 2 {
				fl := trueFlags(in)
				if len(fl) >= 2 {
					okBoth, both = true, fl
				}
			}
		})
		r.Check(okBoth, "C13.key-modifiers", "inputrc.decodeKey:control+meta", p.Pos(DK.Pos()), "ESC + Encontrol(c) under both flags", "no return produces ESC followed by Encontrol(c) under both modifier flags: a key name with both Control- and Meta- is recorded as a different sequence than the quoted form \\M-\\C-x")
		// single modifiers: the Encontrol / Enmeta results flowing into the one-rune return are each under one flag of `both`
		for _, fnm := range []string{"inputrc.Encontrol", "inputrc.Enmeta"} {
			okOne := false
			eachInstr(DK, func(in ssa.Instruction) {
				cl, ok := in.(*ssa.Call)
				if !ok || calleeName(cl) != fnm {
					return
				}
				fl := trueFlags(in)
				if len(fl) == 1 {
					for v := range fl {
						if both == nil || both[v] {
							// its result reaches a one-rune return
							for _, ref := range referrersOf(cl) {
								if _, isPhi := ref.(*ssa.Phi); isPhi {
									okOne = true
								}
								if _, isCv := ref.(*ssa.Convert); isCv {
									okOne = true
								}
							}
						}
					}
				}
			})
			r.Check(okOne, "C13.key-modifiers", "inputrc.decodeKey:"+fnm, p.Pos(DK.Pos()), "applied under exactly one modifier flag", fnm+" is not applied under exactly one of the modifier flags on the way to the single-rune result")
		}
	} else {
		r.Unk("C13.key-modifiers", "inputrc.decodeKey", "-", "anchor not found")
	}

	// ---- option setters write the matching field (K5)
	r.Rule("C13.options", "K5", "WithApp/WithTerm/WithMode store their argument into the field of the same name", 3)
	for opt, fld := range map[string]string{"inputrc.WithApp": "app", "inputrc.WithTerm": "term", "inputrc.WithMode": "mode"} {
		f := p.Func(opt)
		if f == nil || len(f.AnonFuncs) != 1 {
			r.Unk("C13.options", opt, "-", "anchor not found or unexpected shape")
			continue
		}
		an := f.AnonFuncs[0]
		good := false
		n := 0
		eachInstr(an, func(in ssa.Instruction) {
			if st, ok := in.(*ssa.Store); ok {
				n++
				if _, fname, ok := fieldOf(st.Addr); ok && fname == fld {
					leaves := backSlice(st.Val, &SliceOpts{P: p})
					good = len(leaves) > 0
					for _, l := range leaves {
						if l.V != ssa.Value(f.Params[0]) {
							good = false
						}
					}
				}
			}
		})
		r.Check(good && n == 1, "C13.options", opt, p.Pos(f.Pos()), "stores its argument into Parser."+fld, opt+" does not store its argument into Parser."+fld)
	}
	checkHexTables(c, "C13.hex-tables")
	checkC13OptionsOrder(c)
	checkC13CaseFold(c)
}

// lookupConstInt returns the integer value of a package-level constant (-1 if absent).
func lookupConstInt(p *Prog, pkg, name string) int64 {
	pp := p.Pkg(pkg)
	if pp == nil {
		return -1
	}
	o := pp.Types.Scope().Lookup(name)
	if o == nil {
		return -1
	}
	if sp := p.SSA.Package(pp.Types); sp != nil {
		if nc, ok := sp.Members[name].(*ssa.NamedConst); ok {
			if k, ok := constInt(nc.Value); ok {
				return k
			}
		}
	}
	return -1
}
