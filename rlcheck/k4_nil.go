package main

import (
	"fmt"
	"go/token"
	"go/types"

	"golang.org/x/tools/go/ssa"
)

// K4 contradiction rule (Engler): if a function compares v with nil, it
// believes v may be nil; every dereferencing use of v reachable after such a
// comparison must then be dominated by the non-nil outcome.

type NilUse struct {
	Use ssa.Instruction
	V   ssa.Value
	Msg string
}

func nilable(t types.Type) bool {
	switch t.Underlying().(type) {
	case *types.Pointer, *types.Interface, *types.Signature:
		return true
	}
	return false
}

// derefUses lists instructions that dereference v (would panic if v is nil).
func derefUses(v ssa.Value) []ssa.Instruction {
	var out []ssa.Instruction
	for _, ref := range referrersOf(v) {
		switch u := ref.(type) {
		case ssa.CallInstruction:
			cc := u.Common()
			if cc.Value == v {
				// invoke on nil interface / call of nil func
				if _, isDefer := ref.(*ssa.Defer); isDefer {
					continue
				}
				out = append(out, ref)
			}
		case *ssa.FieldAddr:
			if u.X == v {
				// address computation on nil pointer panics when used; count loads/stores through it
				out = append(out, ref)
			}
		case *ssa.UnOp:
			if u.Op == token.MUL && u.X == v {
				out = append(out, ref)
			}
		case *ssa.Store:
			if u.Addr == v {
				out = append(out, ref)
			}
		case *ssa.TypeAssert:
			// x.(T) on nil interface with CommaOk=false panics
			if u.X == v && !u.CommaOk {
				out = append(out, ref)
			}
		}
	}
	return out
}

func nilContra(f *ssa.Function) []NilUse {
	var out []NilUse
	if f == nil || len(f.Blocks) == 0 {
		return nil
	}
	bf := blockFacts(f)
	// values compared with nil, with the comparing If blocks
	type cmpInfo struct{ blocks []*ssa.BasicBlock }
	cmps := map[ssa.Value]*cmpInfo{}
	for _, b := range f.Blocks {
		iff, ok := b.Instrs[len(b.Instrs)-1].(*ssa.If)
		if !ok {
			continue
		}
		cond := iff.Cond
		for {
			if u, ok := cond.(*ssa.UnOp); ok && u.Op == token.NOT {
				cond = u.X
				continue
			}
			break
		}
		v, _, ok := nilCmp(cond)
		if !ok || !nilable(v.Type()) {
			continue
		}
		ci := cmps[v]
		if ci == nil {
			ci = &cmpInfo{}
			cmps[v] = ci
		}
		ci.blocks = append(ci.blocks, b)
	}
	for v, ci := range cmps {
		for _, use := range derefUses(v) {
			ub := use.Block()
			if ub == nil {
				continue
			}
			facts := bf[ub]
			if knownNonNil(facts, v) {
				continue
			}
			// is the use reachable from a comparison (comparison precedes use)?
			reach := false
			for _, cb := range ci.blocks {
				if cb == ub {
					continue // same block: use precedes the branch
				}
				if blockReaches(cb.Succs[0], func(in ssa.Instruction) bool { return in == use }, nil) ||
					blockReaches(cb.Succs[1], func(in ssa.Instruction) bool { return in == use }, nil) {
					reach = true
				}
			}
			if !reach {
				continue
			}
			// loop-carried: if the use dominates every comparison, the comparison is later in program order
			domAll := true
			for _, cb := range ci.blocks {
				if !ub.Dominates(cb) {
					domAll = false
				}
			}
			if domAll {
				continue
			}
			msg := fmt.Sprintf("`%s` dereferences %s, which this function compares with nil, on a path where it is not known to be non-nil", use.String(), v.Name())
			if knownNil(facts, v) {
				msg = fmt.Sprintf("`%s` dereferences %s on a path where it is known to be nil", use.String(), v.Name())
			}
			out = append(out, NilUse{use, v, msg})
		}
	}
	// stable order
	for i := 0; i < len(out); i++ {
		for j := i + 1; j < len(out); j++ {
			if instrPos(out[j].Use) < instrPos(out[i].Use) {
				out[i], out[j] = out[j], out[i]
			}
		}
	}
	return out
}
