package main

import (
	"fmt"
	"go/token"
	"go/types"
	"strings"

	"golang.org/x/tools/go/ssa"
)

// Rules added after the second seeding round (DESIGN.md §11). Each is a
// structural necessary condition of the property named in its id, attached to
// that property's check.

// ---- C05.new-input-behind: freshly read input goes behind what is already buffered
func checkC05NewInputBehind(c *Ctx, p *Prog, sfx string) {
	r := c.R
	r.Rule("C05.new-input-behind", "K3", "bytes that were just read from the terminal (WaitAvailableKeys, ReadKey, GetCursorPos) are appended behind the keys already buffered, never pushed in front of them", 2)
	for _, fn := range []string{"(*core.Keys).GetCursorPos", "core.WaitAvailableKeys", "(*core.Keys).ReadKey"} {
		f := p.Func(fn)
		if f == nil {
			continue
		}
		k := 0
		for _, g := range withAnons(f) {
			eachInstr(g, func(in ssa.Instruction) {
				_, front, ok := keyBufAppend(in)
				if !ok {
					return
				}
				r.Fn(fnName(f))
				r.Check(!front, "C05.new-input-behind", fmt.Sprintf("%s:buf-append#%d%s", fn, k, sfx), p.IPos(in), "appended at the tail", "input read from the terminal is pushed in front of keys that were read earlier: typed text is reordered whenever type-ahead meets a cursor report or a second read")
				k++
			})
		}
	}
}

// ---- C03.peek-pop-agree: the key the dispatcher looks at is the key it removes
func checkC03PeekPop(c *Ctx) {
	p, r := c.P, c.R
	r.Rule("C03.peek-pop-agree", "K5", "PeekKey and PopKey consult the key sources (typed keys, fed keys) in the same order, so the dispatcher removes the key it has matched", 1)
	order := func(f *ssa.Function) []string {
		// fields whose len() is compared with 0, in control-flow order from the entry
		var out []string
		for _, b := range f.Blocks {
			for _, in := range b.Instrs {
				bo, ok := in.(*ssa.BinOp)
				if !ok || (bo.Op != token.GTR && bo.Op != token.NEQ && bo.Op != token.EQL) || !isLenCall(bo.X) {
					continue
				}
				if _, fld, ok := fieldRead(bo.X.(*ssa.Call).Call.Args[0]); ok {
					out = append(out, fld)
				}
			}
		}
		return out
	}
	PK, PP := p.Func("core.PeekKey"), p.Func("core.PopKey")
	if PK == nil || PP == nil {
		r.Unk("C03.peek-pop-agree", "core.PeekKey/core.PopKey", "-", "anchor not found")
		return
	}
	r.Fn(fnName(PK), fnName(PP))
	a, b := order(PK), order(PP)
	r.Check(len(a) > 0 && strings.Join(a, ",") == strings.Join(b, ","), "C03.peek-pop-agree", "core.PeekKey~core.PopKey", p.Pos(PK.Pos()), "same order: "+strings.Join(a, ", "),
		fmt.Sprintf("PeekKey looks at %v but PopKey removes from %v: with both a fed and a typed key pending the dispatcher matches one key and consumes another", a, b))
}

// ---- C03.escape-resets-prefixed
func checkC03EscapeResets(c *Ctx) {
	p, r := c.P, c.R
	r.Rule("C03.escape-resets-prefixed", "K1", "handleEscape forgets the remembered shorter bind on every path (a lone Escape ends the pending sequence)", 1)
	HE := p.Func("(*keymap.Engine).handleEscape")
	if HE == nil {
		r.Unk("C03.escape-resets-prefixed", "(*keymap.Engine).handleEscape", "-", "anchor not found")
		return
	}
	r.Fn(fnName(HE))
	ok, _ := mustPassBefore(HE, nil, isReturn, func(in ssa.Instruction) bool {
		_, is := isFieldStore(in, "keymap.Engine", "prefixed")
		return is
	})
	r.Check(ok, "C03.escape-resets-prefixed", fnName(HE)+":prefixed-reset", p.Pos(HE.Pos()), "reset on every path", "a path through handleEscape keeps the remembered shorter bind: after a lone Escape ran it, the next key that matches nothing runs it again")
}

// ---- C02.multibyte-dispatch:any-length (strengthening)
func checkC02AnyLength(c *Ctx) {
	p, r := c.P, c.R
	MM := p.Func("keymap.MatchMain")
	if MM == nil {
		return
	}
	bf := blockFacts(MM)
	for i, call := range callsTo(MM, false, "(*keymap.Engine).dispatchCharacter") {
		bad := ""
		for fc := range factsAt(bf, call) {
			rel, ok := relOf(fc.Cond, fc.Val)
			if !ok || !isLenCall(rel.X) {
				continue
			}
			k, isK := constInt(rel.Y)
			if !isK {
				continue
			}
			// an upper bound on the number of bytes already read
			if rel.Op == token.EQL || rel.Op == token.LSS || rel.Op == token.LEQ {
				bad = fmt.Sprintf("len(read) %s %d", rel.Op, k)
			}
		}
		r.Check(bad == "", "C02.multibyte-dispatch", fmt.Sprintf("keymap.MatchMain:any-length#%d", i), p.IPos(call), "no upper bound on the bytes already read", "the character is assembled only when "+bad+": a lead byte that is also the prefix of a bind (0xEF of U+FFFD) has taken a second byte with it, and every character U+F000–U+FFFF is dropped")
	}
}

// ---- C04.zero-move: no escape sequence for a move by zero
func checkC04ZeroMove(c *Ctx) {
	p, r := c.P, c.R
	r.Rule("C04.zero-move", "K4", "the relative cursor moves print nothing for a count below one (ESC[0C moves one column on a VT100)", 4)
	for _, fn := range []string{"term.MoveCursorUp", "term.MoveCursorDown", "term.MoveCursorForwards", "term.MoveCursorBackwards"} {
		f := p.Func(fn)
		if f == nil || len(f.Params) == 0 {
			r.Unk("C04.zero-move", fn, "-", "anchor not found")
			continue
		}
		r.Fn(fn)
		bf := blockFacts(f)
		k := 0
		eachInstr(f, func(in ssa.Instruction) {
			ci, ok := in.(ssa.CallInstruction)
			if !ok || staticCallee(ci) == nil {
				return
			}
			if _, isB := ci.Common().Value.(*ssa.Builtin); isB {
				return
			}
			// any call that can print (printf helper / fmt): must be under i >= 1
			n := calleeName(ci)
			if !(strings.Contains(n, "rint") || strings.Contains(n, "Write")) {
				return
			}
			okG := false
			for fc := range factsAt(bf, in) {
				rel, isR := relOf(fc.Cond, fc.Val)
				if !isR || rel.X != ssa.Value(f.Params[0]) {
					continue
				}
				if kk, isK := constInt(rel.Y); isK && ((rel.Op == token.GEQ && kk >= 1) || (rel.Op == token.GTR && kk >= 0)) {
					okG = true
				}
			}
			r.Check(okG, "C04.zero-move", fmt.Sprintf("%s:print#%d", fn, k), p.IPos(in), "under count >= 1", "the escape sequence is printed for a count of zero: the terminal moves by one anyway and the cursor leaves its cell (first column of a wrapped row)")
			k++
		})
	}
}

// ---- C04.suggested-agreement: what is measured is what is printed
func checkC04SuggestedAgreement(c *Ctx) {
	p, r := c.P, c.R
	r.Rule("C04.suggested-agreement", "K5", "computeCoordinates measures the autosuggested line under the same option test as displayLine prints it", 1)
	opts := func(f *ssa.Function) map[string]bool {
		// option names tested (true) on the way to a read of Engine.suggested
		out := map[string]bool{}
		bf := blockFacts(f)
		eachInstr(f, func(in ssa.Instruction) {
			fa, ok := in.(*ssa.FieldAddr)
			if !ok {
				return
			}
			if t, fld, ok := fieldOf(fa); !ok || t != "display.Engine" || fld != "suggested" {
				return
			}
			for fc := range factsAt(bf, in) {
				if cl, isC := fc.Cond.(*ssa.Call); isC && fc.Val && strings.HasSuffix(calleeName(cl), ".GetBool") && len(cl.Call.Args) > 1 {
					if s, isS := constString(cl.Call.Args[1]); isS {
						out[s] = true
					}
				}
			}
		})
		return out
	}
	CC, DL := p.Func("(*display.Engine).computeCoordinates"), p.Func("(*display.Engine).displayLine")
	if CC == nil || DL == nil {
		r.Unk("C04.suggested-agreement", "display.Engine", "-", "anchor not found")
		return
	}
	r.Fn(fnName(CC), fnName(DL))
	// the measuring site: the CoordinatesLine call on &e.suggested
	measured := map[string]bool{}
	bf := blockFacts(CC)
	n := 0
	for _, call := range callsTo(CC, false, "core.CoordinatesLine") {
		args := call.Common().Args
		// the line measured is &e.suggested, handed over directly or through a local pointer (a phi with that edge):
		// the options that count are those known where the address is taken
		var sites []ssa.Instruction
		isSugg := func(v ssa.Value) bool {
			t, fld, ok := fieldOf(v)
			return ok && t == "display.Engine" && fld == "suggested"
		}
		if isSugg(args[0]) {
			sites = append(sites, call.(ssa.Instruction))
		} else if ph, isPhi := args[0].(*ssa.Phi); isPhi {
			for _, e := range ph.Edges {
				if fa, isFA := e.(*ssa.FieldAddr); isFA && isSugg(fa) {
					sites = append(sites, fa)
				}
			}
		}
		for _, site := range sites {
			n++
			for fc := range factsAt(bf, site) {
				if cl, isC := fc.Cond.(*ssa.Call); isC && fc.Val && strings.HasSuffix(calleeName(cl), ".GetBool") && len(cl.Call.Args) > 1 {
					if s, isS := constString(cl.Call.Args[1]); isS {
						measured[s] = true
					}
				}
			}
		}
	}
	printed := opts(DL)
	missing := []string{}
	for o := range printed {
		if o == "history-autosuggest" && !measured[o] {
			missing = append(missing, o)
		}
	}
	if n == 0 {
		r.OK("C04.suggested-agreement", fnName(CC)+":suggested", p.Pos(CC.Pos()), "the suggestion is not measured")
		return
	}
	r.Check(len(missing) == 0, "C04.suggested-agreement", fnName(CC)+":suggested", p.Pos(CC.Pos()), "measured under history-autosuggest, like it is printed", "the rows of the suggested line are counted without the "+strings.Join(missing, ",")+" test that displayLine applies before printing it: with the option off a long history entry moves the cursor above the prompt")
}

// ---- C05.escape-single: a pending multi-byte prefix is not a lone Escape
func checkC05EscapeSingle(c *Ctx) {
	p, r := c.P, c.R
	r.Rule("C05.escape-single", "K4", "isEscapeKey reports an Escape only when exactly one key was matched (a prefix such as ESC [ cut across two reads is not a lone Escape)", 1)
	f := p.Func("(*keymap.Engine).isEscapeKey")
	if f == nil {
		r.Unk("C05.escape-single", "(*keymap.Engine).isEscapeKey", "-", "anchor not found")
		return
	}
	r.Fn(fnName(f))
	bf := blockFacts(f)
	okAll, n := true, 0
	eachInstr(f, func(in ssa.Instruction) {
		ret, ok := in.(*ssa.Return)
		if !ok || len(ret.Results) != 1 {
			return
		}
		if b, isK := constBool(ret.Results[0]); isK && !b {
			return
		}
		n++
		// a possibly-true return: the number of keys must be known <= 1
		bounded := false
		for fc := range factsAt(bf, in) {
			rel, isR := relOf(fc.Cond, fc.Val)
			if !isR || !isLenCall(rel.X) {
				continue
			}
			if k, isK := constInt(rel.Y); isK && ((rel.Op == token.LEQ && k <= 1) || (rel.Op == token.LSS && k <= 2) || (rel.Op == token.EQL && k == 1)) {
				bounded = true
			}
		}
		if !bounded {
			okAll = false
		}
	})
	r.Check(okAll && n > 0, "C05.escape-single", fnName(f)+":single-key", p.Pos(f.Pos()), "true only for a single matched key", "isEscapeKey can report Escape while several keys are pending: an arrow key cut after ESC [ runs vi-movement-mode and its remaining bytes run as commands")
}

// ---- C16.matchers-paired / C17: the bracket-matcher highlight never outlives the redisplay
func checkMatchersPaired(c *Ctx, rule string) {
	p, r := c.P, c.R
	r.Rule(rule, "K1", "displayLine removes the bracket-matcher surround regions from the shared selection before it returns (deferred ResetMatchers on the same selection that HighlightMatchers marked): a matcher left in the selection makes the next cut delete the matching bracket instead of the selected text", 1)
	DL := p.Func("(*display.Engine).displayLine")
	if DL == nil {
		r.Unk(rule, "(*display.Engine).displayLine", "-", "anchor not found")
		return
	}
	r.Fn(fnName(DL))
	n := 0
	for _, h := range callsTo(DL, false, "core.HighlightMatchers") {
		n++
		arg := h.Common().Args[0]
		paired := false
		eachInstr(DL, func(in ssa.Instruction) {
			d, ok := in.(*ssa.Defer)
			if !ok || calleeName(d) != "core.ResetMatchers" {
				return
			}
			// registered on every path after the highlight, on the same pointer
			if sameValue(d.Call.Args[0], arg) && (instrDominates(h.(ssa.Instruction), in) || instrDominates(in, h.(ssa.Instruction))) && in.Block() == h.(ssa.Instruction).Block() {
				paired = true
			}
		})
		if !paired {
			// or a direct reset on every path from the highlight to a return
			ok, _ := mustPassBefore(DL, h.(ssa.Instruction), isReturn, func(in ssa.Instruction) bool {
				cl, isC := in.(*ssa.Call)
				return isC && calleeName(cl) == "core.ResetMatchers" && sameValue(cl.Call.Args[0], arg)
			})
			paired = ok
		}
		r.Check(paired, rule, siteKey(DL, "HighlightMatchers", n-1), p.IPos(h.(ssa.Instruction)), "reset on the same selection before returning", "the matcher regions marked for this redisplay are not removed from the same selection before displayLine returns: with blink-matching-paren on and the cursor on a bracket, the next kill or vi delete removes the matching bracket and stores nothing")
	}
	if n == 0 {
		r.OK(rule, fnName(DL)+":no-matchers", p.Pos(DL.Pos()), "displayLine does not mark matchers")
	}
}

var reviewedAbortIgnored = map[string]string{
	"(*readline.Shell).quotedInsert:ReadKey#0": "quoted-insert inserts the next key verbatim, Escape included: there is nothing to abort",
}

// ---- abort-respected: a key read for a command's argument is used only when the read was not aborted
func checkAbortRespected(c *Ctx, rule string) {
	p, r := c.P, c.R
	r.Rule(rule, "K4", "every command that reads an argument key with Keys.ReadKey returns (or skips the use of the key) when the read reports an abort — tested alone, not in conjunction with the key's value", 5)
	n := 0
	for _, f := range p.RepoFuncs {
		if f.Pkg == nil || f.Pkg.Pkg.Path() != modPath {
			continue
		}
		for i, call := range callsTo(f, false, "(*core.Keys).ReadKey") {
			var abort ssa.Value
			for _, ref := range referrersOf(call.(*ssa.Call)) {
				if ex, ok := ref.(*ssa.Extract); ok && ex.Index == 1 {
					abort = ex
				}
			}
			key := siteKey(f, "ReadKey", i)
			n++
			r.Fn(fnName(f))
			if why, ok := reviewedAbortIgnored[key]; ok {
				r.OK(rule, key, p.IPos(call.(ssa.Instruction)), "reviewed: "+why)
				continue
			}
			if abort == nil {
				r.Bad(rule, key, p.IPos(call.(ssa.Instruction)), "the abort result of ReadKey is ignored: Escape / end of input while waiting for the argument is taken for the argument itself")
				continue
			}
			// some If branches on exactly the abort value, and its true edge
			// leads to the function's exit without any further test
			tested := false
			eachInstr(f, func(in ssa.Instruction) {
				if iff, ok := in.(*ssa.If); ok && iff.Cond == abort {
					further := blockReaches(in.Block().Succs[0], func(x ssa.Instruction) bool {
						_, isIf := x.(*ssa.If)
						return isIf
					}, nil)
					if !further {
						tested = true
					}
				}
			})
			r.Check(tested, rule, key, p.IPos(call.(ssa.Instruction)), "abort tested on its own", "the abort result of ReadKey is only tested together with other conditions: an aborted read whose key is not zero (Escape) is used as the argument (the kill goes to a register named ESC and is lost)")
		}
	}
	_ = n
}

// ---- C20.cursor-chan-made: the hand-off channel is never nil
func checkC20CursorChan(c *Ctx, p *Prog, sfx string) {
	r := c.R
	r.Rule("C20.cursor-chan-made", "K3", "Keys.cursor is only ever assigned a freshly made channel (a nil channel blocks both the sender and the receiver forever)", 1)
	n := 0
	for _, f := range p.RepoFuncs {
		k := 0
		eachInstr(f, func(in ssa.Instruction) {
			st, ok := isFieldStore(in, keysT, "cursor")
			if !ok {
				return
			}
			n++
			_, made := st.Val.(*ssa.MakeChan)
			r.Fn(fnName(f))
			r.Check(made, "C20.cursor-chan-made", fmt.Sprintf("%s:store(cursor)#%d%s", fnName(f), k, sfx), p.IPos(in), "make(chan …)", "Keys.cursor is assigned something other than a new channel: a resize or Printf query arriving while a command waits in ReadKey blocks on it together with the reader")
			k++
		})
	}
	if n == 0 {
		r.Unk("C20.cursor-chan-made", "core.Keys.cursor"+sfx, "-", "no store to Keys.cursor found")
	}
}

// ---- C10.tail-readable: the handle used to inspect the tail can be read
func checkC10TailReadable(c *Ctx) {
	p, r := c.P, c.R
	r.Rule("C10.tail-readable", "K3", "fileHistory.Write opens the file readable (O_RDWR) when it reads its tail through the same handle to decide on the fresh-line repair", 1)
	W := p.Func("(*history.fileHistory).Write")
	if W == nil {
		r.Unk("C10.tail-readable", "(*history.fileHistory).Write", "-", "anchor not found")
		return
	}
	r.Fn(fnName(W))
	reads := callsTo(W, false, "(*os.File).ReadAt", "(*os.File).Read")
	if len(reads) == 0 {
		r.OK("C10.tail-readable", fnName(W)+":open-flags", p.Pos(W.Pos()), "the handle is not read")
		return
	}
	for i, o := range callsTo(W, false, "os.OpenFile") {
		flags, ok := constInt(o.Common().Args[1])
		// O_RDWR == 2, O_WRONLY == 1 on every supported OS
		r.Check(ok && flags&3 == 2, "C10.tail-readable", siteKey(W, "OpenFile", i), p.IPos(o.(ssa.Instruction)), "O_RDWR", "the history file is opened write-only but its tail is read through the same handle: the read fails, the torn-tail repair is skipped silently and the first record after a crash is glued to the torn one")
	}
}

// ---- C13.hex-tables / C19: the hexadecimal digit tables
func checkHexTables(c *Ctx, rule string) {
	p, r := c.P, c.R
	r.Rule(rule, "K5", "hexDigit accepts exactly 0-9 a-f A-F and hexVal maps a-f and A-F to 10-15 (each range subtracts its own first letter)", 2)
	HV, HD := p.Func("inputrc.hexVal"), p.Func("inputrc.hexDigit")
	if HV == nil || HD == nil {
		r.Unk(rule, "inputrc.hexVal/hexDigit", "-", "anchor not found")
		return
	}
	r.Fn(fnName(HV), fnName(HD))
	// hexVal: every return of (char - K + 10) sits under facts lo <= char <= hi with K == lo
	bf := blockFacts(HV)
	okV, nV := true, 0
	eachInstr(HV, func(in ssa.Instruction) {
		ret, ok := in.(*ssa.Return)
		if !ok {
			return
		}
		add, ok := ret.Results[0].(*ssa.BinOp)
		if !ok || add.Op != token.ADD {
			return
		}
		sub, ok := add.X.(*ssa.BinOp)
		if !ok || sub.Op != token.SUB {
			return
		}
		base, ok1 := constInt(sub.Y)
		ten, ok2 := constInt(add.Y)
		if !ok1 || !ok2 {
			return
		}
		nV++
		lo := int64(-1)
		for fc := range factsAt(bf, in) {
			rel, isR := relOf(fc.Cond, fc.Val)
			if !isR {
				continue
			}
			// 'a' <= char  is  X=const, Y=char
			if k, isK := constInt(rel.X); isK && rel.Y == ssa.Value(HV.Params[0]) && rel.Op == token.LEQ {
				lo = k
			}
			if k, isK := constInt(rel.Y); isK && rel.X == ssa.Value(HV.Params[0]) && rel.Op == token.GEQ {
				lo = k
			}
		}
		if ten != 10 || lo != base {
			okV = false
		}
	})
	r.Check(okV && nV == 2, rule, "inputrc.hexVal:letters", p.Pos(HV.Pos()), "a-f and A-F each subtract their own first letter and add 10", "hexVal does not map a letter range to 10–15 by subtracting that range's first letter: \\\\xHH escapes written with those digits decode to another key")
	// hexDigit: the comparison constants are exactly the six range ends
	want := map[int64]bool{'0': true, '9': true, 'a': true, 'f': true, 'A': true, 'F': true}
	got := map[int64]bool{}
	strict := false
	eachInstr(HD, func(in ssa.Instruction) {
		bo, ok := in.(*ssa.BinOp)
		if !ok {
			return
		}
		switch bo.Op {
		case token.LSS, token.GTR:
			strict = true
		case token.LEQ, token.GEQ:
		default:
			return
		}
		if k, isK := constInt(bo.X); isK {
			got[k] = true
		}
		if k, isK := constInt(bo.Y); isK {
			got[k] = true
		}
	})
	same := len(got) == len(want)
	for k := range want {
		if !got[k] {
			same = false
		}
	}
	r.Check(same && !strict, rule, "inputrc.hexDigit:ranges", p.Pos(HD.Pos()), "inclusive ranges 0-9, a-f, A-F", "hexDigit does not test the inclusive ranges 0-9, a-f, A-F: some digit (f or F) is not recognised and \\\\xHf escapes read back as other keys")
}

// ---- C13.user-options-last: the application's parser options override the built-in ones
func checkC13OptionsOrder(c *Ctx) {
	p, r := c.P, c.R
	r.Rule("C13.user-options-last", "K3", "ReloadConfig applies the application's parser options after the built-in mode/term defaults (append(defaults, opts...)), so $if mode= / term= are evaluated against the application's values", 1)
	RC := p.Func("(*keymap.Engine).ReloadConfig")
	if RC == nil || len(RC.Params) < 2 {
		r.Unk("C13.user-options-last", "(*keymap.Engine).ReloadConfig", "-", "anchor not found")
		return
	}
	r.Fn(fnName(RC))
	n := 0
	eachInstr(RC, func(in ssa.Instruction) {
		cl, ok := in.(*ssa.Call)
		if !ok {
			return
		}
		b, ok := cl.Call.Value.(*ssa.Builtin)
		if !ok || b.Name() != "append" || len(cl.Call.Args) != 2 {
			return
		}
		a0, a1 := cl.Call.Args[0], cl.Call.Args[1]
		isOpts := func(v ssa.Value) bool { return v == ssa.Value(RC.Params[1]) }
		if !isOpts(a0) && !isOpts(a1) {
			return
		}
		n++
		r.Check(isOpts(a1), "C13.user-options-last", siteKey(RC, "append(opts)", n-1), p.IPos(in), "application options appended last", "the built-in WithMode(\"emacs\") / WithTerm($TERM) options are applied after the application's: $if mode= and $if term= blocks are evaluated against emacs / $TERM whatever the application asked for")
	})
	if n == 0 {
		r.OK("C13.user-options-last", fnName(RC)+":no-merge", p.Pos(RC.Pos()), "options are not merged with defaults")
	}
	// ---- C13.parse-with-application-options: every parse of the user's file is made for the application
	r.Rule("C13.parse-with-application-options", "K3", "every parse of the user's inputrc started by ReloadConfig is given the application's options (its options argument is built from the opts parameter): a parse made for another application name, mode or terminal applies the $else branches and the blocks that are inactive for the application, and a later parse does not take them back", 1)
	m := 0
	for i, cl := range callsTo(RC, false, "inputrc.UserDefault", "inputrc.ParseBytes", "inputrc.ParseFile", "inputrc.Parse") {
		args := cl.Common().Args
		if len(args) == 0 {
			continue
		}
		m++
		optsArg := args[len(args)-1]
		fromApp := dependsOn(optsArg, func(v ssa.Value) bool { return v == ssa.Value(RC.Params[1]) })
		r.Check(fromApp, "C13.parse-with-application-options", siteKey(RC, "parse", i), p.IPos(cl.(ssa.Instruction)), "parsed with the application's options", "the user's inputrc is parsed with options that do not come from the application (a fixed application name, no mode, no terminal): the $else branch of every $if mode= / term= / <application> test that holds for the application is applied by this parse and stays in effect")
	}
	if m == 0 {
		r.Unk("C13.parse-with-application-options", fnName(RC)+":parse", p.Pos(RC.Pos()), "ReloadConfig parses nothing: anchor changed")
	}
}

// ---- C18.stop-clears-recording / C18.stop-on-accept-only
func checkC18StopRecord(c *Ctx) {
	p, r := c.P, c.R
	r.Rule("C18.stop-clears-recording", "K1", "StopRecord leaves the recording state on every path (also when nothing was recorded)", 1)
	SR := p.Func("(*macro.Engine).StopRecord")
	if SR == nil {
		r.Unk("C18.stop-clears-recording", "(*macro.Engine).StopRecord", "-", "anchor not found")
	} else {
		r.Fn(fnName(SR))
		ok, _ := mustPassBefore(SR, nil, isReturn, func(in ssa.Instruction) bool {
			st, is := isFieldStore(in, "macro.Engine", "recording")
			if !is {
				return false
			}
			b, isK := constBool(st.Val)
			return isK && !b
		})
		r.Check(ok, "C18.stop-clears-recording", fnName(SR)+":recording=false", p.Pos(SR.Pos()), "cleared on every path", "a path through StopRecord returns while still recording (an empty recording): every key typed afterwards, the next C-x ( included, becomes part of the next macro")
	}
	r.Rule("C18.stop-on-accept-only", "K4", "acceptLineWith ends a macro recording only on the paths that really accept the line (not when AcceptMultiline asks for another line)", 1)
	AL := p.Func("(*readline.Shell).acceptLineWith")
	if AL == nil {
		r.Unk("C18.stop-on-accept-only", "(*readline.Shell).acceptLineWith", "-", "anchor not found")
		return
	}
	r.Fn(fnName(AL))
	for i, sc := range callsTo(AL, false, "(*macro.Engine).StopRecord") {
		// every path from the stop to a return passes History.Accept
		ok, _ := mustPassBefore(AL, sc.(ssa.Instruction), isReturn, func(in ssa.Instruction) bool {
			return isCallTo(in, "(*history.Sources).Accept")
		})
		r.Check(ok, "C18.stop-on-accept-only", siteKey(AL, "StopRecord", i), p.IPos(sc.(ssa.Instruction)), "followed by Accept on every path", "the recording is stopped on a path that does not accept the line (AcceptMultiline wants a continuation line): the rest of the macro typed on the next lines is lost")
	}
}

// ---- C07.init-resets-main-buffer
func checkC07InitKey(c *Ctx) {
	p, r := c.P, c.R
	r.Rule("C07.init-resets-main-buffer", "K3", "history.Init drops the undo states of the in-progress buffer (key -1): the walk position is reset before it is used as the key", 1)
	IN := p.Func("history.Init")
	if IN == nil {
		r.Unk("C07.init-resets-main-buffer", "history.Init", "-", "anchor not found")
		return
	}
	r.Fn(fnName(IN))
	n := 0
	eachInstr(IN, func(in ssa.Instruction) {
		mu, ok := in.(*ssa.MapUpdate)
		if !ok {
			return
		}
		n++
		good := false
		if k, isK := constInt(mu.Key); isK && k == -1 {
			good = true
		}
		if ld, isL := mu.Key.(*ssa.UnOp); isL && isFieldLoad(ld, "history.Sources", "hpos") {
			// the reaching store in this block is hpos = -1
			var last *ssa.Store
			for _, x := range in.Block().Instrs {
				if x == ssa.Instruction(ld) {
					break
				}
				if st, is := isFieldStore(x, "history.Sources", "hpos"); is {
					last = st
				}
			}
			if last != nil {
				if k, isK := constInt(last.Val); isK && k == -1 {
					good = true
				}
			}
		}
		r.Check(good, "C07.init-resets-main-buffer", siteKey(IN, "undo-reset", n-1), p.IPos(in), "key is -1", "Init resets the undo states stored under the previous walk position instead of those of the in-progress buffer: undo on the next, empty line brings back text of the previous line")
	})
	if n == 0 {
		r.Unk("C07.init-resets-main-buffer", "history.Init:undo-reset", "-", "the reset of the main buffer's undo states was not found")
	}
	// every path on which the new call starts on the line being typed (walk position -1) drops the states of that
	// line — also after operate-and-get-next on a line that was typed, not fetched, and when a kept line is installed
	// (it is the initial content of the new line)
	isReset := func(x ssa.Instruction) bool {
		mu, ok := x.(*ssa.MapUpdate)
		if !ok {
			return false
		}
		if k, isK := constInt(mu.Key); isK && k == -1 {
			return true
		}
		if ld, isL := mu.Key.(*ssa.UnOp); isL && isFieldLoad(ld, "history.Sources", "hpos") {
			for _, y := range x.Block().Instrs {
				if y == x {
					break
				}
				if st, is := isFieldStore(y, "history.Sources", "hpos"); is {
					if k, isK := constInt(st.Val); isK && k == -1 {
						return true
					}
				}
			}
		}
		return false
	}
	assume := func(cond ssa.Value) (bool, bool) {
		if bo, ok := cond.(*ssa.BinOp); ok && (bo.Op == token.EQL || bo.Op == token.NEQ) && isFieldLoad(bo.X, "history.Sources", "hpos") {
			if k, isK := constInt(bo.Y); isK {
				eq := k == -1
				if bo.Op == token.NEQ {
					return !eq, true
				}
				return eq, true
			}
		}
		return false, false
	}
	w := reachUnder(IN, assume, func(x ssa.Instruction) bool { return isReturn(x) && x.Block() != IN.Recover }, isReset)
	pos := p.Pos(IN.Pos())
	if w != nil {
		pos = p.IPos(w)
	}
	r.Check(w == nil, "C07.init-resets-main-buffer", "history.Init:typed-line-paths", pos, "every path starting on the typed line resets its states", "a path of Init on which the call starts on the line being typed (walk position -1, no kept line) keeps the undo states of the previous call's typed line — after operate-and-get-next on a typed line, undo in the next call shows text of the previous one")
}

// ---- C07.reset-rewinds
func checkC07ResetRewinds(c *Ctx) {
	p, r := c.P, c.R
	r.Rule("C07.reset-rewinds", "K4", "Sources.Reset — deferred by every save that is not skipped, and run at init and by Revert — rewinds the undo position to the newest state unless an undo or redo is under way: its store of 0 depends on nothing but the undoing / skip flags (a skipped save does not reach it: C07.save skipped-keeps-position)", 1)
	RS := p.Func("(*history.Sources).Reset")
	if RS == nil {
		r.Unk("C07.reset-rewinds", "(*history.Sources).Reset", "-", "anchor not found")
		return
	}
	r.Fn(fnName(RS))
	bf := blockFacts(RS)
	n := 0
	eachInstr(RS, func(in ssa.Instruction) {
		st, ok := isFieldStore(in, lhT, "pos")
		if !ok {
			return
		}
		if k, isK := constInt(st.Val); !isK || k != 0 {
			return
		}
		n++
		extra := ""
		for fc := range factsAt(bf, in) {
			// allowed conditions: h.undoing, and nil tests of the line history
			if _, fld, ok := fieldRead(fc.Cond); ok && (fld == "undoing" || fld == "skip") {
				continue
			}
			// a local copy of the skip flag (Save returns before Reset on a skipped save: the flag is false whenever it matters)
			if dependsOn(fc.Cond, func(v ssa.Value) bool { _, fld, ok := fieldRead(v); return ok && (fld == "skip" || fld == "undoing") }) {
				continue
			}
			if _, _, isNil := nilCmp(fc.Cond); isNil {
				continue
			}
			if u, isU := fc.Cond.(*ssa.UnOp); isU && u.Op == token.NOT {
				if _, fld, ok := fieldRead(u.X); ok && fld == "undoing" {
					continue
				}
			}
			extra = fc.Cond.String()
		}
		r.Check(extra == "", "C07.reset-rewinds", fnName(RS)+":pos=0", p.IPos(in), "depends only on !undoing", "the undo position is rewound only under an extra condition ("+extra+"): after undo, typing text leaves the redo branch in place and redo throws the typed edit away")
	})
	if n == 0 {
		r.Bad("C07.reset-rewinds", fnName(RS)+":pos=0", p.Pos(RS.Pos()), "Reset no longer rewinds the undo position")
	}
}

// ---- C09.value-is-stored-line / C09.position-formula
func checkC09Round2(c *Ctx) {
	p, r := c.P, c.R
	checkC09MainKey(c)
	r.Rule("C09.value-is-stored-line", "K3", "the candidates history.Complete hands to the search menus carry the stored entry itself as their value (the flattened one-row text is for display only)", 1)
	CP := p.Func("history.Complete")
	if CP == nil {
		r.Unk("C09.value-is-stored-line", "history.Complete", "-", "anchor not found")
	} else {
		r.Fn(fnName(CP))
		n := 0
		eachInstr(CP, func(in ssa.Instruction) {
			st, ok := in.(*ssa.Store)
			if !ok {
				return
			}
			if t, fld, ok := fieldOf(st.Addr); !ok || t != "completion.Candidate" || fld != "Value" {
				return
			}
			n++
			through := false
			leaves := backSlice(st.Val, &SliceOpts{P: p, IsSource: func(v ssa.Value) bool {
				if cl, ok := v.(*ssa.Call); ok {
					nm := calleeName(cl)
					if strings.HasPrefix(nm, "strings.Replace") || strings.HasPrefix(nm, "fmt.Sprint") || strings.HasPrefix(nm, "strings.Trim") {
						through = true
					}
				}
				return false
			}})
			_ = leaves
			r.Check(!through, "C09.value-is-stored-line", siteKey(CP, "Candidate.Value", n-1), p.IPos(in), "value not rewritten", "the candidate's value is a rewritten copy of the history entry (newlines replaced / formatted): selecting a multi-line entry in a search menu puts text in the buffer that is not a stored entry")
		})
		if n == 0 {
			r.Unk("C09.value-is-stored-line", "history.Complete:Candidate.Value", "-", "no candidate value store found")
		}
	}
	r.Rule("C09.position-formula", "K5", "every place that turns the walk position into an entry index or an undo-state key uses the same formula Len() - hpos, with no further offset", 3)
	n := 0
	for _, f := range p.RepoFuncs {
		if f.Pkg == nil || !strings.HasSuffix(f.Pkg.Pkg.Path(), "internal/history") {
			continue
		}
		k := 0
		eachInstr(f, func(in ssa.Instruction) {
			bo, ok := in.(*ssa.BinOp)
			if !ok || bo.Op != token.SUB || !isFieldLoad(bo.Y, "history.Sources", "hpos") {
				return
			}
			n++
			r.Fn(fnName(f))
			off := ""
			for _, ref := range referrersOf(bo) {
				if b2, ok := ref.(*ssa.BinOp); ok && (b2.Op == token.ADD || b2.Op == token.SUB) {
					if kk, isK := constInt(b2.Y); isK && kk != 0 {
						off = b2.String()
					}
				}
			}
			r.Check(off == "", "C09.position-formula", fmt.Sprintf("%s:Len-hpos#%d", fnName(f), k), p.IPos(in), "Len() - hpos", "this site offsets Len() - hpos by a constant while the others do not: the entry fetched and the entry whose edited state is saved/restored are no longer the same (walking to the oldest entry shows the in-progress text)")
			k++
		})
	}
	_ = n
}

// ---- C14.unique-accept-drops-state
func checkC14UniqueAccept(c *Ctx) {
	p, r := c.P, c.R
	r.Rule("C14.unique-accept-drops-state", "K1", "after refreshLine accepted a unique candidate into the real line it drops the whole completion state with ResetForce (a plain Reset writes the stale completed-line copy back over the real line)", 1)
	RL := p.Func("(*completion.Engine).refreshLine")
	if RL == nil {
		r.Unk("C14.unique-accept-drops-state", "(*completion.Engine).refreshLine", "-", "anchor not found")
		return
	}
	r.Fn(fnName(RL))
	for i, ac := range callsTo(RL, false, "(*completion.Engine).acceptCandidate") {
		ok, _ := mustPassBefore(RL, ac.(ssa.Instruction), isReturn, func(in ssa.Instruction) bool {
			return isCallTo(in, "(*completion.Engine).ResetForce")
		})
		r.Check(ok, "C14.unique-accept-drops-state", siteKey(RL, "acceptCandidate", i), p.IPos(ac.(ssa.Instruction)), "followed by ResetForce", "a unique candidate is accepted without ResetForce: the stale copy of the completed line overwrites the real line (\"foo bo\" + Tab gives \"foo b\")")
	}
}

// ---- C19.string-end-flows / C19.escape-skips-any
func checkC19Round2(c *Ctx) {
	p, r := c.P, c.R
	r.Rule("C19.string-end-flows", "K3", "after a quoted key sequence, readNext looks for the ':' from the position findStringEnd returned (not from the opening quote)", 1)
	RN := p.Func("(*inputrc.Parser).readNext")
	if RN == nil {
		r.Unk("C19.string-end-flows", "(*inputrc.Parser).readNext", "-", "anchor not found")
	} else {
		r.Fn(fnName(RN))
		isExtract := func(v ssa.Value, callee string, idx int) bool {
			ex, ok := v.(*ssa.Extract)
			if !ok || ex.Index != idx {
				return false
			}
			cl, ok := ex.Tuple.(*ssa.Call)
			return ok && calleeName(cl) == callee
		}
		n := 0
		eachInstr(RN, func(in ssa.Instruction) {
			ph, ok := in.(*ssa.Phi)
			if !ok {
				return
			}
			hasKey := false
			for _, e := range ph.Edges {
				if isExtract(e, "inputrc.decodeKey", 1) {
					hasKey = true
				}
			}
			if !hasKey {
				return
			}
			n++
			okAll := true
			for _, e := range ph.Edges {
				if isExtract(e, "inputrc.decodeKey", 1) || isExtract(e, "inputrc.findStringEnd", 0) {
					continue
				}
				// loop-carried increments of the phi itself
				if bo, ok := e.(*ssa.BinOp); ok && bo.X == ssa.Value(ph) {
					continue
				}
				okAll = false
			}
			r.Check(okAll, "C19.string-end-flows", siteKey(RN, "pos-after-key", n-1), p.IPos(in), "position after the key comes from findStringEnd / decodeKey", "the search for ':' does not start after the closing quote of the key sequence: a quoted sequence that contains ':' (\"\\\\C-x:\", the default \":\") is split at its own colon when a dump is read back")
		})
		if n == 0 {
			r.Unk("C19.string-end-flows", fnName(RN)+":pos-after-key", "-", "the merge of the key position was not found")
		}
	}
	r.Rule("C19.escape-skips-any", "K4", "findStringEnd skips the character after every backslash (an escaped backslash is a pair), not only an escaped quote", 1)
	FS := p.Func("inputrc.findStringEnd")
	if FS == nil {
		r.Unk("C19.escape-skips-any", "inputrc.findStringEnd", "-", "anchor not found")
		return
	}
	r.Fn(fnName(FS))
	bf := blockFacts(FS)
	// the block entered when char == '\\' : its facts must not involve anything else than comparisons of the scanned char
	n := 0
	for _, b := range FS.Blocks {
		facts := bf[b]
		isEsc := false
		extra := ""
		for fc := range facts {
			bo, ok := fc.Cond.(*ssa.BinOp)
			if !ok {
				continue
			}
			if k, isK := constInt(bo.Y); isK && k == '\\' && bo.Op == token.EQL && fc.Val {
				isEsc = true
				continue
			}
		}
		if !isEsc {
			continue
		}
		for fc := range facts {
			bo, ok := fc.Cond.(*ssa.BinOp)
			if !ok {
				continue
			}
			for _, op := range []ssa.Value{bo.X, bo.Y} {
				if cl, isC := op.(*ssa.Call); isC && calleeName(cl) == "inputrc.grab" {
					extra = "grab(...) " + bo.Op.String()
				}
			}
		}
		n++
		if extra != "" {
			r.Bad("C19.escape-skips-any", fnName(FS)+":backslash", p.Pos(FS.Pos()), "the character after a backslash is skipped only under an extra test ("+extra+"): in \"…\\\\\\\\\" the second backslash swallows the closing quote and the printed line is rejected when read back")
			return
		}
	}
	if n > 0 {
		r.OK("C19.escape-skips-any", fnName(FS)+":backslash", p.Pos(FS.Pos()), "unconditional skip after a backslash")
	} else {
		r.Unk("C19.escape-skips-any", fnName(FS)+":backslash", "-", "the backslash case was not found")
	}
}

// ---- C02.set-replaces: Line.Set never writes the old backing array
func checkLineSetReplaces(c *Ctx, rule string) {
	p, r := c.P, c.R
	r.Rule(rule, "K10", "Line.Set makes the line the given slice; it does not write the characters into the old backing array (display and history keep slices of it: an in-place write shows up in their copies, and theirs in the line)", 1)
	LS := p.Func("(*core.Line).Set")
	if LS == nil {
		r.Unk(rule, "(*core.Line).Set", "-", "anchor not found")
		return
	}
	r.Fn(fnName(LS))
	bad := ""
	eachInstr(LS, func(in ssa.Instruction) {
		cl, ok := in.(*ssa.Call)
		if !ok {
			return
		}
		b, ok := cl.Call.Value.(*ssa.Builtin)
		if !ok {
			return
		}
		switch b.Name() {
		case "copy":
			bad = "copy into the line"
		case "append":
			// append(x, …) where x derives from the line itself
			through := false
			backSlice(cl.Call.Args[0], &SliceOpts{P: p, IsSource: func(v ssa.Value) bool {
				if u, ok := v.(*ssa.UnOp); ok && u.Op == token.MUL && u.X == ssa.Value(LS.Params[0]) {
					through = true
				}
				return false
			}})
			if through {
				bad = "append onto a slice of the line"
			}
		}
	})
	r.Check(bad == "", rule, fnName(LS)+":no-in-place-write", p.Pos(LS.Pos()), "assigns the slice", "Line.Set writes in place ("+bad+"): the display's printed copy (with colour escapes) and the real line overwrite each other when they share a backing array")
}

// ---- dead-comparison (generic): a field compared with a constant right after the function stored another constant into it
func checkStaleTest(c *Ctx, rule string, pkgSuffix string) {
	p, r := c.P, c.R
	r.Rule(rule, "K3", "no condition compares a field with a constant when the only value that can reach the comparison is a different constant stored earlier by the same function (a test made after the state it asks about was cleared is always false)", 1)
	n, bad := 0, 0
	for _, f := range p.RepoFuncs {
		if f.Pkg == nil || !strings.HasSuffix(f.Pkg.Pkg.Path(), pkgSuffix) || len(f.Blocks) == 0 {
			continue
		}
		k := 0
		eachInstr(f, func(in ssa.Instruction) {
			bo, ok := in.(*ssa.BinOp)
			if !ok || (bo.Op != token.EQL && bo.Op != token.NEQ) {
				return
			}
			ld, isL := bo.X.(*ssa.UnOp)
			kv, isK := bo.Y.(*ssa.Const)
			if !isL || !isK || ld.Op != token.MUL {
				return
			}
			tn, fld, okF := fieldOf(ld.X)
			if !okF {
				return
			}
			n++
			// a dominating store of a constant into the same field (same base), nothing in between
			var src *ssa.Store
			eachInstr(f, func(x ssa.Instruction) {
				st, is := isFieldStore(x, tn, fld)
				if !is || !instrDominates(x, ld) {
					return
				}
				if _, isC := st.Val.(*ssa.Const); !isC {
					return
				}
				fa1, ok1 := st.Addr.(*ssa.FieldAddr)
				fa2, ok2 := ld.X.(*ssa.FieldAddr)
				if !ok1 || !ok2 || !(fa1.X == fa2.X || sameValue(fa1.X, fa2.X)) {
					return
				}
				if src == nil || instrDominates(src, x) {
					src = st
				}
			})
			if src == nil {
				return
			}
			// nothing between the store and the load may write the field
			killed := false
			eachInstr(f, func(x ssa.Instruction) {
				if killed || x == ssa.Instruction(src) {
					return
				}
				isW := false
				if _, is := isFieldStore(x, tn, fld); is {
					isW = true
				} else if ci, isC := x.(ssa.CallInstruction); isC {
					if _, isD := x.(*ssa.Defer); !isD && p.callMayWriteField(ci, tn, fld) {
						isW = true
					}
				}
				if !isW {
					return
				}
				isSrc := func(y ssa.Instruction) bool { return y == ssa.Instruction(src) }
				if pathAvoiding(f, src, func(y ssa.Instruction) bool { return y == x }, isSrc) != nil &&
					pathAvoiding(f, x, func(y ssa.Instruction) bool { return y == ssa.Instruction(ld) }, isSrc) != nil {
					killed = true
				}
			})
			if killed {
				return
			}
			sc := src.Val.(*ssa.Const)
			if sc.Value == nil && kv.Value == nil {
				return
			}
			same := sc.Value != nil && kv.Value != nil && sc.Value.ExactString() == kv.Value.ExactString()
			if sc.Value == nil || kv.Value == nil {
				// zero value vs literal: compare through their string forms
				same = sc.String() == kv.String()
			}
			// `x = c; if x == c` is as dead as `x = c; if x == d`, but only the contradiction is reported
			if same {
				return
			}
			bad++
			r.Fn(fnName(f))
			r.Bad(rule, fmt.Sprintf("%s:%s.%s-test#%d", fnName(f), tn, fld, k), p.IPos(in), fmt.Sprintf("%s.%s is compared with %s but the function has just stored %s into it: the condition can never hold, the code under it is dead", tn, fld, kv.String(), sc.String()))
			k++
		})
	}
	if bad == 0 {
		r.OK(rule, "no-stale-test", "-", fmt.Sprintf("%d field/constant comparisons inspected", n))
	}
}

// ---- C20.cancel-drops-cache: a cancelled completion never leaves the cached completer behind
func checkC20CancelCache(c *Ctx) {
	p, r := c.P, c.R
	r.Rule("C20.cancel-drops-cache", "K1", "Engine.Cancel tests its `cached` argument (and drops the cached completer) before any return: a completer left cached is re-run by the resize goroutine and may insert text without a key press", 1)
	CN := p.Func("(*completion.Engine).Cancel")
	if CN == nil || len(CN.Params) < 3 {
		r.Unk("C20.cancel-drops-cache", "(*completion.Engine).Cancel", "-", "anchor not found")
		return
	}
	r.Fn(fnName(CN))
	cached := CN.Params[2]
	var test *ssa.If
	eachInstr(CN, func(in ssa.Instruction) {
		if iff, ok := in.(*ssa.If); ok && iff.Cond == ssa.Value(cached) {
			test = iff
		}
	})
	if test == nil {
		r.Bad("C20.cancel-drops-cache", fnName(CN)+":cached-test", p.Pos(CN.Pos()), "Cancel no longer tests its cached argument")
		return
	}
	okAll := true
	eachInstr(CN, func(in ssa.Instruction) {
		if _, ok := in.(*ssa.Return); ok && in.Block() != CN.Recover {
			if !instrDominates(test, in) {
				okAll = false
			}
		}
	})
	// and the true branch stores nil into Engine.cached
	drops := false
	for _, in := range test.Block().Succs[0].Instrs {
		if st, ok := isFieldStore(in, "completion.Engine", "cached"); ok && isNilConst(st.Val) {
			drops = true
		}
	}
	r.Check(okAll && drops, "C20.cancel-drops-cache", fnName(CN)+":cached-test", p.IPos(test), "tested before every return, drops the completer", "a path through Cancel returns before the cached completer is dropped (nothing selected yet): after the list was shown without a selection and a key was typed, a terminal resize re-runs the stale completer and inserts its unique match")
}

// ---- C11.accept-below-input
func checkC11AcceptRows(c *Ctx) {
	p, r := c.P, c.R
	r.Rule("C11.accept-below-input", "K3", "AcceptLine, having returned to the first row of the input, moves down by the number of rows of the whole input (lineRows), not by the cursor's row", 1)
	AL := p.Func("(*display.Engine).AcceptLine")
	if AL == nil {
		r.Unk("C11.accept-below-input", "(*display.Engine).AcceptLine", "-", "anchor not found")
		return
	}
	r.Fn(fnName(AL))
	n := 0
	for i, call := range callsTo(AL, false, "term.MoveCursorDown") {
		n++
		arg := call.Common().Args[0]
		_, fld, ok := fieldRead(arg)
		r.Check(ok && fld == "lineRows", "C11.accept-below-input", siteKey(AL, "MoveCursorDown", i), p.IPos(call.(ssa.Instruction)), "moves down by lineRows", "AcceptLine moves down by something else than the rows of the input: accepting a wrapped line with the cursor not on its last row leaves the terminal cursor inside the input and the following output overwrites it")
	}
	if n == 0 {
		r.Unk("C11.accept-below-input", fnName(AL)+":MoveCursorDown", "-", "no downward move found")
	}
}

// ---- C17.pending-run-unconditional (strengthening of the pending protocol)
func checkC17PendingGuard(c *Ctx) {
	p, r := c.P, c.R
	r.Rule("C17.pending-run-guard", "K4", "execute runs the pending operator whenever the command did not touch the iterations — no further condition (a cancelled operator must be popped too, or the next operator key takes the doubled-key branch)", 1)
	EX := p.Func("(*readline.Shell).execute")
	if EX == nil {
		r.Unk("C17.pending-run-guard", "(*readline.Shell).execute", "-", "anchor not found")
		return
	}
	r.Fn(fnName(EX))
	bf := blockFacts(EX)
	n := 0
	for i, call := range callsTo(EX, false, "(*keymap.Engine).RunPending") {
		n++
		extra := ""
		for fc := range factsAt(bf, call.(ssa.Instruction)) {
			ok := false
			var v ssa.Value = fc.Cond
			if u, isU := v.(*ssa.UnOp); isU && u.Op == token.NOT {
				v = u.X
			}
			if cl, isC := v.(*ssa.Call); isC && strings.HasSuffix(calleeName(cl), ".IsPending") {
				ok = true
			}
			if _, isP := v.(*ssa.Parameter); isP {
				ok = true
			}
			if _, _, isNil := nilCmp(v); isNil {
				ok = true
			}
			if !ok {
				extra = v.String()
			}
		}
		r.Check(extra == "", "C17.pending-run-guard", siteKey(EX, "RunPending", i), p.IPos(call.(ssa.Instruction)), "guarded by the iterations test only", "RunPending is skipped under an extra condition ("+extra+"): an operator cancelled with Escape stays on the pending stack, and the next `d<motion>` deletes the whole line while `y<motion>` copies the motion's range")
	}
	if n == 0 {
		r.Unk("C17.pending-run-guard", fnName(EX)+":RunPending", "-", "call not found")
	}
}

// ---- err-polarity (generic contradiction rule): a result is not used where its error is known to be non-nil
func checkErrPolarity(c *Ctx, rule string) {
	p, r := c.P, c.R
	r.Rule(rule, "K4", "no value returned together with an error is passed on (call argument, store) on a path where that error is known to be non-nil — the usual sign of an inverted `err` test", 1)
	n, bad := 0, 0
	for _, f := range p.RepoFuncs {
		if len(f.Blocks) == 0 {
			continue
		}
		var bf FactMap
		k := 0
		eachInstr(f, func(in ssa.Instruction) {
			cl, ok := in.(*ssa.Call)
			if !ok {
				return
			}
			tup, ok := cl.Type().(*types.Tuple)
			if !ok || tup.Len() != 2 || tup.At(1).Type().String() != "error" {
				return
			}
			var val, errv ssa.Value
			for _, ref := range referrersOf(cl) {
				if ex, ok := ref.(*ssa.Extract); ok {
					if ex.Index == 0 {
						val = ex
					} else {
						errv = ex
					}
				}
			}
			if val == nil || errv == nil {
				return
			}
			n++
			if bf == nil {
				bf = blockFacts(f)
			}
			for _, use := range referrersOf(val) {
				isUse := false
				switch u := use.(type) {
				case *ssa.Call:
					nm := calleeName(u)
					if strings.HasPrefix(nm, "fmt.") || strings.HasPrefix(nm, "log.") || strings.HasPrefix(nm, "errors.") {
						continue
					}
					for _, a := range u.Call.Args {
						if a == val {
							isUse = true
						}
					}
				case *ssa.Store:
					isUse = u.Val == val
				}
				if !isUse {
					continue
				}
				for fc := range factsAt(bf, use) {
					v, trueMeansNil, isNil := nilCmp(fc.Cond)
					if !isNil || v != errv {
						continue
					}
					errNonNil := fc.Val != trueMeansNil
					if errNonNil {
						bad++
						r.Fn(fnName(f))
						r.Bad(rule, fmt.Sprintf("%s:%s-result#%d", fnName(f), calleeName(cl), k), p.IPos(use), "the result of "+calleeName(cl)+" is used on a path where its error is known to be non-nil (and never where it is nil): the test on the error is inverted, the valid results are thrown away")
						k++
					}
				}
			}
		})
	}
	if bad == 0 {
		r.OK(rule, "no-inverted-error-test", "-", fmt.Sprintf("%d (value, error) calls inspected", n))
	}
}

// ---- C09.main-buffer-key
func checkC09MainKey(c *Ctx) {
	p, r := c.P, c.R
	r.Rule("C09.main-buffer-key", "K5", "every constant key used on the per-line undo-state map is -1, the key under which the in-progress buffer is saved (getLineHistory)", 1)
	n := 0
	for _, f := range p.RepoFuncs {
		if f.Pkg == nil || !strings.HasSuffix(f.Pkg.Pkg.Path(), "internal/history") {
			continue
		}
		k := 0
		eachInstr(f, func(in ssa.Instruction) {
			var m, key ssa.Value
			switch x := in.(type) {
			case *ssa.Lookup:
				m, key = x.X, x.Index
			case *ssa.MapUpdate:
				m, key = x.Map, x.Key
			default:
				return
			}
			if !strings.Contains(m.Type().String(), "lineHistory") {
				return
			}
			kv, isK := constInt(key)
			if !isK {
				return
			}
			n++
			r.Fn(fnName(f))
			r.Check(kv == -1, "C09.main-buffer-key", fmt.Sprintf("%s:state-map-key#%d", fnName(f), k), p.IPos(in), "key -1", fmt.Sprintf("the undo-state map is accessed with the constant key %d, but the in-progress buffer is saved under -1 (0 is a history entry): the search text / restored text comes from the wrong line", kv))
			k++
		})
	}
	if n == 0 {
		r.OK("C09.main-buffer-key", "no-constant-key", "-", "no constant key on the state map")
	}
}

// ---- C13.case-fold-symmetric (one-sided comparison)
func checkC13CaseFold(c *Ctx) {
	p, r := c.P, c.R
	r.Rule("C13.case-fold-symmetric", "K4", "in the inputrc parser no comparison lowers one side only: a string passed through strings.ToLower is compared with a constant or with another lowered string (or the comparison uses EqualFold)", 1)
	n, bad := 0, 0
	// lowered: directly, or somewhere on the way from the text of the line (the value slice goes back
	// through the parser's own functions: do ← next ← readNext ← readSymbols)
	folds := func(v ssa.Value) bool {
		for _, l := range backSlice(v, &SliceOpts{P: p, EnterDepth: 3, FollowParams: true, Through: func(cl *ssa.Call) []ssa.Value {
			switch calleeName(cl) {
			case "strings.TrimPrefix", "strings.TrimSuffix", "strings.TrimSpace", "strings.Trim":
				return cl.Call.Args[:1]
			}
			return nil
		}}) {
			if l.Kind == LeafOpaque && (l.Why == "call strings.ToLower" || l.Why == "call strings.ToUpper" || l.Why == "call strings.Title") {
				return true
			}
		}
		return false
	}
	isLower := func(v ssa.Value) bool {
		if cl, ok := v.(*ssa.Call); ok && (calleeName(cl) == "strings.ToLower" || calleeName(cl) == "strings.ToUpper") {
			return true
		}
		if bt, ok := v.Type().Underlying().(*types.Basic); !ok || bt.Info()&types.IsString == 0 {
			return false
		}
		if _, isK := v.(*ssa.Const); isK {
			return false
		}
		return folds(v)
	}
	for _, f := range p.RepoFuncs {
		if f.Pkg == nil || !strings.HasSuffix(f.Pkg.Pkg.Path(), "/inputrc") {
			continue
		}
		k := 0
		eachInstr(f, func(in ssa.Instruction) {
			bo, ok := in.(*ssa.BinOp)
			if !ok || (bo.Op != token.EQL && bo.Op != token.NEQ) {
				return
			}
			lx, ly := isLower(bo.X), isLower(bo.Y)
			if !lx && !ly {
				return
			}
			n++
			other := bo.Y
			if ly && !lx {
				other = bo.X
			}
			if lx && ly {
				return
			}
			if _, isK := other.(*ssa.Const); isK {
				return
			}
			bad++
			r.Fn(fnName(f))
			r.Bad("C13.case-fold-symmetric", fmt.Sprintf("%s:one-sided-fold#%d", fnName(f), k), p.IPos(in), "one side of the comparison is lowered, the other ("+other.String()+") is taken as it is: the condition fails whenever the application's own value contains an upper-case letter")
			k++
		})
	}
	if bad == 0 {
		r.OK("C13.case-fold-symmetric", "no-one-sided-fold", "-", fmt.Sprintf("%d comparisons of folded strings inspected", n))
	}
	// the file an $include names is opened under the name written
	r.Rule("C13.include-path-verbatim", "K3", "the path the parser hands to Handler.ReadFile for $include is the text of the line: no strings.ToLower / ToUpper on the way from the line to the call (a folded path names another file on a case-sensitive file system, and the included binds and settings silently do not apply)", 1)
	nInc := 0
	for _, f := range p.RepoFuncs {
		if f.Pkg == nil || !strings.HasSuffix(f.Pkg.Pkg.Path(), "/inputrc") {
			continue
		}
		k := 0
		eachInstr(f, func(in ssa.Instruction) {
			if !isInvoke(in, "inputrc.Handler", "ReadFile") {
				return
			}
			nInc++
			arg := in.(ssa.CallInstruction).Common().Args[0]
			r.Fn(fnName(f))
			r.Check(!folds(arg), "C13.include-path-verbatim", fmt.Sprintf("%s:ReadFile#%d", fnName(f), k), p.IPos(in), "path taken from the line as written", "the included path passes through a case conversion before it is opened")
			k++
		})
	}
	if nInc == 0 {
		r.Unk("C13.include-path-verbatim", "inputrc:ReadFile", "-", "no Handler.ReadFile call found in the parser: anchors changed")
	}
}
