package main

import (
	"fmt"
	"go/token"
	"go/types"
	"sort"
	"strings"

	"golang.org/x/tools/go/callgraph"
	"golang.org/x/tools/go/ssa"
)

func init() { propFuncs["C09"] = checkC09 }

// History navigation / search commands (by registered name).
var historyNavCommands = []string{
	"previous-history", "next-history", "beginning-of-history", "end-of-history",
	"up-line-or-history", "down-line-or-history", "vi-down-line-or-history",
	"up-line-or-search", "down-line-or-select",
	"history-search-forward", "history-search-backward",
	"history-substring-search-forward", "history-substring-search-backward",
	"forward-search-history", "reverse-search-history",
	"non-incremental-forward-search-history", "non-incremental-reverse-search-history",
	"incremental-forward-search-history", "incremental-reverse-search-history",
	"fetch-history", "infer-next-history",
	"beginning-of-buffer-or-history", "end-of-buffer-or-history", "beginning-of-line-hist", "end-of-line-hist",
	"history-source-next", "history-source-prev",
	"vi-search", "vi-search-again",
	"yank-last-arg", "yank-nth-arg",
}

func checkC09(c *Ctx) {
	p, r := c.P, c.R
	r.Explanation = "Decided statically. (1) Sufficient for 'never modifies them': no history navigation/search command can reach, in the call graph, an append to a history source (Source.Write in any implementation), a store to the sources' backing slices, or a file opened for writing; the backing slices are written only by the two Write methods and the file loader. (2) Every in-repo implementation of Source.GetLine tests its index against both ends before indexing, and every GetLine call site uses the returned line only where the error is known to be nil — so the commands do not fail at either end. (3) The text that Walk/Fetch/InsertMatch/InferNext/restoreLineBuffer put in the buffer derives only from a GetLine result, a saved state of the in-progress line, or the held accepted line. (4) Walk saves the in-progress buffer (with skip cleared) before leaving it and restores it when the walk comes back to it. NOT decided: the order in which entries are shown for every walk sequence, and the documented matching semantics of the search (value-level string matching)."
	r.Trusted = []string{"go/packages type checker", "go/ssa construction", "VTA call graph over CHA", "rule tables in rlcheck/c09.go"}
	r.Assumptions = []string{"application-supplied Source implementations are read-only in GetLine/Len"}

	reg := p.Registry()
	// ---- history writers inventory
	hp := p.Pkg("internal/history")
	type hw struct {
		f    *ssa.Function
		in   ssa.Instruction
		what string
	}
	var writers []hw
	for _, f := range p.RepoFuncs {
		eachInstr(f, func(in ssa.Instruction) {
			if isSourceWriteInvoke(in) {
				writers = append(writers, hw{f, in, "Source.Write"})
			}
			if st, ok := in.(*ssa.Store); ok {
				if tn, fld, ok := fieldOf(st.Addr); ok && ((tn == "history.memory" && fld == "items") || (tn == "history.fileHistory" && fld == "lines")) {
					writers = append(writers, hw{f, in, "store " + tn + "." + fld})
				}
				// element stores into the backing slices
				if ia, ok := st.Addr.(*ssa.IndexAddr); ok && (isFieldLoad(ia.X, "history.memory", "items") || isFieldLoad(ia.X, "history.fileHistory", "lines")) {
					writers = append(writers, hw{f, in, "element store into backing slice"})
				}
			}
			if cl, ok := in.(*ssa.Call); ok && f.Package() != nil && hp != nil && f.Package().Pkg == hp.Types {
				switch calleeName(cl) {
				case "os.OpenFile", "os.Create", "os.WriteFile", "os.Remove", "os.Truncate", "os.Rename":
					writers = append(writers, hw{f, in, calleeName(cl)})
				}
			}
		})
	}
	wset := map[*ssa.Function]bool{}
	for _, w := range writers {
		wset[w.f] = true
	}
	r.Rule("C09.only-writers", "K2", "the sources' backing stores are written only by the Write methods, the single write path and the file loader", 4)
	allowedW := map[string]bool{"(*history.memory).Write": true, "(*history.fileHistory).Write": true, "(*history.Sources).Write": true, "history.NewSourceFromFile": true, "(*history.Sources).AddFromFile": true}
	for _, w := range writers {
		key := fnName(w.f) + ":" + w.what
		okW := allowedW[fnName(w.f)]
		if !okW {
			okW, _ = p.onlyReachedThrough(w.f, allowedW)
		}
		r.Check(okW, "C09.only-writers", key, p.IPos(w.in), "reviewed writer", "history entries are written outside the reviewed writers: "+w.what)
	}

	// ---- read-only (K10)
	r.Rule("C09.read-only", "K10", "no history navigation/search command can reach a history writer", 24)
	for _, e := range reg.Errs {
		r.Unk("C09.read-only", "registry", "-", e)
	}
	for _, cmd := range historyNavCommands {
		f := reg.Cmds[cmd]
		if f == nil {
			r.Unk("C09.read-only", "command:"+cmd, "-", "command is not registered — table needs review")
			continue
		}
		r.Fn(fnName(f))
		parent := p.reachFrom([]*ssa.Function{f}, func(e *callgraph.Edge) bool { return true })
		r.CallSites += len(parent)
		var hits []string
		for g := range parent {
			if wset[g] {
				hits = append(hits, cgPath(parent, g))
			}
		}
		sort.Strings(hits)
		if len(hits) == 0 {
			r.OK("C09.read-only", "command:"+cmd, p.Pos(f.Pos()), fmt.Sprintf("no history writer among %d reachable functions", len(parent)))
		} else {
			r.Bad("C09.read-only", "command:"+cmd, p.Pos(f.Pos()), "navigation command can reach a history writer: "+hits[0])
		}
	}

	// ---- total GetLine (K4/K5 sibling agreement)
	r.Rule("C09.total-getline", "K4", "every in-repo Source.GetLine implementation tests its index against both ends before indexing its backing slice", 2)
	srcT := p.LookupType("internal/history", "Source")
	nImpl := 0
	if iface, ok := srcT.Underlying().(*types.Interface); ok {
		for _, f := range p.RepoFuncs {
			if f.Name() != "GetLine" || f.Signature.Recv() == nil || !types.Implements(f.Signature.Recv().Type(), iface) {
				continue
			}
			nImpl++
			r.Fn(fnName(f))
			bf := blockFacts(f)
			idx := f.Params[1]
			n := 0
			eachInstr(f, func(in ssa.Instruction) {
				ia, ok := in.(*ssa.IndexAddr)
				if !ok || ia.Index != ssa.Value(idx) {
					return
				}
				n++
				lower, upper := false, false
				for fc := range factsAt(bf, in) {
					rel, ok := relOf(fc.Cond, fc.Val)
					if !ok {
						continue
					}
					if rel.X == ssa.Value(idx) {
						if k, ok := constInt(rel.Y); ok && ((rel.Op == token.GEQ && k == 0) || (rel.Op == token.GTR && k == -1)) {
							lower = true
						}
						if isLenCall(rel.Y) && (rel.Op == token.LSS) {
							upper = true
						}
					}
					if rel.Y == ssa.Value(idx) && isLenCall(rel.X) && rel.Op == token.GTR {
						upper = true
					}
				}
				key := fmt.Sprintf("%s:index#%d", fnName(f), n-1)
				r.Check(lower && upper, "C09.total-getline", key, p.IPos(in), "0 <= i < len guarded", fmt.Sprintf("GetLine indexes its backing slice without testing the index against both ends (lower tested: %v, upper tested: %v): navigation past an end of the history panics", lower, upper))
			})
			if n == 0 {
				r.OK("C09.total-getline", fnName(f)+":no-direct-index", p.Pos(f.Pos()), "no direct index by the parameter")
			}
		}
	}
	if nImpl < 2 {
		r.Unk("C09.total-getline", "implementations", "-", fmt.Sprintf("found %d GetLine implementations, expected ≥ 2", nImpl))
	}

	// ---- call sites use the line only under err == nil (K4)
	r.Rule("C09.getline-err-checked", "K4", "every Source.GetLine call site uses the returned line only where the returned error is known to be nil (or hands both back to its caller)", 6)
	for _, f := range p.RepoFuncs {
		var bf FactMap
		n := 0
		eachInstr(f, func(in ssa.Instruction) {
			if !isInvoke(in, "history.Source", "GetLine") {
				return
			}
			call, ok := in.(*ssa.Call)
			if !ok {
				return
			}
			key := fmt.Sprintf("%s:GetLine#%d", fnName(f), n)
			n++
			r.CallSites++
			var line, errv ssa.Value
			for _, ref := range referrersOf(call) {
				if ex, ok := ref.(*ssa.Extract); ok {
					if ex.Index == 0 {
						line = ex
					} else {
						errv = ex
					}
				}
			}
			if line == nil {
				r.OK("C09.getline-err-checked", key, p.IPos(in), "line result unused")
				return
			}
			if errv == nil {
				r.Bad("C09.getline-err-checked", key, p.IPos(in), "GetLine's error is discarded but its line is used")
				return
			}
			if bf == nil {
				bf = blockFacts(f)
			}
			var badUse ssa.Instruction
			var visit func(v ssa.Value, depth int)
			seen := map[ssa.Value]bool{}
			visit = func(v ssa.Value, depth int) {
				if seen[v] || depth > 4 {
					return
				}
				seen[v] = true
				for _, ref := range referrersOf(v) {
					switch u := ref.(type) {
					case *ssa.DebugRef:
						continue
					case *ssa.Phi:
						// the obligation moves to the incoming edge(s) carrying v
						edgeOK := true
						for i, e := range u.Edges {
							if e != v {
								continue
							}
							pred := u.Block().Preds[i]
							facts := map[Fact]bool{}
							for f := range bf[pred] {
								facts[f] = true
							}
							if iff, ok := pred.Instrs[len(pred.Instrs)-1].(*ssa.If); ok && len(pred.Succs) == 2 {
								if pred.Succs[0] == u.Block() {
									for _, f := range expandCond(iff.Cond, true) {
										facts[f] = true
									}
								} else if pred.Succs[1] == u.Block() {
									for _, f := range expandCond(iff.Cond, false) {
										facts[f] = true
									}
								}
							}
							if !knownNil(facts, errv) {
								edgeOK = false
							}
						}
						if !edgeOK {
							visit(u, depth+1)
						}
						continue
					case *ssa.Store:
						// spill into a local: follow loads of it
						if a, ok := u.Addr.(*ssa.Alloc); ok {
							for _, r2 := range referrersOf(a) {
								if ld, ok := r2.(*ssa.UnOp); ok {
									visit(ld, depth+1)
								}
							}
							continue
						}
					case *ssa.Return:
						// returning (line, …, err-dependent) pairs is the caller's business
						continue
					}
					if !knownNil(bf[ref.Block()], errv) {
						// a use that itself is combined with `err == nil &&` (short-circuit) appears in a block dominated by the nil edge — covered by facts.
						badUse = ref
					}
				}
			}
			visit(line, 0)
			if badUse != nil {
				r.Bad("C09.getline-err-checked", key, p.IPos(badUse), "the line returned by GetLine is used where its error is not known to be nil: `"+badUse.String()+"`")
			} else {
				r.OK("C09.getline-err-checked", key, p.IPos(in), "line used only under err == nil")
			}
		})
	}

	// ---- shown is stored (K3)
	r.Rule("C09.shown-is-stored", "K3", "the text history commands put in the buffer derives only from a GetLine result, a saved state of the line, or the held accepted line", 5)
	okSrc := func(v ssa.Value) bool {
		if ex, ok := v.(*ssa.Extract); ok && ex.Index == 0 {
			if cl, ok := ex.Tuple.(*ssa.Call); ok && isInvoke(cl, "history.Source", "GetLine") {
				return true
			}
		}
		// element of lineHistory.items
		if u, ok := v.(*ssa.UnOp); ok && u.Op == token.MUL {
			if ia, ok := u.X.(*ssa.IndexAddr); ok && isFieldLoad(ia.X, lhT, "items") {
				return true
			}
			if fa, ok := u.X.(*ssa.FieldAddr); ok {
				if ia, ok := fa.X.(*ssa.IndexAddr); ok && isFieldLoad(ia.X, lhT, "items") {
					return true
				}
			}
		}
		return isFieldLoad(v, "history.Sources", "acceptLine")
	}
	undoFns := map[string]bool{"(*history.Sources).Undo": true, "(*history.Sources).Redo": true, "(*history.Sources).Revert": true}
	for _, f := range p.RepoFuncs {
		if f.Package() == nil || hp == nil || f.Package().Pkg != hp.Types || undoFns[fnName(f)] {
			continue
		}
		for i, call := range callsTo(f, true, "(*core.Line).Set") {
			// only sets on the shared buffer h.line
			args := call.Common().Args
			if !isFieldLoad(args[0], "history.Sources", "line") {
				continue
			}
			key := siteKey(f, "h.line.Set", i)
			r.CallSites++
			r.Fn(fnName(f))
			leaves := backSlice(args[1], &SliceOpts{P: p, IsSource: okSrc, FollowParams: true, EnterDepth: 2})
			ok, why := leavesAll(p, leaves, true)
			r.Check(ok, "C09.shown-is-stored", key, p.IPos(call), "derives from GetLine / saved state", "the buffer is set to text that is neither a stored entry nor a saved state of the line: "+why)
		}
	}

	// ---- substring search matches the search text literally (K3)
	r.Rule("C09.literal-search", "K3", "history search compiles the user's search text only after regexp.QuoteMeta (substring search means substring, not pattern)", 1)
	if M := p.Func("(*history.Sources).match"); M != nil {
		r.Fn(fnName(M))
		n := 0
		eachInstr(M, func(in ssa.Instruction) {
			cl, ok := in.(*ssa.Call)
			if !ok || (calleeName(cl) != "regexp.Compile" && calleeName(cl) != "regexp.MustCompile") {
				return
			}
			n++
			leaves := backSlice(cl.Call.Args[0], &SliceOpts{P: p, IsSource: func(v ssa.Value) bool { return isCallNamed(v, "regexp.QuoteMeta") }})
			ok2, why := leavesAll(p, leaves, true)
			r.Check(ok2, "C09.literal-search", fmt.Sprintf("%s:regexp.Compile#%d", fnName(M), n-1), p.IPos(in), "pattern = QuoteMeta(search text)", "the search text is compiled as a regular expression without regexp.QuoteMeta: `a.c` brings up `abc`, `$(` never matches ("+why+")")
		})
		if n == 0 {
			r.OK("C09.literal-search", fnName(M)+":no-regexp", p.Pos(M.Pos()), "no regexp compiled from the search text")
		}
	} else {
		r.Unk("C09.literal-search", "(*history.Sources).match", "-", "anchor not found")
	}

	// ---- units (K7): the search text is cut out of the line in the line's unit
	unitRule(c, "C09.units", []string{"(*history.Sources).match", "(*history.Sources).InsertMatch", "(*history.Sources).InferNext", "(*history.Sources).Suggest", "(*history.Sources).setLineCursorMatch", "(*history.Sources).Walk", "(*history.Sources).Fetch"}, 2)

	// ---- Walk saves and restores the in-progress buffer (K1+K4)
	r.Rule("C09.restore", "K1", "Walk saves the in-progress buffer (skip cleared) before leaving it, and restores it when the walk returns to it", 3)
	if WK := p.Func("(*history.Sources).Walk"); WK != nil {
		r.Fn(fnName(WK))
		bf := blockFacts(WK)
		// the store hpos = 0 under hpos == -1
		var leave *ssa.Store
		eachInstr(WK, func(in ssa.Instruction) {
			if st, ok := isFieldStore(in, "history.Sources", "hpos"); ok {
				if k, ok := constInt(st.Val); ok && k == 0 {
					for fc := range factsAt(bf, in) {
						if rel, ok := relOf(fc.Cond, fc.Val); ok && rel.Op == token.EQL && isFieldLoad(rel.X, "history.Sources", "hpos") {
							if z, ok := constInt(rel.Y); ok && z == -1 {
								leave = st
							}
						}
					}
				}
			}
		})
		if leave == nil {
			r.Unk("C09.restore", fnName(WK)+":leave-buffer", p.Pos(WK.Pos()), "the `hpos == -1 → hpos = 0` transition was not found")
		} else {
			// in the same guarded region: skip=false store then Save call before leave
			saveBefore, skipBefore := false, false
			for _, in := range leave.Block().Instrs {
				if in == ssa.Instruction(leave) {
					break
				}
				if isCallTo(in, "(*history.Sources).Save") {
					saveBefore = true
				}
				if st, ok := isFieldStore(in, "history.Sources", "skip"); ok && !saveBefore {
					if b, ok := constBool(st.Val); ok && !b {
						skipBefore = true
					}
				}
			}
			if !saveBefore {
				// dominance-based fallback
				for _, sv := range callsTo(WK, false, "(*history.Sources).Save") {
					if instrDominates(sv, leave) {
						saveBefore = true
						eachInstr(WK, func(in ssa.Instruction) {
							if st, ok := isFieldStore(in, "history.Sources", "skip"); ok {
								if b, ok := constBool(st.Val); ok && !b && instrDominates(in, sv) {
									skipBefore = true
								}
							}
						})
					}
				}
			}
			r.Check(saveBefore, "C09.restore", fnName(WK)+":save-before-leaving", p.IPos(leave), "Save precedes leaving the in-progress buffer", "Walk leaves the in-progress buffer without saving it: moving back down cannot restore what the user was typing")
			r.Check(skipBefore, "C09.restore", fnName(WK)+":skip-cleared-before-save", p.IPos(leave), "skip = false before that Save", "the Save before leaving the buffer can be skipped (skip not cleared): the in-progress text is lost")
		}
		// restore: call restoreLineBuffer under hpos == 0
		okRestore := false
		for _, call := range callsTo(WK, false, "(*history.Sources).restoreLineBuffer") {
			for fc := range factsAt(bf, call) {
				if rel, ok := relOf(fc.Cond, fc.Val); ok && rel.Op == token.EQL && isFieldLoad(rel.X, "history.Sources", "hpos") {
					if z, ok := constInt(rel.Y); ok && z == 0 {
						okRestore = true
					}
				}
			}
		}
		r.Check(okRestore, "C09.restore", fnName(WK)+":restore-at-0", p.Pos(WK.Pos()), "restoreLineBuffer under hpos == 0", "Walk no longer restores the in-progress buffer when the walk returns to it")
	} else {
		r.Unk("C09.restore", "(*history.Sources).Walk", "-", "anchor not found")
	}
	checkC09Round2(c)
	checkC09Round4(c)
	checkStaleTriple(c, "C09.stale-cursor")
	checkIsearchLiteralFallback(c, "C09.invalid-regex-searched")
	checkEndOfHistory(c, "C09.end-of-history-past-newest")
	checkC09LineStateKey(c)
	checkC09SearchDown(c)
	checkC09NoSaveAfterGrowth(c)
	checkC09IsearchRestores(c)
	checkC09SavedPosition(c)
}

// ---- C09.line-state-key: the saved states of a history line are kept under a key that survives the growth of the history
func checkC09LineStateKey(c *Ctx) {
	p, r := c.P, c.R
	r.Rule("C09.line-state-key", "K3", "getLineHistory keeps the saved states of a history line under a key computed from the length of the source (its absolute index), or -1 for the line being typed: the walk position alone counts from the newest entry, so once a line is accepted the states kept under it belong to another entry, and Walk shows them instead of the stored text", 1)
	LH := p.Func("(*history.Sources).getLineHistory")
	if LH == nil {
		r.Unk("C09.line-state-key", "(*history.Sources).getLineHistory", "-", "anchor not found")
		return
	}
	r.Fn(fnName(LH))
	n := 0
	judge := func(in ssa.Instruction, key ssa.Value) {
		n++
		bad := ""
		for _, v := range mayValues(key) {
			if k, ok := constInt(v); ok {
				if k != -1 {
					bad = fmt.Sprintf("constant key %d", k)
				}
				continue
			}
			dep := dependsOn(v, func(x ssa.Value) bool {
				cl, ok := x.(*ssa.Call)
				return ok && isInvoke(cl, "history.Source", "Len")
			})
			if !dep {
				bad = "a key that does not depend on the length of the source (" + p.descValue(v) + ")"
			}
		}
		r.Check(bad == "", "C09.line-state-key", siteKey(LH, "state-map-key", n-1), p.IPos(in), "-1 or an index computed from Source.Len()", "the states of a history line are kept under "+bad+": after the history grows the key designates another entry, and going up shows a line edited earlier in place of the stored entry")
	}
	eachInstr(LH, func(in ssa.Instruction) {
		switch x := in.(type) {
		case *ssa.Lookup:
			if strings.HasSuffix(typeStr(x.X.Type()), "history.lineHistory") && strings.HasPrefix(typeStr(x.X.Type()), "map[int]") {
				judge(in, x.Index)
			}
		case *ssa.MapUpdate:
			if strings.HasSuffix(typeStr(x.Map.Type()), "history.lineHistory") && strings.HasPrefix(typeStr(x.Map.Type()), "map[int]") {
				judge(in, x.Key)
			}
		}
	})
	if n == 0 {
		r.Unk("C09.line-state-key", fnName(LH)+":state-map", p.Pos(LH.Pos()), "no access to the map of saved line states found: anchor changed")
	}
}

func isLenCall(v ssa.Value) bool {
	cl, ok := v.(*ssa.Call)
	if !ok {
		return false
	}
	b, ok := cl.Call.Value.(*ssa.Builtin)
	return ok && b.Name() == "len"
}
