package main

// Rules written after the random key-sequence triage of the repaired tree
// (round 5): each is the structural form of a defect that triage showed on the
// real code and that a `fix:` commit repaired.

import (
	"fmt"
	"go/token"
	"go/types"
	"sort"
	"strings"

	"golang.org/x/tools/go/ssa"
)

// nilFuncOrigin: why a function value may be nil. "" = no such origin known.
//
//	map      the value of a map lookup (the zero value on a miss) whose ok result is not tested
//	nil      the constant nil on some path (phi edge / spilled store)
//	callee   the result of a module function one of whose returns has one of the origins above
func nilFuncOrigin(p *Prog, v ssa.Value, depth int, seen map[ssa.Value]bool) string {
	v = stripConv(v)
	if seen[v] {
		return ""
	}
	seen[v] = true
	switch x := v.(type) {
	case *ssa.Const:
		if x.IsNil() {
			return "the constant nil"
		}
	case *ssa.Lookup:
		if _, isMap := x.X.Type().Underlying().(*types.Map); isMap && !x.CommaOk {
			return "a map lookup (nil when the key is absent)"
		}
	case *ssa.Extract:
		if lk, ok := x.Tuple.(*ssa.Lookup); ok && x.Index == 0 {
			if _, isMap := lk.X.Type().Underlying().(*types.Map); isMap {
				return "a map lookup (nil when the key is absent)"
			}
		}
		if cl, ok := x.Tuple.(*ssa.Call); ok && depth > 0 {
			if callee := staticCallee(cl); callee != nil && inRepo(callee) {
				return nilFuncResult(p, callee, x.Index, depth-1, seen)
			}
		}
	case *ssa.Phi:
		for _, e := range x.Edges {
			if o := nilFuncOrigin(p, e, depth, seen); o != "" {
				return o
			}
		}
	case *ssa.UnOp:
		if x.Op == token.MUL {
			if a, ok := x.X.(*ssa.Alloc); ok {
				if vals, _, simple := reachingStores(x, a); simple {
					for _, sv := range vals {
						if o := nilFuncOrigin(p, sv, depth, seen); o != "" {
							return o
						}
					}
				}
			}
		}
	case *ssa.Call:
		if depth > 0 {
			if callee := staticCallee(x); callee != nil && inRepo(callee) {
				return nilFuncResult(p, callee, 0, depth-1, seen)
			}
		}
	case *ssa.Parameter:
		// the argument of every static caller in the module
		if depth == 0 || x.Parent() == nil {
			return ""
		}
		idx := -1
		for i, pr := range x.Parent().Params {
			if pr == x {
				idx = i
			}
		}
		for _, e := range p.callersOf(x.Parent()) {
			if e.Site == nil || e.Site.Common().StaticCallee() != x.Parent() || idx < 0 || idx >= len(e.Site.Common().Args) {
				continue
			}
			if o := nilFuncOrigin(p, e.Site.Common().Args[idx], depth-1, seen); o != "" {
				return fmt.Sprintf("the argument of %s, which may be %s", fnName(e.Caller.Func), o)
			}
		}
	}
	return ""
}

func nilFuncResult(p *Prog, callee *ssa.Function, idx, depth int, seen map[ssa.Value]bool) string {
	for _, b := range callee.Blocks {
		for _, in := range b.Instrs {
			ret, ok := in.(*ssa.Return)
			if !ok || idx >= len(ret.Results) {
				continue
			}
			if o := nilFuncOrigin(p, ret.Results[idx], depth, seen); o != "" {
				return fmt.Sprintf("the result of %s, which may be %s", fnName(callee), o)
			}
		}
	}
	return ""
}

// checkNilFuncCall: C01.nil-func-call. Every call of a function value that may
// be nil by construction (map lookup, nil on a path, a resolver returning one of
// those) is dominated by a test of that value against nil.
func checkNilFuncCall(c *Ctx) {
	p, r := c.P, c.R
	const rule = "C01.nil-func-call"
	r.Rule(rule, "K4", "a function value that may be nil by construction — looked up in a map of commands (absent name), nil on one path, or returned by a module function that returns one of those — is called only where a test against nil dominates the call: a key can be bound, by default or by any inputrc, to a name no command carries, and the lookup then yields nil", 3)
	for _, f := range p.RepoFuncs {
		if len(f.Blocks) == 0 {
			continue
		}
		var bf FactMap
		eachInstr(f, func(in ssa.Instruction) {
			cc, ok := in.(ssa.CallInstruction)
			if !ok {
				return
			}
			com := cc.Common()
			if com.IsInvoke() || com.StaticCallee() != nil {
				return
			}
			if _, isBuiltin := com.Value.(*ssa.Builtin); isBuiltin {
				return
			}
			if _, isSig := com.Value.Type().Underlying().(*types.Signature); !isSig {
				return
			}
			origin := nilFuncOrigin(p, com.Value, 4, map[ssa.Value]bool{})
			if origin == "" {
				return
			}
			r.Fn(fnName(f))
			if bf == nil {
				bf = blockFacts(f)
			}
			key := fmt.Sprintf("%s:call#%d", fnName(f), callOrdinal(f, in))
			if _, isDefer := in.(*ssa.Defer); isDefer {
				key += ":defer"
			}
			if knownNonNilAny(factsAt(bf, in), com.Value) || lookupOkTested(factsAt(bf, in), com.Value) {
				r.OK(rule, key, p.IPos(in), "the called value is "+origin+"; a test against nil dominates the call")
				return
			}
			r.Bad(rule, key, p.IPos(in), "the called value is "+origin+" and no test against nil dominates the call: a bind naming a function that does not exist panics here")
		})
	}
}

// knownNonNilAny: v, or any value it is certainly equal to (a spilled local's
// single reaching store, the operand of a conversion), is known non-nil.
func knownNonNilAny(facts map[Fact]bool, v ssa.Value) bool {
	if knownNonNil(facts, v) {
		return true
	}
	v = stripConv(v)
	if knownNonNil(facts, v) {
		return true
	}
	for fc := range facts {
		x, trueMeansNil, ok := nilCmp(fc.Cond)
		if !ok || fc.Val == trueMeansNil {
			continue
		}
		if sameValue(x, v) || sameMemValue(x, v) {
			return true
		}
		// the test and the call load the same local
		if ux, ok := stripConv(x).(*ssa.UnOp); ok && ux.Op == token.MUL {
			if uv, ok := v.(*ssa.UnOp); ok && uv.Op == token.MUL && ux.X == uv.X {
				if _, isAlloc := ux.X.(*ssa.Alloc); isAlloc && sameMemValue(ux, uv) {
					return true
				}
			}
		}
	}
	return false
}

// lookupOkTested: v is the value of a `v, ok := m[k]` lookup and ok is known true.
func lookupOkTested(facts map[Fact]bool, v ssa.Value) bool {
	ex, ok := stripConv(v).(*ssa.Extract)
	if !ok || ex.Index != 0 {
		return false
	}
	lk, ok := ex.Tuple.(*ssa.Lookup)
	if !ok || !lk.CommaOk {
		return false
	}
	for fc := range facts {
		if e2, ok := fc.Cond.(*ssa.Extract); ok && e2.Tuple == lk && e2.Index == 1 && fc.Val {
			return true
		}
	}
	return false
}

func callOrdinal(f *ssa.Function, target ssa.Instruction) int {
	n := 0
	var calls []ssa.Instruction
	for _, b := range f.Blocks {
		for _, in := range b.Instrs {
			if _, ok := in.(ssa.CallInstruction); ok {
				calls = append(calls, in)
			}
		}
	}
	sort.SliceStable(calls, func(i, j int) bool { return calls[i].Pos() < calls[j].Pos() })
	for _, in := range calls {
		if in == target {
			return n
		}
		n++
	}
	return -1
}

// checkMacroBudget: C01.macro-budget. Keys fed to the stack are used before the
// terminal is read again, so the main loop's blocking wait is skipped for as
// long as something keeps feeding: the feeds must be bounded.
//
//	(a) the fed-key queue (Keys.macroKeys) grows only in (*Keys).Feed: every
//	    other store to it stores a reslice of itself or nil;
//	(b) in Feed, every growing store is dominated by the `feeds <= constant`
//	    outcome of a test of the feed counter, and every path from the entry
//	    to it increments the counter;
//	(c) the counter is reset only where the queue is known empty.
func checkMacroBudget(c *Ctx) {
	p, r := c.P, c.R
	const rule = "C01.macro-budget"
	r.Rule(rule, "K1", "the keys fed to the key stack (macros, re-fed keys) are used before the terminal is read again, so a macro that runs itself skips the main loop's blocking wait forever unless feeding is bounded: the fed-key queue grows only in (*core.Keys).Feed; there, every growing store is dominated by the passing outcome of a `feeds > constant (+ keys typed)` test and preceded on every path by the increment of the counter; the counter is reset only where the queue is known to be empty (no macro is running anymore); the allowance for typed keys grows only by the length of a terminal read", 3)
	const tn, queue, counter, typedFld = "core.Keys", "macroKeys", "feeds", "typed"
	FEED := p.Func("(*core.Keys).Feed")
	if FEED == nil {
		r.Unk(rule, "(*core.Keys).Feed", "-", "anchor not found")
		return
	}
	r.Fn(fnName(FEED))
	isLoadOf := func(v ssa.Value, fld string) bool {
		return isFieldLoad(stripConv(v), tn, fld)
	}
	// shrinking: nil, or a slice expression over the loaded queue
	shrinks := func(v ssa.Value) bool {
		if isNilConst(v) {
			return true
		}
		if sl, ok := v.(*ssa.Slice); ok && isLoadOf(sl.X, queue) {
			return true
		}
		return false
	}
	// (a) growth only in Feed
	grow := 0
	var growing []*ssa.Store
	for _, f := range p.RepoFuncs {
		eachInstr(f, func(in ssa.Instruction) {
			st, ok := isFieldStore(in, tn, queue)
			if !ok || shrinks(st.Val) {
				return
			}
			if f == FEED {
				growing = append(growing, st)
				return
			}
			// a fresh struct's initialisation is not growth of the shared queue
			if fa, ok := st.Addr.(*ssa.FieldAddr); ok {
				if _, fresh := fa.X.(*ssa.Alloc); fresh {
					return
				}
			}
			grow++
			r.Bad(rule, fnName(f)+":grows-queue", p.IPos(in), "stores a value that is not a reslice of the queue to Keys.macroKeys outside (*Keys).Feed: keys are fed without being counted against the budget")
		})
	}
	if grow == 0 {
		r.OK(rule, "queue-grows-only-in-Feed", p.Pos(FEED.Pos()), fmt.Sprintf("every store to Keys.macroKeys outside Feed is a reslice or nil; Feed has %d growing store(s)", len(growing)))
	}
	if len(growing) == 0 {
		r.Unk(rule, "(*core.Keys).Feed:growing-stores", p.Pos(FEED.Pos()), "Feed stores nothing to the queue: anchor changed")
		return
	}
	// (b) budget test + increment before every growing store
	bf := blockFacts(FEED)
	isInc := func(in ssa.Instruction) bool {
		st, ok := isFieldStore(in, tn, counter)
		if !ok {
			return false
		}
		bo, ok := st.Val.(*ssa.BinOp)
		if !ok || bo.Op != token.ADD || !isLoadOf(bo.X, counter) {
			return false
		}
		k, isK := constInt(bo.Y)
		return isK && k >= 1
	}
	for i, st := range growing {
		key := fmt.Sprintf("(*core.Keys).Feed:store#%d", i)
		guarded := false
		for fc := range factsAt(bf, st) {
			rel, ok := relOf(fc.Cond, fc.Val)
			if !ok || !isLoadOf(rel.X, counter) {
				continue
			}
			if _, isK := constInt(rel.Y); isK && (rel.Op == token.LSS || rel.Op == token.LEQ) {
				guarded = true
			}
			// constant + keys typed: one run per key read from the terminal on top of the budget
			if bo, ok := rel.Y.(*ssa.BinOp); ok && bo.Op == token.ADD && (rel.Op == token.LSS || rel.Op == token.LEQ) {
				_, kx := constInt(bo.X)
				_, ky := constInt(bo.Y)
				if (kx && isLoadOf(bo.Y, typedFld)) || (ky && isLoadOf(bo.X, typedFld)) {
					guarded = true
				}
			}
		}
		if !guarded {
			r.Bad(rule, key, p.IPos(st), "the queue grows without a dominating `feeds <= constant` outcome: a macro that runs itself feeds keys forever and Readline never reads the terminal again")
			continue
		}
		if w := pathAvoiding(FEED, nil, func(in ssa.Instruction) bool { return in == ssa.Instruction(st) }, isInc); w != nil {
			r.Bad(rule, key, p.IPos(st), "a path reaches the growing store without incrementing the feed counter: the budget is never used up")
			continue
		}
		r.OK(rule, key, p.IPos(st), "dominated by the budget test; the counter is incremented on every path to it")
	}
	// (c) resets only where the queue is empty
	resets := 0
	for _, f := range p.RepoFuncs {
		var fbf FactMap
		eachInstr(f, func(in ssa.Instruction) {
			st, ok := isFieldStore(in, tn, counter)
			if !ok || isInc(in) {
				return
			}
			if fa, ok := st.Addr.(*ssa.FieldAddr); ok {
				if _, fresh := fa.X.(*ssa.Alloc); fresh {
					return
				}
			}
			resets++
			r.Fn(fnName(f))
			if fbf == nil {
				fbf = blockFacts(f)
			}
			key := fmt.Sprintf("%s:reset#%d", fnName(f), resets)
			empty := false
			for fc := range factsAt(fbf, in) {
				rel, ok := relOf(fc.Cond, fc.Val)
				if !ok {
					continue
				}
				cl, isCall := rel.X.(*ssa.Call)
				if !isCall {
					continue
				}
				if b, isB := cl.Call.Value.(*ssa.Builtin); !isB || b.Name() != "len" || !isLoadOf(cl.Call.Args[0], queue) {
					continue
				}
				if k, isK := constInt(rel.Y); isK && ((rel.Op == token.EQL && k == 0) || (rel.Op == token.LEQ && k == 0) || (rel.Op == token.LSS && k == 1)) {
					empty = true
				}
			}
			r.Check(empty, rule, key, p.IPos(in), "the counter is reset under `len(macroKeys) == 0`", "the feed counter is reset where fed keys may still be waiting: a macro that runs itself gets a fresh budget on every round and never stops")
		})
	}
	if resets == 0 {
		r.Unk(rule, "counter-reset", "-", "the feed counter is never reset: anchor changed (after the first runaway macro every feed would be refused)")
	}
	// (d) the allowance for typed keys grows only by the length of what a terminal read
	// returned, in the functions that read the terminal, and is otherwise set to 0
	for _, f := range p.RepoFuncs {
		eachInstr(f, func(in ssa.Instruction) {
			st, ok := isFieldStore(in, tn, typedFld)
			if !ok {
				return
			}
			if fa, ok := st.Addr.(*ssa.FieldAddr); ok {
				if _, fresh := fa.X.(*ssa.Alloc); fresh {
					return
				}
			}
			r.Fn(fnName(f))
			key := fmt.Sprintf("%s:store(typed)", fnName(f))
			if k, isK := constInt(st.Val); isK {
				r.Check(k == 0, rule, key+"=const", p.IPos(in), "reset to 0", "the typed-key allowance is set to a non-zero constant")
				return
			}
			okGrow := false
			if bo, isBo := st.Val.(*ssa.BinOp); isBo && bo.Op == token.ADD && isLoadOf(bo.X, typedFld) {
				if cl, isCall := bo.Y.(*ssa.Call); isCall {
					if b, isB := cl.Call.Value.(*ssa.Builtin); isB && b.Name() == "len" {
						okGrow = true
					}
				}
			}
			reads := false
			eachInstr(f, func(x ssa.Instruction) {
				if isCallTo(x, "(*core.Keys).readInputFiltered", "(*os.File).Read") {
					reads = true
				}
			})
			r.Check(okGrow && reads, rule, key+"+=len", p.IPos(in), "grows by the length of a terminal read, in a function that reads the terminal", "the typed-key allowance grows by something other than the length of what a terminal read returned (or outside the functions that read the terminal): a macro that runs itself can raise its own budget")
		})
	}
}

// checkBufferReread: C06.buffer-reread. The shell's line / cursor / selection
// are the triple GetBuffer selects (search minibuffer, completed line, input
// line). In the functions the Readline loop calls directly, a call that may
// enter or leave a search mode is followed, on every path to the function's
// exit, by the re-read of the triple from GetBuffer.
func checkBufferReread(c *Ctx) {
	p, r := c.P, c.R
	const rule = "C06.buffer-reread"
	r.Rule(rule, "K1", "Shell.Line() / Cursor() / Selection() return the triple that completion.Engine.GetBuffer selected (search minibuffer, completed line or input line): in the functions the Readline loop calls directly (run, handleUndefined), every call that may enter or leave a search mode (reach IsearchStart / IsearchStop / NonIsearchStart / NonIsearchStop) is followed on every path to the exit by the store of GetBuffer's result to Shell.line — otherwise the API reports an abandoned minibuffer while Readline waits", 2)
	switchers := map[*ssa.Function]bool{}
	var work []*ssa.Function
	for _, n := range []string{"(*completion.Engine).IsearchStart", "(*completion.Engine).IsearchStop", "(*completion.Engine).NonIsearchStart", "(*completion.Engine).NonIsearchStop"} {
		f := p.Func(n)
		if f == nil {
			r.Unk(rule, n, "-", "anchor not found")
			return
		}
		switchers[f] = true
		work = append(work, f)
	}
	p.closeOverCallers(switchers, work)
	isReread := func(in ssa.Instruction) bool {
		st, ok := isFieldStore(in, "readline.Shell", "line")
		if !ok {
			return false
		}
		ex, ok := st.Val.(*ssa.Extract)
		if !ok {
			return false
		}
		cl, ok := ex.Tuple.(*ssa.Call)
		return ok && calleeName(cl) == "(*completion.Engine).GetBuffer"
	}
	for _, fn := range []string{"(*readline.Shell).run", "(*readline.Shell).handleUndefined"} {
		f := p.Func(fn)
		if f == nil {
			r.Unk(rule, fn, "-", "anchor not found")
			continue
		}
		r.Fn(fn)
		k := 0
		eachInstr(f, func(in ssa.Instruction) {
			call, ok := in.(ssa.CallInstruction)
			if !ok || !p.callMayReach(call, switchers) {
				return
			}
			key := fmt.Sprintf("%s:call#%d", fn, callOrdinal(f, in))
			k++
			w := pathAvoiding(f, in, func(x ssa.Instruction) bool { _, isRet := x.(*ssa.Return); return isRet }, isReread)
			r.Check(w == nil, rule, key, p.IPos(in), "followed by the GetBuffer re-read on every path to the exit", "this call may enter or leave a search mode and a path reaches the exit without re-reading line/cursor/selection from GetBuffer: Line() and Cursor() report the abandoned buffer while Readline waits")
		})
		if k == 0 {
			r.Unk(rule, fn+":no-switching-call", p.Pos(f.Pos()), "no call of this function can reach a search-mode switch: anchor changed")
		}
	}
}

// checkStaleTriple: C06.stale-cursor. After a call that enters or leaves a
// search mode, the shell's line / cursor fields still point to the buffer of the
// mode just left: a root-package function must not move or clamp the cursor
// through them, nor hand them to a function that writes them, before a
// GetBuffer call.
func checkStaleTriple(c *Ctx, rule string) {
	p, r := c.P, c.R
	r.Rule(rule, "K1", "in every function of the root package, after a call that enters or leaves a search mode (IsearchStart / IsearchStop / NonIsearchStart / NonIsearchStop, Engine.Reset / ResetForce), the cursor loaded from Shell.cursor is not moved or clamped, and Shell.line / Shell.cursor are not passed on, before completion.Engine.GetBuffer has been called again: they still point to the buffer of the mode just left, so the clamp that keeps the vi-command cursor on a character (or the search result) lands in the abandoned buffer", 3)
	definite := map[string]bool{
		"(*completion.Engine).IsearchStart": true, "(*completion.Engine).IsearchStop": true,
		"(*completion.Engine).NonIsearchStart": true, "(*completion.Engine).NonIsearchStop": true,
		"(*completion.Engine).Reset": true, "(*completion.Engine).ResetForce": true,
	}
	for n := range definite {
		if p.Func(n) == nil {
			r.Unk(rule, n, "-", "anchor not found")
			return
		}
	}
	isGetBuffer := func(in ssa.Instruction) bool {
		cl, ok := in.(*ssa.Call)
		return ok && calleeName(cl) == "(*completion.Engine).GetBuffer"
	}
	isShellLoad := func(v ssa.Value, flds ...string) bool {
		u, ok := stripConv(v).(*ssa.UnOp)
		if !ok || u.Op != token.MUL {
			return false
		}
		tn, fld, ok := fieldOf(u.X)
		if !ok || tn != "readline.Shell" {
			return false
		}
		for _, f := range flds {
			if f == fld {
				return true
			}
		}
		return false
	}
	cursorWriters := p.writersExcept("core.Cursor", "pos")
	// a write through the stale pointers: a Cursor method that may write pos called on
	// the loaded Shell.cursor, or Shell.line / Shell.cursor passed as an argument
	isStaleWrite := func(in ssa.Instruction) bool {
		call, ok := in.(ssa.CallInstruction)
		if !ok {
			return false
		}
		com := call.Common()
		callee := com.StaticCallee()
		if callee == nil || !inRepo(callee) {
			return false
		}
		for i, a := range com.Args {
			if i == 0 && callee.Signature.Recv() != nil {
				if isShellLoad(a, "cursor") && cursorWriters[callee] && fnName(callee) != "(*core.Cursor).Pos" {
					return true
				}
				continue
			}
			if isShellLoad(a, "line", "cursor") {
				return true
			}
		}
		return false
	}
	for _, f := range p.RepoFuncs {
		if len(f.Blocks) == 0 || f.Pkg == nil || f.Pkg.Pkg.Path() != modPath {
			continue
		}
		eachInstr(f, func(in ssa.Instruction) {
			call, ok := in.(ssa.CallInstruction)
			if !ok {
				return
			}
			callee := call.Common().StaticCallee()
			if callee == nil || !definite[fnName(callee)] {
				return
			}
			if _, isDefer := in.(*ssa.Defer); isDefer {
				return
			}
			r.Fn(fnName(f))
			key := fmt.Sprintf("%s:%s#%d", fnName(f), fnName(callee), callOrdinal(f, in))
			w := pathAvoiding(f, in, isStaleWrite, isGetBuffer)
			if w == nil {
				r.OK(rule, key, p.IPos(in), "no cursor move / hand-over of the shell's line and cursor follows without a GetBuffer call")
				return
			}
			r.Bad(rule, key, p.IPos(in), "after this call, which enters or leaves a search mode, "+p.IPos(w)+" moves the cursor loaded from the shell (or hands its line / cursor on) without GetBuffer having been called again: it is the cursor of the buffer just left")
		})
	}
}

// checkSourcePos: C01.source-pos. history.Sources indexes names with sourcePos
// in Current / getHistoryLineChanges / Complete without a test: the class
// invariant "names empty, or 0 <= sourcePos < len(names)" is what keeps those
// indexes in range, and this rule checks the writers that maintain it.
func checkSourcePos(c *Ctx) {
	p, r := c.P, c.R
	const rule = "C01.source-pos"
	const tn = "history.Sources"
	r.Rule(rule, "K2", "history.Sources.names is indexed with sourcePos without a test (Current, getHistoryLineChanges, Complete): every store to sourcePos is the constant 0, or Cycle's step — made only when names is non-empty, +1 wrapped to 0 when it reaches len(names), -1 wrapped to len(names)-1 when it goes below 0 — and every store that can shrink names (anything but an append to the loaded slice) is followed by sourcePos = 0 on every path to the exit", 4)
	isLoad := func(v ssa.Value, fld string) bool { return isFieldLoad(stripConv(v), tn, fld) }
	isLenNames := func(v ssa.Value) bool {
		cl, ok := v.(*ssa.Call)
		if !ok {
			return false
		}
		b, isB := cl.Call.Value.(*ssa.Builtin)
		return isB && b.Name() == "len" && isLoad(cl.Call.Args[0], "names")
	}
	isZeroStore := func(in ssa.Instruction) bool {
		st, ok := isFieldStore(in, tn, "sourcePos")
		if !ok {
			return false
		}
		k, isK := constInt(st.Val)
		return isK && k == 0
	}
	nStores := 0
	for _, f := range p.RepoFuncs {
		if len(f.Blocks) == 0 {
			continue
		}
		var bf FactMap
		eachInstr(f, func(in ssa.Instruction) {
			// stores to sourcePos
			if st, ok := isFieldStore(in, tn, "sourcePos"); ok {
				if fa, ok := st.Addr.(*ssa.FieldAddr); ok {
					if _, fresh := fa.X.(*ssa.Alloc); fresh {
						return
					}
				}
				nStores++
				r.Fn(fnName(f))
				key := fmt.Sprintf("%s:store(sourcePos)#%d", fnName(f), nStores)
				if k, isK := constInt(st.Val); isK {
					r.Check(k == 0, rule, key, p.IPos(in), "stores 0", "stores a non-zero constant to sourcePos: nothing says names is that long")
					return
				}
				if bf == nil {
					bf = blockFacts(f)
				}
				nonEmpty := false
				for fc := range factsAt(bf, in) {
					rel, ok := relOf(fc.Cond, fc.Val)
					if !ok || !isLenNames(rel.X) {
						continue
					}
					if k, isK := constInt(rel.Y); isK && ((rel.Op == token.NEQ && k == 0) || (rel.Op == token.GTR && k == 0) || (rel.Op == token.GEQ && k == 1)) {
						nonEmpty = true
					}
				}
				bo, isBo := st.Val.(*ssa.BinOp)
				switch {
				case isBo && isLenNames(bo.X) && bo.Op == token.SUB:
					k, isK := constInt(bo.Y)
					r.Check(isK && k == 1 && nonEmpty, rule, key, p.IPos(in), "stores len(names)-1 where names is known non-empty", "stores len(names)-k without knowing names non-empty (or k != 1)")
				case isBo && isLoad(bo.X, "sourcePos") && (bo.Op == token.ADD || bo.Op == token.SUB):
					k, isK := constInt(bo.Y)
					if !isK || k != 1 || !nonEmpty {
						r.Bad(rule, key, p.IPos(in), "steps sourcePos by something other than 1, or without knowing names non-empty: with no source the index leaves 0 and the next source added is looked up out of range")
						return
					}
					// the wrap: a test of the stepped value against len(names) (for +1) or 0 (for -1) follows, whose wrapping branch stores the other end
					wrapped := false
					eachInstr(f, func(x ssa.Instruction) {
						iff, ok := x.(*ssa.If)
						if !ok || !instrDominates(in, x) {
							return
						}
						rel, ok := relOf(iff.Cond, true)
						if !ok || !isLoad(rel.X, "sourcePos") {
							return
						}
						tb := iff.Block().Succs[0]
						stores := func(pred func(ssa.Value) bool) bool {
							for _, y := range tb.Instrs {
								if s2, ok := isFieldStore(y, tn, "sourcePos"); ok && pred(s2.Val) {
									return true
								}
							}
							return false
						}
						if bo.Op == token.ADD && (rel.Op == token.EQL || rel.Op == token.GEQ) && isLenNames(rel.Y) && stores(func(v ssa.Value) bool { k, ok := constInt(v); return ok && k == 0 }) {
							wrapped = true
						}
						if k0, isK0 := constInt(rel.Y); bo.Op == token.SUB && isK0 && k0 == 0 && rel.Op == token.LSS && stores(func(v ssa.Value) bool {
							b2, ok := v.(*ssa.BinOp)
							return ok && b2.Op == token.SUB && isLenNames(b2.X)
						}) {
							wrapped = true
						}
					})
					r.Check(wrapped, rule, key, p.IPos(in), "stepped by one, names non-empty, wrapped at the end it can leave", "the stepped index is not wrapped back (== len(names) → 0, < 0 → len(names)-1): it leaves the range of names")
				default:
					r.Bad(rule, key, p.IPos(in), "stores a value to sourcePos that is neither 0, a wrapped step, nor len(names)-1")
				}
				return
			}
			// stores that can shrink names
			if st, ok := isFieldStore(in, tn, "names"); ok {
				if fa, ok := st.Addr.(*ssa.FieldAddr); ok {
					if _, fresh := fa.X.(*ssa.Alloc); fresh {
						return
					}
				}
				grows := false
				if cl, ok := st.Val.(*ssa.Call); ok {
					if b, isB := cl.Call.Value.(*ssa.Builtin); isB && b.Name() == "append" && isLoad(cl.Call.Args[0], "names") {
						grows = true
					}
				}
				if grows {
					return
				}
				r.Fn(fnName(f))
				key := fmt.Sprintf("%s:store(names)@%d", fnName(f), callOrdinalAny(f, in))
				w := pathAvoiding(f, in, func(x ssa.Instruction) bool { _, isRet := x.(*ssa.Return); return isRet }, isZeroStore)
				r.Check(w == nil, rule, key, p.IPos(in), "names may shrink here; sourcePos = 0 follows on every path to the exit", "names may shrink here and a path reaches the exit without resetting sourcePos: the index of the active source stays past the end, and Current() panics once a source is added again")
			}
		})
	}
	if nStores == 0 {
		r.Unk(rule, "stores(sourcePos)", "-", "no store to history.Sources.sourcePos found: anchor changed")
	}
}

// callOrdinalAny: ordinal of any instruction among the instructions of f, by position.
func callOrdinalAny(f *ssa.Function, target ssa.Instruction) int {
	n := 0
	for _, b := range f.Blocks {
		for _, in := range b.Instrs {
			if in == target {
				return n
			}
			if _, ok := in.(*ssa.Store); ok {
				n++
			}
		}
	}
	return -1
}

// checkSizeSentinel: C08.size-sentinel. history.NewSources tells "history-size
// was given a value" from "it holds its integer default 0" by asking for the
// variable as a string: the default is an int, for which GetString answers "".
// Both halves are needed for "no limit unless one is configured".
func checkSizeSentinel(c *Ctx) {
	p, r := c.P, c.R
	const rule = "C08.size-sentinel"
	r.Rule(rule, "K3", "NewSources installs a finite default limit (a positive constant stored to maxEntries) only under a condition that is the comparison of Config.GetString(\"history-size\") with \"\", and GetString returns the asserted string or \"\" and nothing else — so the integer default 0 of the variable reads as unset and recording is not limited unless a size was configured", 2)
	NS := p.Func("history.NewSources")
	GS := p.Func("(*inputrc.Config).GetString")
	if NS == nil || GS == nil {
		r.Unk(rule, "history.NewSources / (*inputrc.Config).GetString", "-", "anchor not found")
		return
	}
	r.Fn(fnName(NS), fnName(GS))
	// (a) every store of a positive constant to maxEntries is under GetString("history-size") != ""
	bf := blockFacts(NS)
	n := 0
	eachInstr(NS, func(in ssa.Instruction) {
		st, ok := isFieldStore(in, "history.Sources", "maxEntries")
		if !ok {
			return
		}
		k, isK := constInt(st.Val)
		if !isK || k <= 0 {
			return
		}
		n++
		guarded := false
		for fc := range factsAt(bf, in) {
			rel, ok := relOf(fc.Cond, fc.Val)
			if !ok || rel.Op != token.NEQ {
				continue
			}
			if s, isS := constString(rel.Y); !isS || s != "" {
				continue
			}
			cl, isCall := rel.X.(*ssa.Call)
			if !isCall || staticCallee(cl) != GS || len(cl.Call.Args) != 2 {
				continue
			}
			if name, isS := constString(cl.Call.Args[1]); isS && name == "history-size" {
				guarded = true
			}
		}
		r.Check(guarded, rule, fmt.Sprintf("history.NewSources:store(maxEntries=%d)", k), p.IPos(in), "under GetString(\"history-size\") != \"\"", "the default limit is installed under a condition that is not `GetString(\"history-size\") != \"\"`: with the variable at its integer default (always present in the configuration) recording silently stops at that many entries")
	})
	if n == 0 {
		r.OK(rule, "history.NewSources:no-default-limit", p.Pos(NS.Pos()), "no positive constant is stored to maxEntries")
	}
	// (b) GetString returns the asserted string, or ""
	okAll, nRet := true, 0
	var badAt ssa.Instruction
	eachInstr(GS, func(in ssa.Instruction) {
		ret, ok := in.(*ssa.Return)
		if !ok || len(ret.Results) != 1 {
			return
		}
		nRet++
		v := ret.Results[0]
		if s, isS := constString(v); isS && s == "" {
			return
		}
		if ex, ok := v.(*ssa.Extract); ok && ex.Index == 0 {
			if ta, ok := ex.Tuple.(*ssa.TypeAssert); ok && ta.CommaOk {
				if b, isB := ta.AssertedType.Underlying().(*types.Basic); isB && b.Kind() == types.String {
					return
				}
			}
		}
		okAll = false
		badAt = in
	})
	pos := p.Pos(GS.Pos())
	if badAt != nil {
		pos = p.IPos(badAt)
	}
	r.Check(okAll && nRet > 0, rule, "(*inputrc.Config).GetString:returns", pos, "returns the asserted string or \"\"", "GetString returns something other than the stored string or \"\" (a formatted integer or boolean): callers that tell \"unset\" from the integer default by an empty answer — NewSources for history-size — now see a value")
}

// checkC04Round5: the three display defects the emulator triage found (and a
// seeding agent independently): clear-to-end-of-row at a full row, "the row is
// full" tested by lineCol alone, and rows computed by dividing the total width.
func checkC04Round5(c *Ctx) {
	p, r := c.P, c.R
	isWidth := func(v ssa.Value) bool {
		cl, ok := v.(*ssa.Call)
		return ok && calleeName(cl) == "term.GetWidth"
	}
	isFieldOf := func(tn string, flds ...string) func(ssa.Value) bool {
		return func(v ssa.Value) bool {
			u, ok := v.(*ssa.UnOp)
			if !ok || u.Op != token.MUL {
				return false
			}
			t, f, ok := fieldOf(u.X)
			if !ok || t != tn {
				return false
			}
			for _, x := range flds {
				if x == f {
					return true
				}
			}
			return false
		}
	}
	// ---- C04.full-row-clear
	r.Rule("C04.full-row-clear", "K4", "where the text of a buffer line is followed by \"clear to the end of the row\" in the same output (display.Engine.displayLine for the last line, core.DisplayLine for the others), the clear is added only under a test that depends on where the line ends (lineCol, or a width compared with term.GetWidth): at a full row the cursor stays on the last column with the wrap pending, and a VT100 erases the character under it", 2)
	for _, fn := range []string{"(*display.Engine).displayLine", "core.DisplayLine"} {
		f := p.Func(fn)
		if f == nil {
			r.Unk("C04.full-row-clear", fn, "-", "anchor not found")
			continue
		}
		r.Fn(fn)
		bf := blockFacts(f)
		n := 0
		eachInstr(f, func(in ssa.Instruction) {
			bo, ok := in.(*ssa.BinOp)
			if !ok || bo.Op != token.ADD {
				return
			}
			s, isS := constString(bo.Y)
			if !isS || s != "\x1b[0K" {
				return
			}
			if _, isK := bo.X.(*ssa.Const); isK {
				return
			}
			n++
			guarded := false
			for fc := range factsAt(bf, in) {
				if dependsOn(fc.Cond, func(v ssa.Value) bool { return isWidth(v) || isFieldOf("display.Engine", "lineCol")(v) }) {
					guarded = true
				}
			}
			r.Check(guarded, "C04.full-row-clear", fmt.Sprintf("%s:clear-after-text#%d", fn, n), p.IPos(in), "added under a test of where the line ends", "\"clear to the end of the row\" is appended to the text of the line unconditionally: when the line ends exactly on the last column, the terminal erases its last character")
		})
		if n == 0 {
			r.OK("C04.full-row-clear", fn+":no-clear-after-text", p.Pos(f.Pos()), "the function does not append the clear sequence to line text")
		}
	}
	// ---- C04.full-row-nonempty
	r.Rule("C04.full-row-nonempty", "K3", "displayLine moves to the next row after a line that fills its last row exactly; lineCol == 0 alone also holds for a row with nothing on it (no prompt and an empty buffer, a buffer ending with a newline): the test also depends on the prompt width (startCols) or on the text of the buffer, otherwise every redisplay of such a buffer moves one row down", 1)
	if DL := p.Func("(*display.Engine).displayLine"); DL != nil {
		bf := blockFacts(DL)
		n := 0
		eachInstr(DL, func(in ssa.Instruction) {
			cl, ok := in.(*ssa.Call)
			if !ok || !strings.HasPrefix(calleeName(cl), "fmt.Print") {
				return
			}
			// the argument is the "\r\n" constant
			isNL := false
			for _, a := range cl.Call.Args {
				if dependsOn(a, func(v ssa.Value) bool { s, ok := constString(v); return ok && s == "\r\n" }) {
					isNL = true
				}
			}
			if !isNL {
				return
			}
			n++
			col, other := false, false
			for fc := range factsAt(bf, in) {
				if dependsOn(fc.Cond, isFieldOf("display.Engine", "lineCol")) {
					col = true
				}
				if dependsOn(fc.Cond, func(v ssa.Value) bool { return isFieldOf("display.Engine", "startCols", "line")(v) }) {
					other = true
				}
			}
			r.Check(col && other, "C04.full-row-nonempty", fmt.Sprintf("(*display.Engine).displayLine:newline#%d", n), p.IPos(in), "under lineCol and the prompt width / buffer text", "the move to the next row after the line is decided by lineCol alone (or not by lineCol at all): with no prompt and an empty buffer, or a buffer ending with a newline, the row is empty, not full, and every redisplay moves one row down")
		})
		if n == 0 {
			r.Unk("C04.full-row-nonempty", "(*display.Engine).displayLine:newline", p.Pos(DL.Pos()), "no newline print found: anchor changed")
		}
	}
	// ---- C04.wide-wrap
	r.Rule("C04.wide-wrap", "K3", "strutil.LineSpan (behind the cursor, line and hint coordinates) does not obtain rows and columns by dividing a width that depends on the text of the line by the terminal width: a double-width character that does not fit in the last column wraps early and leaves that column unused, which a division of the total cannot see", 1)
	if LS := p.Func("strutil.LineSpan"); LS != nil && len(LS.Params) > 0 {
		r.Fn(fnName(LS))
		lineParam := LS.Params[0]
		n, bad := 0, 0
		eachInstr(LS, func(in ssa.Instruction) {
			bo, ok := in.(*ssa.BinOp)
			if !ok || (bo.Op != token.QUO && bo.Op != token.REM) {
				return
			}
			if !dependsOn(bo.Y, isWidth) {
				return
			}
			n++
			if dependsOn(bo.X, func(v ssa.Value) bool { return v == ssa.Value(lineParam) }) {
				bad++
				r.Bad("C04.wide-wrap", fmt.Sprintf("strutil.LineSpan:div#%d", n), p.IPos(in), "rows / columns are the quotient / remainder of a width that includes the text of the line by the terminal width: after a double-width character wrapped before the last column, the cursor is computed one cell short")
			}
		})
		if bad == 0 {
			r.OK("C04.wide-wrap", "strutil.LineSpan:divisions", p.Pos(LS.Pos()), fmt.Sprintf("%d division(s) by the terminal width, none on a width that depends on the line", n))
		}
	} else {
		r.Unk("C04.wide-wrap", "strutil.LineSpan", "-", "anchor not found")
	}
}
