package main

// Rules written after the random key-sequence triage of the repaired tree
// (round 5): each is the structural form of a defect that triage showed on the
// real code and that a `fix:` commit repaired.

import (
	"fmt"
	"go/token"
	"go/types"
	"sort"
	"strings"

	"golang.org/x/tools/go/callgraph"
	"golang.org/x/tools/go/ssa"
)

// nilFuncOrigin: why a function value may be nil. "" = no such origin known.
//
//	map      the value of a map lookup (the zero value on a miss) whose ok result is not tested
//	nil      the constant nil on some path (phi edge / spilled store)
//	callee   the result of a module function one of whose returns has one of the origins above
func nilFuncOrigin(p *Prog, v ssa.Value, depth int, seen map[ssa.Value]bool) string {
	v = stripConv(v)
	if seen[v] {
		return ""
	}
	seen[v] = true
	switch x := v.(type) {
	case *ssa.Const:
		if x.IsNil() {
			return "the constant nil"
		}
	case *ssa.Lookup:
		if _, isMap := x.X.Type().Underlying().(*types.Map); isMap && !x.CommaOk {
			return "a map lookup (nil when the key is absent)"
		}
	case *ssa.Extract:
		if lk, ok := x.Tuple.(*ssa.Lookup); ok && x.Index == 0 {
			if _, isMap := lk.X.Type().Underlying().(*types.Map); isMap {
				return "a map lookup (nil when the key is absent)"
			}
		}
		if cl, ok := x.Tuple.(*ssa.Call); ok && depth > 0 {
			if callee := staticCallee(cl); callee != nil && inRepo(callee) {
				return nilFuncResult(p, callee, x.Index, depth-1, seen)
			}
		}
	case *ssa.Phi:
		for _, e := range x.Edges {
			if o := nilFuncOrigin(p, e, depth, seen); o != "" {
				return o
			}
		}
	case *ssa.UnOp:
		if x.Op == token.MUL {
			if a, ok := x.X.(*ssa.Alloc); ok {
				if vals, _, simple := reachingStores(x, a); simple {
					for _, sv := range vals {
						if o := nilFuncOrigin(p, sv, depth, seen); o != "" {
							return o
						}
					}
				}
			}
		}
	case *ssa.Call:
		if depth > 0 {
			if callee := staticCallee(x); callee != nil && inRepo(callee) {
				return nilFuncResult(p, callee, 0, depth-1, seen)
			}
		}
	case *ssa.Parameter:
		// the argument of every static caller in the module
		if depth == 0 || x.Parent() == nil {
			return ""
		}
		idx := -1
		for i, pr := range x.Parent().Params {
			if pr == x {
				idx = i
			}
		}
		for _, e := range p.callersOf(x.Parent()) {
			if e.Site == nil || e.Site.Common().StaticCallee() != x.Parent() || idx < 0 || idx >= len(e.Site.Common().Args) {
				continue
			}
			if o := nilFuncOrigin(p, e.Site.Common().Args[idx], depth-1, seen); o != "" {
				return fmt.Sprintf("the argument of %s, which may be %s", fnName(e.Caller.Func), o)
			}
		}
	}
	return ""
}

func nilFuncResult(p *Prog, callee *ssa.Function, idx, depth int, seen map[ssa.Value]bool) string {
	for _, b := range callee.Blocks {
		for _, in := range b.Instrs {
			ret, ok := in.(*ssa.Return)
			if !ok || idx >= len(ret.Results) {
				continue
			}
			if o := nilFuncOrigin(p, ret.Results[idx], depth, seen); o != "" {
				return fmt.Sprintf("the result of %s, which may be %s", fnName(callee), o)
			}
		}
	}
	return ""
}

// checkNilFuncCall: C01.nil-func-call. Every call of a function value that may
// be nil by construction (map lookup, nil on a path, a resolver returning one of
// those) is dominated by a test of that value against nil.
func checkNilFuncCall(c *Ctx) {
	p, r := c.P, c.R
	const rule = "C01.nil-func-call"
	r.Rule(rule, "K4", "a function value that may be nil by construction — looked up in a map of commands (absent name), nil on one path, or returned by a module function that returns one of those — is called only where a test against nil dominates the call: a key can be bound, by default or by any inputrc, to a name no command carries, and the lookup then yields nil", 3)
	for _, f := range p.RepoFuncs {
		if len(f.Blocks) == 0 {
			continue
		}
		var bf FactMap
		eachInstr(f, func(in ssa.Instruction) {
			cc, ok := in.(ssa.CallInstruction)
			if !ok {
				return
			}
			com := cc.Common()
			if com.IsInvoke() || com.StaticCallee() != nil {
				return
			}
			if _, isBuiltin := com.Value.(*ssa.Builtin); isBuiltin {
				return
			}
			if _, isSig := com.Value.Type().Underlying().(*types.Signature); !isSig {
				return
			}
			origin := nilFuncOrigin(p, com.Value, 4, map[ssa.Value]bool{})
			if origin == "" {
				return
			}
			r.Fn(fnName(f))
			if bf == nil {
				bf = blockFacts(f)
			}
			key := fmt.Sprintf("%s:call#%d", fnName(f), callOrdinal(f, in))
			if _, isDefer := in.(*ssa.Defer); isDefer {
				key += ":defer"
			}
			if knownNonNilAny(factsAt(bf, in), com.Value) || lookupOkTested(factsAt(bf, in), com.Value) {
				r.OK(rule, key, p.IPos(in), "the called value is "+origin+"; a test against nil dominates the call")
				return
			}
			r.Bad(rule, key, p.IPos(in), "the called value is "+origin+" and no test against nil dominates the call: a bind naming a function that does not exist panics here")
		})
	}
}

// knownNonNilAny: v, or any value it is certainly equal to (a spilled local's
// single reaching store, the operand of a conversion), is known non-nil.
func knownNonNilAny(facts map[Fact]bool, v ssa.Value) bool {
	if knownNonNil(facts, v) {
		return true
	}
	v = stripConv(v)
	if knownNonNil(facts, v) {
		return true
	}
	for fc := range facts {
		x, trueMeansNil, ok := nilCmp(fc.Cond)
		if !ok || fc.Val == trueMeansNil {
			continue
		}
		if sameValue(x, v) || sameMemValue(x, v) {
			return true
		}
		// the test and the call load the same local
		if ux, ok := stripConv(x).(*ssa.UnOp); ok && ux.Op == token.MUL {
			if uv, ok := v.(*ssa.UnOp); ok && uv.Op == token.MUL && ux.X == uv.X {
				if _, isAlloc := ux.X.(*ssa.Alloc); isAlloc && sameMemValue(ux, uv) {
					return true
				}
			}
		}
	}
	return false
}

// lookupOkTested: v is the value of a `v, ok := m[k]` lookup and ok is known true.
func lookupOkTested(facts map[Fact]bool, v ssa.Value) bool {
	ex, ok := stripConv(v).(*ssa.Extract)
	if !ok || ex.Index != 0 {
		return false
	}
	lk, ok := ex.Tuple.(*ssa.Lookup)
	if !ok || !lk.CommaOk {
		return false
	}
	for fc := range facts {
		if e2, ok := fc.Cond.(*ssa.Extract); ok && e2.Tuple == lk && e2.Index == 1 && fc.Val {
			return true
		}
	}
	return false
}

func callOrdinal(f *ssa.Function, target ssa.Instruction) int {
	n := 0
	var calls []ssa.Instruction
	for _, b := range f.Blocks {
		for _, in := range b.Instrs {
			if _, ok := in.(ssa.CallInstruction); ok {
				calls = append(calls, in)
			}
		}
	}
	sort.SliceStable(calls, func(i, j int) bool { return calls[i].Pos() < calls[j].Pos() })
	for _, in := range calls {
		if in == target {
			return n
		}
		n++
	}
	return -1
}

// checkMacroBudget: C01.macro-budget. Keys fed to the stack are used before the
// terminal is read again, so the main loop's blocking wait is skipped for as
// long as something keeps feeding: the feeds must be bounded.
//
//	(a) the fed-key queue (Keys.macroKeys) grows only in (*Keys).Feed: every
//	    other store to it stores a reslice of itself or nil;
//	(b) in Feed, every growing store is dominated by the `feeds <= constant`
//	    outcome of a test of the feed counter, and every path from the entry
//	    to it increments the counter;
//	(c) the counter is reset only where the queue is known empty.
func checkMacroBudget(c *Ctx) {
	p, r := c.P, c.R
	const rule = "C01.macro-budget"
	r.Rule(rule, "K1", "the keys fed to the key stack (macros, re-fed keys) are used before the terminal is read again, so a macro that runs itself skips the main loop's blocking wait forever unless feeding is bounded: the fed-key queue grows only in (*core.Keys).Feed; there, every growing store is dominated by the passing outcome of a `feeds > constant (+ keys typed)` test and preceded on every path by the increment of the counter; the counter is reset only where the queue is known to be empty (no macro is running anymore); the allowance for typed keys grows only by the length of a terminal read", 3)
	const tn, queue, counter, typedFld = "core.Keys", "macroKeys", "feeds", "typed"
	FEED := p.Func("(*core.Keys).Feed")
	if FEED == nil {
		r.Unk(rule, "(*core.Keys).Feed", "-", "anchor not found")
		return
	}
	r.Fn(fnName(FEED))
	isLoadOf := func(v ssa.Value, fld string) bool {
		return isFieldLoad(stripConv(v), tn, fld)
	}
	// shrinking: nil, or a slice expression over the loaded queue
	shrinks := func(v ssa.Value) bool {
		if isNilConst(v) {
			return true
		}
		if sl, ok := v.(*ssa.Slice); ok && isLoadOf(sl.X, queue) {
			return true
		}
		return false
	}
	// (a) growth only in Feed
	grow := 0
	var growing []*ssa.Store
	for _, f := range p.RepoFuncs {
		eachInstr(f, func(in ssa.Instruction) {
			st, ok := isFieldStore(in, tn, queue)
			if !ok || shrinks(st.Val) {
				return
			}
			if f == FEED {
				growing = append(growing, st)
				return
			}
			// a fresh struct's initialisation is not growth of the shared queue
			if fa, ok := st.Addr.(*ssa.FieldAddr); ok {
				if _, fresh := fa.X.(*ssa.Alloc); fresh {
					return
				}
			}
			grow++
			r.Bad(rule, fnName(f)+":grows-queue", p.IPos(in), "stores a value that is not a reslice of the queue to Keys.macroKeys outside (*Keys).Feed: keys are fed without being counted against the budget")
		})
	}
	if grow == 0 {
		r.OK(rule, "queue-grows-only-in-Feed", p.Pos(FEED.Pos()), fmt.Sprintf("every store to Keys.macroKeys outside Feed is a reslice or nil; Feed has %d growing store(s)", len(growing)))
	}
	if len(growing) == 0 {
		r.Unk(rule, "(*core.Keys).Feed:growing-stores", p.Pos(FEED.Pos()), "Feed stores nothing to the queue: anchor changed")
		return
	}
	// (b) budget test + increment before every growing store
	bf := blockFacts(FEED)
	isInc := func(in ssa.Instruction) bool {
		st, ok := isFieldStore(in, tn, counter)
		if !ok {
			return false
		}
		bo, ok := st.Val.(*ssa.BinOp)
		if !ok || bo.Op != token.ADD || !isLoadOf(bo.X, counter) {
			return false
		}
		k, isK := constInt(bo.Y)
		return isK && k >= 1
	}
	for i, st := range growing {
		key := fmt.Sprintf("(*core.Keys).Feed:store#%d", i)
		guarded := false
		for fc := range factsAt(bf, st) {
			rel, ok := relOf(fc.Cond, fc.Val)
			if !ok || !isLoadOf(rel.X, counter) {
				continue
			}
			if _, isK := constInt(rel.Y); isK && (rel.Op == token.LSS || rel.Op == token.LEQ) {
				guarded = true
			}
			// constant + keys typed: one run per key read from the terminal on top of the budget
			if bo, ok := rel.Y.(*ssa.BinOp); ok && bo.Op == token.ADD && (rel.Op == token.LSS || rel.Op == token.LEQ) {
				_, kx := constInt(bo.X)
				_, ky := constInt(bo.Y)
				if (kx && isLoadOf(bo.Y, typedFld)) || (ky && isLoadOf(bo.X, typedFld)) {
					guarded = true
				}
			}
		}
		if !guarded {
			r.Bad(rule, key, p.IPos(st), "the queue grows without a dominating `feeds <= constant` outcome: a macro that runs itself feeds keys forever and Readline never reads the terminal again")
			continue
		}
		if w := pathAvoiding(FEED, nil, func(in ssa.Instruction) bool { return in == ssa.Instruction(st) }, isInc); w != nil {
			r.Bad(rule, key, p.IPos(st), "a path reaches the growing store without incrementing the feed counter: the budget is never used up")
			continue
		}
		r.OK(rule, key, p.IPos(st), "dominated by the budget test; the counter is incremented on every path to it")
	}
	// (c) resets only where the queue is empty
	resets := 0
	for _, f := range p.RepoFuncs {
		var fbf FactMap
		eachInstr(f, func(in ssa.Instruction) {
			st, ok := isFieldStore(in, tn, counter)
			if !ok || isInc(in) {
				return
			}
			if fa, ok := st.Addr.(*ssa.FieldAddr); ok {
				if _, fresh := fa.X.(*ssa.Alloc); fresh {
					return
				}
			}
			resets++
			r.Fn(fnName(f))
			if fbf == nil {
				fbf = blockFacts(f)
			}
			key := fmt.Sprintf("%s:reset#%d", fnName(f), resets)
			empty := false
			for fc := range factsAt(fbf, in) {
				rel, ok := relOf(fc.Cond, fc.Val)
				if !ok {
					continue
				}
				cl, isCall := rel.X.(*ssa.Call)
				if !isCall {
					continue
				}
				if b, isB := cl.Call.Value.(*ssa.Builtin); !isB || b.Name() != "len" || !isLoadOf(cl.Call.Args[0], queue) {
					continue
				}
				if k, isK := constInt(rel.Y); isK && ((rel.Op == token.EQL && k == 0) || (rel.Op == token.LEQ && k == 0) || (rel.Op == token.LSS && k == 1)) {
					empty = true
				}
			}
			r.Check(empty, rule, key, p.IPos(in), "the counter is reset under `len(macroKeys) == 0`", "the feed counter is reset where fed keys may still be waiting: a macro that runs itself gets a fresh budget on every round and never stops")
		})
	}
	if resets == 0 {
		r.Unk(rule, "counter-reset", "-", "the feed counter is never reset: anchor changed (after the first runaway macro every feed would be refused)")
	}
	// (d) the allowance for typed keys grows only by the length of what a terminal read
	// returned, in the functions that read the terminal, and is otherwise set to 0
	for _, f := range p.RepoFuncs {
		eachInstr(f, func(in ssa.Instruction) {
			st, ok := isFieldStore(in, tn, typedFld)
			if !ok {
				return
			}
			if fa, ok := st.Addr.(*ssa.FieldAddr); ok {
				if _, fresh := fa.X.(*ssa.Alloc); fresh {
					return
				}
			}
			r.Fn(fnName(f))
			key := fmt.Sprintf("%s:store(typed)", fnName(f))
			if k, isK := constInt(st.Val); isK {
				r.Check(k == 0, rule, key+"=const", p.IPos(in), "reset to 0", "the typed-key allowance is set to a non-zero constant")
				return
			}
			// typed += len(x) where x is what a terminal read returned, possibly meta-converted:
			// every leaf of x's backward slice is the result of readInputFiltered (the slice follows
			// the parameter of an unexported helper to its callers' arguments)
			okGrow, reads := false, false
			if bo, isBo := st.Val.(*ssa.BinOp); isBo && bo.Op == token.ADD && isLoadOf(bo.X, typedFld) {
				if cl, isCall := bo.Y.(*ssa.Call); isCall {
					if b, isB := cl.Call.Value.(*ssa.Builtin); isB && b.Name() == "len" {
						okGrow = true
						leaves := backSlice(cl.Call.Args[0], &SliceOpts{P: p, IsSource: func(v ssa.Value) bool {
							return isCallNamed(v, "(*core.Keys).readInputFiltered")
						}, Through: func(c *ssa.Call) []ssa.Value {
							return readCarrier(p, c)
						}})
						reads = len(leaves) > 0
						for _, l := range leaves {
							if l.Kind != LeafSource {
								reads = false
							}
						}
					}
				}
			}
			r.Check(okGrow && reads, rule, key+"+=len", p.IPos(in), "grows by the length of what a terminal read returned", "the typed-key allowance grows by something other than the length of what a terminal read returned: a macro that runs itself can raise its own budget")
		})
	}
}

// checkBufferReread: C06.buffer-reread. The shell's line / cursor / selection
// are the triple GetBuffer selects (search minibuffer, completed line, input
// line). In the functions the Readline loop calls directly, a call that may
// enter or leave a search mode is followed, on every path to the function's
// exit, by the re-read of the triple from GetBuffer.
func checkBufferReread(c *Ctx) {
	p, r := c.P, c.R
	const rule = "C06.buffer-reread"
	r.Rule(rule, "K1", "Shell.Line() / Cursor() / Selection() return the triple that completion.Engine.GetBuffer selected (search minibuffer, completed line or input line): in the functions the Readline loop calls directly (run, handleUndefined), every call that may enter or leave a search mode (reach IsearchStart / IsearchStop / NonIsearchStart / NonIsearchStop) is followed on every path to the exit by the store of GetBuffer's result to Shell.line — otherwise the API reports an abandoned minibuffer while Readline waits", 2)
	switchers := map[*ssa.Function]bool{}
	var work []*ssa.Function
	for _, n := range []string{"(*completion.Engine).IsearchStart", "(*completion.Engine).IsearchStop", "(*completion.Engine).NonIsearchStart", "(*completion.Engine).NonIsearchStop"} {
		f := p.Func(n)
		if f == nil {
			r.Unk(rule, n, "-", "anchor not found")
			return
		}
		switchers[f] = true
		work = append(work, f)
	}
	p.closeOverCallers(switchers, work)
	isReread := func(in ssa.Instruction) bool {
		st, ok := isFieldStore(in, "readline.Shell", "line")
		if !ok {
			return false
		}
		ex, ok := st.Val.(*ssa.Extract)
		if !ok {
			return false
		}
		cl, ok := ex.Tuple.(*ssa.Call)
		return ok && calleeName(cl) == "(*completion.Engine).GetBuffer"
	}
	for _, fn := range []string{"(*readline.Shell).run", "(*readline.Shell).handleUndefined"} {
		f := p.Func(fn)
		if f == nil {
			r.Unk(rule, fn, "-", "anchor not found")
			continue
		}
		r.Fn(fn)
		k := 0
		eachInstr(f, func(in ssa.Instruction) {
			call, ok := in.(ssa.CallInstruction)
			if !ok || !p.callMayReach(call, switchers) {
				return
			}
			key := fmt.Sprintf("%s:call#%d", fn, callOrdinal(f, in))
			k++
			w := pathAvoiding(f, in, func(x ssa.Instruction) bool { _, isRet := x.(*ssa.Return); return isRet }, isReread)
			r.Check(w == nil, rule, key, p.IPos(in), "followed by the GetBuffer re-read on every path to the exit", "this call may enter or leave a search mode and a path reaches the exit without re-reading line/cursor/selection from GetBuffer: Line() and Cursor() report the abandoned buffer while Readline waits")
		})
		if k == 0 {
			r.Unk(rule, fn+":no-switching-call", p.Pos(f.Pos()), "no call of this function can reach a search-mode switch: anchor changed")
		}
	}
}

// checkStaleTriple: C06.stale-cursor. After a call that enters or leaves a
// search mode, the shell's line / cursor fields still point to the buffer of the
// mode just left: a root-package function must not move or clamp the cursor
// through them, nor hand them to a function that writes them, before a
// GetBuffer call.
func checkStaleTriple(c *Ctx, rule string) {
	p, r := c.P, c.R
	r.Rule(rule, "K1", "in every function of the root package, after a call that enters or leaves a search mode (IsearchStart / IsearchStop / NonIsearchStart / NonIsearchStop, Engine.Reset / ResetForce), the cursor loaded from Shell.cursor is not moved or clamped, and Shell.line / Shell.cursor are not passed on, before completion.Engine.GetBuffer has been called again: they still point to the buffer of the mode just left, so the clamp that keeps the vi-command cursor on a character (or the search result) lands in the abandoned buffer", 3)
	definite := map[string]bool{
		"(*completion.Engine).IsearchStart": true, "(*completion.Engine).IsearchStop": true,
		"(*completion.Engine).NonIsearchStart": true, "(*completion.Engine).NonIsearchStop": true,
		"(*completion.Engine).Reset": true, "(*completion.Engine).ResetForce": true,
	}
	for n := range definite {
		if p.Func(n) == nil {
			r.Unk(rule, n, "-", "anchor not found")
			return
		}
	}
	isGetBuffer := func(in ssa.Instruction) bool {
		cl, ok := in.(*ssa.Call)
		return ok && calleeName(cl) == "(*completion.Engine).GetBuffer"
	}
	isShellLoad := func(v ssa.Value, flds ...string) bool {
		u, ok := stripConv(v).(*ssa.UnOp)
		if !ok || u.Op != token.MUL {
			return false
		}
		tn, fld, ok := fieldOf(u.X)
		if !ok || tn != "readline.Shell" {
			return false
		}
		for _, f := range flds {
			if f == fld {
				return true
			}
		}
		return false
	}
	cursorWriters := p.writersExcept("core.Cursor", "pos")
	// a write through the stale pointers: a Cursor method that may write pos called on
	// the loaded Shell.cursor, or Shell.line / Shell.cursor passed as an argument
	isStaleWrite := func(in ssa.Instruction) bool {
		call, ok := in.(ssa.CallInstruction)
		if !ok {
			return false
		}
		com := call.Common()
		callee := com.StaticCallee()
		if callee == nil || !inRepo(callee) {
			return false
		}
		for i, a := range com.Args {
			if i == 0 && callee.Signature.Recv() != nil {
				if isShellLoad(a, "cursor") && cursorWriters[callee] && fnName(callee) != "(*core.Cursor).Pos" {
					return true
				}
				continue
			}
			if isShellLoad(a, "line", "cursor") {
				return true
			}
		}
		return false
	}
	for _, f := range p.RepoFuncs {
		if len(f.Blocks) == 0 || f.Pkg == nil || f.Pkg.Pkg.Path() != modPath {
			continue
		}
		eachInstr(f, func(in ssa.Instruction) {
			call, ok := in.(ssa.CallInstruction)
			if !ok {
				return
			}
			callee := call.Common().StaticCallee()
			if callee == nil || !definite[fnName(callee)] {
				return
			}
			if _, isDefer := in.(*ssa.Defer); isDefer {
				return
			}
			r.Fn(fnName(f))
			key := fmt.Sprintf("%s:%s#%d", fnName(f), fnName(callee), callOrdinal(f, in))
			w := pathAvoiding(f, in, isStaleWrite, isGetBuffer)
			if w == nil {
				r.OK(rule, key, p.IPos(in), "no cursor move / hand-over of the shell's line and cursor follows without a GetBuffer call")
				return
			}
			r.Bad(rule, key, p.IPos(in), "after this call, which enters or leaves a search mode, "+p.IPos(w)+" moves the cursor loaded from the shell (or hands its line / cursor on) without GetBuffer having been called again: it is the cursor of the buffer just left")
		})
	}
}

// checkSourcePos: C01.source-pos. history.Sources indexes names with sourcePos
// in Current / getHistoryLineChanges / Complete without a test: the class
// invariant "names empty, or 0 <= sourcePos < len(names)" is what keeps those
// indexes in range, and this rule checks the writers that maintain it.
func checkSourcePos(c *Ctx) {
	p, r := c.P, c.R
	const rule = "C01.source-pos"
	const tn = "history.Sources"
	r.Rule(rule, "K2", "history.Sources.names is indexed with sourcePos without a test (Current, getHistoryLineChanges, Complete): every store to sourcePos is the constant 0, or Cycle's step — made only when names is non-empty, +1 wrapped to 0 when it reaches len(names), -1 wrapped to len(names)-1 when it goes below 0 — and every store that can shrink names (anything but an append to the loaded slice) is followed by sourcePos = 0 on every path to the exit", 4)
	isLoad := func(v ssa.Value, fld string) bool { return isFieldLoad(stripConv(v), tn, fld) }
	isLenNames := func(v ssa.Value) bool {
		cl, ok := v.(*ssa.Call)
		if !ok {
			return false
		}
		b, isB := cl.Call.Value.(*ssa.Builtin)
		return isB && b.Name() == "len" && isLoad(cl.Call.Args[0], "names")
	}
	isZeroStore := func(in ssa.Instruction) bool {
		st, ok := isFieldStore(in, tn, "sourcePos")
		if !ok {
			return false
		}
		k, isK := constInt(st.Val)
		return isK && k == 0
	}
	nStores := 0
	for _, f := range p.RepoFuncs {
		if len(f.Blocks) == 0 {
			continue
		}
		var bf FactMap
		eachInstr(f, func(in ssa.Instruction) {
			// stores to sourcePos
			if st, ok := isFieldStore(in, tn, "sourcePos"); ok {
				if fa, ok := st.Addr.(*ssa.FieldAddr); ok {
					if _, fresh := fa.X.(*ssa.Alloc); fresh {
						return
					}
				}
				nStores++
				r.Fn(fnName(f))
				key := fmt.Sprintf("%s:store(sourcePos)#%d", fnName(f), nStores)
				if k, isK := constInt(st.Val); isK {
					r.Check(k == 0, rule, key, p.IPos(in), "stores 0", "stores a non-zero constant to sourcePos: nothing says names is that long")
					return
				}
				if bf == nil {
					bf = blockFacts(f)
				}
				nonEmpty := false
				for fc := range factsAt(bf, in) {
					rel, ok := relOf(fc.Cond, fc.Val)
					if !ok || !isLenNames(rel.X) {
						continue
					}
					if k, isK := constInt(rel.Y); isK && ((rel.Op == token.NEQ && k == 0) || (rel.Op == token.GTR && k == 0) || (rel.Op == token.GEQ && k == 1)) {
						nonEmpty = true
					}
				}
				bo, isBo := st.Val.(*ssa.BinOp)
				switch {
				case isBo && isLenNames(bo.X) && bo.Op == token.SUB:
					k, isK := constInt(bo.Y)
					r.Check(isK && k == 1 && nonEmpty, rule, key, p.IPos(in), "stores len(names)-1 where names is known non-empty", "stores len(names)-k without knowing names non-empty (or k != 1)")
				case isBo && isLoad(bo.X, "sourcePos") && (bo.Op == token.ADD || bo.Op == token.SUB):
					k, isK := constInt(bo.Y)
					if !isK || k != 1 || !nonEmpty {
						r.Bad(rule, key, p.IPos(in), "steps sourcePos by something other than 1, or without knowing names non-empty: with no source the index leaves 0 and the next source added is looked up out of range")
						return
					}
					// the wrap: a test of the stepped value against len(names) (for +1) or 0 (for -1) follows, whose wrapping branch stores the other end
					wrapped := false
					eachInstr(f, func(x ssa.Instruction) {
						iff, ok := x.(*ssa.If)
						if !ok || !instrDominates(in, x) {
							return
						}
						rel, ok := relOf(iff.Cond, true)
						if !ok || !isLoad(rel.X, "sourcePos") {
							return
						}
						tb := iff.Block().Succs[0]
						stores := func(pred func(ssa.Value) bool) bool {
							for _, y := range tb.Instrs {
								if s2, ok := isFieldStore(y, tn, "sourcePos"); ok && pred(s2.Val) {
									return true
								}
							}
							return false
						}
						if bo.Op == token.ADD && (rel.Op == token.EQL || rel.Op == token.GEQ) && isLenNames(rel.Y) && stores(func(v ssa.Value) bool { k, ok := constInt(v); return ok && k == 0 }) {
							wrapped = true
						}
						if k0, isK0 := constInt(rel.Y); bo.Op == token.SUB && isK0 && k0 == 0 && rel.Op == token.LSS && stores(func(v ssa.Value) bool {
							b2, ok := v.(*ssa.BinOp)
							return ok && b2.Op == token.SUB && isLenNames(b2.X)
						}) {
							wrapped = true
						}
					})
					r.Check(wrapped, rule, key, p.IPos(in), "stepped by one, names non-empty, wrapped at the end it can leave", "the stepped index is not wrapped back (== len(names) → 0, < 0 → len(names)-1): it leaves the range of names")
				default:
					r.Bad(rule, key, p.IPos(in), "stores a value to sourcePos that is neither 0, a wrapped step, nor len(names)-1")
				}
				return
			}
			// stores that can shrink names
			if st, ok := isFieldStore(in, tn, "names"); ok {
				if fa, ok := st.Addr.(*ssa.FieldAddr); ok {
					if _, fresh := fa.X.(*ssa.Alloc); fresh {
						return
					}
				}
				grows := false
				if cl, ok := st.Val.(*ssa.Call); ok {
					if b, isB := cl.Call.Value.(*ssa.Builtin); isB && b.Name() == "append" && isLoad(cl.Call.Args[0], "names") {
						grows = true
					}
				}
				if grows {
					return
				}
				r.Fn(fnName(f))
				key := fmt.Sprintf("%s:store(names)@%d", fnName(f), callOrdinalAny(f, in))
				w := pathAvoiding(f, in, func(x ssa.Instruction) bool { _, isRet := x.(*ssa.Return); return isRet }, isZeroStore)
				r.Check(w == nil, rule, key, p.IPos(in), "names may shrink here; sourcePos = 0 follows on every path to the exit", "names may shrink here and a path reaches the exit without resetting sourcePos: the index of the active source stays past the end, and Current() panics once a source is added again")
			}
		})
	}
	if nStores == 0 {
		r.Unk(rule, "stores(sourcePos)", "-", "no store to history.Sources.sourcePos found: anchor changed")
	}
}

// callOrdinalAny: ordinal of any instruction among the instructions of f, by position.
func callOrdinalAny(f *ssa.Function, target ssa.Instruction) int {
	n := 0
	for _, b := range f.Blocks {
		for _, in := range b.Instrs {
			if in == target {
				return n
			}
			if _, ok := in.(*ssa.Store); ok {
				n++
			}
		}
	}
	return -1
}

// checkSizeSentinel: C08.size-sentinel. history.NewSources tells "history-size
// was given a value" from "it holds its integer default 0" by asking for the
// variable as a string: the default is an int, for which GetString answers "".
// Both halves are needed for "no limit unless one is configured".
func checkSizeSentinel(c *Ctx) {
	p, r := c.P, c.R
	const rule = "C08.size-sentinel"
	r.Rule(rule, "K3", "NewSources installs a finite default limit (a positive constant stored to maxEntries) only under a condition that is the comparison of Config.GetString(\"history-size\") with \"\", and GetString returns the asserted string or \"\" and nothing else — so the integer default 0 of the variable reads as unset and recording is not limited unless a size was configured", 2)
	NS := p.Func("history.NewSources")
	GS := p.Func("(*inputrc.Config).GetString")
	if NS == nil || GS == nil {
		r.Unk(rule, "history.NewSources / (*inputrc.Config).GetString", "-", "anchor not found")
		return
	}
	r.Fn(fnName(NS), fnName(GS))
	// (a) every store of a positive constant to maxEntries is under GetString("history-size") != ""
	bf := blockFacts(NS)
	n := 0
	eachInstr(NS, func(in ssa.Instruction) {
		st, ok := isFieldStore(in, "history.Sources", "maxEntries")
		if !ok {
			return
		}
		k, isK := constInt(st.Val)
		if !isK || k <= 0 {
			return
		}
		n++
		guarded := false
		for fc := range factsAt(bf, in) {
			rel, ok := relOf(fc.Cond, fc.Val)
			if !ok || rel.Op != token.NEQ {
				continue
			}
			if s, isS := constString(rel.Y); !isS || s != "" {
				continue
			}
			cl, isCall := rel.X.(*ssa.Call)
			if !isCall || staticCallee(cl) != GS || len(cl.Call.Args) != 2 {
				continue
			}
			if name, isS := constString(cl.Call.Args[1]); isS && name == "history-size" {
				guarded = true
			}
		}
		r.Check(guarded, rule, fmt.Sprintf("history.NewSources:store(maxEntries=%d)", k), p.IPos(in), "under GetString(\"history-size\") != \"\"", "the default limit is installed under a condition that is not `GetString(\"history-size\") != \"\"`: with the variable at its integer default (always present in the configuration) recording silently stops at that many entries")
	})
	if n == 0 {
		r.OK(rule, "history.NewSources:no-default-limit", p.Pos(NS.Pos()), "no positive constant is stored to maxEntries")
	}
	// (b) GetString returns the asserted string, or ""
	okAll, nRet := true, 0
	var badAt ssa.Instruction
	eachInstr(GS, func(in ssa.Instruction) {
		ret, ok := in.(*ssa.Return)
		if !ok || len(ret.Results) != 1 {
			return
		}
		nRet++
		v := ret.Results[0]
		if s, isS := constString(v); isS && s == "" {
			return
		}
		if ex, ok := v.(*ssa.Extract); ok && ex.Index == 0 {
			if ta, ok := ex.Tuple.(*ssa.TypeAssert); ok && ta.CommaOk {
				if b, isB := ta.AssertedType.Underlying().(*types.Basic); isB && b.Kind() == types.String {
					return
				}
			}
		}
		okAll = false
		badAt = in
	})
	pos := p.Pos(GS.Pos())
	if badAt != nil {
		pos = p.IPos(badAt)
	}
	r.Check(okAll && nRet > 0, rule, "(*inputrc.Config).GetString:returns", pos, "returns the asserted string or \"\"", "GetString returns something other than the stored string or \"\" (a formatted integer or boolean): callers that tell \"unset\" from the integer default by an empty answer — NewSources for history-size — now see a value")
}

// checkC04Round5: the three display defects the emulator triage found (and a
// seeding agent independently): clear-to-end-of-row at a full row, "the row is
// full" tested by lineCol alone, and rows computed by dividing the total width.
func checkC04Round5(c *Ctx) {
	p, r := c.P, c.R
	isWidth := func(v ssa.Value) bool {
		cl, ok := v.(*ssa.Call)
		return ok && calleeName(cl) == "term.GetWidth"
	}
	isFieldOf := func(tn string, flds ...string) func(ssa.Value) bool {
		return func(v ssa.Value) bool {
			u, ok := v.(*ssa.UnOp)
			if !ok || u.Op != token.MUL {
				return false
			}
			t, f, ok := fieldOf(u.X)
			if !ok || t != tn {
				return false
			}
			for _, x := range flds {
				if x == f {
					return true
				}
			}
			return false
		}
	}
	// ---- C04.full-row-clear
	r.Rule("C04.full-row-clear", "K4", "where the text of a buffer line is followed by \"clear to the end of the row\" in the same output (display.Engine.displayLine for the last line, core.DisplayLine for the others), the clear is added only under a test that depends on where the line ends (lineCol, or a width compared with term.GetWidth): at a full row the cursor stays on the last column with the wrap pending, and a VT100 erases the character under it", 2)
	for _, fn := range []string{"(*display.Engine).displayLine", "core.DisplayLine"} {
		f := p.Func(fn)
		if f == nil {
			r.Unk("C04.full-row-clear", fn, "-", "anchor not found")
			continue
		}
		r.Fn(fn)
		bf := blockFacts(f)
		n := 0
		eachInstr(f, func(in ssa.Instruction) {
			bo, ok := in.(*ssa.BinOp)
			if !ok || bo.Op != token.ADD {
				return
			}
			s, isS := constString(bo.Y)
			if !isS || s != "\x1b[0K" {
				return
			}
			if _, isK := bo.X.(*ssa.Const); isK {
				return
			}
			n++
			guarded := false
			for fc := range factsAt(bf, in) {
				if dependsOn(fc.Cond, func(v ssa.Value) bool { return isWidth(v) || isFieldOf("display.Engine", "lineCol")(v) }) {
					guarded = true
				}
			}
			r.Check(guarded, "C04.full-row-clear", fmt.Sprintf("%s:clear-after-text#%d", fn, n), p.IPos(in), "added under a test of where the line ends", "\"clear to the end of the row\" is appended to the text of the line unconditionally: when the line ends exactly on the last column, the terminal erases its last character")
		})
		if n == 0 {
			r.OK("C04.full-row-clear", fn+":no-clear-after-text", p.Pos(f.Pos()), "the function does not append the clear sequence to line text")
		}
	}
	// ---- C04.full-row-nonempty
	r.Rule("C04.full-row-nonempty", "K3", "displayLine moves to the next row after a line that fills its last row exactly; lineCol == 0 alone also holds for a row with nothing on it (no prompt and an empty buffer, a buffer ending with a newline): the test also depends on the prompt width (startCols) or on the text of the buffer, otherwise every redisplay of such a buffer moves one row down", 1)
	if DL := p.Func("(*display.Engine).displayLine"); DL != nil {
		bf := blockFacts(DL)
		n := 0
		eachInstr(DL, func(in ssa.Instruction) {
			cl, ok := in.(*ssa.Call)
			if !ok || !strings.HasPrefix(calleeName(cl), "fmt.Print") {
				return
			}
			// the argument is the "\r\n" constant
			isNL := false
			for _, a := range cl.Call.Args {
				if dependsOn(a, func(v ssa.Value) bool { s, ok := constString(v); return ok && s == "\r\n" }) {
					isNL = true
				}
			}
			if !isNL {
				return
			}
			n++
			col, other := false, false
			for fc := range factsAt(bf, in) {
				if dependsOn(fc.Cond, isFieldOf("display.Engine", "lineCol")) {
					col = true
				}
				if dependsOn(fc.Cond, func(v ssa.Value) bool { return isFieldOf("display.Engine", "startCols", "line")(v) }) {
					other = true
				}
			}
			r.Check(col && other, "C04.full-row-nonempty", fmt.Sprintf("(*display.Engine).displayLine:newline#%d", n), p.IPos(in), "under lineCol and the prompt width / buffer text", "the move to the next row after the line is decided by lineCol alone (or not by lineCol at all): with no prompt and an empty buffer, or a buffer ending with a newline, the row is empty, not full, and every redisplay moves one row down")
		})
		if n == 0 {
			r.Unk("C04.full-row-nonempty", "(*display.Engine).displayLine:newline", p.Pos(DL.Pos()), "no newline print found: anchor changed")
		}
	}
	// ---- C04.wide-wrap
	r.Rule("C04.wide-wrap", "K3", "strutil.LineSpan (behind the cursor, line and hint coordinates) does not obtain rows and columns by dividing a width that depends on the text of the line by the terminal width: a double-width character that does not fit in the last column wraps early and leaves that column unused, which a division of the total cannot see", 1)
	if LS := p.Func("strutil.LineSpan"); LS != nil && len(LS.Params) > 0 {
		r.Fn(fnName(LS))
		lineParam := LS.Params[0]
		n, bad := 0, 0
		eachInstr(LS, func(in ssa.Instruction) {
			bo, ok := in.(*ssa.BinOp)
			if !ok || (bo.Op != token.QUO && bo.Op != token.REM) {
				return
			}
			if !dependsOn(bo.Y, isWidth) {
				return
			}
			n++
			if dependsOn(bo.X, func(v ssa.Value) bool { return v == ssa.Value(lineParam) }) {
				bad++
				r.Bad("C04.wide-wrap", fmt.Sprintf("strutil.LineSpan:div#%d", n), p.IPos(in), "rows / columns are the quotient / remainder of a width that includes the text of the line by the terminal width: after a double-width character wrapped before the last column, the cursor is computed one cell short")
			}
		})
		if bad == 0 {
			r.OK("C04.wide-wrap", "strutil.LineSpan:divisions", p.Pos(LS.Pos()), fmt.Sprintf("%d division(s) by the terminal width, none on a width that depends on the line", n))
		}
	} else {
		r.Unk("C04.wide-wrap", "strutil.LineSpan", "-", "anchor not found")
	}
}

// ---------------------------------------------------------------------------
// Round-5 seeding: rules written for changes the first run missed.

// mustPassAllReturns: every path from the entry of f to a return passes an instruction satisfying via.
func mustPassAllReturns(f *ssa.Function, via func(ssa.Instruction) bool) ssa.Instruction {
	return pathAvoiding(f, nil, func(x ssa.Instruction) bool { _, isRet := x.(*ssa.Return); return isRet }, via)
}

// checkRound5Small registers the small structural rules of round 5 for property id.
func checkRound5Small(c *Ctx, id string) {
	p, r := c.P, c.R
	switch id {
	case "C05":
		// dispatchCharacter hands back the bytes it read on every exit
		r.Rule("C05.character-keys-returned", "K3", "every exit of (*keymap.Engine).dispatchCharacter returns, as the keys to push back or mark as matched, a value built from the bytes it was given (`read`, possibly grown by the continuation bytes popped): an exit that returns something else loses the first bytes of a character split across two reads", 2)
		if DC := p.Func("(*keymap.Engine).dispatchCharacter"); DC != nil && len(DC.Params) >= 2 {
			r.Fn(fnName(DC))
			read := DC.Params[1]
			n := 0
			eachInstr(DC, func(in ssa.Instruction) {
				ret, ok := in.(*ssa.Return)
				if !ok || len(ret.Results) != 3 {
					return
				}
				n++
				okAll := true
				for _, v := range mayValues(ret.Results[2]) {
					if !dependsOn(v, func(x ssa.Value) bool { return x == ssa.Value(read) }) {
						okAll = false
					}
				}
				r.Check(okAll, "C05.character-keys-returned", fmt.Sprintf("(*keymap.Engine).dispatchCharacter:return#%d", n), p.IPos(in), "returns the bytes read", "this exit returns keys that are not the bytes read (a never-assigned result): the bytes of the unfinished character are neither pushed back nor marked, and are lost when the rest arrives in the next read")
				// an exit that can be reached after a continuation byte was popped returns the grown character, not the bytes as given:
				// a popped byte that is not handed back is neither pushed back nor marked as matched
				grown := func(x ssa.Value) bool {
					cl, ok := x.(*ssa.Call)
					if !ok {
						return false
					}
					b, ok := cl.Call.Value.(*ssa.Builtin)
					return ok && b.Name() == "append"
				}
				for _, pop := range callsTo(DC, false, "core.PopKey", "(*core.Keys).Pop") {
					if pathAvoiding(DC, pop, func(x ssa.Instruction) bool { return x == in }, func(ssa.Instruction) bool { return false }) == nil {
						continue
					}
					inc := dependsOn(ret.Results[2], grown)
					r.Check(inc, "C05.character-keys-returned", fmt.Sprintf("(*keymap.Engine).dispatchCharacter:return#%d:popped-bytes", n), p.IPos(in), "reachable after a pop: returns the character grown by the popped bytes", "this exit can be reached after continuation bytes were popped from the key queue, but returns the bytes as they were given: the popped bytes are neither pushed back nor inserted, so a character cut after its second byte by a read boundary is lost")
				}
			})
		} else {
			r.Unk("C05.character-keys-returned", "(*keymap.Engine).dispatchCharacter", "-", "anchor not found")
		}
		// a query about the key that ran a command does not eat the keys typed behind it
		r.Rule("C05.terminator-query-consumes", "K10", "(*keymap.Engine).InputIsTerminator — asked by abort whether the key that ran it ends the call — cannot reach the functions that pop keys off the stack: popping there takes the keys typed *behind* the interrupt key when they arrived in the same read, so `abc C-c x RET` in one read returns the line without interrupt and loses `x`, while C-c alone in its read interrupts", 1)
		if IT := p.Func("(*keymap.Engine).InputIsTerminator"); IT != nil {
			r.Fn(fnName(IT))
			reach := p.reachFrom([]*ssa.Function{IT}, func(e *callgraph.Edge) bool { return e.Callee.Func != nil && inRepo(e.Callee.Func) })
			hit := ""
			for _, n := range []string{"core.PopKey", "(*core.Keys).Pop", "core.PopForce"} {
				if f := p.Func(n); f != nil {
					if _, ok := reach[f]; ok {
						hit = cgPath(reach, f)
					}
				}
			}
			r.Check(hit == "", "C05.terminator-query-consumes", fnName(IT)+":pops-keys", p.Pos(IT.Pos()), "does not reach a key-popping function", "InputIsTerminator dispatches the *pending* keys against the terminator binds ("+hit+"): with keys typed behind the interrupt key in the same read it pops one of them, finds no terminator and abort returns without interrupting; with the stack empty it only works because the dispatcher hands back the bind that is still active")
		} else {
			r.Unk("C05.terminator-query-consumes", "(*keymap.Engine).InputIsTerminator", "-", "anchor not found")
		}
		// what a read returns is decoded as UTF-8 only up to its last whole character
		r.Rule("C05.decode-whole-characters", "K3", "on the path of WaitAvailableKeys, bytes that come straight from a terminal read are decoded to runes ([]rune(string(b))) only after a test that their last character is whole (utf8.FullRune / Valid / DecodeLastRune deciding what is decoded): a read can end in the middle of a character, and its first bytes decoded alone become U+FFFD, so that the text typed depends on how it was chunked", 1)
		if WK := p.Func("core.WaitAvailableKeys"); WK != nil {
			fs := []*ssa.Function{WK}
			for _, cl := range allCalls(WK, false) {
				if h := staticCallee(cl); h != nil && inRepo(h) && len(h.Blocks) > 0 && h.Package() == WK.Package() && !strings.Contains(fnName(h), "readInputFiltered") {
					fs = append(fs, h)
				}
			}
			isRead := func(f *ssa.Function) func(ssa.Value) bool {
				return func(v ssa.Value) bool {
					if cl, ok := v.(*ssa.Call); ok && strings.Contains(calleeName(cl), "readInputFiltered") {
						return true
					}
					if pa, ok := v.(*ssa.Parameter); ok && f != WK {
						if sl, ok := pa.Type().Underlying().(*types.Slice); ok {
							if b, ok := sl.Elem().Underlying().(*types.Basic); ok && b.Kind() == types.Uint8 {
								return true
							}
						}
					}
					return false
				}
			}
			isWholeTest := func(v ssa.Value) bool {
				cl, ok := v.(*ssa.Call)
				if !ok {
					return false
				}
				switch calleeName(cl) {
				case "unicode/utf8.FullRune", "unicode/utf8.Valid", "unicode/utf8.DecodeLastRune", "unicode/utf8.FullRuneInString", "unicode/utf8.ValidString":
					return true
				}
				return false
			}
			n := 0
			seenF := map[*ssa.Function]bool{}
			for _, f := range fs {
				if seenF[f] {
					continue
				}
				seenF[f] = true
				eachInstr(f, func(in ssa.Instruction) {
					cv, ok := in.(*ssa.Convert)
					if !ok || typeStr(cv.Type()) != "[]rune" {
						return
					}
					inner, ok := cv.X.(*ssa.Convert)
					if !ok || typeStr(inner.X.Type()) != "[]byte" {
						return
					}
					if !dependsOn(inner.X, isRead(f)) {
						return
					}
					r.Fn(fnName(f))
					guarded := dependsOn(inner.X, isWholeTest)
					r.Check(guarded, "C05.decode-whole-characters", siteKey(f, "decode-read", n), p.IPos(cv), "what is decoded is decided by a whole-character test", "the bytes of a terminal read are decoded to runes as they came: when the read ends inside a multibyte character (a paste cut at the read size, a slow link), its first bytes become U+FFFD and the character is lost — the same bytes in one read are decoded correctly")
					n++
				})
			}
			if n == 0 {
				r.OK("C05.decode-whole-characters", "core.WaitAvailableKeys:no-decode", p.Pos(WK.Pos()), "the read bytes are not decoded to runes on this path")
			}
		} else {
			r.Unk("C05.decode-whole-characters", "core.WaitAvailableKeys", "-", "anchor not found")
		}
		// ConvertMeta converts every key: the input is returned as it is only when empty
		r.Rule("C05.convert-every-key", "K4", "strutil.ConvertMeta returns its argument unconverted only when it is empty: the conversion of a read applies to every Meta character in it, wherever it stands — a shortcut on the first key leaves a Meta character that is not first in its read unconverted, so the same bytes mean different things depending on how they are chunked", 1)
		if CM := p.Func("strutil.ConvertMeta"); CM != nil && len(CM.Params) == 1 {
			r.Fn(fnName(CM))
			keys := CM.Params[0]
			bf := blockFacts(CM)
			n := 0
			eachInstr(CM, func(in ssa.Instruction) {
				ret, ok := in.(*ssa.Return)
				if !ok || len(ret.Results) != 1 {
					return
				}
				direct := false
				for _, v := range mayValues(ret.Results[0]) {
					if stripConv(v) == ssa.Value(keys) {
						direct = true
					}
				}
				if !direct {
					return
				}
				n++
				// the only facts on this path: len(keys) == 0
				onlyEmpty := true
				for fc := range factsAt(bf, in) {
					rel, ok := relOf(fc.Cond, fc.Val)
					isLen := false
					if ok {
						if cl, isCall := rel.X.(*ssa.Call); isCall {
							if b, isB := cl.Call.Value.(*ssa.Builtin); isB && b.Name() == "len" && cl.Call.Args[0] == ssa.Value(keys) {
								if k, isK := constInt(rel.Y); isK && k == 0 && rel.Op == token.EQL {
									isLen = true
								}
							}
						}
					}
					if !isLen {
						onlyEmpty = false
					}
				}
				r.Check(onlyEmpty && len(factsAt(bf, in)) > 0, "C05.convert-every-key", fmt.Sprintf("strutil.ConvertMeta:unconverted-return#%d", n), p.IPos(in), "only for an empty argument", "the argument is returned unconverted under a condition other than `len(keys) == 0` (a test of its first key): a Meta character later in the same read is not converted")
			})
			if n == 0 {
				r.OK("C05.convert-every-key", "strutil.ConvertMeta:no-unconverted-return", p.Pos(CM.Pos()), "no exit returns the argument unconverted")
			}
		} else {
			r.Unk("C05.convert-every-key", "strutil.ConvertMeta", "-", "anchor not found")
		}
	case "C03":
		// the pushed-back key of a shorter bind does not depend on the bind having a command (a macro has none)
		r.Rule("C03.ruled-out-key-macro", "K4", "in MatchMain, the case that gives back the key which ruled out a longer sequence is not conditioned on the looked-up command being non-nil: a bind to a macro has an action and no command, and its ruling-out key belongs to the next sequence all the same", 1)
		if MM := p.Func("keymap.MatchMain"); MM != nil {
			r.Fn(fnName(MM))
			bf := blockFacts(MM)
			n := 0
			for _, mk := range callsTo(MM, false, "core.MatchedKeys") {
				com := mk.Common()
				// the form with a rest: MatchedKeys(keys, matched, rest...) where rest is a non-empty variadic slice built from read[len(matched):]
				if len(com.Args) < 3 {
					continue
				}
				if _, isSlice := com.Args[2].(*ssa.Slice); !isSlice {
					continue
				}
				n++
				bad := false
				for fc := range factsAt(bf, mk.(ssa.Instruction)) {
					v, _, isNil := nilCmp(fc.Cond)
					if !isNil {
						continue
					}
					if _, isSig := v.Type().Underlying().(*types.Signature); isSig {
						bad = true
					}
				}
				r.Check(!bad, "C03.ruled-out-key-macro", fmt.Sprintf("keymap.MatchMain:pushback#%d", n), p.IPos(mk.(ssa.Instruction)), "not conditioned on the command", "the ruling-out key is given back only when the shorter bind has a command: when it is a macro (action, no command) the key is dropped with the matched ones, and the sequence typed after the macro's loses its first key")
			}
			if n == 0 {
				r.Unk("C03.ruled-out-key-macro", "keymap.MatchMain:pushback", p.Pos(MM.Pos()), "no MatchedKeys call with a rest found: anchor changed")
			}
		} else {
			r.Unk("C03.ruled-out-key-macro", "keymap.MatchMain", "-", "anchor not found")
		}
	case "C06":
		// the search mode is left after the match was inserted
		r.Rule("C06.search-stop-last", "K1", "in a function of the root package that inserts a history match into the search buffer (History.InsertMatch) and leaves the non-incremental search mode (NonIsearchStop), the stop — which clamps the cursor for vi command mode on the way out — does not run before the insertion: called first, it clamps the cursor of the line as it was, and the inserted match leaves the cursor past the last character", 2)
		n := 0
		for _, f := range p.RepoFuncs {
			if len(f.Blocks) == 0 || f.Pkg == nil || f.Pkg.Pkg.Path() != modPath {
				continue
			}
			ins := callsTo(f, false, "(*history.Sources).InsertMatch")
			if len(ins) == 0 {
				continue
			}
			for i, st := range callsTo(f, false, "(*completion.Engine).NonIsearchStop") {
				if _, isDefer := st.(*ssa.Defer); isDefer {
					n++
					r.OK("C06.search-stop-last", fmt.Sprintf("%s:stop#%d", fnName(f), i), p.IPos(st.(ssa.Instruction)), "deferred: runs after the insertion")
					continue
				}
				n++
				r.Fn(fnName(f))
				w := pathAvoiding(f, st.(ssa.Instruction), func(x ssa.Instruction) bool { return isCallTo(x, "(*history.Sources).InsertMatch") }, func(ssa.Instruction) bool { return false })
				r.Check(w == nil, "C06.search-stop-last", fmt.Sprintf("%s:stop#%d", fnName(f), i), p.IPos(st.(ssa.Instruction)), "no insertion follows the stop", "History.InsertMatch can run after NonIsearchStop: the vi-command cursor clamp made on leaving the search sees the line before the match is inserted, and the cursor is left after the last character of the inserted line")
			}
		}
		if n == 0 {
			r.Unk("C06.search-stop-last", "NonIsearchStop-with-InsertMatch", "-", "no function pairs the two calls: anchor changed")
		}
		// the partial autosuggest insertion of the word movements happens at the end of the line only
		r.Rule("C06.autosuggest-at-end", "K4", "insertAutosuggestPartial — called by forward-word / vi-forward-word, which are movements — writes the line only where the cursor is known to be on or after the last character (the `cpos < Len()-1` exit was not taken): anywhere else the movement would insert a piece of the suggestion in the middle of the text", 1)
		if IA := p.Func("(*readline.Shell).insertAutosuggestPartial"); IA != nil {
			r.Fn(fnName(IA))
			bf := blockFacts(IA)
			n := 0
			for i, w := range callsTo(IA, false, "(*core.Line).Insert", "(*core.Line).InsertBetween", "(*core.Line).Set") {
				n++
				atEnd := false
				for fc := range factsAt(bf, w.(ssa.Instruction)) {
					rel, ok := relOf(fc.Cond, fc.Val)
					if !ok || (rel.Op != token.GEQ && rel.Op != token.GTR) {
						continue
					}
					lhsPos := dependsOn(rel.X, func(v ssa.Value) bool { cl, ok := v.(*ssa.Call); return ok && calleeName(cl) == "(*core.Cursor).Pos" })
					rhsLen := dependsOn(rel.Y, func(v ssa.Value) bool { cl, ok := v.(*ssa.Call); return ok && calleeName(cl) == "(*core.Line).Len" })
					// cpos >= Len()-1  (negation of cpos < Len()-1); a `>` would exclude the last character itself
					if lhsPos && rhsLen && rel.Op == token.GEQ {
						atEnd = true
					}
				}
				r.Check(atEnd, "C06.autosuggest-at-end", fmt.Sprintf("(*readline.Shell).insertAutosuggestPartial:write#%d", i), p.IPos(w.(ssa.Instruction)), "under cpos >= Len()-1", "the insertion is not under `cpos >= Len()-1`: with the cursor inside the line, forward-word inserts a slice of the suggested history line into the text")
			}
			if n == 0 {
				r.Unk("C06.autosuggest-at-end", "(*readline.Shell).insertAutosuggestPartial:writes", p.Pos(IA.Pos()), "no line write found: anchor changed")
			}
		} else {
			r.Unk("C06.autosuggest-at-end", "(*readline.Shell).insertAutosuggestPartial", "-", "anchor not found")
		}
	case "C20":
		// the completion grid rebuilt on a resize is laid out for the new width
		r.Rule("C20.resize-fresh-width", "K3", "the terminal width a completion group is laid out for (group.termWidth) is asked from the terminal (term.GetWidth) when the group is built, or comes from an Engine field that every exported Engine method reaching the group constructor — GenerateCached, run by the resize watcher, among them — writes before reaching it: a width cached by the other entry points leaves the grid rebuilt on SIGWINCH laid out for the old width (rows wrap, the rows used are undercounted, every redisplay moves the prompt down)", 1)
		if NCG := p.Func("(*completion.Engine).newCompletionGroup"); NCG != nil {
			r.Fn(fnName(NCG))
			n := 0
			eachInstr(NCG, func(in ssa.Instruction) {
				st, ok := isFieldStore(in, "completion.group", "termWidth")
				if !ok {
					return
				}
				key := siteKey(NCG, "store(termWidth)", n)
				n++
				v := stripConv(st.Val)
				if cl, isC := v.(*ssa.Call); isC && calleeName(cl) == "term.GetWidth" {
					r.OK("C20.resize-fresh-width", key, p.IPos(st), "asked from the terminal when the group is built")
					return
				}
				u, isU := v.(*ssa.UnOp)
				var tn, fld string
				okF := false
				if isU && u.Op == token.MUL {
					tn, fld, okF = fieldOf(u.X)
				}
				if !okF || tn != "completion.Engine" {
					r.Unk("C20.resize-fresh-width", key, p.IPos(st), "the width of the group is neither term.GetWidth() nor an Engine field: "+p.descValue(v))
					return
				}
				// every exported Engine method from which the constructor is reachable inside the package writes the field first
				pkgOnly := func(e *callgraph.Edge) bool {
					return e.Callee.Func != nil && e.Callee.Func.Package() == NCG.Package() || (e.Callee.Func != nil && e.Callee.Func.Parent() != nil && inRepo(e.Callee.Func))
				}
				bad := ""
				for _, E := range p.RepoFuncs {
					if E.Package() != NCG.Package() || E.Signature.Recv() == nil || !token.IsExported(E.Name()) || len(E.Blocks) == 0 {
						continue
					}
					reach := p.reachFrom([]*ssa.Function{E}, pkgOnly)
					if _, ok := reach[NCG]; !ok || E == NCG {
						continue
					}
					isW := func(x ssa.Instruction) bool { _, ok := isFieldStore(x, tn, fld); return ok }
					leads := func(x ssa.Instruction) bool {
						cl, ok := x.(ssa.CallInstruction)
						if !ok {
							return false
						}
						h := staticCallee(cl)
						if h == nil {
							// dynamic call (the closure handed to EachTag): conservatively leads there
							return !cl.Common().IsInvoke() && cl.Common().StaticCallee() == nil && false
						}
						if h == NCG {
							return true
						}
						sub := p.reachFrom([]*ssa.Function{h}, pkgOnly)
						_, ok = sub[NCG]
						return ok && h.Package() == NCG.Package()
					}
					if w := pathAvoiding(E, nil, leads, isW); w != nil {
						bad = fnName(E)
						r.Bad("C20.resize-fresh-width", key+"|"+fnName(E), p.IPos(w), fnName(E)+" reaches the group constructor without writing "+tn+"."+fld+" first: the groups it builds are laid out for the terminal width of an earlier generation — on a resize (GenerateCached) the grid keeps the old width")
					}
				}
				if bad == "" {
					r.OK("C20.resize-fresh-width", key, p.IPos(st), "every exported entry writes "+fld+" before building groups")
				}
			})
			if n == 0 {
				r.Unk("C20.resize-fresh-width", fnName(NCG)+":store(termWidth)", p.Pos(NCG.Pos()), "the group constructor does not set the width: anchor changed")
			}
		} else {
			r.Unk("C20.resize-fresh-width", "(*completion.Engine).newCompletionGroup", "-", "anchor not found")
		}
		// a resize regenerates the completions without forgetting the candidate inserted in the line
		r.Rule("C20.regeneration-keeps-selection", "K2", "(*completion.Engine).prepare — run by every regeneration of the completions, the one made by the resize watcher included — and the helpers it calls before generating do not write Engine.selected: the candidate virtually inserted in the line lives there, and a SIGWINCH between two keys would otherwise drop it from the line that Readline returns", 1)
		if PR := p.Func("(*completion.Engine).prepare"); PR != nil {
			r.Fn(fnName(PR))
			writesSel := func(f *ssa.Function) ssa.Instruction {
				var hit ssa.Instruction
				eachInstr(f, func(in ssa.Instruction) {
					if _, ok := isFieldStore(in, "completion.Engine", "selected"); ok && hit == nil {
						hit = in
					}
				})
				return hit
			}
			var bad ssa.Instruction
			where := ""
			if h := writesSel(PR); h != nil {
				bad, where = h, fnName(PR)
			}
			for _, cl := range allCalls(PR, false) {
				h := staticCallee(cl)
				if h == nil || !inRepo(h) || len(h.Blocks) == 0 || h.Package() != PR.Package() {
					continue
				}
				// generate() may accept a unique candidate further down: that is the generation itself, not the preparation
				if strings.HasSuffix(fnName(h), ").generate") {
					continue
				}
				if x := writesSel(h); x != nil && bad == nil {
					bad, where = x, fnName(h)
				}
			}
			pos := p.Pos(PR.Pos())
			if bad != nil {
				pos = p.IPos(bad)
			}
			r.Check(bad == nil, "C20.regeneration-keeps-selection", fnName(PR)+":selected-untouched", pos, "neither prepare nor its helpers write Engine.selected", "preparing a regeneration writes Engine.selected (in "+where+"): when the terminal is resized while a candidate is inserted, the regeneration forgets it and the line returned lacks the candidate the keys selected")
		} else {
			r.Unk("C20.regeneration-keeps-selection", "(*completion.Engine).prepare", "-", "anchor not found")
		}
		r.Rule("C20.reading-before-read", "K1", "(*Keys).ReadKey announces itself (stores reading = true) before it can read the terminal or wait for the main loop's keys, on every path: GetCursorPos, run by a resize or a Printf from another goroutine, reads the terminal itself unless waiting or reading is set — two readers on one terminal lose a key or park forever on the cursor channel", 1)
		if RK := p.Func("(*core.Keys).ReadKey"); RK != nil {
			r.Fn(fnName(RK))
			isSet := func(in ssa.Instruction) bool {
				st, ok := isFieldStore(in, "core.Keys", "reading")
				if !ok {
					return false
				}
				b, isB := constBool(st.Val)
				return isB && b
			}
			isRead := func(in ssa.Instruction) bool {
				if isCallTo(in, "(*core.Keys).readInputFiltered") {
					return true
				}
				if u, ok := in.(*ssa.UnOp); ok && u.Op == token.ARROW {
					return true
				}
				return false
			}
			w := pathAvoiding(RK, nil, isRead, isSet)
			pos := p.Pos(RK.Pos())
			if w != nil {
				pos = p.IPos(w)
			}
			r.Check(w == nil, "C20.reading-before-read", "(*core.Keys).ReadKey:reads", pos, "reading is set before every read", "a path reaches a terminal read (or the wait for the main loop's keys) without having set reading: a cursor query from the resize or Printf goroutine then reads the terminal at the same time")
		} else {
			r.Unk("C20.reading-before-read", "(*core.Keys).ReadKey", "-", "anchor not found")
		}
	case "C02":
		// the binds are compared with the keys read in one notation
		r.Rule("C02.bind-sequences-converted", "K3", "(*keymap.Engine).matchBind compares the keys read with strutil.ConvertMeta(bound sequence) on every path — whatever convert-meta says: the Meta binds are stored as Latin-1 runes (M-c = U+00E3), and compared as they are with the UTF-8 bytes read a typed `ã` would run the Meta command instead of being inserted", 2)
		if MB := p.Func("(*keymap.Engine).matchBind"); MB != nil {
			r.Fn(fnName(MB))
			n := 0
			check := func(in ssa.Instruction, v ssa.Value, what string) {
				// the operand that is not the parameter `keys` (converted)
				if stripConv(v) == ssa.Value(MB.Params[1]) {
					return
				}
				if _, isK := v.(*ssa.Const); isK {
					return
				}
				n++
				leaves := backSlice(v, &SliceOpts{P: p, IsSource: func(x ssa.Value) bool { return isCallNamed(x, "strutil.ConvertMeta") }})
				ok := len(leaves) > 0
				why := ""
				for _, l := range leaves {
					if l.Kind != LeafSource {
						ok = false
						why = p.descValue(l.V) + " [" + l.Why + "]"
					}
				}
				r.Check(ok, "C02.bind-sequences-converted", fmt.Sprintf("%s:%s#%d", fnName(MB), what, n-1), p.IPos(in), "compared sequence = ConvertMeta(bound sequence)", "the bound sequence is compared with the keys read without strutil.ConvertMeta on some path: "+why)
			}
			eachInstr(MB, func(in ssa.Instruction) {
				if cl, ok := in.(*ssa.Call); ok && calleeName(cl) == "strings.HasPrefix" {
					check(in, cl.Call.Args[0], "HasPrefix")
				}
				if bo, ok := in.(*ssa.BinOp); ok && bo.Op == token.EQL {
					if bt, isB := bo.X.Type().Underlying().(*types.Basic); isB && bt.Info()&types.IsString != 0 {
						check(in, bo.X, "==")
						check(in, bo.Y, "==")
					}
				}
			})
			if n == 0 {
				r.Unk("C02.bind-sequences-converted", fnName(MB), p.Pos(MB.Pos()), "no comparison of a bound sequence found: anchors changed")
			}
		} else {
			r.Unk("C02.bind-sequences-converted", "(*keymap.Engine).matchBind", "-", "anchor not found")
		}
	case "C14":
		// the prefix the candidates replace is computed afresh by every generation
		r.Rule("C14.prefix-fresh", "K1", "every function that computes the completion prefix (calls setPrefix) writes Engine.prefix on every path before it returns or generates: setPrefix leaves the field alone when there is no word before the cursor, so a prefix left by an earlier (cancelled) completion would be cut from a line that does not hold it", 1)
		if SP := p.Func("(*completion.Engine).setPrefix"); SP != nil {
			n := 0
			for _, e := range p.callersOf(SP) {
				F := e.Caller.Func
				if F == nil || !inRepo(F) {
					continue
				}
				n++
				r.Fn(fnName(F))
				isStore := func(in ssa.Instruction) bool {
					_, ok := isFieldStore(in, "completion.Engine", "prefix")
					return ok
				}
				use := func(in ssa.Instruction) bool {
					return isReturn(in) || isCallTo(in, "(*completion.Engine).generate")
				}
				w := pathAvoiding(F, nil, use, isStore)
				r.Check(w == nil, "C14.prefix-fresh", fnName(F)+":prefix-written", p.Pos(F.Pos()), "Engine.prefix is written on every path", "a path through "+fnName(F)+" reaches the generation of the candidates without writing Engine.prefix (setPrefix returns early when there is no character before the cursor): the prefix of a previous, cancelled completion is cut from the line — text after the cursor is lost when completing at the beginning of the line")
			}
			if n == 0 {
				r.Unk("C14.prefix-fresh", "(*completion.Engine).setPrefix:callers", p.Pos(SP.Pos()), "setPrefix has no caller")
			}
		} else {
			r.Unk("C14.prefix-fresh", "(*completion.Engine).setPrefix", "-", "anchor not found")
		}
		// Ctrl-C is bound to abort in the local keymaps too: the loop that binds it in every keymap runs after the last keymap is installed
		r.Rule("C14.abort-bound-everywhere", "K1", "in loadBuiltinBinds every keymap installed in config.Binds is installed before the loop that binds Ctrl-C to abort in all keymaps: a local keymap (menu-select, isearch) installed afterwards has no Ctrl-C, the key falls through to the main keymap after the inserted candidate was committed, and Ctrl-C in the menu ends the Readline call with the candidate in the line", 2)
		if LB := p.Func("(*keymap.Engine).loadBuiltinBinds"); LB != nil {
			r.Fn(fnName(LB))
			isAbortBind := func(in ssa.Instruction) bool {
				mu, ok := in.(*ssa.MapUpdate)
				if !ok || typeStr(mu.Map.Type()) != "map[string]inputrc.Bind" {
					return false
				}
				// the Bind literal {Action: "abort"} is built in the same block
				for _, x := range mu.Block().Instrs {
					if st, isSt := x.(*ssa.Store); isSt {
						if s, isS := constString(st.Val); isS && s == "abort" {
							return true
						}
					}
				}
				if c, isC := mu.Value.(*ssa.Const); isC {
					return strings.Contains(c.String(), "abort")
				}
				return false
			}
			var installs []*ssa.MapUpdate
			nAbort := 0
			eachInstr(LB, func(in ssa.Instruction) {
				if isAbortBind(in) {
					nAbort++
				}
				if mu, ok := in.(*ssa.MapUpdate); ok && typeStr(mu.Map.Type()) == "map[string]map[string]inputrc.Bind" {
					installs = append(installs, mu)
				}
			})
			if nAbort == 0 {
				r.Bad("C14.abort-bound-everywhere", fnName(LB)+":abort-loop", p.Pos(LB.Pos()), "no keymap gets a built-in Ctrl-C → abort bind")
			}
			for i, mu := range installs {
				w := pathAvoiding(LB, mu, isAbortBind, func(ssa.Instruction) bool { return false })
				r.Check(w != nil, "C14.abort-bound-everywhere", siteKey(LB, "install-keymap", i), p.IPos(mu), "installed before the Ctrl-C loop", "this keymap is installed in config.Binds after the loop that binds Ctrl-C to abort in every keymap: it has no Ctrl-C, and the interrupt key falls through to the main keymap")
			}
		} else {
			r.Unk("C14.abort-bound-everywhere", "(*keymap.Engine).loadBuiltinBinds", "-", "anchor not found")
		}
		// ---- round 7: as-you-type completions follow the cursor; the app's prefix is taken as given; a restored cursor is set on the restored line
		r.Rule("C14.autocomplete-every-redisplay", "K1", "displayHelpers asks the completer for the as-you-type completions (Autocomplete) on every path before it displays them: the prefix that an inserted candidate replaces is computed from the cursor position when the completions are generated, so completions kept across a cursor move cut the wrong characters", 1)
		if DH := p.Func("(*display.Engine).displayHelpers"); DH != nil {
			r.Fn(fnName(DH))
			w := pathAvoiding(DH, nil, func(x ssa.Instruction) bool { return isCallTo(x, "completion.Display") }, func(x ssa.Instruction) bool { return isCallTo(x, "(*completion.Engine).Autocomplete") })
			r.Check(w == nil, "C14.autocomplete-every-redisplay", fnName(DH)+":Autocomplete", p.Pos(DH.Pos()), "Autocomplete runs before the completions are displayed, on every path", "a redisplay can show (and let Tab insert from) completions generated for another cursor position: Autocomplete is skipped on some path of displayHelpers")
		} else {
			r.Unk("C14.autocomplete-every-redisplay", "(*display.Engine).displayHelpers", "-", "anchor not found")
		}
		r.Rule("C14.given-prefix-untrimmed", "K3", "the prefix supplied by the application with its completions (Values.PREFIX) becomes Engine.prefix as it is: setPrefix trims only the word it reads from the line — a supplied prefix ending with a blank still matches the candidates, and trimming it cuts fewer characters than the word being completed", 1)
		if SP := p.Func("(*completion.Engine).setPrefix"); SP != nil {
			isGiven := func(v ssa.Value) bool {
				_, f, ok := fieldRead(v)
				return ok && f == "PREFIX"
			}
			isTrim := func(v ssa.Value) bool {
				cl, ok := v.(*ssa.Call)
				return ok && strings.HasPrefix(calleeName(cl), "strings.Trim")
			}
			var given, trimmed []*ssa.Store
			eachInstr(SP, func(in ssa.Instruction) {
				st, ok := isFieldStore(in, "completion.Engine", "prefix")
				if !ok {
					return
				}
				if dependsOn(st.Val, isGiven) {
					given = append(given, st)
				}
				if dependsOn(st.Val, isTrim) {
					trimmed = append(trimmed, st)
				}
			})
			bad := ""
			for _, g := range given {
				for _, t := range trimmed {
					if g == t {
						bad = "the supplied prefix is trimmed when stored"
					} else if pathAvoiding(SP, g, func(x ssa.Instruction) bool { return x == ssa.Instruction(t) }, func(ssa.Instruction) bool { return false }) != nil {
						// the later store re-reads the field: a trimmed copy of what was just stored
						if dependsOn(t.Val, func(v ssa.Value) bool { return isFieldLoad(v, "completion.Engine", "prefix") }) {
							bad = "the prefix is trimmed again after the supplied one was stored"
						}
					}
				}
			}
			if len(given) == 0 {
				r.Unk("C14.given-prefix-untrimmed", fnName(SP)+":given", p.Pos(SP.Pos()), "setPrefix does not store the supplied prefix: anchor changed")
			} else {
				r.Check(bad == "", "C14.given-prefix-untrimmed", fnName(SP)+":given", p.IPos(given[0]), "stored as given", bad+": `open \"my ` completed with the candidates `my file.txt` keeps one character of the old word in front of the candidate")
			}
		}
		r.Rule("C14.cursor-after-line", "K1", "a function that restores both a saved line (Line.Set) and a saved cursor position (Cursor.Set with a non-constant position) sets the line first: a position set on the old — often emptied — line is clamped to its length, and Ctrl-C in the search menu brings the buffer back with the cursor at 0", 2)
		{
			n := 0
			for _, f := range p.RepoFuncs {
				if len(f.Blocks) == 0 {
					continue
				}
				var cs, ls []ssa.CallInstruction
				for _, cl := range allCalls(f, false) {
					switch calleeName(cl) {
					case "(*core.Cursor).Set":
						// a saved position: read from a field (e.isearchStartCursor, undo.pos), not computed by the command
						if _, _, isF := fieldRead(stripConv(cl.Common().Args[1])); isF {
							cs = append(cs, cl)
						}
					case "(*core.Line).Set":
						ls = append(ls, cl)
					}
				}
				if len(cs) == 0 || len(ls) == 0 {
					continue
				}
				for i, c0 := range cs {
					// same buffer: the cursor and the line come from sibling fields of one struct load (e.cursor / e.line, h.cursor / h.line)
					cb, cf, okc := fieldRead(c0.Common().Args[0])
					paired := false
					var late ssa.Instruction
					for _, l0 := range ls {
						lb, lf, okl := fieldRead(l0.Common().Args[0])
						if !okc || !okl || !sameValue(cb, lb) || !(strings.HasSuffix(strings.ToLower(cf), "cursor") || strings.HasSuffix(strings.ToLower(cf), "cur")) || !(strings.HasSuffix(strings.ToLower(lf), "line") || strings.HasSuffix(strings.ToLower(lf), "buf")) {
							continue
						}
						paired = true
						if w := pathAvoiding(f, c0.(ssa.Instruction), func(x ssa.Instruction) bool { return x == l0.(ssa.Instruction) }, func(ssa.Instruction) bool { return false }); w != nil {
							// a loop that sets both each time round is fine when the line is also set before the cursor in the iteration
							if !instrDominates(l0.(ssa.Instruction), c0.(ssa.Instruction)) {
								late = l0.(ssa.Instruction)
							}
						}
					}
					if !paired {
						continue
					}
					n++
					pos := p.IPos(c0.(ssa.Instruction))
					r.Check(late == nil, "C14.cursor-after-line", siteKey(f, "Cursor.Set", i), pos, "the line is set before the position", "the saved cursor position is set before the line it belongs to is put back: on the line still in place (emptied to receive a candidate) the position is clamped, and the restored buffer has its cursor at the wrong place")
				}
			}
			if n == 0 {
				r.Unk("C14.cursor-after-line", "restore-sites", "-", "no function restores a line and a cursor position: anchors changed")
			}
		}
		// ClearMenu leaves the menu keymap whatever it is asked to drop
		r.Rule("C14.clear-menu-leaves-keymap", "K1", "(*completion.Engine).ClearMenu leaves the menu-select keymap on every path on which that keymap is the local one, whether or not it is asked to drop the completions: a list kept on screen with no candidate selected must not keep the menu keymap, or the next typed key is looked up there", 1)
		if CM := p.Func("(*completion.Engine).ClearMenu"); CM != nil {
			r.Fn(fnName(CM))
			w := reachUnder(CM, func(c ssa.Value) (bool, bool) {
				rel, ok := relOf(c, true)
				if !ok {
					return false, false
				}
				for _, pr := range [][2]ssa.Value{{rel.X, rel.Y}, {rel.Y, rel.X}} {
					cl, isCall := pr[0].(*ssa.Call)
					if !isCall || calleeName(cl) != "(*keymap.Engine).Local" {
						continue
					}
					if k, isK := constString(pr[1]); isK && k == "menu-select" {
						switch rel.Op {
						case token.EQL:
							return true, true
						case token.NEQ:
							return false, true
						}
					}
				}
				return false, false
			}, func(x ssa.Instruction) bool { return isReturn(x) && x.Block() != CM.Recover }, func(x ssa.Instruction) bool {
				if !isCallTo(x, "(*keymap.Engine).SetLocal") {
					return false
				}
				k, isK := constString(x.(ssa.CallInstruction).Common().Args[1])
				return isK && k == ""
			})
			pos := p.Pos(CM.Pos())
			if w != nil {
				pos = p.IPos(w)
			}
			r.Check(w == nil, "C14.clear-menu-leaves-keymap", "(*completion.Engine).ClearMenu:SetLocal", pos, "SetLocal(\"\") on every path with the menu keymap active", "with the menu-select keymap active ClearMenu can return without leaving it (the exit depends on something else, e.g. on whether the completions are dropped)")
		} else {
			r.Unk("C14.clear-menu-leaves-keymap", "(*completion.Engine).ClearMenu", "-", "anchor not found")
		}
		// between the two keymap dispatches the menu keymap is left, selected candidate or not
		r.Rule("C14.update-leaves-menu", "K1", "completion.UpdateInserted — run between the local and the main keymap dispatch — calls (defers) ClearMenu on every path when autocomplete is off, whether or not a candidate is selected: a list displayed with no selection must not keep the menu-select keymap once the line is edited", 1)
		if UI := p.Func("completion.UpdateInserted"); UI != nil {
			r.Fn(fnName(UI))
			w := reachUnder(UI, func(c ssa.Value) (bool, bool) {
				if isFieldLoad(c, "completion.Engine", "auto") {
					return false, true
				}
				return false, false
			}, func(x ssa.Instruction) bool { return isReturn(x) && x.Block() != UI.Recover }, func(x ssa.Instruction) bool {
				return isCallTo(x, "(*completion.Engine).ClearMenu")
			})
			pos := p.Pos(UI.Pos())
			if w != nil {
				pos = p.IPos(w)
			}
			r.Check(w == nil, "C14.update-leaves-menu", "completion.UpdateInserted:ClearMenu", pos, "ClearMenu on every path with autocomplete off", "with autocomplete off UpdateInserted can return without ClearMenu (the call depends on something else, e.g. on a candidate being selected): the menu keymap survives an edit of the line and the next Tab inserts from the stale list with the stale prefix")
		} else {
			r.Unk("C14.update-leaves-menu", "completion.UpdateInserted", "-", "anchor not found")
		}
		// who may make the inserted candidate part of the real line
		r.Rule("C14.accept-only-reviewed", "K2", "Engine.Cancel with a constant inserted == false — the call that makes the virtually inserted candidate part of the real line — is made only by the reviewed acceptors (insert-completions, accept-and-menu-complete, Engine.Reset); the menu movements (Select, SelectTag, …) drop the candidate with cancelCompletedLine instead, or the next one is inserted next to an accepted one the user never chose", 3)
		{
			acceptors := map[string]bool{"(*readline.Shell).insertCompletions": true, "(*readline.Shell).acceptAndMenuComplete": true, "(*completion.Engine).Reset": true}
			CA := p.Func("(*completion.Engine).Cancel")
			if CA == nil {
				r.Unk("C14.accept-only-reviewed", "(*completion.Engine).Cancel", "-", "anchor not found")
			} else {
				for _, e := range p.callersOf(CA) {
					if e.Site == nil {
						continue
					}
					args := e.Site.Common().Args
					if len(args) < 2 {
						continue
					}
					k, isK := constBool(args[1])
					if !isK || k {
						continue
					}
					cf := e.Caller.Func
					for cf.Parent() != nil {
						cf = cf.Parent()
					}
					okA := acceptors[fnName(cf)]
					if !okA {
						okA, _ = p.onlyReachedThrough(cf, acceptors)
					}
					r.CallSites++
					r.Check(okA, "C14.accept-only-reviewed", fmt.Sprintf("%s:Cancel(false)%s", fnName(cf), ordinalOf(cf, e.Site, "(*completion.Engine).Cancel")), p.Pos(e.Pos()), "reviewed acceptor", fnName(cf)+" accepts the inserted candidate into the real line (Cancel(false, …)) and is not one of the reviewed acceptors: a menu movement that does so leaves a candidate the user did not choose in the line")
				}
			}
		}
		r.Rule("C14.prefix-before-cursor", "K3", "(*completion.Engine).setPrefix looks for the word to complete from the character before the cursor, Pos()-1, as it is: the position handed to SelectBlankWord is not a clamped one (a phi with the constant 0) — at the beginning of the line there is no character before the cursor and no prefix, and taking character 0 instead makes the candidate replace the first character of the text after the cursor", 1)
		if SP := p.Func("(*completion.Engine).setPrefix"); SP != nil {
			r.Fn(fnName(SP))
			n := 0
			for i, sb := range callsTo(SP, false, "(*core.Line).SelectBlankWord") {
				n++
				arg := sb.Common().Args[1]
				clamped := false
				if ph, ok := arg.(*ssa.Phi); ok {
					for _, e := range ph.Edges {
						if k, isK := constInt(e); isK && k == 0 {
							clamped = true
						}
					}
				}
				r.Check(!clamped, "C14.prefix-before-cursor", fmt.Sprintf("(*completion.Engine).setPrefix:SelectBlankWord#%d", i), p.IPos(sb.(ssa.Instruction)), "the position is Pos()-1, not clamped", "the position before the cursor is clamped to 0 before the word is looked up: with the cursor at the beginning of the line, the first character of the text after the cursor is taken for the prefix and replaced by the candidate")
			}
			if n == 0 {
				r.Unk("C14.prefix-before-cursor", "(*completion.Engine).setPrefix:SelectBlankWord", p.Pos(SP.Pos()), "no SelectBlankWord call: anchor changed")
			}
		} else {
			r.Unk("C14.prefix-before-cursor", "(*completion.Engine).setPrefix", "-", "anchor not found")
		}
		r.Rule("C14.select-sets-keymap", "K1", "(*completion.Engine).Select enters the menu-select keymap (adjustSelectKeymap) on every path that goes on to move the selector: with `autocomplete` on Tab reaches Select directly, and without the keymap the next Tab or Ctrl-C is dispatched as an ordinary key — the candidate becomes part of the line and Ctrl-C ends Readline", 1)
		if SE := p.Func("(*completion.Engine).Select"); SE != nil {
			r.Fn(fnName(SE))
			w := pathAvoiding(SE, nil, func(x ssa.Instruction) bool { return isCallTo(x, "(*completion.group).moveSelector") }, func(x ssa.Instruction) bool { return isCallTo(x, "(*completion.Engine).adjustSelectKeymap") })
			pos := p.Pos(SE.Pos())
			if w != nil {
				pos = p.IPos(w)
			}
			r.Check(w == nil, "C14.select-sets-keymap", "(*completion.Engine).Select:moveSelector", pos, "the keymap is set before the selector moves", "the selector can move (a candidate gets inserted) without the menu-select keymap having been entered")
		} else {
			r.Unk("C14.select-sets-keymap", "(*completion.Engine).Select", "-", "anchor not found")
		}
		// the removable suffix: only a character the matcher designates is removed
		r.Rule("C14.trim-designated-suffix", "K4", "(*completion.Engine).TrimSuffix removes the character before the cursor only when the suffix matcher of the inserted candidate designates that character (SuffixMatcher.Matches on the rune read from the line): assuming the matcher does not match it, no Line.CutRune / Line.Cut is reachable — otherwise `NoSpace('/')` makes a space typed after the candidate \"bench\" delete its last letter", 1)
		if TS := p.Func("(*completion.Engine).TrimSuffix"); TS != nil {
			r.Fn(fnName(TS))
			fromLine := func(v ssa.Value) bool {
				return dependsOn(v, func(x ssa.Value) bool {
					u, ok := x.(*ssa.UnOp)
					if !ok || u.Op != token.MUL {
						return false
					}
					ia, ok := u.X.(*ssa.IndexAddr)
					return ok && strings.Contains(typeStr(ia.X.Type()), "core.Line")
				})
			}
			nTests := 0
			w := reachUnder(TS, func(c ssa.Value) (bool, bool) {
				cl, ok := c.(*ssa.Call)
				if !ok || !strings.HasSuffix(calleeName(cl), "SuffixMatcher).Matches") {
					return false, false
				}
				if !fromLine(cl.Call.Args[len(cl.Call.Args)-1]) {
					return false, false
				}
				nTests++
				return false, true
			}, func(x ssa.Instruction) bool { return isCallTo(x, "(*core.Line).CutRune", "(*core.Line).Cut") }, nil)
			pos := p.Pos(TS.Pos())
			if w != nil {
				pos = p.IPos(w)
			}
			why := "a removal is reachable although the matcher does not designate the character before the cursor"
			if nTests == 0 {
				why = "the character before the cursor is never tested against the suffix matcher: whatever it is, a space (or a matcher key) typed after the candidate removes it"
			}
			r.Check(w == nil, "C14.trim-designated-suffix", "(*completion.Engine).TrimSuffix:removal", pos, "removal only under Matches(character before the cursor)", why)
		} else {
			r.Unk("C14.trim-designated-suffix", "(*completion.Engine).TrimSuffix", "-", "anchor not found")
		}
		// a candidate made part of the real line has consumed the prefix
		r.Rule("C14.accepted-prefix-consumed", "K1", "wherever the completion engine makes a candidate part of the real line — Engine.line set from the completed line (Cancel), or the candidate inserted at the real cursor (acceptCandidate) — Engine.prefix is emptied before the function returns: the menu can insert another candidate from the same list afterwards (accept-and-menu-complete), and with the old prefix it would cut that many characters off the end of the accepted one", 2)
		{
			n := 0
			for _, f := range p.RepoFuncs {
				if f.Pkg == nil || f.Pkg.Pkg.Name() != "completion" {
					continue
				}
				clears := func(x ssa.Instruction) bool {
					st, ok := isFieldStore(x, "completion.Engine", "prefix")
					if !ok {
						return false
					}
					k, isK := constString(st.Val)
					return isK && k == ""
				}
				eachInstr(f, func(in ssa.Instruction) {
					cl, ok := in.(*ssa.Call)
					if !ok {
						return
					}
					what := ""
					switch calleeName(cl) {
					case "(*core.Line).Set":
						args := cl.Call.Args
						if isFieldLoad(args[0], "completion.Engine", "line") && dependsOn(args[1], func(v ssa.Value) bool { return isFieldLoad(v, "completion.Engine", "compLine") }) {
							what = "line=compLine"
						}
					case "(*core.Cursor).InsertAt":
						args := cl.Call.Args
						if isFieldLoad(args[0], "completion.Engine", "cursor") && dependsOn(args[1], func(v ssa.Value) bool { return isFieldLoad(v, "completion.Engine", "inserted") }) {
							what = "cursor.InsertAt(inserted)"
						}
					}
					if what == "" {
						return
					}
					n++
					r.Fn(fnName(f))
					w := pathAvoiding(f, in, func(x ssa.Instruction) bool { return isReturn(x) && x.Block() != f.Recover }, clears)
					r.Check(w == nil, "C14.accepted-prefix-consumed", fmt.Sprintf("%s:%s", fnName(f), what), p.IPos(in), "prefix = \"\" follows on every path", "the candidate becomes part of the real line and the function can return with the old prefix: the next candidate inserted from the same list cuts len(prefix) characters off the accepted one (`git c<Tab>` then accept-and-menu-complete gave \"git checkoucherry-pick\")")
				})
			}
			if n == 0 {
				r.Unk("C14.accepted-prefix-consumed", "completion", "-", "no place found where a candidate becomes part of the real line: anchors changed")
			}
		}
	case "C04":
		r.Rule("C04.column-comes-down", "K1", "displayMultilinePrompts moves the cursor up to the first row of the buffer before calling (*ui.Prompt).MultilineColumnPrint, which comes back down while printing the column: every path through MultilineColumnPrint prints something (the rows to go down), also when no column is configured — otherwise the cursor stays on the first row and what follows overwrites the prompt and erases the other lines", 1)
		if MC := p.Func("(*ui.Prompt).MultilineColumnPrint"); MC != nil {
			r.Fn(fnName(MC))
			w := mustPassAllReturns(MC, func(x ssa.Instruction) bool { return isCallTo(x, "fmt.Print", "fmt.Printf", "fmt.Println") })
			pos := p.Pos(MC.Pos())
			if w != nil {
				pos = p.IPos(w)
			}
			r.Check(w == nil, "C04.column-comes-down", "(*ui.Prompt).MultilineColumnPrint:exits", pos, "every path prints", "a path through MultilineColumnPrint prints nothing (no column option set): the cursor, moved up to the first row by the caller, is not brought back to the last line — a buffer of three lines or more loses all its lines but the first on the default configuration")
		} else {
			r.Unk("C04.column-comes-down", "(*ui.Prompt).MultilineColumnPrint", "-", "anchor not found")
		}
		r.Rule("C04.column-climb-matches-descent", "K7", "displayMultilinePrompts climbs from the last row of the buffer to its first one before MultilineColumnPrint comes back down printing the column: the climb and the descent are counted in the same quantity. A climb by display rows (Engine.lineRows, which counts the rows of wrapped lines) and a descent by buffer lines (Line.Lines(), the number of newlines) agree only while no line of the buffer wraps", 1)
		if DM, MC := p.Func("(*display.Engine).displayMultilinePrompts"), p.Func("(*ui.Prompt).MultilineColumnPrint"); DM != nil && MC != nil {
			r.Fn(fnName(DM), fnName(MC))
			climbRows := false
			for _, mv := range callsTo(DM, false, "term.MoveCursorUp") {
				if dependsOn(mv.Common().Args[0], func(v ssa.Value) bool {
					u, ok := v.(*ssa.UnOp)
					if !ok || u.Op != token.MUL {
						return false
					}
					t, f, ok := fieldOf(u.X)
					return ok && t == "display.Engine" && f == "lineRows"
				}) {
					climbRows = true
				}
			}
			descentLines := false
			eachInstr(MC, func(in ssa.Instruction) {
				if cl, ok := in.(*ssa.Call); ok && calleeName(cl) == "(*core.Line).Lines" {
					descentLines = true
				}
			})
			pos := p.Pos(DM.Pos())
			if climbRows && descentLines {
				r.Bad("C04.column-climb-matches-descent", "(*display.Engine).displayMultilinePrompts:climb/descent", pos, "the climb is Engine.lineRows display rows and the descent Line.Lines() buffer lines: with a wrapped line in a buffer of three lines or more, the column and the secondary prompt are printed too high, over the text, and the last rows are erased")
			} else {
				r.OK("C04.column-climb-matches-descent", "(*display.Engine).displayMultilinePrompts:climb/descent", pos, "the climb and the descent are not counted in different quantities")
			}
		} else {
			r.Unk("C04.column-climb-matches-descent", "displayMultilinePrompts / MultilineColumnPrint", "-", "anchor not found")
		}
		r.Rule("C04.wrapped-cell-cleared", "K3", "what core.DisplayLine prints of a buffer line went through strutil.ClearWrapped, and ClearWrapped writes the clear-to-end-of-row sequence under a test against the terminal width: a double-width character that does not fit in the last column is wrapped whole by the terminal, which leaves that column showing what it showed before", 2)
		if DL, CW := p.Func("core.DisplayLine"), p.Func("strutil.ClearWrapped"); DL != nil && CW != nil {
			r.Fn(fnName(DL), fnName(CW))
			n := 0
			for i, pr := range callsTo(DL, false, "fmt.Print") {
				n++
				through := false
				for _, a := range pr.Common().Args {
					if dependsOn(a, func(v ssa.Value) bool { cl, ok := v.(*ssa.Call); return ok && calleeName(cl) == "strutil.ClearWrapped" }) {
						through = true
					}
				}
				r.Check(through, "C04.wrapped-cell-cleared", fmt.Sprintf("core.DisplayLine:print#%d", i), p.IPos(pr.(ssa.Instruction)), "the printed line went through ClearWrapped", "a buffer line is printed without going through ClearWrapped: the column a wrapped double-width character leaves unused keeps a character of the previous display")
			}
			if n == 0 {
				r.Unk("C04.wrapped-cell-cleared", "core.DisplayLine:prints", p.Pos(DL.Pos()), "no fmt.Print call: anchor changed")
			}
			bf := blockFacts(CW)
			clears := 0
			eachInstr(CW, func(in ssa.Instruction) {
				cl, ok := in.(*ssa.Call)
				if !ok || calleeName(cl) != "(*strings.Builder).WriteString" || len(cl.Call.Args) != 2 {
					return
				}
				if s, isS := constString(cl.Call.Args[1]); !isS || s != "\x1b[0K" {
					return
				}
				clears++
				guarded := false
				for fc := range factsAt(bf, in) {
					if dependsOn(fc.Cond, isWidthCall) {
						guarded = true
					}
				}
				r.Check(guarded, "C04.wrapped-cell-cleared", fmt.Sprintf("strutil.ClearWrapped:clear#%d", clears), p.IPos(in), "written under a test against the terminal width", "the clear sequence is written without comparing the column with the terminal width")
				// and only when the row is not full: with the cursor parked on the last column (pending wrap) the sequence erases the last character
				strict := false
				for fc := range factsAt(bf, in) {
					rel, ok := relOf(fc.Cond, fc.Val)
					if !ok {
						continue
					}
					// column < width: one side is the terminal width itself, the other the running column (a loop variable, no sum)
					isW := func(v ssa.Value) bool { return isWidthCall(stripConv(v)) }
					isCol := func(v ssa.Value) bool { _, isPhi := v.(*ssa.Phi); return isPhi }
					if rel.Op == token.LSS && isCol(rel.X) && isW(rel.Y) {
						strict = true
					}
					if rel.Op == token.GTR && isCol(rel.Y) && isW(rel.X) {
						strict = true
					}
				}
				r.Check(strict, "C04.wrapped-cell-cleared", fmt.Sprintf("strutil.ClearWrapped:clear#%d:row-not-full", clears), p.IPos(in), "under column < terminal width", "the clear sequence is written also when the row is exactly full: the terminal's cursor is still on the last column then (the wrap is pending), and clearing to the end of the row erases the last character of a row that ends right before a double-width character")
			})
			if clears == 0 {
				r.Bad("C04.wrapped-cell-cleared", "strutil.ClearWrapped:clear", p.Pos(CW.Pos()), "ClearWrapped never writes the clear-to-end-of-row sequence")
			}
		} else {
			r.Unk("C04.wrapped-cell-cleared", "core.DisplayLine / strutil.ClearWrapped", "-", "anchor not found: the unused last column before a wrapped double-width character is not cleared")
		}
		r.Rule("C04.prompt-columns", "K3", "(*ui.Prompt).LastUsed — the column where the line starts when the terminal does not answer the cursor position query — returns the measured width of the last prompt line (strutil.RealLength) as it is, or 0 without a prompt: a value taken one less puts every cursor position one column to the left on such a terminal", 1)
		if LU := p.Func("(*ui.Prompt).LastUsed"); LU != nil {
			r.Fn(fnName(LU))
			n := 0
			eachInstr(LU, func(in ssa.Instruction) {
				ret, ok := in.(*ssa.Return)
				if !ok || len(ret.Results) != 1 {
					return
				}
				n++
				okAll := true
				for _, v := range mayValues(ret.Results[0]) {
					if k, isK := constInt(v); isK && k == 0 {
						continue
					}
					if cl, isCall := v.(*ssa.Call); isCall && calleeName(cl) == "strutil.RealLength" {
						continue
					}
					okAll = false
				}
				r.Check(okAll, "C04.prompt-columns", fmt.Sprintf("(*ui.Prompt).LastUsed:return#%d", n), p.IPos(in), "returns RealLength(prompt) or 0", "LastUsed returns something other than the measured width of the prompt (the width minus one, kept in primaryCols): without a cursor position report the line is taken to start one column before the end of the prompt")
			})
		} else {
			r.Unk("C04.prompt-columns", "(*ui.Prompt).LastUsed", "-", "anchor not found")
		}
		r.Rule("C04.hint-line-rows", "K5", "ui.CoordinatesHint measures every line of the hint with strutil.LineSpan as a first line (index 0) and adds the row of a partly filled last row itself: LineSpan adds a row for a line with a non-zero index, so passing the index of the hint line counts every line after the first twice, and the display climbs back too far on each redisplay", 1)
		if CH := p.Func("ui.CoordinatesHint"); CH != nil {
			r.Fn(fnName(CH))
			n := 0
			for i, ls := range callsTo(CH, false, "strutil.LineSpan") {
				n++
				k, isK := constInt(ls.Common().Args[1])
				r.Check(isK && k == 0, "C04.hint-line-rows", fmt.Sprintf("ui.CoordinatesHint:LineSpan#%d", i), p.IPos(ls.(ssa.Instruction)), "index 0", "the hint line's own index is passed to LineSpan, which adds a row for it, and CoordinatesHint adds the row of a partly filled line again: a hint of two lines counts for three rows")
				// the row of the last, partly filled row is added only when there is one (x != 0): a line that
				// exactly fills its rows has none
				call, _ := ls.(*ssa.Call)
				bf := blockFacts(CH)
				eachInstr(CH, func(in ssa.Instruction) {
					bo, ok := in.(*ssa.BinOp)
					if !ok || bo.Op != token.ADD || call == nil {
						return
					}
					one, isOne := constInt(bo.Y)
					if !isOne || one != 1 {
						return
					}
					if !dependsOn(bo.X, func(v ssa.Value) bool {
						ex, ok := v.(*ssa.Extract)
						return ok && ex.Tuple == ssa.Value(call) && ex.Index == 1
					}) {
						return
					}
					partial := false
					for fc := range factsAt(bf, in) {
						rel, ok := relOf(fc.Cond, fc.Val)
						if !ok || rel.Op != token.NEQ {
							continue
						}
						ex, isEx := rel.X.(*ssa.Extract)
						z, isZ := constInt(rel.Y)
						if isEx && ex.Tuple == ssa.Value(call) && ex.Index == 0 && isZ && z == 0 {
							partial = true
						}
					}
					r.Check(partial, "C04.hint-line-rows", fmt.Sprintf("ui.CoordinatesHint:LineSpan#%d:last-row", i), p.IPos(in), "the extra row is added under x != 0", "a row is added to every hint line whether or not its last row is partly filled: a hint line whose width is an exact multiple of the terminal width counts one row too many")
				})
			}
			if n == 0 {
				r.Unk("C04.hint-line-rows", "ui.CoordinatesHint:LineSpan", p.Pos(CH.Pos()), "no LineSpan call: anchor changed")
			}
		} else {
			r.Unk("C04.hint-line-rows", "ui.CoordinatesHint", "-", "anchor not found")
		}
		r.Rule("C04.comp-rows-fresh", "K1", "completion.Display stores the number of rows it used (Engine.usedY) on every path to its exit, including the exits that print nothing: the display climbs back by that count, and a count left over from the previous list puts the cursor above the input line", 1)
		if DI := p.Func("completion.Display"); DI != nil {
			r.Fn(fnName(DI))
			w := mustPassAllReturns(DI, func(x ssa.Instruction) bool { _, ok := isFieldStore(x, "completion.Engine", "usedY"); return ok })
			pos := p.Pos(DI.Pos())
			if w != nil {
				pos = p.IPos(w)
			}
			r.Check(w == nil, "C04.comp-rows-fresh", "completion.Display:exits", pos, "usedY is stored on every path", "an exit of Display (nothing to show, or display skipped) leaves usedY at the row count of the previous list: Refresh then moves the cursor up that many rows too many")
		} else {
			r.Unk("C04.comp-rows-fresh", "completion.Display", "-", "anchor not found")
		}
	}
}

// defaultBindTables extracts the default keymap tables of internal/keymap (package-level
// map literals keyed by unescape("<notation>")): table name -> notation -> action.
func defaultBindTables(p *Prog) map[string]map[string]string {
	out := map[string]map[string]string{}
	init := p.Func("keymap.init")
	if init == nil {
		return out
	}
	tableOf := map[ssa.Value]string{}
	eachInstr(init, func(in ssa.Instruction) {
		if st, ok := in.(*ssa.Store); ok {
			if g, isG := st.Addr.(*ssa.Global); isG {
				if _, isMap := st.Val.(*ssa.MakeMap); isMap {
					tableOf[st.Val] = g.Name()
				}
			}
		}
	})
	eachInstr(init, func(in ssa.Instruction) {
		mu, ok := in.(*ssa.MapUpdate)
		if !ok {
			return
		}
		name, known := tableOf[mu.Map]
		if !known {
			return
		}
		kc, ok := mu.Key.(*ssa.Call)
		if !ok || len(kc.Call.Args) != 1 {
			return
		}
		notation, ok := constString(kc.Call.Args[0])
		if !ok {
			return
		}
		ld, ok := mu.Value.(*ssa.UnOp)
		if !ok || ld.Op != token.MUL {
			return
		}
		action := ""
		for _, ref := range referrersOf(ld.X) {
			fa, ok := ref.(*ssa.FieldAddr)
			if !ok || fieldName(ld.X.Type(), fa.Field) != "Action" {
				continue
			}
			for _, r2 := range referrersOf(fa) {
				if st, ok := r2.(*ssa.Store); ok {
					if s, isS := constString(st.Val); isS {
						action = s
					}
				}
			}
		}
		if out[name] == nil {
			out[name] = map[string]string{}
		}
		out[name][notation] = action
	})
	return out
}

// checkPrefixBoundPop: C18.pushed-back-argument. A command bound, in a default
// keymap, to a sequence that longer binds of the same keymap extend runs when
// the next key rules those out, and the dispatcher gives that key back at the
// front of the typed-key buffer. If the command takes an argument key, it is
// that one — Keys.Pop serves the typed-key buffer first; ReadKey serves the keys
// fed by a running macro first and, on replay, takes the macro's next key.
func checkPrefixBoundPop(c *Ctx, rule string) {
	p, r := c.P, c.R
	r.Rule(rule, "K5", "a command that a default keymap binds to a sequence which longer binds of the same keymap extend (vi-select-inside on `i` / `a` next to `iw`, `aw`, …) and that takes an argument key takes it with (*Keys).Pop — the dispatcher pushed the ruling-out key back in front of the typed keys, where Pop looks first — and not with ReadKey, which serves the keys fed by a macro first: on replay the macro's next key would be taken as the argument and the real one dispatched as a command", 1)
	tables := defaultBindTables(p)
	if len(tables) < 5 {
		r.Unk(rule, "keymap.init:tables", "-", fmt.Sprintf("only %d default bind tables extracted: anchor changed", len(tables)))
		return
	}
	reg := p.Registry()
	type hit struct{ table, notation, action string }
	var hits []hit
	for tn, tbl := range tables {
		for n, a := range tbl {
			if a == "" {
				continue
			}
			for n2 := range tbl {
				if n2 != n && strings.HasPrefix(n2, n) {
					hits = append(hits, hit{tn, n, a})
					break
				}
			}
		}
	}
	sort.Slice(hits, func(i, j int) bool {
		if hits[i].action != hits[j].action {
			return hits[i].action < hits[j].action
		}
		return hits[i].table+hits[i].notation < hits[j].table+hits[j].notation
	})
	seen := map[string]bool{}
	n := 0
	for _, h := range hits {
		if seen[h.action] {
			continue
		}
		seen[h.action] = true
		f := reg.Cmds[h.action]
		if f == nil {
			continue // a bind to a name no command carries: nothing runs
		}
		reads := callsTo(f, false, "(*core.Keys).ReadKey")
		pops := callsTo(f, false, "(*core.Keys).Pop")
		if len(reads)+len(pops) == 0 {
			continue // takes no argument key
		}
		n++
		r.Fn(fnName(f))
		key := fmt.Sprintf("%s(%s %q)", h.action, h.table, h.notation)
		if len(reads) > 0 {
			r.Bad(rule, key, p.IPos(reads[0].(ssa.Instruction)), fmt.Sprintf("%s is bound to %q in %s, which longer binds extend, and reads its argument with ReadKey: when a macro replays it, ReadKey serves the macro's next key before the key the dispatcher pushed back", h.action, h.notation, h.table))
			continue
		}
		r.OK(rule, key, p.IPos(pops[0].(ssa.Instruction)), "takes its argument with Keys.Pop")
	}
	if n == 0 {
		r.Unk(rule, "prefix-bound commands with an argument key", "-", "none found in the default tables: anchor changed")
	}
}

// checkRangeKeepsEmpty: C17.empty-range-kept. Line.checkRange normalises a
// range; -1 as the end means "no end given", which Line.Cut reads as "to the end
// of the line". A valid result must not turn a given end into -1.
func checkRangeKeepsEmpty(c *Ctx, rule string) {
	p, r := c.P, c.R
	r.Rule(rule, "K3", "(*core.Line).checkRange never answers a valid range (third result true) whose end is the constant -1 unless the end it was given is what is returned: -1 means \"no end\", which Line.Cut reads as \"to the end of the line\" and InsertBetween as \"insert at bpos\" — an empty range normalised to -1 makes a delete with a motion that cannot move (dh at column 0) remove the rest of the line while the yank copies nothing", 1)
	CR := p.Func("(*core.Line).checkRange")
	if CR == nil || len(CR.Params) < 3 {
		r.Unk(rule, "(*core.Line).checkRange", "-", "anchor not found")
		return
	}
	r.Fn(fnName(CR))
	var expand func(v ssa.Value, seen map[ssa.Value]bool) []ssa.Value
	expand = func(v ssa.Value, seen map[ssa.Value]bool) []ssa.Value {
		if seen[v] {
			return nil
		}
		seen[v] = true
		if ph, ok := v.(*ssa.Phi); ok {
			var out []ssa.Value
			for _, e := range ph.Edges {
				out = append(out, expand(e, seen)...)
			}
			return out
		}
		return []ssa.Value{v}
	}
	n := 0
	eachInstr(CR, func(in ssa.Instruction) {
		ret, ok := in.(*ssa.Return)
		if !ok || len(ret.Results) != 3 {
			return
		}
		if b, isB := constBool(ret.Results[2]); !isB || !b {
			return
		}
		n++
		bad := false
		for _, v := range expand(ret.Results[1], map[ssa.Value]bool{}) {
			if k, isK := constInt(v); isK && k == -1 {
				bad = true
			}
		}
		r.Check(!bad, rule, fmt.Sprintf("(*core.Line).checkRange:valid-return#%d", n), p.IPos(in), "the end of a valid range is never the constant -1", "a valid range can come back with the end replaced by -1: Cut then removes everything up to the end of the line for a range that was empty")
	})
	if n == 0 {
		r.Unk(rule, "(*core.Line).checkRange:valid-returns", p.Pos(CR.Pos()), "no return with a true third result: anchor changed")
	}
}

// checkDeleteCharStays: C16.delete-char-in-line. vi-delete (x) followed by
// put-before gives back what was taken only if x takes characters under and
// after the cursor: Line.CutRune at the end of the line removes the character
// BEFORE the position.
func checkDeleteCharStays(c *Ctx, rule string) {
	p, r := c.P, c.R
	r.Rule(rule, "K4", "in viDeleteChar every (*core.Line).CutRune at the cursor is made where the cursor is known to be before the end of the line (a `Pos() >= Len()` test left by its false branch, inside the loop): at the end CutRune removes the character before the cursor, and the register is given a character that was not cut", 1)
	VD := p.Func("(*readline.Shell).viDeleteChar")
	if VD == nil {
		r.Unk(rule, "(*readline.Shell).viDeleteChar", "-", "anchor not found")
		return
	}
	r.Fn(fnName(VD))
	bf := blockFacts(VD)
	loops := findLoops(VD)
	n := 0
	for i, cr := range callsTo(VD, false, "(*core.Line).CutRune") {
		n++
		in := cr.(ssa.Instruction)
		guarded := false
		for fc := range factsAt(bf, in) {
			rel, ok := relOf(fc.Cond, fc.Val)
			if !ok || rel.Op != token.LSS {
				continue
			}
			isPos := dependsOn(rel.X, func(v ssa.Value) bool { cl, ok := v.(*ssa.Call); return ok && calleeName(cl) == "(*core.Cursor).Pos" })
			isLen := dependsOn(rel.Y, func(v ssa.Value) bool { cl, ok := v.(*ssa.Call); return ok && calleeName(cl) == "(*core.Line).Len" })
			if !isPos || !isLen {
				continue
			}
			// the test is re-made on every iteration: it sits in the same loop as the cut
			cond, _ := fc.Cond.(ssa.Instruction)
			inLoop := len(loops) == 0
			for _, l := range loops {
				if l.Blocks[in.Block()] {
					if cond != nil && l.Blocks[cond.Block()] {
						inLoop = true
					}
				} else {
					inLoop = true
				}
			}
			if inLoop {
				guarded = true
			}
		}
		r.Check(guarded, rule, fmt.Sprintf("(*readline.Shell).viDeleteChar:CutRune#%d", i), p.IPos(in), "under Pos() < Len(), tested on every iteration", "the cut is repeated without testing that the cursor is still before the end of the line: with a count larger than what is left, the characters before the cursor are cut too and NULs are stored in the register — put-before does not give back what was taken")
	}
	if n == 0 {
		r.Unk(rule, "(*readline.Shell).viDeleteChar:CutRune", p.Pos(VD.Pos()), "no CutRune call: anchor changed")
	}
}

// checkInsertCopies: C16.insert-copies. What a kill stored is what the next yank
// inserts only if nothing writes the kill buffer behind its back: Line.Insert is
// handed the buffer's own slice by the yank commands and must not keep it.
func checkInsertCopies(c *Ctx, rule string) {
	p, r := c.P, c.R
	r.Rule(rule, "K3", "(*core.Line).Insert never makes the line the slice it was given (a store of the `chars` parameter, or of a reslice of it, through the receiver): the yank commands pass the kill buffer's own slice, and a line sharing its storage changes the kill buffer with every in-place edit (capitalize-word, vi-replace…) — the next yank then inserts something that was never killed", 1)
	IN := p.Func("(*core.Line).Insert")
	if IN == nil || len(IN.Params) < 3 {
		r.Unk(rule, "(*core.Line).Insert", "-", "anchor not found")
		return
	}
	r.Fn(fnName(IN))
	recv, chars := IN.Params[0], IN.Params[2]
	var isChars func(v ssa.Value, depth int) bool
	isChars = func(v ssa.Value, depth int) bool {
		if depth > 6 {
			return false
		}
		v = stripConv(v)
		if v == ssa.Value(chars) {
			return true
		}
		switch x := v.(type) {
		case *ssa.Slice:
			return isChars(x.X, depth+1)
		case *ssa.Phi:
			for _, e := range x.Edges {
				if isChars(e, depth+1) {
					return true
				}
			}
		}
		return false
	}
	n, bad := 0, 0
	eachInstr(IN, func(in ssa.Instruction) {
		st, ok := in.(*ssa.Store)
		if !ok || st.Addr != ssa.Value(recv) {
			return
		}
		n++
		if isChars(st.Val, 0) {
			bad++
			r.Bad(rule, fmt.Sprintf("(*core.Line).Insert:store#%d", n), p.IPos(in), "the line is made the very slice it was given: a yank into an empty line shares the kill buffer's storage, and later edits of the line change the kill buffer")
		}
	})
	if bad == 0 {
		r.OK(rule, "(*core.Line).Insert:stores", p.Pos(IN.Pos()), fmt.Sprintf("%d store(s) through the receiver, none of the parameter slice itself", n))
	}
}

// checkIsearchLiteralFallback: C09.invalid-regex-searched. The incremental
// search filters the candidates (history lines) with the search text compiled
// as a regular expression; nil means "no filter".
func checkIsearchLiteralFallback(c *Ctx, rule string) {
	p, r := c.P, c.R
	r.Rule(rule, "K1", "in (*completion.Engine).updateIncrementalSearch, when the search text does not compile as a regular expression, the matcher is still given a value (the text quoted) before the candidates are regenerated and filtered: a nil matcher filters nothing, and the first history line is put in the buffer although it does not contain the text", 1)
	UI := p.Func("(*completion.Engine).updateIncrementalSearch")
	if UI == nil {
		r.Unk(rule, "(*completion.Engine).updateIncrementalSearch", "-", "anchor not found")
		return
	}
	r.Fn(fnName(UI))
	n := 0
	for _, b := range UI.Blocks {
		iff, ok := b.Instrs[len(b.Instrs)-1].(*ssa.If)
		if !ok {
			continue
		}
		v, trueMeansNil, isNil := nilCmp(iff.Cond)
		if !isNil {
			continue
		}
		// err of regexp.Compile
		ex, ok := v.(*ssa.Extract)
		if !ok || ex.Index != 1 {
			continue
		}
		cl, ok := ex.Tuple.(*ssa.Call)
		if !ok || calleeName(cl) != "regexp.Compile" {
			continue
		}
		n++
		errEdge := b.Succs[0]
		if trueMeansNil {
			errEdge = b.Succs[1]
		}
		isSet := func(x ssa.Instruction) bool {
			st, ok := isFieldStore(x, "completion.Engine", "IsearchRegex")
			if !ok || isNilConst(st.Val) {
				return false
			}
			// not the (nil) result of the failed compile itself
			if e2, ok := st.Val.(*ssa.Extract); ok && e2.Tuple == ssa.Value(cl) {
				return false
			}
			return true
		}
		isFilter := func(x ssa.Instruction) bool {
			return isCallTo(x, "(*completion.Engine).GenerateWith", "(*completion.group).updateIsearch")
		}
		w := pathAvoiding(UI, errEdge.Instrs[0], isFilter, isSet)
		if isSet(errEdge.Instrs[0]) {
			w = nil
		}
		pos := p.IPos(iff)
		r.Check(w == nil, rule, fmt.Sprintf("(*completion.Engine).updateIncrementalSearch:compile-error#%d", n), pos, "the matcher is set before the candidates are filtered", "when the search text is not a valid regular expression the candidates are regenerated with a nil matcher: nothing is filtered and a history line that does not contain the text is inserted")
	}
	if n == 0 {
		r.Unk(rule, "(*completion.Engine).updateIncrementalSearch:regexp.Compile", p.Pos(UI.Pos()), "no test of regexp.Compile's error: anchor changed")
	}
}

// checkEndOfHistory: C09.end-of-history-past-newest.
func checkEndOfHistory(c *Ctx, rule string) {
	p, r := c.P, c.R
	r.Rule(rule, "K3", "end-of-history walks down by more than the number of entries (Walk(-Len() - k), k >= 1): Sources.Walk stops on the line being entered, and restores it, only when the move would pass the newest entry — a move of Len()-1 from the oldest entry stops on the newest entry instead", 1)
	EH := p.Func("(*readline.Shell).endOfHistory")
	if EH == nil {
		r.Unk(rule, "(*readline.Shell).endOfHistory", "-", "anchor not found")
		return
	}
	r.Fn(fnName(EH))
	n := 0
	isLen := func(v ssa.Value) bool {
		cl, ok := v.(*ssa.Call)
		return ok && cl.Call.IsInvoke() && cl.Call.Method.Name() == "Len"
	}
	for i, w := range callsTo(EH, false, "(*history.Sources).Walk") {
		n++
		arg := w.Common().Args[1]
		okArg := false
		if bo, ok := arg.(*ssa.BinOp); ok && bo.Op == token.SUB {
			if k, isK := constInt(bo.Y); isK && k >= 1 {
				if neg, ok := bo.X.(*ssa.UnOp); ok && neg.Op == token.SUB && isLen(neg.X) {
					okArg = true
				}
			}
		}
		r.Check(okArg, rule, fmt.Sprintf("(*readline.Shell).endOfHistory:Walk#%d", i), p.IPos(w.(ssa.Instruction)), "Walk(-Len() - k), k >= 1", "end-of-history does not walk down past the newest entry from every position: from the oldest entry it stops on a history line instead of the line being entered")
	}
	if n == 0 {
		r.Unk(rule, "(*readline.Shell).endOfHistory:Walk", p.Pos(EH.Pos()), "no Walk call: anchor changed")
	}
}

// checkDoubledOperatorCancels: C17.doubled-operator-cancels (also run for C06).
// Sibling agreement: a vi operator called while it is itself the pending one
// (dd, cc, yy, gugu, gUgU) works on the whole line and is done: it removes
// itself from the pending operators.
func checkDoubledOperatorCancels(c *Ctx, rule string) {
	p, r := c.P, c.R
	r.Rule(rule, "K5", "every command of the root package with a branch taken when it is itself the pending operator (Keymap.IsPending(): dd, cc, yy, gugu, gUgU) calls Keymap.CancelPending() in that branch, like its siblings: left pending, the operator is applied to the next motions — movements then change the text, and the next operator does nothing", 4)
	n := 0
	for _, f := range p.RepoFuncs {
		if len(f.Blocks) == 0 || f.Pkg == nil || f.Pkg.Pkg.Path() != modPath {
			continue
		}
		for _, b := range f.Blocks {
			iff, ok := b.Instrs[len(b.Instrs)-1].(*ssa.If)
			if !ok || !isCallNamed(iff.Cond, "(*keymap.Engine).IsPending") {
				continue
			}
			n++
			r.Fn(fnName(f))
			t := b.Succs[0]
			// CancelPending on every path from the branch to the function's exit
			w := pathAvoiding(f, t.Instrs[0], func(x ssa.Instruction) bool { _, isRet := x.(*ssa.Return); return isRet }, func(x ssa.Instruction) bool { return isCallTo(x, "(*keymap.Engine).CancelPending") })
			if isCallTo(t.Instrs[0], "(*keymap.Engine).CancelPending") {
				w = nil
			}
			r.Check(w == nil, rule, fnName(f)+":pending-branch", p.IPos(iff), "calls CancelPending", "the doubled-operator branch does not remove the operator from the pending ones (its siblings do): the local keymap stays vi-opp and the operator runs again on the next motion")
		}
	}
	if n == 0 {
		r.Unk(rule, "IsPending branches", "-", "none found: anchor changed")
	}
}

// checkSuggestionNotUnderOperator: C17.suggestion-not-as-motion.
func checkSuggestionNotUnderOperator(c *Ctx, rule string) {
	p, r := c.P, c.R
	r.Rule(rule, "K4", "the two places where a vi movement takes text from the suggested history line (history-autosuggest) — the line write of insertAutosuggestPartial, called by vi-forward-word, and the autosuggestAccept of vi-forward-char — are under the test that the local keymap is not vi-opp: as the motion of an operator the movement only gives a range, and a yank must leave the buffer unchanged", 2)
	notOpp := func(f *ssa.Function, in ssa.Instruction, bf FactMap) bool {
		for fc := range factsAt(bf, in) {
			rel, ok := relOf(fc.Cond, fc.Val)
			if !ok || rel.Op != token.NEQ {
				continue
			}
			isLocal := dependsOn(rel.X, func(v ssa.Value) bool { return isCallNamed(v, "(*keymap.Engine).Local") })
			s, isS := constString(stripConv(rel.Y))
			if isLocal && isS && s == "vi-opp" {
				return true
			}
		}
		return false
	}
	n := 0
	if IA := p.Func("(*readline.Shell).insertAutosuggestPartial"); IA != nil {
		r.Fn(fnName(IA))
		bf := blockFacts(IA)
		for i, w := range callsTo(IA, false, "(*core.Line).Insert", "(*core.Line).InsertBetween", "(*core.Line).Set") {
			n++
			r.Check(notOpp(IA, w.(ssa.Instruction), bf), rule, fmt.Sprintf("(*readline.Shell).insertAutosuggestPartial:write#%d", i), p.IPos(w.(ssa.Instruction)), "under Local() != vi-opp", "the suggested word is inserted also when the movement is the motion of an operator: yw changes the buffer")
		}
	}
	for _, fn := range []string{"(*readline.Shell).viForwardChar", "(*readline.Shell).viForwardWord", "(*readline.Shell).viForwardBlankWord", "(*readline.Shell).viForwardWordEnd"} {
		f := p.Func(fn)
		if f == nil {
			continue
		}
		bf := blockFacts(f)
		for i, w := range callsTo(f, false, "(*readline.Shell).autosuggestAccept") {
			n++
			r.Fn(fn)
			r.Check(notOpp(f, w.(ssa.Instruction), bf), rule, fmt.Sprintf("%s:autosuggestAccept#%d", fn, i), p.IPos(w.(ssa.Instruction)), "under Local() != vi-opp", "the suggested line is accepted also when the movement is the motion of an operator: yl changes the buffer")
		}
	}
	if n == 0 {
		r.Unk(rule, "suggestion sites", "-", "none found: anchor changed")
	}
}

func isWidthCall(v ssa.Value) bool {
	cl, ok := v.(*ssa.Call)
	return ok && calleeName(cl) == "term.GetWidth"
}

// checkReadersAgreeOnOrder: C03.readers-agree-on-order. A key sequence bound to a
// macro behaves as if the macro's keys had been typed in its place: every reader of
// the key stack has to serve the fed keys and the typed-ahead keys in one order.
func checkReadersAgreeOnOrder(c *Ctx, rule string) {
	p, r := c.P, c.R
	r.Rule(rule, "K5", "the readers of the key stack — the dispatcher's PopKey / PeekKey and the commands' ReadKey — consult the keys fed by a macro (Keys.macroKeys) and the keys typed ahead (Keys.buf) in the same order: otherwise the place of a macro's keys among the typed ones depends on who reads next, and a macro followed by type-ahead in the same read does not behave as if its keys had been typed there", 1)
	order := func(f *ssa.Function) []string {
		var out []string
		for _, b := range f.Blocks {
			for _, in := range b.Instrs {
				bo, ok := in.(*ssa.BinOp)
				if !ok || (bo.Op != token.GTR && bo.Op != token.NEQ && bo.Op != token.EQL) || !isLenCall(bo.X) {
					continue
				}
				if _, fld, ok := fieldRead(bo.X.(*ssa.Call).Call.Args[0]); ok && (fld == "buf" || fld == "macroKeys") {
					if len(out) == 0 || out[len(out)-1] != fld {
						out = append(out, fld)
					}
				}
			}
		}
		return out
	}
	PK, RK := p.Func("core.PopKey"), p.Func("(*core.Keys).ReadKey")
	if PK == nil || RK == nil {
		r.Unk(rule, "core.PopKey / (*core.Keys).ReadKey", "-", "anchor not found")
		return
	}
	r.Fn(fnName(PK), fnName(RK))
	a, b := order(PK), order(RK)
	if len(a) < 2 || len(b) < 2 {
		r.Unk(rule, "core.PopKey~(*core.Keys).ReadKey", p.Pos(RK.Pos()), fmt.Sprintf("source tests not found (PopKey %v, ReadKey %v): anchor changed", a, b))
		return
	}
	same := a[0] == b[0]
	r.Check(same, rule, "core.PopKey~(*core.Keys).ReadKey", p.Pos(RK.Pos()), "same order: "+strings.Join(a[:2], ","), fmt.Sprintf("PopKey / PeekKey serve %s first and ReadKey serves %s first: typed-ahead keys overtake the keys a macro fed (the dispatcher reads the typed ones first), except for a command's argument (ReadKey reads the fed ones first)", a[0], b[0]))
}

// ---- C01.paired-nil: "A != nil" is used as the licence to dereference B
//
// Discovery (Engler's belief rule across two fields): a method call on the pointer loaded from
// field B of a struct, executed under the known fact `field A of the same struct != nil` and under
// no test of B itself, states the belief  A != nil  ⇒  B != nil.  The rule then demands of every
// function that stores nil to B that, by the time the exported function it belongs to returns, A is
// nil too (a store of nil to A on every path from the store of B to the return, or dominating it) —
// a private helper that clears B alone is judged at its call sites.
func checkPairedNil(c *Ctx, rule string) {
	p, r := c.P, c.R
	r.Rule(rule, "K4", "when a pointer field B of a struct is dereferenced under the sole guard that another pointer field A of the same struct is not nil, every function that sets B to nil also leaves A nil when it returns: otherwise the guarded use dereferences nil in the state the stopping function leaves behind", 1)
	type belief struct{ tn, a, b string }
	beliefs := map[belief]string{}
	for _, f := range p.RepoFuncs {
		if len(f.Blocks) == 0 {
			continue
		}
		var bf FactMap
		eachInstr(f, func(in ssa.Instruction) {
			cl, ok := in.(*ssa.Call)
			if !ok || cl.Call.IsInvoke() || len(cl.Call.Args) == 0 {
				return
			}
			callee := staticCallee(cl)
			if callee == nil || callee.Signature.Recv() == nil {
				return
			}
			if _, isPtr := callee.Signature.Recv().Type().Underlying().(*types.Pointer); !isPtr {
				return
			}
			ld, ok := cl.Call.Args[0].(*ssa.UnOp)
			if !ok || ld.Op != token.MUL {
				return
			}
			tn, fb, ok := fieldOf(ld.X)
			if !ok {
				return
			}
			if _, isPtr := ld.Type().Underlying().(*types.Pointer); !isPtr {
				return
			}
			if bf == nil {
				bf = blockFacts(f)
			}
			selfTested := false
			var others []string
			for fc := range factsAt(bf, in) {
				v, trueMeansNil, ok := nilCmp(fc.Cond)
				if !ok || fc.Val == trueMeansNil {
					continue // not a "!= nil" fact
				}
				u, ok := v.(*ssa.UnOp)
				if !ok || u.Op != token.MUL {
					continue
				}
				t2, f2, ok := fieldOf(u.X)
				if !ok || t2 != tn {
					continue
				}
				if f2 == fb {
					selfTested = true
				} else {
					others = append(others, f2)
				}
			}
			if selfTested {
				return
			}
			for _, a := range others {
				beliefs[belief{tn, a, fb}] = p.IPos(in)
			}
		})
	}
	if len(beliefs) == 0 {
		r.OK(rule, "no-cross-field-belief", "-", "no pointer field is dereferenced under the non-nil test of another field only")
		return
	}
	var keys []belief
	for b := range beliefs {
		keys = append(keys, b)
	}
	sort.Slice(keys, func(i, j int) bool { return keys[i].tn+keys[i].a+keys[i].b < keys[j].tn+keys[j].a+keys[j].b })
	for _, b := range keys {
		b := b
		nilStore := func(fld string) func(ssa.Instruction) bool {
			return func(in ssa.Instruction) bool {
				st, ok := isFieldStore(in, b.tn, fld)
				return ok && isNilConst(st.Val)
			}
		}
		isA, isB := nilStore(b.a), nilStore(b.b)
		// judge(f, site): after `site` (a nil store to B, or a call of a helper that leaves B nil and A not) A becomes nil before f returns, or was nil before
		var judge func(f *ssa.Function, site ssa.Instruction, depth int) (bool, string)
		judge = func(f *ssa.Function, site ssa.Instruction, depth int) (bool, string) {
			covered := pathAvoiding(f, site, func(x ssa.Instruction) bool { return isReturn(x) && x.Block() != f.Recover }, isA) == nil
			if !covered {
				eachInstr(f, func(x ssa.Instruction) {
					if isA(x) && instrDominates(x, site) {
						// A nil before, and not set again in between
						covered = true
					}
				})
			}
			if covered {
				return true, ""
			}
			if isPrivateHelper(f) && depth < 2 {
				edges := p.callersOf(f)
				if len(edges) == 0 {
					return true, ""
				}
				for _, e := range edges {
					if e.Site == nil || e.Caller.Func == nil || !inRepo(e.Caller.Func) {
						continue
					}
					if ok, where := judge(e.Caller.Func, e.Site, depth+1); !ok {
						return false, where
					}
				}
				return true, ""
			}
			return false, fnName(f)
		}
		n := 0
		for _, f := range p.RepoFuncs {
			if len(f.Blocks) == 0 {
				continue
			}
			eachInstr(f, func(in ssa.Instruction) {
				if !isB(in) {
					return
				}
				n++
				ok, where := judge(f, in, 0)
				r.Check(ok, rule, fmt.Sprintf("%s.%s⇒%s|%s", b.tn, b.a, b.b, siteKey(f, "nil-store", n-1)), p.IPos(in), fmt.Sprintf("%s is nil too when the function returns", b.a),
					fmt.Sprintf("%s.%s is set to nil but %s can return with %s.%s still set: the use at %s dereferences %s under the sole guard %s != nil and panics in that state", b.tn, b.b, where, b.tn, b.a, beliefs[b], b.b, b.a))
			})
		}
		if n == 0 {
			r.OK(rule, fmt.Sprintf("%s.%s⇒%s", b.tn, b.a, b.b), beliefs[b], "the dereferenced field is never set to nil")
		}
	}
}

// ---- C01.nil-map-write (round 7): a map field that some function makes on first use is never written where it may still be nil
//
// Contradiction rule (Engler): a function that tests a map-typed struct field against nil before
// making it states that the field may be nil. Every write of an entry through a load of that field,
// anywhere in the module, must then sit under a nil test of the field in its own function (a
// comparison with nil whose block dominates the write) or follow a store of a fresh map to it.
func checkNilMapWrite(c *Ctx, rule string) {
	p, r := c.P, c.R
	r.Rule(rule, "K4", "a map-typed struct field that one function makes on first use (tests against nil, then stores a new map) is written, everywhere, only after such a test or after a store of a new map in the writing function: a sibling that writes an entry straight away panics (assignment to entry in nil map) for a value whose map was never made", 1)
	type fld struct{ tn, name string }
	fieldOfLoad := func(v ssa.Value) (fld, bool) {
		u, ok := v.(*ssa.UnOp)
		if !ok || u.Op != token.MUL {
			return fld{}, false
		}
		tn, fn, ok := fieldOf(u.X)
		if !ok {
			return fld{}, false
		}
		if _, isMap := u.Type().Underlying().(*types.Map); !isMap {
			return fld{}, false
		}
		return fld{tn, fn}, true
	}
	// nil tests of map fields per function
	type testSite struct {
		f  *ssa.Function
		in *ssa.BinOp
	}
	tests := map[fld][]testSite{}
	lazy := map[fld]string{}
	for _, f := range p.RepoFuncs {
		if len(f.Blocks) == 0 {
			continue
		}
		eachInstr(f, func(in ssa.Instruction) {
			bo, ok := in.(*ssa.BinOp)
			if !ok || (bo.Op != token.EQL && bo.Op != token.NEQ) {
				return
			}
			var other ssa.Value
			switch {
			case isNilConst(bo.Y):
				other = bo.X
			case isNilConst(bo.X):
				other = bo.Y
			default:
				return
			}
			if fd, ok := fieldOfLoad(other); ok {
				tests[fd] = append(tests[fd], testSite{f, bo})
			}
		})
	}
	// lazily made: the function with the nil test also stores a MakeMap to the field
	for fd, ts := range tests {
		for _, t := range ts {
			eachInstr(t.f, func(in ssa.Instruction) {
				if st, ok := isFieldStore(in, fd.tn, fd.name); ok {
					if _, isMk := st.Val.(*ssa.MakeMap); isMk {
						lazy[fd] = p.IPos(t.in)
					}
				}
			})
		}
	}
	if len(lazy) == 0 {
		r.OK(rule, "no-lazily-made-map-field", "-", "no map field is made on first use")
		return
	}
	n := 0
	for _, f := range p.RepoFuncs {
		if len(f.Blocks) == 0 {
			continue
		}
		k := 0
		eachInstr(f, func(in ssa.Instruction) {
			mu, ok := in.(*ssa.MapUpdate)
			if !ok {
				return
			}
			fd, ok := fieldOfLoad(mu.Map)
			if !ok {
				return
			}
			where, isLazy := lazy[fd]
			if !isLazy {
				return
			}
			// a function nothing in the module calls, on an internal type, cannot run inside Readline
			if len(p.callersOf(f)) == 0 && f.Package() != nil && strings.Contains(f.Package().Pkg.Path(), "/internal/") {
				return
			}
			n++
			key := fmt.Sprintf("%s.%s|%s", fd.tn, fd.name, siteKey(f, "entry-write", k))
			k++
			guarded := false
			for _, t := range tests[fd] {
				if t.f == f && instrDominates(t.in, in) {
					guarded = true
				}
			}
			if !guarded {
				// a fresh map stored to the field (of the same base) on every path before the write
				isMake := func(x ssa.Instruction) bool {
					st, ok := isFieldStore(x, fd.tn, fd.name)
					if !ok {
						return false
					}
					_, isMk := st.Val.(*ssa.MakeMap)
					return isMk
				}
				guarded = pathAvoiding(f, nil, func(x ssa.Instruction) bool { return x == in }, isMake) == nil
			}
			if !guarded {
				// a call, before the write, of a function that itself tests the field and makes the map (an init helper)
				makers := map[*ssa.Function]bool{}
				for _, t := range tests[fd] {
					isMaker := false
					eachInstr(t.f, func(x ssa.Instruction) {
						if st, ok := isFieldStore(x, fd.tn, fd.name); ok {
							if _, isMk := st.Val.(*ssa.MakeMap); isMk {
								isMaker = true
							}
						}
					})
					if isMaker {
						makers[t.f] = true
					}
				}
				for _, cl := range allCalls(f, false) {
					if h := staticCallee(cl); h != nil && makers[h] && instrDominates(cl.(ssa.Instruction), in) {
						guarded = true
					}
				}
			}
			if !guarded {
				// the struct was just obtained from a constructor of the module that makes this map
				if u, ok := mu.Map.(*ssa.UnOp); ok {
					if fa, ok := u.X.(*ssa.FieldAddr); ok {
						if al, ok := fa.X.(*ssa.Alloc); ok {
							for _, ref := range referrersOf(al) {
								st, ok := ref.(*ssa.Store)
								if !ok || st.Addr != ssa.Value(al) {
									continue
								}
								if cl, ok := st.Val.(*ssa.Call); ok {
									if h := staticCallee(cl); h != nil && inRepo(h) {
										makes := false
										eachInstr(h, func(x ssa.Instruction) {
											if st2, ok := isFieldStore(x, fd.tn, fd.name); ok {
												if _, isMk := st2.Val.(*ssa.MakeMap); isMk {
													makes = true
												}
											}
										})
										if makes && instrDominates(st, in) {
											guarded = true
										}
									}
								}
							}
						}
					}
				}
			}
			if !guarded {
				// the receiver is a fresh composite literal whose field was just set
				if u, ok := mu.Map.(*ssa.UnOp); ok {
					if fa, ok := u.X.(*ssa.FieldAddr); ok {
						if _, fresh := fa.X.(*ssa.Alloc); fresh {
							for _, ref := range referrersOf(fa.X) {
								if fa2, ok := ref.(*ssa.FieldAddr); ok && fa2.Field == fa.Field {
									for _, r2 := range referrersOf(fa2) {
										if st, ok := r2.(*ssa.Store); ok && !isNilConst(st.Val) && instrDominates(st, in) {
											guarded = true
										}
									}
								}
							}
						}
					}
				}
			}
			r.Check(guarded, rule, key, p.IPos(in), "written under a nil test of the field or after it is made", fmt.Sprintf("an entry of %s.%s is written without testing the map for nil, although it is made on first use elsewhere (nil test at %s): for a value whose map was never made this panics with `assignment to entry in nil map` — inside Readline when it happens in the application's completer", fd.tn, fd.name, where))
		})
	}
	if n == 0 {
		r.OK(rule, "no-entry-write", "-", "lazily made map fields are never written through a load")
	}
}

// ---- C01.repeat-count (round 7): strings.Repeat panics on a negative count
var reviewedRepeatCounts = map[string]string{
	"history.Complete:Repeat#0": "len(Itoa(history.Len())) - len(Itoa(histPos)) with 0 <= histPos < history.Len() (histPos walks the entries of the source downward from Len()-1): a smaller non-negative number has no more decimal digits",
}

func checkRepeatCount(c *Ctx, rule string) {
	p, r := c.P, c.R
	r.Rule(rule, "K4", "the count given to strings.Repeat is never negative (strings.Repeat panics otherwise): a non-negative constant, a length or a count, a value clamped at zero or tested positive on the way, or a reviewed site", 2)
	nonNegCallee := func(h *ssa.Function) bool {
		if h == nil || len(h.Blocks) == 0 {
			return false
		}
		ok := true
		n := 0
		eachInstr(h, func(in ssa.Instruction) {
			ret, isR := in.(*ssa.Return)
			if !isR || len(ret.Results) != 1 {
				return
			}
			n++
			for _, v := range mayValues(ret.Results[0]) {
				if k, isK := constInt(v); isK && k >= 0 {
					continue
				}
				if isLenCall(v) {
					continue
				}
				if cl, isC := v.(*ssa.Call); isC && (calleeName(cl) == "strings.Count" || calleeName(cl) == "unicode/utf8.RuneCountInString") {
					continue
				}
				ok = false
			}
		})
		return ok && n > 0
	}
	var nonNeg func(v ssa.Value, at ssa.Instruction, bf FactMap, depth int) bool
	nonNeg = func(v ssa.Value, at ssa.Instruction, bf FactMap, depth int) bool {
		if depth > 3 {
			return false
		}
		if k, ok := constInt(v); ok {
			return k >= 0
		}
		if isLenCall(v) {
			return true
		}
		if cl, ok := v.(*ssa.Call); ok {
			if b, isB := cl.Call.Value.(*ssa.Builtin); isB && b.Name() == "max" {
				for _, a := range cl.Call.Args {
					if nonNeg(a, at, bf, depth+1) {
						return true
					}
				}
				return false
			}
			if nonNegCallee(staticCallee(cl)) {
				return true
			}
		}
		// a dominating test on the value itself
		for fc := range factsAt(bf, at) {
			rel, ok := relOf(fc.Cond, fc.Val)
			if !ok || rel.X != v {
				continue
			}
			if k, isK := constInt(rel.Y); isK && ((rel.Op == token.GTR && k >= -1) || (rel.Op == token.GEQ && k >= 0)) {
				return true
			}
		}
		// clamp: phi whose every edge is non-negative where it comes from (an edge taken under `x < 0` false carries x >= 0)
		if ph, ok := v.(*ssa.Phi); ok {
			all := true
			for i, e := range ph.Edges {
				pred := ph.Block().Preds[i]
				if nonNeg(e, lastInstr(pred), bf, depth+1) {
					continue
				}
				// the edge itself: pred ends in `if e < 0` and this is the false successor
				good := false
				if cond, val, ok := edgeCondition(pred, ph.Block()); ok {
					if rel, ok := relOf(cond, val); ok && rel.X == e {
						if k, isK := constInt(rel.Y); isK && ((rel.Op == token.GEQ && k >= 0) || (rel.Op == token.GTR && k >= -1)) {
							good = true
						}
					}
				}
				if !good {
					all = false
				}
			}
			return all
		}
		return false
	}
	n := 0
	for _, f := range p.RepoFuncs {
		if len(f.Blocks) == 0 {
			continue
		}
		var bf FactMap
		for i, cl := range callsTo(f, true, "strings.Repeat") {
			if bf == nil {
				bf = blockFacts(f)
			}
			n++
			key := siteKey(f, "Repeat", i)
			count := cl.Common().Args[1]
			if why, ok := reviewedRepeatCounts[key]; ok {
				r.OK(rule, key, p.IPos(cl.(ssa.Instruction)), "reviewed: "+why)
				continue
			}
			r.Check(nonNeg(count, cl.(ssa.Instruction), bf, 0), rule, key, p.IPos(cl.(ssa.Instruction)), "the count is not negative", "the count given to strings.Repeat ("+p.descValue(count)+") is not known to be non-negative here: strings.Repeat panics on a negative count, and this call runs inside Readline")
		}
	}
	if n == 0 {
		r.OK(rule, "no-repeat", "-", "strings.Repeat is not used")
	}
}

// ---- C17.history-not-as-motion (round 7): gg / G under an operator stay in the buffer
func checkHistoryNotUnderOperator(c *Ctx, rule string) {
	p, r := c.P, c.R
	r.Rule(rule, "K4", "the two movements bound in Vi command mode that fall back to the history when the cursor is already at the end they go to (beginning-of-buffer-or-history `gg`, end-of-buffer-or-history `G`) reach their history branch only when no operator is pending (Local() != vi-opp known there): as the motion of an operator they only give a range, and `ygg` at the start of the line must not replace the buffer with a history line", 2)
	n := 0
	for _, fn := range []string{"(*readline.Shell).beginningOfBufferOrHistory", "(*readline.Shell).endOfBufferOrHistory"} {
		f := p.Func(fn)
		if f == nil {
			continue
		}
		r.Fn(fn)
		bf := blockFacts(f)
		for i, cl := range allCalls(f, false) {
			h := staticCallee(cl)
			if h == nil || !strings.HasPrefix(fnName(h), "(*readline.Shell).") || !(strings.Contains(fnName(h), "History") || strings.Contains(fnName(h), "history")) {
				continue
			}
			n++
			notOpp := false
			for fc := range factsAt(bf, cl.(ssa.Instruction)) {
				rel, ok := relOf(fc.Cond, fc.Val)
				if !ok || rel.Op != token.NEQ {
					continue
				}
				isLocal := dependsOn(rel.X, func(v ssa.Value) bool { return isCallNamed(v, "(*keymap.Engine).Local") })
				if s, isS := constString(stripConv(rel.Y)); isLocal && isS && s == "vi-opp" {
					notOpp = true
				}
			}
			r.Check(notOpp, rule, fmt.Sprintf("%s:history-branch#%d", fn, i), p.IPos(cl.(ssa.Instruction)), "under Local() != vi-opp", "the movement walks the history also when it is the motion of a pending operator: with the cursor already at that end of the line, y"+map[bool]string{true: "gg", false: "G"}[strings.Contains(fn, "beginning")]+" replaces the buffer with a history line")
		}
	}
	if n == 0 {
		r.Unk(rule, "history branches", "-", "none found: anchor changed")
	}
}

// ---- round 8 rules: C18.stop-record-keeps-accept-key, C18.start-record-sets-register, C19.quote-test-agrees-with-reader, C19.inputrc-dump-untruncated
func checkRound8C18(c *Ctx) {
	p, r := c.P, c.R
	r.Rule("C18.stop-record-keeps-accept-key", "K5", "every place where acceptLineWith ends a macro recording hands StopRecord the keys that ran the accepting command (Keys.Caller()): the Return that ends a recording is part of the macro, and a sibling call that omits it stores a macro which replays without accepting the line", 1)
	if AL := p.Func("(*readline.Shell).acceptLineWith"); AL != nil {
		r.Fn(fnName(AL))
		n := 0
		for i, cl := range callsTo(AL, true, "(*macro.Engine).StopRecord") {
			n++
			args := cl.Common().Args
			good := len(args) >= 2 && dependsOn(args[len(args)-1], func(v ssa.Value) bool { return isCallNamed(v, "(*core.Keys).Caller") })
			r.Check(good, "C18.stop-record-keeps-accept-key", siteKey(AL, "StopRecord", i), p.IPos(cl.(ssa.Instruction)), "given the caller keys", "this StopRecord is not given the keys that ran the command: a macro whose recording is ended by accepting the line is stored without its Return on this path, and replaying it leaves the line unaccepted")
		}
		if n == 0 {
			r.Unk("C18.stop-record-keeps-accept-key", fnName(AL)+":StopRecord", p.Pos(AL.Pos()), "acceptLineWith does not stop the recording: anchor changed")
		}
	} else {
		r.Unk("C18.stop-record-keeps-accept-key", "(*readline.Shell).acceptLineWith", "-", "anchor not found")
	}
	r.Rule("C18.start-record-sets-register", "K1", "StartRecord writes the register the recording will be stored under (Engine.currentKey) on every path that starts recording — the unnamed Emacs-style recording included: StopRecord stores the macro under currentKey, and a value left from an earlier named recording makes an unnamed macro overwrite that register", 1)
	if SR := p.Func("(*macro.Engine).StartRecord"); SR != nil {
		r.Fn(fnName(SR))
		starts := func(in ssa.Instruction) bool {
			st, ok := isFieldStore(in, "macro.Engine", "recording")
			if !ok {
				return false
			}
			b, isB := constBool(st.Val)
			return isB && b
		}
		setsKey := func(in ssa.Instruction) bool { _, ok := isFieldStore(in, "macro.Engine", "currentKey"); return ok }
		w := pathAvoiding(SR, nil, starts, setsKey)
		r.Check(w == nil, "C18.start-record-sets-register", fnName(SR)+":currentKey", p.Pos(SR.Pos()), "currentKey is written before recording starts, on every path", "a recording can start without writing Engine.currentKey: the macro recorded with C-x ( … C-x ) is then also stored under the register of the last named recording, and @a replays the wrong macro")
	} else {
		r.Unk("C18.start-record-sets-register", "(*macro.Engine).StartRecord", "-", "anchor not found")
	}
}

func checkRound8C19(c *Ctx) {
	p, r := c.P, c.R
	r.Rule("C19.quote-test-agrees-with-reader", "K5", "the test by which dump-variables decides to quote a string value (needsQuotes) uses the character classes by which the reader ends a bare value (the unicode predicates of inputrc.findEnd): a writer that knows fewer blanks or controls than the reader prints bare a value the reader cuts short (a no-break space, DEL, a C1 control)", 1)
	preds := func(f *ssa.Function) map[string]bool {
		out := map[string]bool{}
		if f == nil {
			return out
		}
		for _, fn := range withAnons(f) {
			for _, cl := range allCalls(fn, false) {
				if n := calleeName(cl); strings.HasPrefix(n, "unicode.Is") {
					out[n] = true
				}
			}
		}
		return out
	}
	FE, NQ := p.Func("inputrc.findEnd"), p.Func("readline.needsQuotes")
	if FE == nil || NQ == nil {
		r.Unk("C19.quote-test-agrees-with-reader", "inputrc.findEnd / readline.needsQuotes", "-", "anchor not found")
	} else {
		r.Fn(fnName(FE), fnName(NQ))
		rd, wr := preds(FE), preds(NQ)
		var missing []string
		for n := range rd {
			if !wr[n] {
				missing = append(missing, n)
			}
		}
		sort.Strings(missing)
		if len(rd) == 0 {
			r.Unk("C19.quote-test-agrees-with-reader", fnName(FE)+":classes", p.Pos(FE.Pos()), "the reader uses no unicode predicate: anchor changed")
		} else {
			r.Check(len(missing) == 0, "C19.quote-test-agrees-with-reader", fnName(NQ)+":classes", p.Pos(NQ.Pos()), fmt.Sprintf("uses the reader's %d character classes", len(rd)), "needsQuotes does not test "+strings.Join(missing, ", ")+", by which the reader ends a bare value: a string variable holding such a character is dumped without quotes and read back cut short")
		}
	}
	r.Rule("C19.inputrc-dump-untruncated", "K3", "the inputrc-format printer of the binds (printBindsInputrc and the helpers it calls) prints every sequence bound to a command: the list it walks is never cut by a slice with an upper bound — the human-readable listing stops after five sequences, a dump that did the same would lose the others when read back", 1)
	if PI := p.Func("keymap.printBindsInputrc"); PI != nil {
		r.Fn(fnName(PI))
		fs := []*ssa.Function{PI}
		for _, cl := range allCalls(PI, false) {
			if h := staticCallee(cl); h != nil && inRepo(h) && len(h.Blocks) > 0 && isPrivateHelper(h) {
				fs = append(fs, h)
			}
		}
		var cut ssa.Instruction
		for _, f := range fs {
			eachInstr(f, func(in ssa.Instruction) {
				sl, ok := in.(*ssa.Slice)
				if !ok || sl.High == nil || typeStr(sl.Type()) != "[]string" {
					return
				}
				// a literal array sliced whole is not a truncation
				if _, isAlloc := sl.X.(*ssa.Alloc); isAlloc {
					return
				}
				if cut == nil {
					cut = in
				}
			})
		}
		pos := p.Pos(PI.Pos())
		if cut != nil {
			pos = p.IPos(cut)
		}
		r.Check(cut == nil, "C19.inputrc-dump-untruncated", fnName(PI)+":all-sequences", pos, "the list of sequences is walked whole", "the inputrc-format dump walks a list of sequences that was cut with an upper bound (the readable listing's five): every further sequence bound to the command (self-insert has over a hundred) is missing from the dump and lost when it is read back")
	} else {
		r.Unk("C19.inputrc-dump-untruncated", "keymap.printBindsInputrc", "-", "anchor not found")
	}
}

// ---- C03.fallback-keeps-later-keys (round 8): the shorter bind takes its own keys only
func checkFallbackKeepsLaterKeys(c *Ctx, rule string) {
	p, r := c.P, c.R
	r.Rule(rule, "K3", "when the dispatcher falls back to the shorter bind it had remembered (active = prefixed) because the next key rules the longer binds out, the keys it reports as matched are cut back to those of the shorter bind (a slice of the matched keys bounded by a length recorded when the bind was remembered): the keys that went on matching longer sequences are handed back with the key that ruled them out — with `ab` and `abcd` bound, `abcx` runs `ab` and must still deliver `c`", 1)
	DK := p.Func("(*keymap.Engine).dispatchKeys")
	if DK == nil || DK.Signature.Results().Len() < 4 {
		r.Unk(rule, "(*keymap.Engine).dispatchKeys", "-", "anchor not found")
		return
	}
	r.Fn(fnName(DK))
	n := 0
	eachInstr(DK, func(in ssa.Instruction) {
		st, ok := isFieldStore(in, "keymap.Engine", "active")
		if !ok || !isFieldLoad(st.Val, "keymap.Engine", "prefixed") {
			return
		}
		n++
		key := siteKey(DK, "fallback", n-1)
		// the returns reachable from the fallback without another store to active
		good, found := true, false
		eachInstr(DK, func(x ssa.Instruction) {
			ret, isR := x.(*ssa.Return)
			if !isR || len(ret.Results) < 4 {
				return
			}
			if pathAvoiding(DK, st, func(y ssa.Instruction) bool { return y == x }, func(y ssa.Instruction) bool {
				s2, is := isFieldStore(y, "keymap.Engine", "active")
				return is && s2 != st
			}) == nil {
				return
			}
			found = true
			cut := dependsOn(ret.Results[3], func(v ssa.Value) bool {
				sl, isS := v.(*ssa.Slice)
				if !isS || sl.High == nil || !instrDominates(st, sl) {
					return false
				}
				// bounded by a field of the engine (the recorded length), not by a constant
				return dependsOn(sl.High, func(w ssa.Value) bool {
					t, _, isF := fieldRead(w)
					_ = t
					return isF
				})
			})
			if !cut {
				good = false
			}
		})
		r.Check(found && good, rule, key, p.IPos(st), "the matched keys are cut back to those of the remembered bind", "falling back to the shorter bind, dispatchKeys reports every key read so far as matched: the keys typed after the shorter sequence, which only matched the longer binds now ruled out, are consumed with it and never dispatched (`ab`/`abcd` bound: `abcx` loses `c`)")
	})
	if n == 0 {
		r.Unk(rule, fnName(DK)+":fallback", p.Pos(DK.Pos()), "dispatchKeys no longer falls back to the remembered bind: anchor changed")
	}
}
