package main

import (
	"fmt"
	"go/token"
	"go/types"
	"os"
	"strings"

	"golang.org/x/tools/go/ssa"
)

// K9 on the editing code (C01.nonneg): contracts and state getters.

// Contracts for the editing primitives of internal/core. Ensures of module
// functions are themselves checked when the function is analysed.
func coreContracts() map[string]*ZContract {
	nonneg := func() *ZContract { return &ZContract{Ensures: []ZEnsure{{Cons: []ZC{le(zz, zr(0), 0)}}}} }
	return map[string]*ZContract{
		"(*core.Cursor).Pos":                 {Ensures: []ZEnsure{{Cons: []ZC{le(zz, zr(0), 0), le(zr(0), zo(0), 0)}}}},
		"(*core.Line).Len":                   {Ensures: []ZEnsure{{Cons: []ZC{le(zz, zr(0), 0), le(zr(0), zh(0), 0), le(zh(0), zr(0), 0)}}}},
		"(*core.Line).Lines":                 nonneg(),
		"(*history.Sources).Len":             nonneg(),
		"unicode/utf8.RuneCountInString":     nonneg(),
		"unicode/utf8.RuneCount":             nonneg(),
		"unicode/utf8.RuneLen":               {Ensures: []ZEnsure{{Cons: []ZC{le(zz, zr(0), 1)}}}}, // >= -1
		"strutil.RealLength":                 nonneg(),
		"github.com/rivo/uniseg.StringWidth": nonneg(),
		// (*Line).checkPosRange clamps into [0, Len]; checkRange returns (bpos >= 0, epos >= -1) when valid
		"(*core.Line).checkPosRange": {Ensures: []ZEnsure{{Cons: []ZC{le(zz, zr(0), 0), le(zr(0), zh(0), 0)}}}},
		"(*core.Line).checkRange": {Requires: []ZC{le(zz, zp(2), 1)}, Ensures: []ZEnsure{
			{Guard: 'T', GI: 2, Cons: []ZC{le(zz, zr(0), 0), le(zz, zr(1), 1), le(zr(0), zh(0), 0), le(zr(1), zh(0), 0)}},
			{Guard: 'P', GI: 1, Cons: []ZC{le(zr(0), zr(1), 0)}}}},
		"(*core.Line).Cut":           {Requires: []ZC{le(zz, zp(2), 1)}},
		"(*core.Line).InsertBetween": {Requires: []ZC{le(zz, zp(2), 1)}},
		// Selection.checkRange returns (bpos >= 0, epos >= -1) when valid; Selection.Pos returns values >= -1
		"(*core.Selection).checkRange": {Ensures: []ZEnsure{
			{Cons: []ZC{le(zz, zr(0), 1), le(zz, zr(1), 1)}},
			{Guard: 'T', GI: 2, Cons: []ZC{le(zz, zr(0), 0), le(zz, zr(1), 1), le(zr(0), zo(0), 0), le(zr(1), zo(0), 0)}},
			{Guard: 'F', GI: 2, Cons: []ZC{le(zr(0), zz, -1), le(zr(1), zz, -1)}},
			{Guard: 'P', GI: 1, Cons: []ZC{le(zr(0), zr(1), 0)}}}},
		"(*core.Line).SelectWord":      {Ensures: []ZEnsure{{Cons: []ZC{le(zz, zr(0), 0), le(zz, zr(1), 0)}}}},
		"(*core.Line).SelectBlankWord": {Ensures: []ZEnsure{{Cons: []ZC{le(zz, zr(0), 0), le(zz, zr(1), 0), le(zr(0), zh(0), 0), le(zr(1), zh(0), 0)}}}},
		"(*core.Selection).Pos":        {Ensures: []ZEnsure{{Cons: []ZC{le(zz, zr(0), 1), le(zz, zr(1), 1), le(zr(0), zo(0), 0), le(zr(1), zo(0), 0), le(zr(0), zr(1), 0)}}}},
		// lemma (see DESIGN.md §13): a command runs after the dispatcher matched at least one key (MatchedKeys / MatchedPrefix store a non-empty slice)
		"(*core.Keys).Caller": {Trusted: true, Ensures: []ZEnsure{{Cons: []ZC{le(zz, zm(0), -1)}}}},
		// tokenizers return (words, index of the word under the position >= 0, offset in it)
		"type:core.Tokenizer":              {Ensures: []ZEnsure{{Cons: []ZC{le(zz, zr(1), 0)}}, {Guard: 'L', GI: 0, Cons: []ZC{le(zr(1), zm(0), -1)}}}},
		"(*core.Line).Tokenize":            {Ensures: []ZEnsure{{Cons: []ZC{le(zz, zr(1), 0)}}, {Guard: 'L', GI: 0, Cons: []ZC{le(zr(1), zm(0), -1)}}}},
		"(*core.Line).TokenizeSpace":       {Ensures: []ZEnsure{{Cons: []ZC{le(zz, zr(1), 0)}}, {Guard: 'L', GI: 0, Cons: []ZC{le(zr(1), zm(0), -1)}}}},
		"(*core.Line).TokenizeBlock":       {Ensures: []ZEnsure{{Cons: []ZC{le(zz, zr(1), 0)}}, {Guard: 'L', GI: 0, Cons: []ZC{le(zr(1), zm(0), -1)}}}},
		"(*core.Line).Tokenize$bound":      {Ensures: []ZEnsure{{Cons: []ZC{le(zz, zr(1), 0)}}, {Guard: 'L', GI: 0, Cons: []ZC{le(zr(1), zm(0), -1)}}}},
		"(*core.Line).TokenizeSpace$bound": {Ensures: []ZEnsure{{Cons: []ZC{le(zz, zr(1), 0)}}, {Guard: 'L', GI: 0, Cons: []ZC{le(zr(1), zm(0), -1)}}}},
		"(*core.Line).TokenizeBlock$bound": {Ensures: []ZEnsure{{Cons: []ZC{le(zz, zr(1), 0)}}, {Guard: 'L', GI: 0, Cons: []ZC{le(zr(1), zm(0), -1)}}}},
		// the numeric argument handed to the commands is capped (the loops `for i <= vii` are counted in it)
		"(*core.Iterations).Get": {Ensures: []ZEnsure{{Cons: []ZC{le(zr(0), zz, 1000000), le(zz, zr(0), 1000000)}}}},
		// strutil helpers take a position inside the line they are given
		"strutil.AdjustNumberOperatorPos": {Requires: []ZC{le(zz, zp(0), 0), le(zp(0), zl(1), 0)}},
		"strutil.lineSlice":               {Requires: []ZC{le(zz, zp(1), 0), le(zp(1), zl(0), 0)}},
		// the keys matched are among the keys read (one is appended to matched only after it was appended to read)
		"(*keymap.Engine).dispatchKeys": {Ensures: []ZEnsure{{Cons: []ZC{le(zm(3), zm(2), 0)}}}},
		// history.contains returns the range index of the element found
		"history.contains": {Ensures: []ZEnsure{{Guard: 'T', GI: 0, Cons: []ZC{le(zz, zr(1), 0), le(zr(1), zl(0), -1)}}}},
		// standard library results
		"unicode/utf8.DecodeRuneInString":     {Ensures: []ZEnsure{{Cons: []ZC{le(zz, zr(1), 0), le(zr(1), zl(0), 0)}}}},
		"unicode/utf8.DecodeRune":             {Ensures: []ZEnsure{{Cons: []ZC{le(zz, zr(1), 0), le(zr(1), zl(0), 0)}}}},
		"unicode/utf8.DecodeLastRuneInString": {Ensures: []ZEnsure{{Cons: []ZC{le(zz, zr(1), 0)}}}},
		"(*os.File).Read":                     {Ensures: []ZEnsure{{Cons: []ZC{le(zz, zr(0), 0), le(zr(0), zl(1), 0)}}}},
		"invoke:io.Reader.Read":               {Ensures: []ZEnsure{{Cons: []ZC{le(zz, zr(0), 0), le(zr(0), zl(0), 0)}}}},
		"invoke:io.ReadCloser.Read":           {Ensures: []ZEnsure{{Cons: []ZC{le(zz, zr(0), 0), le(zr(0), zl(0), 0)}}}},
		"bytes.Index":                         {Ensures: []ZEnsure{{Cons: []ZC{le(zz, zr(0), 1)}}}},
		"bytes.IndexByte":                     {Ensures: []ZEnsure{{Cons: []ZC{le(zz, zr(0), 1)}}}},
	}
}

// A state getter returns a function of mutable editor state; two calls return
// the same value when nothing that can change that state runs in between.
type stateGetter struct {
	// kill reports instructions after which the getter may return something else
	kill func(p *Prog, in ssa.Instruction) bool
}

func cursorOrLineChange(p *Prog, in ssa.Instruction) bool {
	// direct stores
	if _, ok := isFieldStore(in, "core.Cursor", "pos"); ok {
		return true
	}
	for _, w := range p.primitiveLineWritesIn(in.Parent()) {
		if w == in {
			return true
		}
	}
	ci, ok := in.(ssa.CallInstruction)
	if !ok {
		return false
	}
	if _, isDefer := in.(*ssa.Defer); isDefer {
		return false
	}
	if p.callMayReach(ci, p.writersExcept("core.Cursor", "pos", "(*core.Cursor).CheckAppend")) {
		return true
	}
	return p.callMayReach(ci, p.lineWriters())
}

func lineChange(p *Prog, in ssa.Instruction) bool {
	for _, w := range p.primitiveLineWritesIn(in.Parent()) {
		if w == in {
			return true
		}
	}
	ci, ok := in.(ssa.CallInstruction)
	if !ok {
		return false
	}
	if _, isDefer := in.(*ssa.Defer); isDefer {
		return false
	}
	return p.callMayReach(ci, p.lineWriters())
}

var stateGetters = map[string]stateGetter{
	// Pos() clamps pos into [0, Len] and returns it: idempotent until pos or the line changes
	"(*core.Cursor).Pos": {cursorOrLineChange},
	"(*core.Line).Len":   {lineChange},
}

// fieldEnsures: after a call of the named normaliser, the integer field of its
// receiver has the given lower bound until something else writes the field.
// The clamp structure of these functions is checked by rule C06.api-clamp.
type fieldEnsure struct {
	tn, fld string
	lb      int64
	except  []string // idempotent normalisers whose stores do not count as writes
	ubLine  bool     // also: field <= current length of the receiver's line
}

var fieldEnsures = map[string][]fieldEnsure{
	"(*core.Cursor).CheckAppend":  {{"core.Cursor", "pos", 0, []string{"(*core.Cursor).CheckAppend"}, true}, {"core.Cursor", "mark", -1, []string{"(*core.Cursor).CheckAppend"}, false}},
	"(*core.Cursor).CheckCommand": {{"core.Cursor", "pos", 0, []string{"(*core.Cursor).CheckAppend"}, true}},
}

// classInvariant: an integer field that every function leaves >= lb when it
// returns (stores are proved, or followed by a normaliser of the same object
// before the function returns). Loads of the field then have that lower bound
// everywhere except downstream of a not yet normalised store in the same
// function. The obligations that make this sound are rule C01.field-invariant.
type classInvariant struct {
	tn, fld     string
	lb          int64
	normalisers []string
}

var classInvariants = []classInvariant{
	{"core.Cursor", "pos", 0, []string{"(*core.Cursor).CheckAppend", "(*core.Cursor).CheckCommand"}},
	// the undo position of a line: 0 = on the newest state, k = k-1 steps behind it; never negative
	{"history.lineHistory", "pos", 0, nil},
}

func (ci classInvariant) isNormaliser(in ssa.Instruction) bool {
	c, ok := in.(*ssa.Call)
	if !ok {
		return false
	}
	for _, n := range ci.normalisers {
		if calleeName(c) == n {
			return true
		}
	}
	return false
}

// hasDeferredNormaliser: a `defer normaliser()` that dominates in.
func (ci classInvariant) deferredBefore(fn *ssa.Function, in ssa.Instruction) bool {
	found := false
	eachInstrRaw(fn, func(x ssa.Instruction) {
		d, ok := x.(*ssa.Defer)
		if !ok {
			return
		}
		for _, n := range ci.normalisers {
			if calleeName(d) == n && instrDominates(x, in) {
				found = true
			}
		}
	})
	return found
}

// classLoadBounds: loads that may assume the class invariant.
func (z *zoneEngine) classLoadBounds(fn *ssa.Function, out map[*ssa.UnOp]int64) {
	for _, ci := range classInvariants {
		var stores []ssa.Instruction
		eachInstrRaw(fn, func(in ssa.Instruction) {
			if _, is := isFieldStore(in, ci.tn, ci.fld); is {
				stores = append(stores, in)
			}
		})
		eachInstrRaw(fn, func(in ssa.Instruction) {
			ld, ok := in.(*ssa.UnOp)
			if !ok || ld.Op != token.MUL || !isIntType(ld.Type()) {
				return
			}
			tn, fld, ok := fieldOf(ld.X)
			if !ok || tn != ci.tn || fld != ci.fld {
				return
			}
			for _, st := range stores {
				if pathAvoiding(fn, st, func(x ssa.Instruction) bool { return x == ssa.Instruction(ld) }, ci.isNormaliser) != nil {
					return // downstream of a store of this function that no normaliser has followed yet
				}
			}
			if old, ok := out[ld]; !ok || ci.lb > old {
				out[ld] = ci.lb
			}
		})
	}
}

// stateLoadBounds: loads of a field that are dominated by a normaliser call on
// the same receiver with no write of the field on any path in between.
func (z *zoneEngine) stateLoadBounds(fn *ssa.Function) map[*ssa.UnOp]int64 {
	out := map[*ssa.UnOp]int64{}
	type src struct {
		call *ssa.Call
		fe   fieldEnsure
	}
	var srcs []src
	eachInstrRaw(fn, func(in ssa.Instruction) {
		if c, ok := in.(*ssa.Call); ok && len(c.Call.Args) > 0 {
			for _, fe := range fieldEnsures[calleeName(c)] {
				srcs = append(srcs, src{c, fe})
			}
		}
	})
	z.classLoadBounds(fn, out)
	if len(srcs) == 0 {
		return out
	}
	eachInstrRaw(fn, func(in ssa.Instruction) {
		ld, ok := in.(*ssa.UnOp)
		if !ok || ld.Op != token.MUL || !isIntType(ld.Type()) {
			return
		}
		fa, ok := ld.X.(*ssa.FieldAddr)
		if !ok {
			return
		}
		tn, fld, ok := fieldOf(ld.X)
		if !ok {
			return
		}
		for _, sc := range srcs {
			if sc.fe.tn != tn || sc.fe.fld != fld || !instrDominates(sc.call, ld) {
				continue
			}
			if !(fa.X == sc.call.Call.Args[0] || sameMemValue(fa.X, sc.call.Call.Args[0])) {
				continue
			}
			ws := z.p.writersExcept(tn, fld, sc.fe.except...)
			isKill := func(x ssa.Instruction) bool {
				if x == ssa.Instruction(sc.call) {
					return false
				}
				if _, is := isFieldStore(x, tn, fld); is {
					return true
				}
				ci, isC := x.(ssa.CallInstruction)
				if !isC {
					return false
				}
				if _, isDefer := x.(*ssa.Defer); isDefer {
					return false
				}
				return z.p.callMayReach(ci, ws)
			}
			// the upper bound against the line additionally needs the line unchanged
			ubClass := ""
			if sc.fe.ubLine && z.useHeap {
				ubClass = lineClassOfObj(sc.call.Call.Args[0])
			}
			isSrc := func(x ssa.Instruction) bool { return x == ssa.Instruction(sc.call) }
			killed := false
			eachInstrRaw(fn, func(k ssa.Instruction) {
				if killed || !isKill(k) {
					return
				}
				if pathAvoiding(fn, sc.call, func(x ssa.Instruction) bool { return x == k }, isSrc) == nil {
					return
				}
				if pathAvoiding(fn, k, func(x ssa.Instruction) bool { return x == ssa.Instruction(ld) }, isSrc) != nil {
					killed = true
				}
			})
			if !killed {
				if old, ok := out[ld]; !ok || sc.fe.lb > old {
					out[ld] = sc.fe.lb
				}
				if ubClass != "" {
					lineKilled := false
					eachInstrRaw(fn, func(k ssa.Instruction) {
						if lineKilled || !z.lineKills[k] {
							return
						}
						if pathAvoiding(fn, sc.call, func(x ssa.Instruction) bool { return x == k }, isSrc) != nil &&
							pathAvoiding(fn, k, func(x ssa.Instruction) bool { return x == ssa.Instruction(ld) }, isSrc) != nil {
							lineKilled = true
						}
					})
					if !lineKilled {
						if z.loadUB == nil {
							z.loadUB = map[*ssa.UnOp]string{}
						}
						z.loadUB[ld] = ubClass
					}
				}
			}
		}
	})
	return out
}

// primitiveLineWritesIn: the primitive instructions of one function that can
// change the length of a shared line (element stores and copy() cannot).
func (p *Prog) primitiveLineWritesIn(f *ssa.Function) []ssa.Instruction {
	if p.lineWritesBy == nil {
		p.lineWritesBy = map[*ssa.Function][]ssa.Instruction{}
		for _, w := range p.primitiveLineWrites() {
			if w.Kind == "*line = …" {
				p.lineWritesBy[w.Fn] = append(p.lineWritesBy[w.Fn], w.In)
			}
		}
	}
	return p.lineWritesBy[f]
}

// getterEqualities: for every call of a state getter, an earlier dominating
// call of the same getter on the same receiver with no state change on any
// path between them. Path-independent facts, computed once per function.
func (z *zoneEngine) getterEqualities(fn *ssa.Function) map[*ssa.Call]*ssa.Call {
	out := map[*ssa.Call]*ssa.Call{}
	byGetter := map[string][]*ssa.Call{}
	eachInstrRaw(fn, func(in ssa.Instruction) {
		if c, ok := in.(*ssa.Call); ok {
			if _, is := stateGetters[calleeName(c)]; is && len(c.Call.Args) > 0 {
				byGetter[calleeName(c)] = append(byGetter[calleeName(c)], c)
			}
		}
	})
	for name, calls := range byGetter {
		if len(calls) < 2 {
			continue
		}
		g := stateGetters[name]
		var killers []ssa.Instruction
		eachInstrRaw(fn, func(in ssa.Instruction) {
			if g.kill(z.p, in) {
				killers = append(killers, in)
				if os.Getenv("RLCHECK_DEBUG_KILL") != "" && strings.Contains(fnName(fn), os.Getenv("RLCHECK_DEBUG_KILL")) {
					fmt.Fprintf(os.Stderr, "KILL %s in %s: %s\n", name, fnName(fn), in.String())
				}
			}
		})
		for _, c2 := range calls {
			for _, c1 := range calls {
				if c1 == c2 || !instrDominates(c1, c2) {
					continue
				}
				if !sameMemValue(c1.Call.Args[0], c2.Call.Args[0]) {
					continue
				}
				killed := false
				for _, k := range killers {
					if k == ssa.Instruction(c1) || k == ssa.Instruction(c2) {
						continue
					}
					isK := func(in ssa.Instruction) bool { return in == k }
					// a path c1 → … → k → … → c2 on which c1 is not executed again
					// (c2 may be: in a loop k can follow one execution of c2 and precede the next)
					isC1 := func(in ssa.Instruction) bool { return in == ssa.Instruction(c1) }
					if pathAvoiding(fn, c1, isK, isC1) == nil {
						continue
					}
					if pathAvoiding(fn, k, func(in ssa.Instruction) bool { return in == ssa.Instruction(c2) }, func(in ssa.Instruction) bool { return in == ssa.Instruction(c1) }) != nil {
						killed = true
						break
					}
				}
				if !killed {
					// prefer the earliest equal call (chains collapse through eq anyway)
					if old, ok := out[c2]; !ok || instrDominates(c1, old) {
						out[c2] = c1
					}
				}
			}
		}
	}
	return out
}

// ---------------------------------------------------------------------------
// C01.nonneg — no index or slice bound of the editing code can be negative

// reviewedNonneg: sites whose non-negativity rests on an invariant the zone
// domain cannot express (heap relations between fields, arithmetic on products,
// values returned by callbacks). One line of reason each; everything else must
// be proved. Key = function:kind#ordinal as printed by the rule.
var reviewedNonneg = map[string]string{
	// round 5: the packages added to the scope
	"(*history.Sources).Current:index#0":               "class invariant of history.Sources maintained by its writers and checked by rule C01.source-pos: names is empty (then list is empty and the function returned above) or 0 <= sourcePos < len(names)",
	"(*history.Sources).getHistoryLineChanges:index#0": "same invariant (C01.source-pos); Current() returned non-nil just above, so names is not empty",
	"history.Complete:index#0":                         "same invariant (C01.source-pos); len(h.list) != 0 was tested at entry",
	"color.Trim:slice#0":                               "maxPrintableLength is clamped to >= 0 before the loop, which only adds indices[1]-indices[0] of regexp match pairs (ordered: regexp guarantee), and to <= len(input) just above",
	"strutil.switchBoolean:slice#0":                    "bpos is indexes[1] of a match of `option` on word: 0 <= bpos <= len(word) (regexp guarantee)",
	"(*core.Line).SelectBlankWord:postcondition#6":     "bpos starts at pos <= Len-1 (clamped, then decremented when it equals Len) and only decreases: bpos+1 <= Len",
	"(*core.Line).SelectBlankWord:postcondition#7":     "epos starts at pos <= Len-1 and is incremented only under epos < Len: epos <= Len",
	"(*core.Line).checkRange:postcondition#4":          "epos >= 0 here means the reordering test `epos > -1 && epos < bpos` ran with epos > -1: either it swapped (bpos < epos) or epos >= bpos already; the phis of the swap hide it from the domain",
	"(*core.Selection).Pos:postcondition#19":           "after selectToCursor / the visual increment epos >= 0, so the second checkRange reorders: bpos <= epos",
	"(*core.Selection).checkRange:postcondition#12":    "bpos < 0 implies epos >= 0 here (both negative returned invalid above), so the swapped bpos is >= 0",
	"(*core.Selection).checkRange:postcondition#14":    "same argument on the reordering return",
	"(*core.Selection).checkRange:postcondition#18":    "the final `bpos > epos && epos != -1` swap orders them whenever epos >= 0",
	"(*core.Keys).extractCursorPos:index#0":            "rxRcvCursorPos.Match(keys) held just above, so FindAll with the same expression returns at least one match",
	"(*core.Line).TokenizeBlock:index#0":               "line is the copy of *l taken at entry and Len() == 0 returned: cpos is clamped into [0, Len] and decremented only when it equals Len >= 1",
	"(*core.Line).TokenizeBlock:index#1":               "same position as index#0",
	"(*core.Selection).Pop:slice#0":                    "guarded by `bpos == -1 || epos == -1 → return` two lines above; Selection.Pos returns values >= -1 (the named results are spilled because of the deferred Reset, which the domain does not follow)",
	"(*core.Selection).SelectAShellWord:index#1":       "cpos comes from AdjustSurroundQuotes / SelectBlankWord (>= -1, and both -1 selects the blank word instead): cpos+1 >= 0",
	"(*core.Selection).SelectKeyword:slice#0":          "bpos, epos are the blank-word positions the only caller (viSelectKeyword / selection cycling) obtained from SelectBlankWord on the same line (>= 0)",
	"(*core.Selection).cycleSubgroup:index#0":          "canCycleSubgroup: kmpos < len(groups)-1 before the increment (next), or 1 < kmpos <= len(groups) before the decrement (the upper test was added by fix 57f51af after this entry had been reviewed as safe without it): 1 <= kmpos <= len(groups)-1 at the index; the domain does not forward the store of kmpos to its reload",
	"(*core.Selection).cycleSubgroup:index#1":          "same: kmpos >= 1",
	"(*core.Selection).matchKeyword:index#2":           "kpos was wrapped into [1, len(matchersNames)] above and the loop runs while done(kpos): kpos > 0",
	"(*readline.Shell).keywordSwitch:slice#1":          "bpos >= 0 from SelectWord, obpos is an offset inside the selected word returned by a keyword switcher (>= 0); the `cpos < bpos → continue` test above keeps bpos <= cpos",
	"(*readline.Shell).magicSpace:slice#0":             "word is non-empty (it starts with \"!\"), so Pop returned a real selection: bpos >= 0",
	"(*readline.Shell).viChangeTo:index#2":             "surrounds[0] / [1] are the active one-rune surround selections MarkSurround created on valid positions of this line",
	"(*readline.Shell).viChangeTo:index#3":             "same as index#2",
	"(*readline.Shell).viSubstitute:index#1":           "OnEmptyLine() returned false and the selection was marked at the cursor on this non-empty line: Pos() is a valid range with epos >= 1 in linewise visual mode",
	"(*readline.Shell).viSubstitute:precondition#0":    "same selection: epos >= 1, so epos-1 >= 0",
	"(*readline.Shell).viSubstitute:slice#0":           "same selection: bpos >= 0",
	"(*readline.Shell).viYankWholeLine:slice#0":        "the buffer is not empty (returned above) and the selection was marked at the cursor: Pos() is a valid range, bpos >= 0",
	"(*core.Cursor).CheckCommand:class#0":              "pos == Len() and OnEmptyLine() is false, which it is not for an empty buffer: Len() >= 1, so pos-1 >= 0",
	"(*core.Cursor).moveLineDown:class#0":              "private helper of LineMove, which runs CheckCommand right after every call (and CheckAppend when it returns)",
	"(*core.Cursor).moveLineDown:class#1":              "same",
	"(*core.Cursor).moveLineUp:class#0":                "same",
	"(*core.Cursor).moveLineUp:class#1":                "same",
	"core.CoordinatesCursor:slice#0":                   "bpos is 0 or one past the position of a newline found in the line by Line.newlines()",
	"core.CoordinatesCursor:slice#1":                   "same bpos",
	"core.closeToken:slice#0":                          "pos[count] holds the range index of the opener recorded by openToken (>= 0); idx is a range index of the line",
	"core.closeToken:slice#2":                          "start is such a recorded index, bumped to 1 when it is 0",
	"core.closeToken:slice#3":                          "same as slice#0",
	"core.openToken:slice#0":                           "idx is a range index of the line, bumped to 1 when it is 0",
}

// reviewedBounds: sites whose upper bound / ordering rests on something the
// domain cannot express. Same key format as reviewedNonneg.
const upperProvedTag = "[upper proved] "

var reviewedBounds = map[string]string{
	// round 5: the packages added to the scope
	"(*history.Sources).Current:index#0":                 "class invariant of history.Sources maintained by its writers and checked by rule C01.source-pos: names is empty (then list is empty and the function returned above) or 0 <= sourcePos < len(names)",
	"(*history.Sources).getHistoryLineChanges:index#0":   "same invariant (C01.source-pos); Current() returned non-nil just above, so names is not empty",
	"history.Complete:index#0":                           "same invariant (C01.source-pos); len(h.list) != 0 was tested at entry",
	"color.Trim:slice#0":                                 "[upper proved] maxPrintableLength is clamped to >= 0 before the loop, which only adds indices[1]-indices[0] of regexp match pairs (ordered: regexp guarantee), and to <= len(input) just above",
	"strutil.switchBoolean:slice#0":                      "bpos is indexes[1] of a match of `option` on word: 0 <= bpos <= len(word) (regexp guarantee)",
	"(*display.Engine).hlReset:slice#2":                  "i is a range index of the slice regions had at loop entry; the reslices inside the loop keep its capacity, and a slice expression is bounded by the capacity, not the length: i <= cap(regions)",
	"(*history.Sources).Add:index#1":                     "len(h.list) == 1 is tested first, and every function that adds to list adds to names (Add), every function that removes from names removes from list (Delete): a non-empty list has a non-empty names",
	"completion.AutopairDelete:index#0":                  "cur is the cursor of line (the only call site, backwardDeleteChar, passes Shell.line / Shell.cursor, one object triple): 1 <= Pos() <= Len after the `Pos() == 0` return",
	"strutil.splitWord:slice#1":                          "cur is the suffix of input left after consuming l bytes that DecodeRuneInString just reported: len(input)-len(cur)-l is the offset of the rune just decoded, between 0 and len(input)",
	"strutil.splitWord:slice#2":                          "same offset of the rune just decoded",
	"strutil.splitWord:slice#3":                          "same",
	"strutil.splitWord:slice#4":                          "same",
	"strutil.splitWord:slice#10":                         "same, in the double-quote scan",
	"strutil.splitWord:slice#12":                         "same, minus the l2 bytes of the escaped character decoded from cur just before (l2 is 0 at the end of the string)",
	"strutil.switchHexa:slice#0":                         "match is a non-empty match of a pattern that requires the two characters 0x / 0X: len(match) >= 2",
	"strutil.switchHexa:slice#1":                         "prefix is match[:2]: len(prefix) == 2 <= len(number) == len(match)",
	"strutil.switchHexa:index#0":                         "the same compiled pattern just matched the same string (FindString returned a non-empty match), so FindStringIndex returns its two offsets, 0 <= begin <= end <= len (regexp guarantee)",
	"strutil.switchHexa:index#1":                         "the same compiled pattern just matched the same string (FindString returned a non-empty match), so FindStringIndex returns its two offsets, 0 <= begin <= end <= len (regexp guarantee)",
	"strutil.switchBinary:slice#0":                       "match is a non-empty match of a pattern that requires the two characters 0b / 0B: len(match) >= 2",
	"strutil.switchBinary:slice#1":                       "prefix is match[:2]",
	"strutil.switchBinary:index#0":                       "the same compiled pattern just matched the same string (FindString returned a non-empty match), so FindStringIndex returns its two offsets, 0 <= begin <= end <= len (regexp guarantee)",
	"strutil.switchBinary:index#1":                       "the same compiled pattern just matched the same string (FindString returned a non-empty match), so FindStringIndex returns its two offsets, 0 <= begin <= end <= len (regexp guarantee)",
	"strutil.switchDecimal:index#0":                      "the same compiled pattern just matched the same string (FindString returned a non-empty match), so FindStringIndex returns its two offsets, 0 <= begin <= end <= len (regexp guarantee)",
	"strutil.switchDecimal:index#1":                      "the same compiled pattern just matched the same string (FindString returned a non-empty match), so FindStringIndex returns its two offsets, 0 <= begin <= end <= len (regexp guarantee)",
	"strutil.switchDecimal:index#2":                      "match is a non-empty substring of word: word is not empty",
	"strutil.switchBoolean:index#0":                      "the same compiled pattern just matched the same string (FindString returned a non-empty match), so FindStringIndex returns its two offsets, 0 <= begin <= end <= len (regexp guarantee)",
	"strutil.switchBoolean:index#1":                      "switched is a value of the literal map above (found: done is true), none of which is empty",
	"strutil.switchBoolean:slice#1":                      "same non-empty literal",
	"strutil.switchOperator:index#0":                     "switched is a value of the literal map above (found: done is true), none of which is empty",
	"strutil.switchOperator:slice#0":                     "same non-empty literal",
	"(*core.Cursor).OnEmptyLine:index#2":                 "pos is compared with 0 and Len() just above; callers run it after a normaliser (CheckCommand calls CheckAppend first) or at the start of a motion, when execute's post-command check has left pos <= Len",
	"(*core.Cursor).OnEmptyLine:index#3":                 "same: 0 < pos < Len on this path",
	"(*core.Keys).GetCursorPos:index#2":                  "match[0] is a submatch list of rxRcvCursorPos, which has two capture groups: length 3",
	"(*core.Keys).GetCursorPos:index#4":                  "same",
	"(*core.Keys).ReadKey:index#2":                       "len(buf) == 0 returned just above, so the []rune of its string has at least one rune",
	"(*core.Keys).extractCursorPos:index#0":              "rxRcvCursorPos.Match(keys) held, so FindAll returns at least one match",
	"(*core.Line).Tokenize:index#6":                      "split starts with one element (make([]string, 1)) and is only appended to: len(split)-1 is its last index",
	"(*core.Line).Tokenize:index#10":                     "same",
	"(*core.Line).TokenizeSpace:index#6":                 "same",
	"(*core.Line).TokenizeSpace:index#10":                "same",
	"(*core.Line).TokenizeSpace:index#11":                "same",
	"(*core.Line).TokenizeBlock:index#0":                 "cpos is clamped into [0, Len] and decremented when it equals Len >= 1: 0 <= cpos < len(line)",
	"(*core.Line).TokenizeBlock:index#1":                 "same position",
	"(*core.Line).TokenizeBlock:index#2":                 "idx is the range index of line",
	"(*core.Selection).Pop:slice#0":                      "(bpos, epos) come from Selection.Pos, which returns -1, -1 (handled above) or 0 <= bpos <= epos <= Len; the named results are spilled because of the deferred Reset",
	"(*core.Selection).SelectAShellWord:index#0":         "mark > 0 is tested in the same expression; mark is a position on the line (cursor position or start of a selected word)",
	"(*core.Selection).SelectAShellWord:index#1":         "cpos < Len()-1 is tested in the same expression",
	"(*core.Selection).SelectKeyword:slice#0":            "bpos, epos are blank-word positions the callers obtained from SelectBlankWord on the same line (epos+1 <= Len)",
	"(*core.Selection).cycleSubgroup:index#0":            "canCycleSubgroup: kmpos < len(groups)-1 before the increment (next), or 1 < kmpos <= len(groups) before the decrement (the upper test was added by fix 57f51af after this entry had been reviewed as safe without it): 1 <= kmpos <= len(groups)-1 at the index; the domain does not forward the store of kmpos to its reload",
	"(*core.Selection).cycleSubgroup:index#1":            "same",
	"(*core.Selection).matchKeyword:index#1":             "guarded by 0 < kpos <= len(matchersNames) in the if just above",
	"(*core.Selection).matchKeyword:index#2":             "kpos is wrapped into [1, len(matchersNames)] and the loop runs while done(kpos)",
	"(*core.Selection).spacesAroundWord:index#0":         "cpos > 0 is tested in the same expression; cpos is the caller's cursor position (<= Len)",
	"(*readline.Shell).abort:index#1":                    "index 0 of the non-empty constant string inputrc.Unescape(`\\C-C`)",
	"(*readline.Shell).insertAutosuggestPartial:slice#0": "suggested is longer than the line, cpos is the cursor position on the line and forward is clipped to suggested.Len()-cpos-1 just above",
	"(*readline.Shell).keywordSwitch:index#0":            "bpos != 0 is tested in the same expression; bpos is SelectWord's start on this line (an empty line gives bpos == 0, otherwise bpos <= Len-1)",
	"(*readline.Shell).keywordSwitch:index#1":            "same",
	"(*readline.Shell).keywordSwitch:slice#1":            "bpos, epos are adjusted by the offsets a keyword switcher returned for the selected word (0 <= obpos <= oepos <= len(selection)) and cpos in [bpos, epos) was tested above",
	"(*readline.Shell).keywordSwitch:slice#2":            "same",
	"(*readline.Shell).magicSpace:slice#0":               "word starts with \"!\" (non-empty), so Pop returned a real selection: 0 <= bpos < Len",
	"(*readline.Shell).quoteLine:index#3":                "pos is the range index of *rl.line and the loop does not change the line's length",
	"(*readline.Shell).viChangeTo:index#0":               "Selection.Surrounds() returned the two surround selections MarkSurround creates together (IsSurround branch)",
	"(*readline.Shell).viChangeTo:index#1":               "same",
	"(*readline.Shell).viChangeTo:index#2":               "positions of the active one-rune surround selections created on valid positions of this line",
	"(*readline.Shell).viChangeTo:index#3":               "same",
	"(*readline.Shell).viSubstitute:index#1":             "linewise selection marked at the cursor on a non-empty line: 1 <= epos <= Len",
	"(*readline.Shell).viSubstitute:slice#0":             "same selection: 0 <= bpos <= epos <= Len",
	"(*readline.Shell).viYankWholeLine:slice#0":          "same kind of selection on a non-empty buffer; epos >= bpos is enforced just above",
	"(readline.Completions).ListSeparator:index#4":       "exported completion helper documented to take tag/separator pairs (an odd count is an application error)",
	"readline.CompleteStyledValues:index#3":              "exported completion helper documented to take value/style pairs",
	"readline.CompleteStyledValuesDescribed:index#3":     "exported completion helper documented to take value/description/style triples",
	"readline.CompleteStyledValuesDescribed:index#4":     "same",
	"readline.CompleteValuesDescribed:index#3":           "exported completion helper documented to take value/description pairs",
	"core.CoordinatesCursor:slice#0":                     "bpos and newline[0] are consecutive newline positions of the line (bpos <= newline[0] <= Len)",
	"core.CoordinatesCursor:slice#1":                     "bpos is the start of the cursor's line and cur.pos was normalised by CheckAppend at entry: bpos <= pos <= Len",
	"core.closeToken:slice#0":                            "pos[count] is the index of the opener recorded earlier in the same scan: pos[count] < idx < len(line)",
	"core.closeToken:slice#2":                            "same recorded index",
	"core.closeToken:slice#3":                            "same",
	"core.openToken:slice#0":                             "idx is a range index of line (bumped to 1 when 0): idx-1 < len(line)",
}

// integer fields with a lower-bound invariant (assumed at loads, proved at every store in the module)
var nonnegFieldLB = map[string]int64{}

func sortCallbackParams(p *Prog) func(fn *ssa.Function) []*ssa.Parameter {
	// closures passed to sort.Slice / sort.SliceStable / sort.Search; Less/Swap of sort.Interface implementations
	cb := map[*ssa.Function]bool{}
	for _, f := range p.AllFuncs {
		eachInstrRaw(f, func(in ssa.Instruction) {
			if !isCallTo(in, "sort.Slice", "sort.SliceStable", "sort.Search") {
				return
			}
			for _, a := range in.(ssa.CallInstruction).Common().Args {
				if mc, ok := a.(*ssa.MakeClosure); ok {
					if fn, ok := mc.Fn.(*ssa.Function); ok {
						cb[fn] = true
					}
				}
				if fn, ok := a.(*ssa.Function); ok {
					cb[fn] = true
				}
			}
		})
	}
	return func(fn *ssa.Function) []*ssa.Parameter {
		var out []*ssa.Parameter
		if cb[fn] {
			for _, prm := range fn.Params {
				if isIntType(prm.Type()) {
					out = append(out, prm)
				}
			}
			return out
		}
		if recv := fn.Signature.Recv(); recv != nil && (fn.Name() == "Less" || fn.Name() == "Swap") && len(fn.Params) == 3 {
			// sort.Interface: the sort package only passes 0 <= i, j < Len()
			for _, prm := range fn.Params[1:] {
				if isIntType(prm.Type()) {
					out = append(out, prm)
				}
			}
		}
		return out
	}
}

// sortCallbackFacts: the upper-bound half of the sort contract (trusted lemma):
// the sort package calls Less(i, j) / Swap(i, j) and the less function of
// sort.Slice only with 0 <= i, j < Len(), and Len() is len(receiver) /
// len(sorted slice) — checked: Len returns len(receiver), the methods have no
// caller in the module, the closure does not store to the captured slice.
func sortCallbackFacts(p *Prog) func(fn *ssa.Function) []zEntryFact {
	type capt struct{ fv int }
	closures := map[*ssa.Function]int{} // closure -> index of the free variable holding the sorted slice
	for _, f := range p.AllFuncs {
		eachInstrRaw(f, func(in ssa.Instruction) {
			if !isCallTo(in, "sort.Slice", "sort.SliceStable") {
				return
			}
			args := in.(ssa.CallInstruction).Common().Args
			if len(args) != 2 {
				return
			}
			mc, ok := args[1].(*ssa.MakeClosure)
			if !ok {
				return
			}
			fn, ok := mc.Fn.(*ssa.Function)
			if !ok {
				return
			}
			// first argument: interface made from a load of a local that the closure captures
			var src ssa.Value = args[0]
			if mi, ok := src.(*ssa.MakeInterface); ok {
				src = mi.X
			}
			ld, ok := src.(*ssa.UnOp)
			if !ok || ld.Op != token.MUL {
				return
			}
			for k, b := range mc.Bindings {
				if b == ld.X {
					closures[fn] = k
				}
			}
		})
	}
	return func(fn *ssa.Function) []zEntryFact {
		var out []zEntryFact
		if k, ok := closures[fn]; ok && k < len(fn.FreeVars) {
			fv := fn.FreeVars[k]
			stored := false
			var loads []ssa.Value
			eachInstrRaw(fn, func(in ssa.Instruction) {
				if st, ok := in.(*ssa.Store); ok && st.Addr == ssa.Value(fv) {
					stored = true
				}
				if u, ok := in.(*ssa.UnOp); ok && u.Op == token.MUL && u.X == ssa.Value(fv) {
					loads = append(loads, u)
				}
			})
			if stored {
				return nil
			}
			for _, prm := range fn.Params {
				if !isIntType(prm.Type()) {
					continue
				}
				for _, ld := range loads {
					out = append(out, zEntryFact{zterm{v: prm}, zterm{v: ld, len: true}, -1})
				}
			}
			return out
		}
		if recv := fn.Signature.Recv(); recv != nil && (fn.Name() == "Less" || fn.Name() == "Swap") && len(fn.Params) == 3 {
			if _, isSlice := fn.Params[0].Type().Underlying().(*types.Slice); !isSlice {
				return nil
			}
			// no caller inside the module
			for _, e := range p.callersOf(fn) {
				if inRepo(e.Caller.Func) && e.Caller.Func.Synthetic == "" {
					return nil
				}
			}
			// Len() of the same type returns len(receiver)
			lenFn := p.Func("(" + shortName(types.TypeString(fn.Params[0].Type(), nil)) + ").Len")
			if lenFn == nil || !returnsLenOfReceiver(lenFn) {
				return nil
			}
			for _, prm := range fn.Params[1:] {
				if isIntType(prm.Type()) {
					out = append(out, zEntryFact{zterm{v: prm}, zterm{v: fn.Params[0], len: true}, -1})
				}
			}
		}
		return out
	}
}

func returnsLenOfReceiver(f *ssa.Function) bool {
	ok := false
	n := 0
	eachInstrRaw(f, func(in ssa.Instruction) {
		ret, isRet := in.(*ssa.Return)
		if !isRet || len(ret.Results) != 1 {
			return
		}
		n++
		if cl, isCall := ret.Results[0].(*ssa.Call); isCall {
			if b, isB := cl.Call.Value.(*ssa.Builtin); isB && b.Name() == "len" && len(f.Params) > 0 && cl.Call.Args[0] == ssa.Value(f.Params[0]) {
				ok = true
			}
		}
	})
	return ok && n == 1
}

// inBoundsScope: the packages whose index / slice sites the prover must discharge.
// inputrc is proved under C12; of internal/completion, the menu grid is left
// out (gridFunction: the C15 problem, positions computed from run-time widths).
func inBoundsScope(path string) bool {
	if path == modPath {
		return true
	}
	for _, sfx := range boundsScopePkgs {
		if strings.HasSuffix(path, sfx) {
			return true
		}
	}
	return false
}

// gridFunction: the completion menu's grid (rows x columns of candidates, the
// selector moving in it, the column widths): its indices are bounded by class
// invariants of completion.group (rows non-empty, maxY == len(rows), posX inside
// the row, one width per column) that no local argument shows — the C15 problem.
// These functions are out of the prover's scope, and said so in DESIGN.md §13.
func gridFunction(f *ssa.Function) bool {
	root := f
	for root.Parent() != nil {
		root = root.Parent()
	}
	n := fnName(root)
	if strings.HasPrefix(n, "(*completion.group).") {
		return true
	}
	switch n {
	case "(*completion.Engine).renderCompletions", "(*completion.Engine).highlightDesc", "(*completion.Engine).highlightDisplay",
		"(*completion.Engine).justifyGroups", "completion.createRow", "completion.createGrid":
		return true
	}
	return false
}

var boundsScopePkgs = []string{"/internal/core", "/internal/history", "/internal/keymap", "/internal/macro", "/internal/editor", "/internal/display", "/internal/ui", "/internal/term", "/internal/color", "/internal/strutil", "/internal/completion"}

func checkC01Nonneg(c *Ctx) {
	p, r := c.P, c.R
	r.Rule("C01.nonneg", "K9", "no index expression or slice bound of the module (outside inputrc, proved under C12, and the completion menu grid) can be negative: lower-bound proof by zone-domain abstract interpretation with contracts, state getters (Cursor.Pos, Line.Len) and integer field invariants; sites resting on an invariant outside the domain are in a reviewed table with the reason", 300)
	chk := map[string]int64{}
	for _, ci := range classInvariants {
		chk[ci.tn+"."+ci.fld] = ci.lb
	}
	r.Rule("C01.bounds", "K9", "beyond non-negativity: every index of the commands and editing primitives is below the length of what it indexes, and every slice has low <= high <= length — proved with heap length terms for the shared line (Line.Len() == len(*line), Cursor.Pos() <= Len, clamps), or listed in a reviewed table with the reason", 300)
	z := &zoneEngine{p: p, contracts: coreContracts(), fieldMinLen: map[string]int64{}, useGetters: true, useHeap: true, fieldLB: nonnegFieldLB, fieldLBCheck: chk, entryNonneg: sortCallbackParams(p), entryFacts: sortCallbackFacts(p)}
	seenRevB := map[string]bool{}
	seenReviewed := map[string]bool{}
	nProved, nReviewed := 0, 0
	for _, f := range p.AllFuncs {
		// scope: the commands (root package) and the editing primitives (internal/core)
		pk := f.Pkg
		if pk == nil && f.Parent() != nil {
			pk = f.Parent().Pkg
		}
		if len(f.Blocks) == 0 || pk == nil || !inBoundsScope(pk.Pkg.Path()) || gridFunction(f) {
			continue
		}
		if f.Synthetic != "" {
			continue // wrappers and bound-method thunks: no code of their own
		}
		z.obls = nil
		z.analyse(f)
		ord := map[string]int{}
		any := false
		for _, o := range z.obls {
			kind := o.What
			if i := strings.IndexAny(kind, " :"); i > 0 && !o.IsBound {
				kind = kind[:i]
			}
			key := fmt.Sprintf("%s:%s#%d", fnName(f), kind, ord[kind])
			ord[kind]++
			ok := o.OK
			if o.IsBound {
				ok = o.LowerOK
			}
			any = true
			if !ok && strings.HasPrefix(o.What, "class invariant ") {
				// a transiently out-of-range store is fine when a normaliser of the
				// object runs before the function returns (directly or deferred)
				for _, ci := range classInvariants {
					if !strings.Contains(o.What, ci.tn+"."+ci.fld) {
						continue
					}
					if ci.deferredBefore(f, o.In) {
						ok = true
					} else if good, _ := mustPassBefore(f, o.In, isReturn, ci.isNormaliser); good {
						ok = true
					}
				}
			}
			switch {
			case ok:
				nProved++
				r.OK("C01.nonneg", key, p.IPos(o.In), "proved")
			case reviewedNonneg[key] != "":
				nReviewed++
				seenReviewed[key] = true
				r.OK("C01.nonneg", key, p.IPos(o.In), "reviewed: "+reviewedNonneg[key])
			default:
				r.Bad("C01.nonneg", key, p.IPos(o.In), "cannot show that "+describeObl(o)+" is never negative ("+o.Detail+"): a negative index or slice bound panics and takes the application down")
			}
			if o.IsBound {
				switch {
				case o.OK:
					r.OK("C01.bounds", key, p.IPos(o.In), "proved")
				case reviewedBounds[key] != "" && (!strings.HasPrefix(reviewedBounds[key], upperProvedTag) || o.UpperOK):
					// an entry tagged [upper proved] excuses the ordering clause only: the `<= len` clause must be proved
					seenRevB[key] = true
					r.OK("C01.bounds", key, p.IPos(o.In), "reviewed: "+reviewedBounds[key])
				default:
					r.Bad("C01.bounds", key, p.IPos(o.In), "cannot show that "+describeObl(o)+" stays inside what it indexes ("+o.Detail+"): an index at or past the length, or an inverted slice range, panics and takes the application down")
				}
			}
		}
		if any {
			r.Fn(fnName(f))
		}
	}
	for k := range reviewedNonneg {
		if !seenReviewed[k] {
			r.Notes = append(r.Notes, "reviewed non-negativity entry no longer matches a site that needs it: "+k)
		}
	}
	for k := range reviewedBounds {
		if !seenRevB[k] {
			r.Notes = append(r.Notes, "reviewed bounds entry no longer matches a site that needs it: "+k)
		}
	}
	r.Extra["nonneg_proved"] = nProved
	r.Extra["nonneg_reviewed"] = nReviewed
}

func describeObl(o ZObl) string {
	if o.IsBound {
		return "the " + o.What + " `" + o.In.String() + "`"
	}
	return o.What
}
