package main

// Contracts for the editing primitives of internal/core (K9 on core).
func coreContracts() map[string]*ZContract {
	return map[string]*ZContract{
		// (*Line).Len() == len(*l): ensured by the lemma below (special-cased in the engine through this contract)
	}
}
