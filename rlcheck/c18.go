package main

import (
	"fmt"
	"go/token"
	"go/types"

	"golang.org/x/tools/go/ssa"
)

func init() { propFuncs["C18"] = checkC18 }

const fnFeed = "(*core.Keys).Feed"

func isCallNamed(v ssa.Value, name string) bool {
	cl, ok := v.(*ssa.Call)
	return ok && calleeName(cl) == name
}

// leavesAll: all leaves satisfy ok (sources) or are constants when allowConst.
func leavesAll(p *Prog, leaves []Leaf, allowConst bool) (bool, string) {
	if len(leaves) == 0 {
		return false, "empty slice"
	}
	for _, l := range leaves {
		switch l.Kind {
		case LeafSource:
		case LeafConst:
			if !allowConst {
				return false, "constant " + l.V.String()
			}
		default:
			return false, fmt.Sprintf("%s [%s]", p.descValue(l.V), l.Why)
		}
	}
	return true, ""
}

func checkC18(c *Ctx) {
	p, r := c.P, c.R
	r.Explanation = "Decided statically: every macro stored in Engine.macros is the result of inputrc.EscapeMacro and every macro replayed through Keys.Feed passes through the inverse inputrc.Unescape (both replay paths); both replays feed at the tail (begin=false) and Feed's two branches prepend/append as named; in the main loop RecordKeys runs before FlushUsed in every iteration; RecordKeys records only core.MacroKeys, which returns the matched keys; ReadKey and Pop record the key they return, so argument keys are part of the macro; keys fed by a macro are not narrowed rune→byte when popped (violated on the pinned tree: known finding). NOT decided: round-trip equality of EscapeMacro/Unescape for every key (see C19) and equality of buffer effects."
	r.Trusted = []string{"go/packages type checker", "go/ssa construction", "rule tables in rlcheck/c18.go"}
	r.Assumptions = []string{"Unescape(EscapeMacro(s)) == s for the recorded keys (C19 decides the table part)"}

	need := []string{"macro.RecordKeys", "(*macro.Engine).StopRecord", "(*macro.Engine).RunLastMacro", "(*macro.Engine).RunMacro", fnFeed, "core.MacroKeys", "(*core.Keys).ReadKey", "(*core.Keys).Pop", fnReadline}
	r.Rule("C18.anchors", "K0", "anchored functions resolve", len(need))
	missing := false
	for _, n := range need {
		if f := p.Func(n); f == nil {
			r.Unk("C18.anchors", n, "-", "anchor not found — rule table needs review")
			missing = true
		} else {
			r.OK("C18.anchors", n, p.Pos(f.Pos()), "")
			r.Fn(n)
		}
	}
	if missing {
		return
	}
	mp := p.Pkg("internal/macro")

	// ---- codec: stores
	r.Rule("C18.codec-store", "K3", "every value stored into Engine.macros is the result of inputrc.EscapeMacro", 2)
	r.Rule("C18.codec-replay", "K3", "every macro value that reaches Keys.Feed from Engine.macros passes through inputrc.Unescape", 2)
	r.Rule("C18.feed-tail", "K5", "macro replays feed at the tail of the key queue (begin == false)", 2)
	isMacrosLookup := func(v ssa.Value) bool {
		switch x := v.(type) {
		case *ssa.Lookup:
			return isFieldLoad(x.X, "macro.Engine", "macros")
		case *ssa.Extract:
			if lk, ok := x.Tuple.(*ssa.Lookup); ok && x.Index == 0 {
				return isFieldLoad(lk.X, "macro.Engine", "macros")
			}
		}
		return false
	}
	for _, f := range p.RepoFuncs {
		if f.Package() == nil || mp == nil || f.Package().Pkg != mp.Types {
			continue
		}
		nS, nF := 0, 0
		eachInstr(f, func(in ssa.Instruction) {
			if mu, ok := in.(*ssa.MapUpdate); ok && isFieldLoad(mu.Map, "macro.Engine", "macros") {
				key := fmt.Sprintf("%s:macros[]=#%d", fnName(f), nS)
				nS++
				leaves := backSlice(mu.Value, &SliceOpts{P: p, IsSource: func(v ssa.Value) bool { return isCallNamed(v, "inputrc.EscapeMacro") }})
				ok, why := leavesAll(p, leaves, false)
				r.Check(ok, "C18.codec-store", key, p.IPos(in), "stored value = EscapeMacro(...)", "a macro is stored without inputrc.EscapeMacro: "+why)
			}
			if isCallTo(in, fnFeed) {
				call := in.(ssa.CallInstruction)
				key := fmt.Sprintf("%s:Feed#%d", fnName(f), nF)
				nF++
				r.CallSites++
				args := call.Common().Args // recv, begin, keys
				leaves := backSlice(args[2], &SliceOpts{P: p, ElemOf: true, IsSource: func(v ssa.Value) bool {
					cl, ok := v.(*ssa.Call)
					if !ok || calleeName(cl) != "inputrc.Unescape" {
						return false
					}
					// its argument must itself come only from the macros table
					in := backSlice(cl.Call.Args[0], &SliceOpts{P: p, IsSource: isMacrosLookup})
					ok2, _ := leavesAll(p, in, false)
					return ok2
				}})
				ok, why := leavesAll(p, leaves, false)
				r.Check(ok, "C18.codec-replay", key, p.IPos(in), "fed keys = Unescape(macros[key])",
					"a stored (escaped) macro reaches Keys.Feed without inputrc.Unescape — control keys are replayed as their literal notation: "+why)
				b, isC := constBool(args[1])
				r.Check(isC && !b, "C18.feed-tail", key, p.IPos(in), "begin=false", "macro replay does not feed with begin == false (keys would be queued ahead of pending input)")
			}
		})
	}

	// ---- Feed branches (K4+K3)
	r.Rule("C18.feed-order", "K4", "Keys.Feed appends the fed keys after the queued macro keys when begin is false and before them when true; nothing else is queued", 2)
	{
		F := p.Func(fnFeed)
		bf := blockFacts(F)
		begin := F.Params[1]
		keysP := F.Params[2]
		n := 0
		eachInstr(F, func(in ssa.Instruction) {
			st, ok := isFieldStore(in, "core.Keys", "macroKeys")
			if !ok {
				return
			}
			n++
			// the runaway-macro drop: nil stored where the feed budget is known to be exceeded
			// (C01.macro-budget; a macro that runs itself has no finite replay to be faithful to)
			if isNilConst(st.Val) && feedBudgetExceeded(factsAt(bf, in)) {
				r.OK("C18.feed-order", fmt.Sprintf("%s:store(macroKeys)#%d", fnFeed, n-1), p.IPos(in), "the queue is dropped only past the feed budget (runaway macro)")
				return
			}
			cl, isCall := st.Val.(*ssa.Call)
			if !isCall {
				r.Bad("C18.feed-order", fmt.Sprintf("%s:store(macroKeys)#%d", fnFeed, n-1), p.IPos(in), "macroKeys assigned from something other than append")
				return
			}
			b, isB := cl.Call.Value.(*ssa.Builtin)
			if !isB || b.Name() != "append" {
				r.Bad("C18.feed-order", fmt.Sprintf("%s:store(macroKeys)#%d", fnFeed, n-1), p.IPos(in), "macroKeys assigned from something other than append")
				return
			}
			fromKeys := func(v ssa.Value) bool {
				leaves := backSlice(v, &SliceOpts{P: p, IsSource: func(x ssa.Value) bool { return x == ssa.Value(keysP) }})
				ok, _ := leavesAll(p, leaves, false)
				return ok
			}
			first, second := cl.Call.Args[0], cl.Call.Args[1]
			facts := factsAt(bf, in)
			var key string
			var good bool
			switch {
			case knownBool(facts, begin, false):
				key = fnFeed + ":begin=false"
				good = isFieldLoad(first, "core.Keys", "macroKeys") && fromKeys(second)
			case knownBool(facts, begin, true):
				key = fnFeed + ":begin=true"
				good = fromKeys(first) && isFieldLoad(second, "core.Keys", "macroKeys")
			default:
				key = fmt.Sprintf("%s:store(macroKeys)#%d", fnFeed, n-1)
			}
			r.Check(good, "C18.feed-order", key, p.IPos(in), "append order matches begin", "Keys.Feed does not place the fed keys on the side of the queue selected by begin")
		})
	}

	// ---- record order in the main loop (K1)
	r.Rule("C18.record-order", "K1", "in every main-loop iteration macro.RecordKeys runs before core.FlushUsed (the matched keys are recorded before they are dropped)", 1)
	{
		RL := p.Func(fnReadline)
		isRec := func(in ssa.Instruction) bool { return isCallTo(in, "macro.RecordKeys") }
		isFlush := func(in ssa.Instruction) bool { return isCallTo(in, "core.FlushUsed") }
		for i, fl := range callsTo(RL, false, "core.FlushUsed") {
			key := siteKey(RL, "FlushUsed", i)
			ok1, _ := mustPassBefore(RL, nil, func(in ssa.Instruction) bool { return in == ssa.Instruction(fl) }, isRec)
			ok2, _ := mustPassBefore(RL, fl, isFlush, isRec)
			r.Check(ok1 && ok2, "C18.record-order", key, p.IPos(fl), "RecordKeys precedes FlushUsed on every path", "core.FlushUsed can run before macro.RecordKeys in an iteration: the keys of the last command are dropped before the recorder sees them")
		}
		// and every iteration (every path between two waits) passes RecordKeys
		isWait := func(in ssa.Instruction) bool { return isCallTo(in, "core.WaitAvailableKeys") }
		for i, w := range callsTo(RL, false, "core.WaitAvailableKeys") {
			ok, _ := mustPassBefore(RL, w, isWait, isRec)
			r.Check(ok, "C18.record-order", siteKey(RL, "WaitAvailableKeys→RecordKeys", i), p.IPos(w), "RecordKeys between two waits", "an iteration can wait for keys again without having passed macro.RecordKeys")
		}
	}

	// ---- what is recorded (K3)
	r.Rule("C18.record-source", "K3", "Engine.current only ever receives core.MacroKeys(...) (RecordKeys) or the caller keys handed to StopRecord, appended to itself", 2)
	for _, f := range p.RepoFuncs {
		if f.Package() == nil || mp == nil || f.Package().Pkg != mp.Types {
			continue
		}
		n := 0
		eachInstr(f, func(in ssa.Instruction) {
			st, ok := isFieldStore(in, "macro.Engine", "current")
			if !ok {
				return
			}
			key := fmt.Sprintf("%s:store(current)#%d", fnName(f), n)
			n++
			if _, isMk := st.Val.(*ssa.MakeSlice); isMk {
				r.OK("C18.record-source", key, p.IPos(in), "reset")
				return
			}
			leaves := backSlice(st.Val, &SliceOpts{P: p, IsSource: func(v ssa.Value) bool {
				if isFieldLoad(v, "macro.Engine", "current") || isCallNamed(v, "core.MacroKeys") {
					return true
				}
				if prm, ok := v.(*ssa.Parameter); ok && fnName(prm.Parent()) == "(*macro.Engine).StopRecord" {
					return true
				}
				return false
			}})
			ok2, why := leavesAll(p, leaves, true)
			r.Check(ok2, "C18.record-source", key, p.IPos(in), "current = append(current, MacroKeys|caller keys)", "the recorder stores keys that are not the matched keys: "+why)
		})
	}
	// MacroKeys returns matched (or nil)
	{
		MK := p.Func("core.MacroKeys")
		ok := true
		why := ""
		eachInstr(MK, func(in ssa.Instruction) {
			if ret, isR := in.(*ssa.Return); isR {
				v := ret.Results[0]
				if !(isNilConst(v) || isFieldLoad(v, "core.Keys", "matched")) {
					ok = false
					why = v.String()
				}
			}
		})
		r.Check(ok, "C18.record-source", "core.MacroKeys:return", p.Pos(MK.Pos()), "returns Keys.matched or nil", "core.MacroKeys returns something other than the matched keys: "+why)
	}

	// ---- argument keys are recorded (K1+K3)
	r.Rule("C18.arg-keys-recorded", "K1", "ReadKey and Pop append the key they return to Keys.matched on every returning path with a key", 2)
	for _, n := range []string{"(*core.Keys).ReadKey", "(*core.Keys).Pop"} {
		f := p.Func(n)
		// the store matched = append(matched, X)
		var store *ssa.Store
		var appended ssa.Value
		eachInstr(f, func(in ssa.Instruction) {
			if st, ok := isFieldStore(in, "core.Keys", "matched"); ok {
				if cl, ok := st.Val.(*ssa.Call); ok {
					if b, ok := cl.Call.Value.(*ssa.Builtin); ok && b.Name() == "append" && isFieldLoad(cl.Call.Args[0], "core.Keys", "matched") {
						store = st
						appended = cl.Call.Args[1]
					}
				}
			}
		})
		key := n + ":matched+=returned"
		if store == nil {
			r.Bad("C18.arg-keys-recorded", key, p.Pos(f.Pos()), "no `matched = append(matched, key)` found: keys read as command arguments are not recorded in macros")
			continue
		}
		good := true
		why := ""
		eachInstr(f, func(in ssa.Instruction) {
			ret, ok := in.(*ssa.Return)
			if !ok || in.Block() == f.Recover {
				return
			}
			// returns flagged empty (second result const true) carry no key
			if len(ret.Results) == 2 {
				if b, ok := constBool(ret.Results[1]); ok && b && n == "(*core.Keys).Pop" {
					return
				}
			}
			// an abort return carrying no key (0, true) has nothing to record
			if len(ret.Results) == 2 && n == "(*core.Keys).ReadKey" {
				kv, av := mayValues(ret.Results[0]), mayValues(ret.Results[1])
				if len(kv) == 1 && len(av) == 1 {
					if k, ok := constInt(kv[0]); ok && k == 0 {
						if b, ok := constBool(av[0]); ok && b {
							return
						}
					}
				}
			}
			// the store must precede this return
			if miss := pathAvoiding(f, nil, func(x ssa.Instruction) bool { return x == ssa.Instruction(ret) }, func(x ssa.Instruction) bool { return x == ssa.Instruction(store) }); miss != nil {
				good = false
				why = "a return is reachable without the append"
				return
			}
			// appended value is the returned key (modulo conversion / spilled named result)
			retSet := resolveLoad(ret.Results[0])
			var elems []ssa.Value
			for _, l := range backSlice(appended, &SliceOpts{P: p, ElemOf: true, IsSource: func(v ssa.Value) bool {
				_, isSl := v.(*ssa.Slice)
				_, isAl := v.(*ssa.Alloc)
				return !isSl && !isAl
			}}) {
				elems = append(elems, l.V)
			}
			if len(elems) == 0 {
				good = false
				why = "nothing appended"
			}
			for _, e := range elems {
				for x := range resolveLoad(e) {
					if !retSet[x] {
						good = false
						why = "appended value " + p.descValue(x) + " is not the returned key"
					}
				}
			}
		})
		r.Check(good, "C18.arg-keys-recorded", key, p.IPos(store), "the returned key is appended to matched", why)
	}

	// ---- no narrowing of fed keys (K3) — shared with C02
	checkNoNarrowing(c, "C18.no-narrowing")
	checkC18StopRecord(c)
	checkRound8C18(c)
	checkKeyCodeTables(c, "C18.key-code-tables")
	checkPopOrder(c, "C18.pop-order")
	checkPrefixBoundPop(c, "C18.pushed-back-argument")
}

// checkNoNarrowing: no lossy rune→byte conversion of keys taken from Keys.macroKeys.
func checkNoNarrowing(c *Ctx, rule string) {
	p, r := c.P, c.R
	r.Rule(rule, "K3", "keys fed to the queue as runes (macros, fed sequences) are not narrowed to a byte when popped", 4)
	cp := p.Pkg("internal/core")
	n := 0
	for _, f := range p.RepoFuncs {
		if f.Package() == nil || cp == nil || f.Package().Pkg != cp.Types {
			continue
		}
		k := 0
		eachInstr(f, func(in ssa.Instruction) {
			cv, ok := in.(*ssa.Convert)
			if !ok {
				return
			}
			from, ok1 := cv.X.Type().Underlying().(*types.Basic)
			to, ok2 := cv.Type().Underlying().(*types.Basic)
			if !ok1 || !ok2 || from.Kind() != types.Int32 || to.Kind() != types.Uint8 {
				return
			}
			// source: element of Keys.macroKeys
			u, ok := cv.X.(*ssa.UnOp)
			if !ok || u.Op != token.MUL {
				return
			}
			ia, ok := u.X.(*ssa.IndexAddr)
			if !ok || !isFieldLoad(ia.X, "core.Keys", "macroKeys") {
				return
			}
			n++
			key := fmt.Sprintf("%s:byte(macroKeys[i])#%d", fnName(f), k)
			k++
			r.Fn(fnName(f))
			r.Bad(rule, key, p.IPos(in), "a rune from the macro/fed key queue is converted to byte: runes ≥ 0x100 are truncated and runes 0x80–0xFF become a single non-UTF-8 byte, so a replayed non-ASCII key differs from the typed one")
		})
	}
	if n == 0 {
		// rule expects zero violations: confirm that the queue is still popped somewhere
		pops := 0
		for _, f := range p.RepoFuncs {
			eachInstr(f, func(in ssa.Instruction) {
				if u, ok := in.(*ssa.UnOp); ok && u.Op == token.MUL {
					if ia, ok := u.X.(*ssa.IndexAddr); ok && isFieldLoad(ia.X, "core.Keys", "macroKeys") {
						pops++
					}
				}
			})
		}
		if pops == 0 {
			r.Unk(rule, "core:macroKeys-pop-sites", "-", "no read of Keys.macroKeys elements found — rule table needs review")
		} else {
			for i := 0; i < 4; i++ {
				r.OK(rule, fmt.Sprintf("core:macroKeys-read(no narrowing)#%d", i), "-", fmt.Sprintf("%d element reads, none narrowed", pops))
			}
		}
	}
}

// feedBudgetExceeded: a `feeds > constant` outcome (constant >= 100: a budget no
// hand-written macro chain reaches) is among the facts.
func feedBudgetExceeded(facts map[Fact]bool) bool {
	for fc := range facts {
		rel, ok := relOf(fc.Cond, fc.Val)
		if !ok || !isFieldLoad(stripConv(rel.X), "core.Keys", "feeds") {
			continue
		}
		if k, isK := constInt(rel.Y); isK && k >= 100 && (rel.Op == token.GTR || rel.Op == token.GEQ) {
			return true
		}
		// constant + keys typed since the keys were last all used
		if bo, ok := rel.Y.(*ssa.BinOp); ok && bo.Op == token.ADD && (rel.Op == token.GTR || rel.Op == token.GEQ) {
			for _, pair := range [][2]ssa.Value{{bo.X, bo.Y}, {bo.Y, bo.X}} {
				if k, isK := constInt(pair[0]); isK && k >= 100 && isFieldLoad(stripConv(pair[1]), "core.Keys", "typed") {
					return true
				}
			}
		}
	}
	return false
}
