package main

import (
	"fmt"
	"go/token"
	"sort"
	"strings"

	"golang.org/x/tools/go/ssa"
)

func init() { propFuncs["C19"] = checkC19 }

// ---- writer table extraction -------------------------------------------------

type wEntry struct {
	K      int64  // rune constant of the case
	Str    string // constant string emitted ("" if not constant)
	MapKey int64  // emitted m[MapKey] (when ViaMap)
	ViaMap bool
	Lit    bool // emits `\` + the rune itself
	At     ssa.Instruction
}

func extractWriter(esc *ssa.Function) ([]wEntry, ssa.Value) {
	var out []wEntry
	// the ranged rune: extract #2 of a Next
	var cur ssa.Value
	eachInstr(esc, func(in ssa.Instruction) {
		if ex, ok := in.(*ssa.Extract); ok && ex.Index == 2 {
			if _, isN := ex.Tuple.(*ssa.Next); isN {
				cur = ex
			}
		}
	})
	if cur == nil {
		return nil, nil
	}
	// collect, per block, the constants K with an edge (cur == K → block)
	target := map[*ssa.BasicBlock][]int64{}
	for _, b := range esc.Blocks {
		iff, ok := b.Instrs[len(b.Instrs)-1].(*ssa.If)
		if !ok {
			continue
		}
		bo, ok := iff.Cond.(*ssa.BinOp)
		if !ok || bo.Op != token.EQL || bo.X != cur {
			continue
		}
		if k, ok := constInt(bo.Y); ok {
			target[b.Succs[0]] = append(target[b.Succs[0]], k)
		}
	}
	for b, ks := range target {
		// the appended string element in b
		var elem ssa.Value
		var at ssa.Instruction
		for _, in := range b.Instrs {
			cl, ok := in.(*ssa.Call)
			if !ok {
				continue
			}
			if bi, ok := cl.Call.Value.(*ssa.Builtin); ok && bi.Name() == "append" {
				at = in
				if sl, ok := cl.Call.Args[1].(*ssa.Slice); ok {
					if a, ok := sl.X.(*ssa.Alloc); ok {
						for _, ref := range referrersOf(a) {
							if ia, ok := ref.(*ssa.IndexAddr); ok {
								for _, r2 := range referrersOf(ia) {
									if st, ok := r2.(*ssa.Store); ok {
										elem = st.Val
									}
								}
							}
						}
					}
				}
			}
		}
		for _, k := range ks {
			e := wEntry{K: k, At: at}
			switch v := elem.(type) {
			case *ssa.Const:
				e.Str, _ = constString(v)
			case *ssa.Lookup:
				if mk, ok := constInt(v.Index); ok {
					e.ViaMap, e.MapKey = true, mk
				}
			case *ssa.BinOp:
				if s, ok := constString(v.X); ok && s == `\` && v.Op == token.ADD {
					if cv, ok := v.Y.(*ssa.Convert); ok && cv.X == cur {
						e.Lit = true
					}
				}
			}
			out = append(out, e)
		}
	}
	sort.Slice(out, func(i, j int) bool { return out[i].K < out[j].K })
	return out, cur
}

// mapLiteral extracts a map[rune]string literal passed as the 2nd arg of the escape call in fn.
func escapeMapOf(fn *ssa.Function) map[int64]string {
	out := map[int64]string{}
	eachInstr(fn, func(in ssa.Instruction) {
		if mu, ok := in.(*ssa.MapUpdate); ok {
			k, ok1 := constInt(mu.Key)
			v, ok2 := constString(mu.Value)
			if ok1 && ok2 {
				out[k] = v
			}
		}
	})
	return out
}

// ---- reader table extraction -------------------------------------------------

type rEntry struct {
	Pat     map[int]int64 // position (1-based after the backslash) -> required rune
	Const   bool
	R       int64  // appended constant rune
	Fn      string // appended = Fn(char<Arg>) (Encontrol / Enmeta)
	Arg     int
	LitSet  []int64 // appended = char1, reached from edges char1 == L
	Advance int64
	MaxIdx  int  // highest charN the appended value is computed from (numeric escapes)
	Numeric bool // appended value is arithmetic on charN values
	At      ssa.Instruction
}

func extractReader(un *ssa.Function) ([]rEntry, bool) {
	// charN values: grab(r, i+N, end)
	charIdx := map[ssa.Value]int{}
	eachInstr(un, func(in ssa.Instruction) {
		cl, ok := in.(*ssa.Call)
		if !ok || calleeName(cl) != "inputrc.grab" {
			return
		}
		if bo, ok := cl.Call.Args[1].(*ssa.BinOp); ok && bo.Op == token.ADD {
			if k, ok := constInt(bo.Y); ok {
				if _, isPhi := bo.X.(*ssa.Phi); isPhi {
					charIdx[cl] = int(k)
				}
			}
		}
	})
	if len(charIdx) < 3 {
		return nil, false
	}
	bf := blockFacts(un)
	var out []rEntry
	// the loop's post block: phi of i
	var iPhi *ssa.Phi
	var idxVar ssa.Value
	eachInstr(un, func(in ssa.Instruction) {
		if ph, ok := in.(*ssa.Phi); ok && ph.Comment == "i" && len(ph.Edges) > 4 {
			iPhi = ph
		}
	})
	for v := range charIdx {
		idxVar = v.(*ssa.Call).Call.Args[1].(*ssa.BinOp).X
	}
	for _, b := range un.Blocks {
		for _, in := range b.Instrs {
			cl, ok := in.(*ssa.Call)
			if !ok {
				continue
			}
			bi, ok := cl.Call.Value.(*ssa.Builtin)
			if !ok || bi.Name() != "append" || len(cl.Call.Args) != 2 {
				continue
			}
			sl, ok := cl.Call.Args[1].(*ssa.Slice)
			if !ok {
				continue
			}
			a, ok := sl.X.(*ssa.Alloc)
			if !ok {
				continue
			}
			var elems []ssa.Value
			for _, ref := range referrersOf(a) {
				if ia, ok := ref.(*ssa.IndexAddr); ok {
					for _, r2 := range referrersOf(ia) {
						if st, ok := r2.(*ssa.Store); ok {
							elems = append(elems, st.Val)
						}
					}
				}
			}
			if len(elems) == 0 {
				continue
			}
			last := elems[len(elems)-1]
			e := rEntry{Pat: map[int]int64{}, At: in}
			for f := range bf[b] {
				if !f.Val {
					continue
				}
				bo, ok := f.Cond.(*ssa.BinOp)
				if !ok || bo.Op != token.EQL {
					continue
				}
				if n, ok := charIdx[bo.X]; ok {
					if k, ok := constInt(bo.Y); ok {
						e.Pat[n] = k
					}
				}
			}
			switch v := last.(type) {
			case *ssa.BinOp:
				// numeric escape: arithmetic over charN (possibly through hexVal)
				e.Numeric = true
				var visit func(x ssa.Value, d int)
				visit = func(x ssa.Value, d int) {
					if d > 6 {
						return
					}
					if n, ok := charIdx[x]; ok {
						if n > e.MaxIdx {
							e.MaxIdx = n
						}
						return
					}
					switch y := x.(type) {
					case *ssa.BinOp:
						visit(y.X, d+1)
						visit(y.Y, d+1)
					case *ssa.Call:
						for _, a := range y.Call.Args {
							visit(a, d+1)
						}
					case *ssa.Convert:
						visit(y.X, d+1)
					}
				}
				visit(v, 0)
			case *ssa.Const:
				e.Const = true
				e.R, _ = constInt(v)
			case *ssa.Call:
				n := calleeName(v)
				if n == "inputrc.Encontrol" || n == "inputrc.Enmeta" {
					e.Fn = strings.TrimPrefix(n, "inputrc.")
					e.Arg = charIdx[v.Call.Args[0]]
				}
				if n == "inputrc.hexVal" {
					e.Numeric = true
					e.MaxIdx = charIdx[v.Call.Args[0]]
				}
				if ci, ok := charIdx[v]; ok && ci == 1 {
					// appended = char1 itself: literal entry; edges
					for _, pb := range b.Preds {
						if iff, ok := pb.Instrs[len(pb.Instrs)-1].(*ssa.If); ok && pb.Succs[0] == b {
							if bo, ok := iff.Cond.(*ssa.BinOp); ok && bo.Op == token.EQL {
								if n, ok := charIdx[bo.X]; ok && n == 1 {
									if k, ok := constInt(bo.Y); ok {
										e.LitSet = append(e.LitSet, k)
									}
								}
							}
						}
					}
				}
			}
			// advance: follow the single-successor chain from this block to the loop's post
			// block, resolving intermediate phis along the edges actually taken
			if iPhi != nil {
				known := map[ssa.Value]int64{idxVar: 0}
				var resolve func(v ssa.Value, d int) (int64, bool)
				resolve = func(v ssa.Value, d int) (int64, bool) {
					if k, ok := known[v]; ok {
						return k, true
					}
					if d > 6 {
						return 0, false
					}
					if bo, ok := v.(*ssa.BinOp); ok && bo.Op == token.ADD {
						if k, isK := constInt(bo.Y); isK {
							if x, ok := resolve(bo.X, d+1); ok {
								return x + k, true
							}
						}
					}
					return 0, false
				}
				prev, cur := b, b
				for k := 0; k < 6; k++ {
					if len(cur.Succs) != 1 {
						break
					}
					next := cur.Succs[0]
					prev, cur = cur, next
					// phis of cur, edge from prev
					pi := -1
					for i, pb := range cur.Preds {
						if pb == prev {
							pi = i
						}
					}
					for _, x := range cur.Instrs {
						ph, ok := x.(*ssa.Phi)
						if !ok {
							break
						}
						if pi >= 0 {
							if val, ok := resolve(ph.Edges[pi], 0); ok {
								if ph == iPhi {
									e.Advance = val
								} else {
									known[ph] = val
								}
							}
						}
					}
					if cur == iPhi.Block() {
						break
					}
				}
			}
			out = append(out, e)
		}
	}
	return out, true
}

// constFold evaluates a straight-line pure function on constant integer
// arguments (constant propagation through a call). Supports BinOp, Convert,
// and unicode.ToUpper on ASCII (stdlib lemma).
func constFold(fn *ssa.Function, args []int64) (int64, bool) {
	if fn == nil || len(fn.Blocks) != 1 {
		return 0, false
	}
	env := map[ssa.Value]int64{}
	for i, prm := range fn.Params {
		if i < len(args) {
			env[prm] = args[i]
		}
	}
	val := func(v ssa.Value) (int64, bool) {
		if k, ok := constInt(v); ok {
			return k, true
		}
		x, ok := env[v]
		return x, ok
	}
	for _, in := range fn.Blocks[0].Instrs {
		switch x := in.(type) {
		case *ssa.BinOp:
			a, ok1 := val(x.X)
			b, ok2 := val(x.Y)
			if !ok1 || !ok2 {
				return 0, false
			}
			switch x.Op {
			case token.AND:
				env[x] = a & b
			case token.OR:
				env[x] = a | b
			case token.AND_NOT:
				env[x] = a &^ b
			case token.XOR:
				env[x] = a ^ b
			case token.ADD:
				env[x] = a + b
			case token.SUB:
				env[x] = a - b
			default:
				return 0, false
			}
		case *ssa.UnOp:
			a, ok := val(x.X)
			if !ok || x.Op != token.XOR {
				return 0, false
			}
			env[x] = ^a
		case *ssa.Convert:
			a, ok := val(x.X)
			if !ok {
				return 0, false
			}
			env[x] = a
		case *ssa.Call:
			if calleeName(x) == "unicode.ToUpper" {
				a, ok := val(x.Call.Args[0])
				if !ok || a < 0 || a > 127 {
					return 0, false
				}
				if a >= 'a' && a <= 'z' {
					a -= 32
				}
				env[x] = a
			} else {
				return 0, false
			}
		case *ssa.Return:
			return val(x.Results[0])
		case *ssa.DebugRef:
		default:
			return 0, false
		}
	}
	return 0, false
}

func checkC19(c *Ctx) {
	p, r := c.P, c.R
	r.Explanation = "Decided statically (writer/reader table agreement): every named escape the writer `escape` emits — directly, through the Escape / EscapeMacro tables, or as a backslash-literal — is decoded by a case of the reader `unescapeRunes` to the same rune constant and consumes exactly the emitted characters; `\\C-?` and `\\C-M` decode to Delete and Return (the latter by constant propagation through Encontrol); the numeric fallback uses a zero-padded two-digit hex verb on a value bounded by 0xFF, and is not composed after a `\\M-` prefix the reader cannot decode (violated on the pinned tree: known finding); everything the dump commands print as a key sequence or macro body passes through inputrc.Escape/EscapeMacro; the inputrc-format variable dump spells booleans the way `doSet` reads them. NOT decided: Unescape(Escape(s)) == s for all s — round-trip equality is value-level; the precedence of overlapping reader cases is not modelled."
	r.Trusted = []string{"go/packages type checker (constant values)", "go/ssa construction", "lemma: unicode.ToUpper on ASCII", "rule tables in rlcheck/c19.go"}
	r.Assumptions = []string{"the reader's cases are tried in an order that lets the matching case win (not modelled)"}

	ESC, UN := p.Func("inputrc.escape"), p.Func("inputrc.unescapeRunes")
	r.Rule("C19.anchors", "K0", "anchored functions resolve", 2)
	for n, f := range map[string]*ssa.Function{"inputrc.escape": ESC, "inputrc.unescapeRunes": UN} {
		if f == nil {
			r.Unk("C19.anchors", n, "-", "anchor not found — rule table needs review")
		} else {
			r.OK("C19.anchors", n, p.Pos(f.Pos()), "")
			r.Fn(n)
		}
	}
	if ESC == nil || UN == nil {
		return
	}
	wt, cur := extractWriter(ESC)
	rt, okR := extractReader(UN)
	r.Rule("C19.table", "K5", "each escape the writer emits has a reader case decoding it to the same rune and consuming exactly its characters", 12)
	if len(wt) < 10 || !okR || len(rt) < 15 {
		r.Unk("C19.table", "extraction", p.Pos(ESC.Pos()), fmt.Sprintf("table extraction failed (writer entries %d, reader entries %d) — rule table needs review", len(wt), len(rt)))
		return
	}
	r.Extra["writer_entries"] = len(wt)
	r.Extra["reader_entries"] = len(rt)
	tables := map[string]map[int64]string{}
	for _, n := range []string{"inputrc.Escape", "inputrc.EscapeMacro"} {
		f := p.Func(n)
		if f == nil {
			r.Unk("C19.table", n, "-", "anchor not found")
			continue
		}
		r.Fn(n)
		tables[n] = escapeMapOf(f)
	}
	// decode a constant notation S with the extracted reader table
	decode := func(s string) (int64, bool, string) {
		rs := []rune(s)
		if len(rs) < 2 || rs[0] != '\\' {
			return 0, false, "notation does not start with a backslash"
		}
		rest := rs[1:]
		// most specific matching entry (most pattern positions)
		best := -1
		for i, e := range rt {
			if len(e.Pat) == 0 && len(e.LitSet) == 0 {
				continue
			}
			match := true
			for pos, k := range e.Pat {
				if pos-1 >= len(rest) || int64(rest[pos-1]) != k {
					match = false
				}
			}
			if len(e.LitSet) > 0 {
				match = false
				for _, k := range e.LitSet {
					if int64(rest[0]) == k {
						match = true
					}
				}
			}
			if !match {
				continue
			}
			if !(e.Const || e.Fn != "" || len(e.LitSet) > 0) {
				continue
			}
			if best < 0 || len(e.Pat) > len(rt[best].Pat) {
				best = i
			}
		}
		if best < 0 {
			return 0, false, "no reader case for " + s
		}
		e := rt[best]
		var got int64
		switch {
		case e.Const:
			got = e.R
		case len(e.LitSet) > 0:
			got = int64(rest[0])
		case e.Fn != "":
			if e.Arg-1 >= len(rest) {
				return 0, false, "reader case needs more characters than emitted"
			}
			v, ok := constFold(p.Func("inputrc."+e.Fn), []int64{int64(rest[e.Arg-1])})
			if !ok {
				return 0, false, "could not fold inputrc." + e.Fn
			}
			got = v
		}
		want := int64(len(rest))
		if e.Advance != want {
			return got, false, fmt.Sprintf("reader consumes %d characters after the backslash, writer emitted %d", e.Advance, want)
		}
		return got, true, ""
	}
	for _, w := range wt {
		var notations []struct{ tbl, s string }
		switch {
		case w.Str != "":
			notations = append(notations, struct{ tbl, s string }{"escape", w.Str})
		case w.ViaMap:
			for tn, m := range tables {
				s, ok := m[w.MapKey]
				if !ok {
					r.Bad("C19.table", fmt.Sprintf("rune %#x via %s", w.K, tn), p.IPos(w.At), fmt.Sprintf("%s has no entry for rune %#x: escape() emits an empty string for it", tn, w.MapKey))
					continue
				}
				notations = append(notations, struct{ tbl, s string }{tn, s})
			}
		case w.Lit:
			notations = append(notations, struct{ tbl, s string }{"escape", `\` + string(rune(w.K))})
		default:
			r.Unk("C19.table", fmt.Sprintf("rune %#x", w.K), p.IPos(w.At), "writer case emits something the extractor does not recognise")
			continue
		}
		for _, n := range notations {
			key := fmt.Sprintf("%s:rune %#x → %s", n.tbl, w.K, n.s)
			got, ok, why := decode(n.s)
			switch {
			case !ok:
				r.Bad("C19.table", key, p.IPos(w.At), "writer emits "+n.s+" but "+why)
			case got != w.K:
				r.Bad("C19.table", key, p.IPos(w.At), fmt.Sprintf("writer emits %s for rune %#x but the reader decodes it to %#x", n.s, w.K, got))
			default:
				r.OK("C19.table", key, p.IPos(w.At), "decoded back to the same rune")
			}
		}
	}

	// ---- hex fallback (K5+K4)
	r.Rule("C19.hex-fallback", "K5", "the numeric fallback prints exactly two zero-padded hex digits of a value bounded by 0xFF, and is not reachable after a `\\M-` prefix has been emitted", 3)
	{
		var sp *ssa.Call
		eachInstr(ESC, func(in ssa.Instruction) {
			if cl, ok := in.(*ssa.Call); ok && calleeName(cl) == "fmt.Sprintf" {
				sp = cl
			}
		})
		if sp == nil {
			r.OK("C19.hex-fallback", "inputrc.escape:no-numeric-fallback", p.Pos(ESC.Pos()), "no Sprintf fallback in escape")
		} else {
			f, _ := constString(sp.Call.Args[0])
			okVerb := f == `\x%02x` || f == `\x%02X`
			r.Check(okVerb, "C19.hex-fallback", "inputrc.escape:verb", p.IPos(sp), "format "+f, fmt.Sprintf("numeric fallback format is %q: output is space-padded or not two hex digits, which the reader's hexDigit does not accept", f))
			// bounded by 0xff: a dominating fact c <= 255 / c < 256 / !(c > 255) on the formatted value
			bf := blockFacts(ESC)
			var fv ssa.Value
			for _, l := range backSlice(sp.Call.Args[1], &SliceOpts{P: p, ElemOf: true, IsSource: func(v ssa.Value) bool {
				_, isPhi := v.(*ssa.Phi)
				_, isCall := v.(*ssa.Call)
				return isPhi || isCall || v == cur
			}}) {
				fv = l.V
			}
			bounded := false
			for fc := range factsAt(bf, sp) {
				rel, ok := relOf(fc.Cond, fc.Val)
				if !ok || rel.X != fv {
					continue
				}
				if k, ok := constInt(rel.Y); ok {
					if (rel.Op == token.LEQ && k <= 255) || (rel.Op == token.LSS && k <= 256) {
						bounded = true
					}
				}
			}
			r.Check(bounded, "C19.hex-fallback", "inputrc.escape:bounded", p.IPos(sp), "value ≤ 0xFF at the fallback", "the fallback prints runes above 0xFF with more than two hex digits; the reader consumes at most two (\\x200b decodes to ' ' '0' 'b')")
			// composite after \M-
			var metaCat ssa.Instruction
			eachInstr(ESC, func(in ssa.Instruction) {
				if bo, ok := in.(*ssa.BinOp); ok && bo.Op == token.ADD {
					if s, ok := constString(bo.Y); ok && s == `\M-` {
						metaCat = in
					}
				}
			})
			if metaCat != nil {
				reach := pathAvoiding(ESC, metaCat, func(in ssa.Instruction) bool { return in == ssa.Instruction(sp) }, func(in ssa.Instruction) bool {
					// stop at the loop head (next iteration)
					_, isNext := in.(*ssa.Next)
					return isNext
				})
				// reader's \M- case: does it decode an escaped char3?
				readerHandles := false
				for _, e := range rt {
					if e.Pat[1] == 'M' && e.Pat[2] == '-' && e.Pat[3] == '\\' && e.Pat[4] != 0 && e.Pat[4] != 'C' {
						readerHandles = true
					}
				}
				// idiom: the prefix is emitted only when the de-meta'd rune is printable
				guarded := false
				for fc := range factsAt(bf, metaCat) {
					if cl, ok := fc.Cond.(*ssa.Call); ok && fc.Val && calleeName(cl) == "unicode.IsPrint" {
						if inner, ok := cl.Call.Args[0].(*ssa.Call); ok && calleeName(inner) == "inputrc.Demeta" {
							guarded = true
						}
					}
				}
				r.Check(reach == nil || readerHandles || guarded, "C19.hex-fallback", "inputrc.escape:\\M-+\\x", p.IPos(metaCat), "no composite \\M-\\xHH", "the writer can emit `\\M-` followed by the `\\xHH` fallback (runes 0x80–0x9F and 0xFF) but the reader's `\\M-` case takes the next character literally: those runes do not round-trip")
			} else {
				r.OK("C19.hex-fallback", "inputrc.escape:\\M-+\\x", p.Pos(ESC.Pos()), "no \\M- prefix emitted")
			}
		}
	}

	// ---- numeric escapes consume what they decode (K5)
	r.Rule("C19.numeric-advance", "K5", "each numeric escape case of the reader (\\xH, \\xHH, \\n, \\nn, \\nnn) advances past exactly the digits it decoded", 5)
	{
		n := 0
		for _, e := range rt {
			if !e.Numeric || e.MaxIdx == 0 {
				continue
			}
			key := fmt.Sprintf("inputrc.unescapeRunes:numeric#%d(digits up to char%d)", n, e.MaxIdx)
			n++
			r.Check(e.Advance == int64(e.MaxIdx), "C19.numeric-advance", key, p.IPos(e.At), fmt.Sprintf("advances %d", e.Advance),
				fmt.Sprintf("a numeric escape decodes characters up to position %d after the backslash but advances only %d: the last digit is decoded and then appended again as a literal (\\x41 → \"A1\")", e.MaxIdx, e.Advance))
		}
	}

	// ---- multi-part prefixes are unambiguous (K5)
	r.Rule("C19.prefix-unambiguous", "K5", "a reader case that looks beyond the third character (composite \\C-\\M- / \\M-\\C- prefixes) requires a backslash at the junction, which the writer can never emit unescaped", 1)
	{
		n := 0
		for _, e := range rt {
			maxPos := 0
			for pos := range e.Pat {
				if pos > maxPos {
					maxPos = pos
				}
			}
			if maxPos < 4 || e.Numeric {
				continue
			}
			key := fmt.Sprintf("inputrc.unescapeRunes:composite#%d", n)
			n++
			r.Check(e.Pat[3] == '\\', "C19.prefix-unambiguous", key, p.IPos(e.At), "junction requires a backslash",
				"a composite-prefix case does not require a backslash after the first prefix: the writer's `\\C-x` followed by literal text such as `M-` is decoded as a control-meta prefix")
		}
		if n == 0 {
			r.OK("C19.prefix-unambiguous", "inputrc.unescapeRunes:no-composite-case", p.Pos(UN.Pos()), "no composite prefix case in the reader")
		}
	}

	// ---- dumps escape what they print (K3)
	r.Rule("C19.dump-escapes", "K3", "key sequences and macro bodies printed by the dump commands in inputrc format pass through inputrc.Escape / EscapeMacro", 3)
	isEsc := func(v ssa.Value) bool {
		return isCallNamed(v, "inputrc.Escape") || isCallNamed(v, "inputrc.EscapeMacro")
	}
	if PB := p.Func("(*keymap.Engine).PrintBinds"); PB != nil {
		r.Fn(fnName(PB))
		// every string appended to a per-command bind list derives from Escape(key)
		n := 0
		eachInstr(PB, func(in ssa.Instruction) {
			cl, ok := in.(*ssa.Call)
			if !ok {
				return
			}
			bi, ok := cl.Call.Value.(*ssa.Builtin)
			if !ok || bi.Name() != "append" {
				return
			}
			if _, isLk := cl.Call.Args[0].(*ssa.Lookup); !isLk {
				if ph, isPhi := cl.Call.Args[0].(*ssa.Phi); !isPhi || ph.Comment != "commandBinds" {
					if typeStr(cl.Type()) != "[]string" || !strings.Contains(cl.Call.Args[0].Name(), "t") {
						return
					}
				}
			}
			// appended strings
			leaves := backSlice(cl.Call.Args[1], &SliceOpts{P: p, ElemOf: true, IsSource: isEsc})
			srcOnly := len(leaves) > 0
			hasEsc := false
			for _, l := range leaves {
				if l.Kind == LeafSource {
					hasEsc = true
				} else {
					srcOnly = false
				}
			}
			// only the append whose element is a key sequence matters: element derived from the range key of binds
			if !hasEsc && !dependsOn(cl.Call.Args[1], func(v ssa.Value) bool {
				ex, ok := v.(*ssa.Extract)
				if !ok || ex.Index != 1 {
					return false
				}
				nx, ok := ex.Tuple.(*ssa.Next)
				return ok && strings.Contains(typeStr(nx.Iter.(*ssa.Range).X.Type()), "inputrc.Bind")
			}) {
				return
			}
			n++
			r.Check(srcOnly && hasEsc, "C19.dump-escapes", fmt.Sprintf("%s:bind-sequence#%d", fnName(PB), n-1), p.IPos(in), "sequence = Escape(key)", "PrintBinds collects a key sequence without inputrc.Escape: the dump prints raw control bytes that do not parse back")
		})
		if n == 0 {
			r.Unk("C19.dump-escapes", fnName(PB)+":bind-sequence", p.Pos(PB.Pos()), "no collected key sequence found in PrintBinds — rule table needs review")
		}
	} else {
		r.Unk("C19.dump-escapes", "(*keymap.Engine).PrintBinds", "-", "anchor not found")
	}
	if DM := p.Func("(*readline.Shell).dumpMacros"); DM != nil {
		r.Fn(fnName(DM))
		n := 0
		for _, f := range withAnons(DM) {
			eachInstr(f, func(in ssa.Instruction) {
				cl, ok := in.(*ssa.Call)
				if !ok || calleeName(cl) != "fmt.Printf" {
					return
				}
				n++
				leaves := backSlice(cl.Call.Args[1], &SliceOpts{P: p, ElemOf: true, IsSource: isEsc})
				good := len(leaves) > 0
				why := ""
				nsrc := 0
				for _, l := range leaves {
					switch l.Kind {
					case LeafSource:
						nsrc++
					case LeafConst:
					default:
						good = false
						why = fmt.Sprintf("%s [%s]", p.descValue(l.V), l.Why)
					}
				}
				if nsrc == 0 {
					good = false
				}
				r.Check(good, "C19.dump-escapes", fmt.Sprintf("%s:Printf#%d", fnName(DM), n-1), p.IPos(in), "printed values are Escape(...) results", "dump-macros prints a value that did not pass through inputrc.Escape: "+why)
			})
		}
		if n == 0 {
			r.Unk("C19.dump-escapes", fnName(DM)+":Printf", p.Pos(DM.Pos()), "no Printf in dumpMacros")
		}
	} else {
		r.Unk("C19.dump-escapes", "(*readline.Shell).dumpMacros", "-", "anchor not found")
	}

	// ---- dump-bools (K5)
	r.Rule("C19.dump-bools", "K5", "the inputrc-format variable dump spells a true boolean with a word `set` reads back as true", 1)
	if DV, DS := p.Func("(*readline.Shell).dumpVariables"), p.Func("(*inputrc.Parser).doSet"); DV != nil && DS != nil {
		r.Fn(fnName(DV), fnName(DS))
		// spellings doSet accepts as true for an existing bool variable: constants compared in the block that computes `data` for case bool
		acceptedTrue := map[string]bool{}
		eachInstr(DS, func(in ssa.Instruction) {
			bo, ok := in.(*ssa.BinOp)
			if !ok || bo.Op != token.EQL {
				return
			}
			s, ok := constString(bo.Y)
			if !ok {
				return
			}
			// value parameter or ToLower(value)
			isVal := bo.X == ssa.Value(DS.Params[3])
			if cl, ok := bo.X.(*ssa.Call); ok && calleeName(cl) == "strings.ToLower" && cl.Call.Args[0] == ssa.Value(DS.Params[3]) {
				isVal = true
			}
			if !isVal {
				return
			}
			// result feeds a MakeInterface of bool (the `data =` of the bool case)
			if dependsOnUse(bo) {
				acceptedTrue[s] = true
			}
		})
		var setPrintf *ssa.Call
		for _, f := range withAnons(DV) {
			eachInstr(f, func(in ssa.Instruction) {
				if cl, ok := in.(*ssa.Call); ok && calleeName(cl) == "fmt.Printf" {
					if s, ok := constString(cl.Call.Args[0]); ok && strings.HasPrefix(s, "set ") {
						setPrintf = cl
					}
				}
			})
		}
		if setPrintf == nil || len(acceptedTrue) == 0 {
			r.Unk("C19.dump-bools", fnName(DV)+":set-format", p.Pos(DV.Pos()), fmt.Sprintf("inputrc-format Printf or doSet's accepted spellings not found (accepted=%v)", acceptedTrue))
		} else {
			consts := map[string]bool{}
			for _, l := range backSlice(setPrintf.Call.Args[1], &SliceOpts{P: p, ElemOf: true}) {
				if s, ok := constString(l.V); ok {
					consts[s] = true
				}
			}
			okTrue, okFalse := false, false
			for s := range consts {
				if acceptedTrue[strings.ToLower(s)] || acceptedTrue[s] {
					okTrue = true
				} else {
					okFalse = true
				}
			}
			var acc []string
			for s := range acceptedTrue {
				acc = append(acc, s)
			}
			sort.Strings(acc)
			r.Check(okTrue && okFalse, "C19.dump-bools", fnName(DV)+":bool-spelling", p.IPos(setPrintf), "bools are printed as words doSet accepts",
				fmt.Sprintf("the inputrc-format dump prints values with %%v: a bool appears as true/false, but `set` reads only %v as true — every boolean variable parses back as off", acc))
		}
		// strings: a bare value ends at '#', a space or a control character when `set` reads it
		// (findEnd), so the value printed for a string variable can come from a quoting call
		r.Rule("C19.dump-strings", "K3", "the inputrc-format variable dump can write a string value as a quoted string (a strconv.Quote result reaches the value printed by the `set %s %v` line): `set` reads a bare value only up to the first '#', space or control character, and the default configuration has such values (comment-begin, completion-selection-style)", 1)
		if setPrintf != nil {
			quoted := false
			for _, l := range backSlice(setPrintf.Call.Args[1], &SliceOpts{P: p, ElemOf: true, IsSource: func(v ssa.Value) bool {
				cl, ok := v.(*ssa.Call)
				return ok && calleeName(cl) == "strconv.Quote"
			}}) {
				if l.Kind == LeafSource {
					quoted = true
				}
			}
			r.Check(quoted, "C19.dump-strings", fnName(DV)+":string-quoting", p.IPos(setPrintf), "a strconv.Quote result reaches the printed value", "string values are printed bare: `set comment-begin #` and a value holding an escape character read back as the empty string (the reader ends a bare value at '#', a space or a control character)")
		}
	} else {
		r.Unk("C19.dump-bools", "dumpVariables/doSet", "-", "anchor not found")
	}
	checkHexTables(c, "C19.hex-tables")
	checkC19Round2(c)
	checkC19DumpFunctionsSkipMacros(c)
	checkRound8C19(c)
	checkC19PrefixPlain(c)
	checkKeyCodeTables(c, "C19.key-code-tables")
}

// dependsOnUse: the comparison result flows (through ||/phi) into a MakeInterface of bool.
func dependsOnUse(v ssa.Value) bool {
	seen := map[ssa.Value]bool{}
	var walk func(v ssa.Value, depth int) bool
	walk = func(v ssa.Value, depth int) bool {
		if seen[v] || depth > 6 {
			return false
		}
		seen[v] = true
		for _, ref := range referrersOf(v) {
			switch u := ref.(type) {
			case *ssa.MakeInterface:
				return true
			case *ssa.Phi:
				if walk(u, depth+1) {
					return true
				}
			case *ssa.If:
				// short-circuit: the phi merging constants in successor blocks
				for _, s := range u.Block().Succs {
					for _, in := range s.Instrs {
						if ph, ok := in.(*ssa.Phi); ok {
							if walk(ph, depth+1) {
								return true
							}
						}
					}
					for _, s2 := range s.Succs {
						for _, in := range s2.Instrs {
							if ph, ok := in.(*ssa.Phi); ok {
								if walk(ph, depth+1) {
									return true
								}
							}
						}
					}
				}
			}
		}
		return false
	}
	return walk(v, 0)
}

// ---- C19.dump-functions-skip-macros (round 6)
// A bind is a function or a macro (Bind.Macro). dump-macros prints the macros; the function dump
// must leave them out, whatever their text: printed as `"seq": text` a macro reads back as a function.
func checkC19DumpFunctionsSkipMacros(c *Ctx) {
	p, r := c.P, c.R
	r.Rule("C19.dump-functions-skip-macros", "K4", "(*keymap.Engine).PrintBinds — the function dump — lists a key sequence under a command only when the bind is not a macro (Bind.Macro known false where the sequence is escaped for the list): a macro whose text is the name of a command would be printed `\"seq\": name`, which reads back as a function bind", 1)
	PB := p.Func("(*keymap.Engine).PrintBinds")
	if PB == nil {
		r.Unk("C19.dump-functions-skip-macros", "(*keymap.Engine).PrintBinds", "-", "anchor not found")
		return
	}
	r.Fn(fnName(PB))
	bf := blockFacts(PB)
	n := 0
	for _, fn := range withAnons(PB) {
		_ = fn
	}
	for i, call := range callsTo(PB, false, "inputrc.Escape") {
		n++
		notMacro := false
		for fc := range factsAt(bf, call.(ssa.Instruction)) {
			if fc.Val {
				continue
			}
			if _, fld, ok := fieldRead(fc.Cond); ok && fld == "Macro" {
				notMacro = true
			}
			if f, ok := fc.Cond.(*ssa.Field); ok && fieldName(f.X.Type(), f.Field) == "Macro" {
				notMacro = true
			}
		}
		r.Check(notMacro, "C19.dump-functions-skip-macros", siteKey(PB, "Escape", i), p.IPos(call.(ssa.Instruction)), "under bind.Macro == false", "the function dump lists this key sequence without testing that the bind is not a macro: a macro whose text names a command (\"\\C-xq\": \"abort\" as a macro) is printed as a function bind and parsed back as one")
	}
	if n == 0 {
		r.Unk("C19.dump-functions-skip-macros", fnName(PB)+":Escape", p.Pos(PB.Pos()), "PrintBinds escapes no key sequence: anchor changed")
	}
}
